(* request mode: "<id> <driver> <op name> (<args>) <cfg> <spec>" -> the request Sem/Request.v predicts for calling that
   operation's method with those arguments:  "<id> <driver> ok:<hex canonical request>" | "<id> <driver> err:<kind>" *)
open Util
open Sexp
let fuel = let rec f n = if n = 0 then Model.O else Model.S (f (n - 1)) in f 200

let arg = function
  | L [n; A "none"] -> (atom_str n, None)
  | L [n; L [A "s"; v]] -> (atom_str n, Some (Model.AScalar (atom_str v)))
  | L [n; L (A "l" :: vs)] -> (atom_str n, Some (Model.AList (List.map atom_str vs)))
  | _ -> failwith "arg"

let pairs l = String.concat ";" (List.map (fun (k, v) -> hex_of_str k ^ "=" ^ hex_of_str v) l)
let body l = String.concat ";" (List.map (fun (k, v) ->
  hex_of_str k ^ "=" ^ (match v with
    | Model.AScalar s -> "s" ^ hex_of_str s
    | Model.AList vs -> "l" ^ String.concat "," (List.map hex_of_str vs))) l)

let run () =
  iter_lines (fun line ->
    match Sexp.parse ("(" ^ line ^ ")") with
    | L [A id; A drv; opn; L args; _cfg; sp] ->
      let opn = atom_str opn in
      let args = List.map arg args in
      (match Model.extract_spec fuel (Specio.spec sp) with
       | Model.Err e -> Printf.printf "%s %s err:%s\n" id drv (err_name e)
       | Model.Ok h ->
         (match List.find_opt (fun o -> o.Model.o_name = opn) h.Model.h_ops with
          | None -> Printf.printf "%s %s err:no_such_operation\n" id drv
          | Some o ->
            (match Model.run_operation o args with
             | Model.Err e -> Printf.printf "%s %s err:%s\n" id drv (err_name e)
             | Model.Ok r ->
               let canon = String.concat "|" [implode r.Model.r_verb; implode r.Model.r_url; pairs r.Model.r_query;
                                               pairs r.Model.r_headers; pairs r.Model.r_cookies; body r.Model.r_body] in
               Printf.printf "%s %s ok:%s\n" id drv (hex_of_str (explode canon)))))
    | _ -> failwith "request line")

(* auth mode: "<id> <cfg> <spec>" -> the credentials a from_env client adds to every request, per Sem/Request.v auth_plan_of *)
let cfg_of = function
  | L [A "cfg"; n; L ds; ex] -> { Model.c_name = atom_str n; c_derives = List.map atom_str ds; c_examples = Specio.b ex }
  | _ -> failwith "cfg"

let run_auth () =
  iter_lines (fun line ->
    match Sexp.parse ("(" ^ line ^ ")") with
    | L [A id; c; sp] ->
      (match Model.extract_spec fuel (Specio.spec sp) with
       | Model.Err e -> Printf.printf "%s err:%s\n" id (err_name e)
       | Model.Ok h ->
         let cfg = Model.cli_config (cfg_of c) in
         let place = function
           | Model.PlHeader k -> "header:" ^ hex_of_str k | Model.PlQuery k -> "query:" ^ hex_of_str k
           | Model.PlCookie k -> "cookie:" ^ hex_of_str k | Model.PlBearer -> "bearer:" | Model.PlBasic -> "basic:" | Model.PlToken -> "token:" in
         let cred = function Model.CPlain e -> "plain:" ^ implode e | Model.CBase64 e -> "base64:" ^ implode e in
         (match Model.auth_plan_of h cfg with
          | Model.APNone -> Printf.printf "%s ok:none\n" id
          | Model.APAnonymous -> Printf.printf "%s ok:anonymous\n" id
          | Model.APOAuth2 (a, r) -> Printf.printf "%s ok:oauth2|%s|%s\n" id (implode a) (implode r)
          | Model.APFields l -> Printf.printf "%s ok:fields|%s\n" id (String.concat ";" (List.map (fun (p, c) -> place p ^ "=" ^ cred c) l))))
    | _ -> failwith "auth line")
