(* request mode: "<id> <driver> <op name> (<args>) <cfg> <spec>" -> the request Sem/Request.v predicts for calling that
   operation's method with those arguments:  "<id> <driver> ok:<hex canonical request>" | "<id> <driver> err:<kind>" *)
open Util
open Sexp
let fuel = let rec f n = if n = 0 then Model.O else Model.S (f (n - 1)) in f 200

let arg = function
  | L [n; A "none"] -> (atom_str n, None)
  | L [n; L [A "s"; v]] -> (atom_str n, Some (Model.AScalar (atom_str v)))
  | L [n; L (A "l" :: vs)] -> (atom_str n, Some (Model.AList (List.map atom_str vs)))
  | _ -> failwith "arg"

let pairs l = String.concat ";" (List.map (fun (k, v) -> hex_of_str k ^ "=" ^ hex_of_str v) l)
let body l = String.concat ";" (List.map (fun (k, v) ->
  hex_of_str k ^ "=" ^ (match v with
    | Model.AScalar s -> "s" ^ hex_of_str s
    | Model.AList vs -> "l" ^ String.concat "," (List.map hex_of_str vs))) l)

let run () =
  iter_lines (fun line ->
    match Sexp.parse ("(" ^ line ^ ")") with
    | L [A id; A drv; opn; L args; _cfg; sp] ->
      let opn = atom_str opn in
      let args = List.map arg args in
      (match Model.extract_spec fuel (Specio.spec sp) with
       | Model.Err e -> Printf.printf "%s %s err:%s\n" id drv (err_name e)
       | Model.Ok h ->
         (match List.find_opt (fun o -> o.Model.o_name = opn) h.Model.h_ops with
          | None -> Printf.printf "%s %s err:no_such_operation\n" id drv
          | Some o ->
            (match Model.run_operation o args with
             | Model.Err e -> Printf.printf "%s %s err:%s\n" id drv (err_name e)
             | Model.Ok r ->
               let canon = String.concat "|" [implode r.Model.r_verb; implode r.Model.r_url; pairs r.Model.r_query;
                                               pairs r.Model.r_headers; pairs r.Model.r_cookies; body r.Model.r_body] in
               Printf.printf "%s %s ok:%s\n" id drv (hex_of_str (explode canon)))))
    | _ -> failwith "request line")
