(* abstract spec S-expression -> Model.spec ; HIR -> canonical text *)
open Sexp
open Util

let b = function A "t" -> true | A "f" -> false | _ -> failwith "bool"
let opt f = function A "none" -> None | L [A "some"; x] -> Some (f x) | _ -> failwith "opt"
let rec n_of_int (i : int) : Model.n =
  if i = 0 then Model.N0 else
    let rec pos i = if i = 1 then Model.XH else if i land 1 = 0 then Model.XO (pos (i lsr 1)) else Model.XI (pos (i lsr 1)) in
    Model.Npos (pos i)

let rec sref = function
  | L [A "ref"; n] -> Model.Ref (atom_str n)
  | L [A "inl"; s] -> Model.Inl (schema s)
  | _ -> failwith "sref"
and schema = function
  | L [A "sch"; nl; d; naz; xd; k] -> Model.Sch (b nl, opt atom_str d, b naz, b xd, kind k)
  | _ -> failwith "schema"
and kind = function
  | L [A "str"; f; L en] -> Model.KStr (atom_str f, List.map atom_str en)
  | L [A "integer"] -> Model.KInteger | L [A "number"] -> Model.KNumber | L [A "boolean"] -> Model.KBoolean
  | L [A "object"; L props; L req; ad] ->
      Model.KObject (List.map (function L [k; v] -> (atom_str k, sref v) | _ -> failwith "prop") props,
                     List.map atom_str req,
                     (match ad with A "none" -> None | L [A "any"; x] -> Some (Model.AddlAny (b x))
                                  | L [A "schema"; r] -> Some (Model.AddlSchema (sref r)) | _ -> failwith "addl"))
  | L [A "array"; it] -> Model.KArray (opt sref it)
  | L [A "allof"; L l] -> Model.KAllOf (List.map sref l)
  | L [A "oneof"; L l] -> Model.KOneOf (List.map sref l)
  | L [A "anyof"; L l] -> Model.KAnyOf (List.map sref l)
  | L [A "not"] -> Model.KNot | L [A "anykind"] -> Model.KAny
  | _ -> failwith "kind"

let ploc = function A "path" -> Model.PPath | A "query" -> Model.PQuery | A "header" -> Model.PHeader | A "cookie" -> Model.PCookie | _ -> failwith "loc"
let param = function
  | L [A "param"; n; l; r; s] -> { Model.pa_name = atom_str n; pa_loc = ploc l; pa_required = b r; pa_schema = sref s }
  | _ -> failwith "param"
let op = function
  | L [A "op"; m; id; su; de; ed; L ps; body; L rs] ->
      { Model.op_method = atom_str m; op_id = opt atom_str id; op_summary = opt atom_str su; op_description = opt atom_str de;
        op_ext_docs = opt atom_str ed; op_params = List.map param ps; op_body = opt sref body;
        op_responses = List.map (function L [A c; s] -> (n_of_int (int_of_string c), opt sref s) | _ -> failwith "resp") rs }
  | _ -> failwith "op"
let spec = function
  | L [A "spec"; L comps; L paths; L servers; L sec; L schemes; ed] ->
      { Model.components = List.map (function L [n; s] -> (atom_str n, schema s) | _ -> failwith "comp") comps;
        paths = List.map (function L [A "item"; p; L ps; L ops] -> { Model.pi_path = atom_str p; pi_params = List.map param ps; pi_ops = List.map op ops } | _ -> failwith "item") paths;
        servers = List.map (function L [u; d] -> (atom_str u, opt atom_str d) | _ -> failwith "server") servers;
        security = List.map (function L l -> List.map atom_str l | _ -> failwith "sec") sec;
        schemes = List.map (function
            | L [n; L [A "apikey"; l; k]] -> (atom_str n, Model.SApiKey (ploc l, atom_str k))
            | L [n; L [A "bearer"]] -> (atom_str n, Model.SHttpBearer)
            | L [n; L [A "basic"]] -> (atom_str n, Model.SHttpBasic)
            | L [n; L [A "oauth2"; a; t; r; L sc]] ->
                (atom_str n, Model.SOAuth2 (atom_str a, atom_str t, opt atom_str r,
                   List.map (function L [k; v] -> (atom_str k, atom_str v) | _ -> failwith "scope") sc))
            | _ -> failwith "scheme") schemes;
        ext_docs = opt atom_str ed }
  | _ -> failwith "spec"

(* ---- printing ---- *)
let h s = "#" ^ hex_of_str s
let po f = function None -> "none" | Some x -> "(some " ^ f x ^ ")"
let pb x = if x then "t" else "f"
let rec ty (t : Model.ty) = match t with
  | Model.TString -> "string"
  | Model.TInteger Model.ISimple -> "(int simple)" | Model.TInteger Model.IString -> "(int string)"
  | Model.TInteger Model.INullAsZero -> "(int naz)"
  | Model.TFloat -> "float" | Model.TBoolean -> "bool"
  | Model.TArray t -> "(array " ^ ty t ^ ")" | Model.THashMap t -> "(map " ^ ty t ^ ")"
  | Model.TModel n -> "(model " ^ h n ^ ")" | Model.TUnit -> "unit"
  | Model.TDate Model.DIso -> "(date iso)" | Model.TDate Model.DInteger -> "(date int)"
  | Model.TDateTime -> "datetime" | Model.TCurrency -> "decimal" | Model.TAny -> "any"
let field (f : Model.hfield) =
  Printf.sprintf "(f %s %s %s %s)" (ty f.Model.f_ty) (pb f.Model.f_optional) (pb f.Model.f_flatten) (po h f.Model.f_doc)
let sp l = String.concat " " l
let record (r : Model.record) = match r with
  | Model.RStruct (n, nl, fs, d) -> Printf.sprintf "(struct %s %s %s (%s))" (h n) (pb nl) (po h d) (sp (List.map (fun (k, f) -> "(" ^ h k ^ " " ^ field f ^ ")") fs))
  | Model.RNewType (n, fs, d) -> Printf.sprintf "(newtype %s %s (%s))" (h n) (po h d) (sp (List.map field fs))
  | Model.RAlias (n, f) -> Printf.sprintf "(alias %s %s)" (h n) (field f)
  | Model.REnum (n, vs, d) -> Printf.sprintf "(enum %s %s (%s))" (h n) (po h d) (sp (List.map (fun (v, a) -> "(" ^ h v ^ " " ^ po h a ^ ")") vs))
let hloc = function Model.LPath -> "path" | Model.LBody -> "body" | Model.LQuery -> "query" | Model.LHeader -> "header" | Model.LCookie -> "cookie"
let hparam (p : Model.hparam) = Printf.sprintf "(p %s %s %s %s)" (h p.Model.p_name) (hloc p.Model.p_loc) (ty p.Model.p_ty) (pb p.Model.p_optional)
let hop (o : Model.hop) =
  Printf.sprintf "(op %s %s %s %s (%s) %s)" (h o.Model.o_name) (h o.Model.o_method) (h o.Model.o_path) (po h o.Model.o_doc)
    (sp (List.map hparam o.Model.o_params)) (ty o.Model.o_ret)
let authloc = function
  | Model.AHeader k -> "(header " ^ h k ^ ")" | Model.ABasic -> "basic" | Model.ABearer -> "bearer" | Model.AToken -> "token"
  | Model.AQuery k -> "(query " ^ h k ^ ")" | Model.ACookie k -> "(cookie " ^ h k ^ ")"
let strat = function
  | Model.AuthToken (n, fs) -> Printf.sprintf "(token %s (%s))" (h n) (sp (List.map (fun (k, l) -> "(" ^ h k ^ " " ^ authloc l ^ ")") fs))
  | Model.AuthOAuth2 (a, e, r, sc) -> Printf.sprintf "(oauth2 %s %s %s (%s))" (h a) (h e) (h r) (sp (List.map (fun (k, v) -> "(" ^ h k ^ " " ^ h v ^ ")") sc))
  | Model.AuthNone -> "noauth"
let hir (x : Model.hirspec) =
  Printf.sprintf "(hir (schemas %s) (ops %s) (servers %s) (security %s) (docs %s))"
    (sp (List.map (fun (k, r) -> "(" ^ h k ^ " " ^ record r ^ ")") x.Model.h_schemas))
    (sp (List.sort compare (List.map hop x.Model.h_ops)))   (* sorted: the order of the operation table is not an observation *)
    (sp (List.map (fun (k, v) -> "(" ^ h k ^ " " ^ h v ^ ")") x.Model.h_servers))
    (sp (List.map strat x.Model.h_security))
    (po h x.Model.h_docs_url)
let hres (r : Model.hirspec Model.result) = match r with
  | Model.Ok x -> "ok " ^ hir x
  | Model.Err e -> "err:" ^ err_name e
