(* hir mode: each line "<id> <spec sexp>"; prints "<id> U <res>" and "<id> S <res>" *)
open Util
let fuel = let rec f n = if n = 0 then Model.O else Model.S (f (n - 1)) in f 200
let run () =
  iter_lines (fun line ->
    let i = String.index line ' ' in
    let id = String.sub line 0 i in
    let sx = Sexp.parse (String.sub line (i + 1) (String.length line - i - 1)) in
    let sp = Specio.spec sx in
    Printf.printf "%s U %s\n" id (Specio.hres (Model.extract_without_treeshake fuel sp));
    Printf.printf "%s S %s\n" id (Specio.hres (Model.extract_spec fuel sp)))
