(* macro mode: "<id> <kind> (<vals>) (<toks>)" -> what the macro yields according to Model/Macro.v.
   kind body      -> "<id> ok:<hex of the string>" | "<id> err:<kind>"
   kind function  -> "<id> ok:<hex of name|async|pub|arg;arg..|ret|body>"
   kind rfunction -> "<id> ok:<hex of the canonical token text of the rendered fn>" *)
open Util
open Sexp
let nat_of = let rec f n = if n = 0 then Model.O else Model.S (f (n - 1)) in f
let fuel = nat_of 5000

let rec tok = function
  | L [A "i"; s] -> Model.TIdent (atom_str s)
  | L [A "p"; s] -> (match atom_str s with [c] -> Model.TPunct c | _ -> failwith "punct")
  | L [A "l"; s] -> Model.TLit (atom_str s)
  | L (A "g" :: A d :: body) ->
      let d = (match d with "paren" -> Model.DParen | "brace" -> Model.DBrace | "bracket" -> Model.DBracket | _ -> failwith "delim") in
      Model.TGroup (d, List.map tok body)
  | _ -> failwith "tok"

(* canonical token text: one token per item, groups bracketed; spacing between punctuation is not part of it *)
let rec canon (l : Model.tok list) : string =
  String.concat " " (List.map (function
    | Model.TIdent s -> "I:" ^ implode s
    | Model.TPunct c -> "P:" ^ String.make 1 c
    | Model.TLit s -> "L:" ^ implode s
    | Model.TGroup (d, b) ->
        let (o, c) = (match d with Model.DParen -> ("(", ")") | Model.DBrace -> ("{", "}") | Model.DBracket -> ("[", "]")) in
        "G" ^ o ^ " " ^ canon b ^ " " ^ c) l)

let run () =
  iter_lines (fun line ->
    match Sexp.parse ("(" ^ line ^ ")") with
    | L [A id; A kind; L vals; L toks] ->
      let vals = List.map (function L [k; v] -> (atom_str k, atom_str v) | _ -> failwith "val") vals in
      let toks = List.map tok toks in
      let out r = (match r with
        | Model.Ok s -> Printf.printf "%s ok:%s\n" id (hex_of_str (explode s))
        | Model.Err e -> Printf.printf "%s err:%s\n" id (err_name e)) in
      (match kind with
       | "body" -> out (match Model.body_macro fuel toks vals with Model.Ok s -> Model.Ok (implode s) | Model.Err e -> Model.Err e)
       | "function" ->
         out (match Model.function_macro toks with
           | Model.Err e -> Model.Err e
           | Model.Ok m ->
             let tx s = (match Model.text_of vals s with Model.Ok t -> implode t | Model.Err _ -> raise Exit) in
             (try
               let args = String.concat ";" (List.map (fun a ->
                 implode a.Model.fa_name ^ ":" ^ tx a.Model.fa_ty ^ (match a.Model.fa_default with Some d -> "=" ^ implode d | None -> "")) m.Model.fm_args) in
               let body = (match m.Model.fm_body with
                 | None -> ""
                 | Some b -> (match Model.body_macro fuel b vals with Model.Ok s -> implode s | Model.Err _ -> raise Exit)) in
               Model.Ok (String.concat "|" [tx m.Model.fm_name; b01 m.Model.fm_async; b01 m.Model.fm_pub; args; tx m.Model.fm_ret; body])
             with Exit -> Model.Err Model.EOther))
       | "rfunction" ->
         out (match Model.rfunction_macro toks with
           | Model.Err e -> Model.Err e
           | Model.Ok m -> (match Model.render_rfn vals m with Model.Ok l -> Model.Ok (canon l) | Model.Err e -> Model.Err e))
       | _ -> failwith "kind")
    | _ -> failwith "macro line")
