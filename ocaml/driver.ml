(* driver: reads one case per line on stdin, prints the model's observation per line on stdout *)
open Util

let names () =
  iter_lines (fun line ->
    let s = str_of_hex line in
    let f = Model.sanitize s in
    let t = Model.sanitize_struct s in
    let o = Model.Ok (Model.op_file_name (Model.op_name_of_id s)) in
    let oko = match o with Model.Ok r -> Model.ident_ok r | _ -> false in
    let okf = match f with Model.Ok r -> Model.ident_ok r | _ -> false in
    let okt = match t with Model.Ok r -> Model.ident_ok r | _ -> false in
    Printf.printf "%s F=%s T=%s O=%s R=%s OKF=%s OKT=%s OKO=%s\n" line (res_str f) (res_str t) (res_str o)
      (b01 (Model.is_restricted s)) (b01 okf) (b01 okt) (b01 oko))

let () =
  match Sys.argv.(1) with
  | "names" -> names ()
  | "fs" -> Fsdrv.run ()
  | "adapters" -> Adrv.run ()
  | "hir" -> Hirdrv.run ()
  | "emit" -> Emitdrv.run ()
  | "macro" -> Macrodrv.run ()
  | "request" -> Reqdrv.run ()
  | "auth" -> Reqdrv.run_auth ()
  | "serde" -> Serdedrv.run ()
  | m -> prerr_endline ("unknown mode " ^ m); exit 2
