(* adapters mode: one case per line
     S <which> <value>      value: none | <int> | <y>-<m>-<d>          -> wire
     D <which> <wire>       wire: null | true | false | int:<dec> | float | str:<hex> | other   -> result *)
open Util

let rec pos_of_z (z : Z.t) : Model.positive =
  if Z.equal z Z.one then Model.XH
  else if Z.is_even z then Model.XO (pos_of_z (Z.shift_right z 1))
  else Model.XI (pos_of_z (Z.shift_right z 1))
let coqz_of_z (z : Z.t) : Model.z =
  if Z.sign z = 0 then Model.Z0 else if Z.sign z > 0 then Model.Zpos (pos_of_z z) else Model.Zneg (pos_of_z (Z.neg z))
let rec z_of_pos (p : Model.positive) : Z.t = match p with
  | Model.XH -> Z.one | Model.XO q -> Z.shift_left (z_of_pos q) 1 | Model.XI q -> Z.succ (Z.shift_left (z_of_pos q) 1)
let z_of_coqz (z : Model.z) : Z.t = match z with
  | Model.Z0 -> Z.zero | Model.Zpos p -> z_of_pos p | Model.Zneg p -> Z.neg (z_of_pos p)
let cz s = coqz_of_z (Z.of_string s)
let sz z = Z.to_string (z_of_coqz z)

let show_wire (w : Model.wire) = match w with
  | Model.WNull -> "null" | Model.WBool b -> if b then "true" else "false"
  | Model.WInt z -> "int:" ^ sz z | Model.WFloat -> "float" | Model.WStr s -> "str:" ^ hex_of_str s | Model.WOther -> "other"

let parse_wire (s : string) : Model.wire =
  if s = "null" then Model.WNull else if s = "true" then Model.WBool true else if s = "false" then Model.WBool false
  else if s = "float" then Model.WFloat else if s = "other" then Model.WOther
  else if String.length s >= 4 && String.sub s 0 4 = "int:" then Model.WInt (cz (String.sub s 4 (String.length s - 4)))
  else if String.length s >= 4 && String.sub s 0 4 = "str:" then Model.WStr (str_of_hex (String.sub s 4 (String.length s - 4)))
  else failwith ("bad wire " ^ s)

let parse_date s = match String.split_on_char '/' s with
  | [y; m; d] -> ((cz y, cz m), cz d) | _ -> failwith "bad date"
let show_date ((y, m), d) = sz y ^ "/" ^ sz m ^ "/" ^ sz d

let show_ires (r : Model.z option Model.dres) = match r with
  | Model.DOk (Some z) -> "ok:some:" ^ sz z | Model.DOk None -> "ok:none" | Model.DErr -> "err"
let show_dres r = match r with
  | Model.DOk (Some d) -> "ok:some:" ^ show_date d | Model.DOk None -> "ok:none" | Model.DErr -> "err"

let run () =
  iter_lines (fun line ->
    match String.split_on_char ' ' line with
    | ["S"; which; v] ->
        let w = match which with
          | "str" -> Model.ser_str (if v = "none" then None else Some (cz v))
          | "nz" -> Model.ser_nz (if v = "none" then None else Some (cz v))
          | "date" -> Model.ser_date (if v = "none" then None else Some (parse_date v))
          | _ -> failwith "which" in
        Printf.printf "%s -> %s\n" line (show_wire w)
    | ["D"; which; w] ->
        let w = parse_wire w in
        let r = match which with
          | "str" -> show_ires (Model.de_str w)
          | "nz" -> show_ires (Model.de_nz w)
          | "date" -> show_dres (Model.de_date w)
          | _ -> failwith "which" in
        Printf.printf "%s -> %s\n" line r
    | _ -> ())
