(* emit mode: "<id> <cfg sexp> <spec sexp>" -> predicted files "<id> F <hexpath> <hexraw>" after "<id> R ok", or "<id> R err:<kind>" *)
open Util
open Sexp
let nat_of = let rec f n = if n = 0 then Model.O else Model.S (f (n - 1)) in f
let fuel = nat_of 200

let cfg = function
  | L [A "cfg"; n; L ds; ex] -> { Model.c_name = atom_str n; c_derives = List.map atom_str ds; c_examples = Specio.b ex }
  | _ -> failwith "cfg"

let read_file p = let ic = open_in_bin p in let n = in_channel_length ic in let s = really_input_string ic n in close_in ic; explode s
let tpl = ref None
(* the adapter templates are read from the repository as it is now *)
let templates () = match !tpl with
  | Some t -> t
  | None ->
    let d = "/repo/codegen_rust/src/serde/" in
    let t = { Model.tp_null_as_zero = read_file (d ^ "option_i64_null_as_zero.rs");
              tp_date_as_int = read_file (d ^ "option_chrono_naive_date_as_int.rs");
              tp_int_as_str = read_file (d ^ "option_i64_str.rs") } in
    tpl := Some t; t

let run () =
  iter_lines (fun line ->
    let i = String.index line ' ' in
    let id = String.sub line 0 i in
    let rest = String.sub line (i + 1) (String.length line - i - 1) in
    (* two s-expressions on the line *)
    let both = Sexp.parse ("(" ^ rest ^ ")") in
    let (c, sp) = match both with L [c; s] -> (cfg c, Specio.spec s) | _ -> failwith "emit line" in
    (* the whole tree comes from the Coq function Crate.generate (extraction, pruning, every file) *)
    (* Spec/Wf.v: do the hypotheses of the totality theorem (emit_crate_total, depth 60 <= fuel 200) hold for this input? *)
    (* Spec/WfSpec.v: does the hypothesis of extract_spec_total hold for the document? (fourth token) *)
    let sok = if Model.spec_ok (nat_of 60) sp then "t" else "f" in
    (match Model.extract_spec fuel sp with
     | Model.Ok h -> Printf.printf "%s W %s %s\n" id (if Model.hir_ok (nat_of 60) h (Model.cli_config c) then "t" else "f") sok
     | Model.Err _ -> Printf.printf "%s W x %s\n" id sok);
    match Model.generate fuel sp c (templates ()) with
    | Model.Err e -> Printf.printf "%s R err:%s\n" id (err_name e)
    | Model.Ok files ->
      Printf.printf "%s R ok\n" id;
      List.iter (fun (p, code) -> Printf.printf "%s F %s %s\n" id (hex_of_str p) (hex_of_str (Model.render code))) files)
