(* emit mode: "<id> <cfg sexp> <spec sexp>" -> predicted files "<id> F <hexpath> <hexraw>" after "<id> R ok", or "<id> R err:<kind>" *)
open Util
open Sexp
let fuel = let rec f n = if n = 0 then Model.O else Model.S (f (n - 1)) in f 200

let cfg = function
  | L [A "cfg"; n; L ds; ex] -> { Model.c_name = atom_str n; c_derives = List.map atom_str ds; c_examples = Specio.b ex }
  | _ -> failwith "cfg"

exception Stop of string

let read_file p = let ic = open_in_bin p in let n = in_channel_length ic in let s = really_input_string ic n in close_in ic; explode s
let tpl = ref None
(* the adapter templates are read from the repository as it is now *)
let templates () = match !tpl with
  | Some t -> t
  | None ->
    let d = "/repo/codegen_rust/src/serde/" in
    let t = { Model.tp_null_as_zero = read_file (d ^ "option_i64_null_as_zero.rs");
              tp_date_as_int = read_file (d ^ "option_chrono_naive_date_as_int.rs");
              tp_int_as_str = read_file (d ^ "option_i64_str.rs") } in
    tpl := Some t; t

let run () =
  iter_lines (fun line ->
    let i = String.index line ' ' in
    let id = String.sub line 0 i in
    let rest = String.sub line (i + 1) (String.length line - i - 1) in
    (* two s-expressions on the line *)
    let both = Sexp.parse ("(" ^ rest ^ ")") in
    let (c, sp) = match both with L [c; s] -> (cfg c, Specio.spec s) | _ -> failwith "emit line" in
    (* the service name is Pascal-cased by the CLI (command/generate.rs) *)
    let c = { c with Model.c_name = Model.pascal c.Model.c_name } in
    match Model.extract_spec fuel sp with
    | Model.Err e -> Printf.printf "%s R err:%s\n" id (err_name e)
    | Model.Ok h ->
      let files = ref [] in
      let add path r = match r with
        | Model.Ok code -> files := (path, Model.render code) :: !files
        | Model.Err e -> raise (Stop (err_name e)) in
      (try
        add (explode "src/model/mod.rs") (Model.model_mod_file h);
        List.iter (fun (k, r) ->
          match Model.sanitize k with
          | Model.Ok fname -> add (explode "src/model/" @ fname @ explode ".rs") (Model.model_file fuel h c r)
          | Model.Err e -> raise (Stop (err_name e))) h.Model.h_schemas;
        List.iter (fun o ->
          add (explode "src/request/" @ Model.op_file_name o.Model.o_name @ explode ".rs") (Model.request_file h c o)) h.Model.h_ops;
        add (explode "src/request/mod.rs") (Model.request_mod_file h);
        add (explode "src/lib.rs") (Model.lib_file h c true);
        (match Model.serde_file h (templates ()) with
         | Some code -> add (explode "src/serde.rs") (Model.Ok code)
         | None -> ());
        if c.Model.c_examples then
          List.iter (fun o ->
            add (explode "examples/" @ Model.op_file_name o.Model.o_name @ explode ".rs") (Model.example_file fuel h c o)) h.Model.h_ops;
        Printf.printf "%s R ok\n" id;
        List.iter (fun (p, txt) -> Printf.printf "%s F %s %s\n" id (hex_of_str p) (hex_of_str txt)) (List.rev !files)
      with Stop k -> Printf.printf "%s R err:%s\n" id k))
