(* minimal S-expressions: atoms are bare words or #<hex> byte strings *)
type t = A of string | L of t list

let parse (s : string) : t =
  let n = String.length s in
  let pos = ref 0 in
  let rec skip () = if !pos < n && (s.[!pos] = ' ' || s.[!pos] = '\n' || s.[!pos] = '\t') then (incr pos; skip ()) in
  let rec item () =
    skip ();
    if !pos >= n then failwith "sexp: eof"
    else if s.[!pos] = '(' then begin
      incr pos;
      let rec items acc =
        skip ();
        if !pos >= n then failwith "sexp: unclosed"
        else if s.[!pos] = ')' then (incr pos; List.rev acc)
        else let x = item () in items (x :: acc) in
      L (items [])
    end else begin
      let st = !pos in
      while !pos < n && s.[!pos] <> ' ' && s.[!pos] <> '(' && s.[!pos] <> ')' do incr pos done;
      A (String.sub s st (!pos - st))
    end in
  item ()

let atom_str (x : t) : char list = match x with
  | A s when String.length s >= 1 && s.[0] = '#' -> Util.str_of_hex (String.sub s 1 (String.length s - 1))
  | A s -> Util.explode s
  | L _ -> failwith "sexp: expected atom"
