(* fs mode of the driver: replays histories through the extracted Fs model *)
open Util

let split_on c s = String.split_on_char c s

let print_tree tag (t : (char list * char list) list) =
  let l = List.map (fun (p, c) -> (hex_of_str p, hex_of_str c)) t in
  let l = List.sort (fun (a, _) (b, _) -> compare a b) l in
  Printf.printf "%s %d\n" tag (List.length l);
  List.iter (fun (p, c) -> Printf.printf "F %s %s\n" p c) l

let rec nat_of_int n = if n <= 0 then Model.O else Model.S (nat_of_int (n - 1))

let run () =
  let tree = ref [] and plan = ref [] in
  iter_lines (fun line ->
    match split_on ' ' line with
    | ["CASE"; id] -> tree := []; plan := []; Printf.printf "CASE %s\n" id
    | "T" :: p :: rest ->
        let c = match rest with [c] -> c | _ -> "" in
        tree := !tree @ [(str_of_hex p, str_of_hex c)]
    | ["W"; p; c; alt] ->
        let a = if alt = "-" then None else Some (str_of_hex alt) in
        plan := !plan @ [{ Model.w_path = str_of_hex p; Model.w_code = str_of_hex c; Model.w_alt = a }]
    | ["X"; k; b] ->
        tree := Model.crash !plan (nat_of_int (int_of_string k)) (nat_of_int (int_of_string b)) !tree;
        print_tree "XR" !tree
    | "Y" :: rest ->
        let l = match rest with [s] when s <> "" -> List.map str_of_hex (split_on ',' s) | _ -> [] in
        let sel p = List.exists (fun q -> q = p) l in
        tree := Model.crash_cleanup !plan sel !tree;
        print_tree "YR" !tree
    | ["G"] -> tree := Model.gen !plan !tree; print_tree "R" !tree
    | ["S"] -> plan := []
    | ["E"] -> print_endline "E"
    | _ -> ())
