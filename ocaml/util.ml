(* shared helpers for the driver: char-list <-> OCaml string, hex atoms, error names *)
let explode (s : string) : char list = List.init (String.length s) (String.get s)
let implode (l : char list) : string =
  let b = Buffer.create 16 in List.iter (Buffer.add_char b) l; Buffer.contents b

let hexdigit n = "0123456789abcdef".[n]
let hex_of_str (l : char list) : string =
  let b = Buffer.create 32 in
  List.iter (fun c -> let n = Char.code c in
    Buffer.add_char b (hexdigit (n lsr 4)); Buffer.add_char b (hexdigit (n land 15))) l;
  Buffer.contents b
let unhex1 c = match c with
  | '0'..'9' -> Char.code c - 48 | 'a'..'f' -> Char.code c - 87 | 'A'..'F' -> Char.code c - 55
  | _ -> failwith "bad hex"
let str_of_hex (s : string) : char list =
  let n = String.length s / 2 in
  List.init n (fun i -> Char.chr (unhex1 s.[2*i] * 16 + unhex1 s.[2*i+1]))

let err_name (e : Model.err) : string = match e with
  | Model.EEmptyUnwrap -> "unwrap_none" | Model.EParen -> "paren" | Model.ENumeric -> "numeric"
  | Model.EDot -> "dot" | Model.EEmptyIdent -> "empty_ident" | Model.EIdentNew -> "ident_new"
  | Model.EParse -> "parse" | Model.ESchemaNotUpper -> "schema_not_upper" | Model.ESlice -> "slice"
  | Model.EModelNotFound -> "model_not_found" | Model.ENoSuccess -> "no_success"
  | Model.ERefComponent -> "ref_component" | Model.ERefScheme -> "ref_scheme"
  | Model.ERefProperty -> "ref_property" | Model.ESchemeNotFound -> "scheme_not_found"
  | Model.ENoSchemaParam -> "no_schema_param" | Model.EUnresolved -> "unresolved"
  | Model.EEmptyEnum -> "empty_enum" | Model.EDiverge -> "diverge" | Model.EOther -> "other"

let res_str (r : Model.str Model.result) : string = match r with
  | Model.Ok s -> "ok:" ^ hex_of_str s
  | Model.Err e -> "err:" ^ err_name e

let b01 b = if b then "1" else "0"

let iter_lines (f : string -> unit) : unit =
  try while true do f (input_line stdin) done with End_of_file -> ()
