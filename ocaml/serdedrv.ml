(* serde mode: "<crate> <k> <schema name> <json sexp> <cfg> <spec>" -> what Sem/Serde.v says real serde does with that
   instance on the struct generated for the schema: "<crate> <k> rej" | "<crate> <k> ok:<hex json>" | "<crate> <k> skip:<why>" *)
open Util
open Sexp
let fuel = let rec f n = if n = 0 then Model.O else Model.S (f (n - 1)) in f 200

let rec json = function
  | A "null" -> Model.JNull
  | L [A "b"; A "t"] -> Model.JBool true
  | L [A "b"; A "f"] -> Model.JBool false
  | L [A "n"; s] -> Model.JNum (atom_str s)
  | L [A "s"; s] -> Model.JStr (atom_str s)
  | L (A "a" :: l) -> Model.JArr (List.map json l)
  | L (A "o" :: l) -> Model.JObj (List.map (function L [k; v] -> (atom_str k, json v) | _ -> failwith "member") l)
  | _ -> failwith "json"

let jstr (s : char list) : string =
  let b = Buffer.create 16 in
  Buffer.add_char b '"';
  List.iter (fun c -> match c with
    | '"' -> Buffer.add_string b "\\\"" | '\\' -> Buffer.add_string b "\\\\"
    | c when Char.code c < 32 -> Buffer.add_string b (Printf.sprintf "\\u%04x" (Char.code c))
    | c -> Buffer.add_char b c) s;
  Buffer.add_char b '"'; Buffer.contents b

let rec show = function
  | Model.JNull -> "null"
  | Model.JBool b -> if b then "true" else "false"
  | Model.JNum n -> implode n
  | Model.JStr s -> jstr s
  | Model.JArr l -> "[" ^ String.concat "," (List.map show l) ^ "]"
  | Model.JObj m -> "{" ^ String.concat "," (List.map (fun (k, v) -> jstr k ^ ":" ^ show v) m) ^ "}"

let run () =
  iter_lines (fun line ->
    match Sexp.parse ("(" ^ line ^ ")") with
    | L [A cid; A k; name; j; _cfg; sp] ->
      let name = atom_str name in
      (match Model.extract_spec fuel (Specio.spec sp) with
       | Model.Err e -> Printf.printf "%s %s skip:extract_%s\n" cid k (err_name e)
       | Model.Ok h ->
         (match List.assoc_opt name h.Model.h_schemas with
          | Some (Model.RStruct (_, _, fields, _)) ->
            if List.exists (fun (_, f) -> f.Model.f_flatten) fields then Printf.printf "%s %s skip:flatten\n" cid k
            else (match json j with
              | Model.JObj obj ->
                (match Model.serde_struct fields obj with
                 | Model.Ok (Some m) -> Printf.printf "%s %s ok:%s\n" cid k (hex_of_str (explode (show (Model.JObj m))))
                 | Model.Ok None -> Printf.printf "%s %s rej\n" cid k
                 | Model.Err e -> Printf.printf "%s %s skip:%s\n" cid k (err_name e))
              | _ -> Printf.printf "%s %s skip:not_an_object\n" cid k)
          | Some _ -> Printf.printf "%s %s skip:not_a_struct\n" cid k
          | None -> Printf.printf "%s %s skip:no_such_schema\n" cid k))
    | _ -> failwith "serde line")
