#!/bin/bash
# MANIFEST.setup_cmd: build the Coq development, extract the model, build the OCaml driver and the Rust harness.
# Offline; everything under /verif/.cache (git-ignored). Nothing under /tmp is needed by the checks.
set -e
cd "$(dirname "$0")"
export CARGO_NET_OFFLINE=true
mkdir -p .cache/ocaml .cache/run .cache/tmp evidence
( cd coq && coq_makefile -f _CoqProject -o Makefile >/dev/null && timeout 3000 make -j16 2>&1 | tail -5 )
./tools/build_driver.sh
( cd harness && CARGO_TARGET_DIR=/verif/.cache/target RUSTFLAGS="--cfg libninja_verif" cargo build --offline --release 2>&1 | tail -3 )
( cd /repo && CARGO_TARGET_DIR=/verif/.cache/target-cli RUSTFLAGS="--cfg libninja_verif" cargo build --offline --bin libninja 2>&1 | tail -2 )
# warm the compile layer: builds serde, serde_json, chrono, tokio and the stand-ins once
mkdir -p .cache/run/warm && rm -rf .cache/run/warm/* && .cache/target/release/lnverif emit-crates --seed 1 --n 1 --out .cache/run/warm --shard 9 --profile safe >/dev/null 2>&1 && python3 tools/compile_crates.py .cache/run/warm --examples --warm | cut -c1-200 | tail -2; rm -rf .cache/run/warm
python3 -c "import sys; sys.path.insert(0, '/verif'); from vlib import c20, emitprops; c20.warm(); emitprops.exec_warm()"
echo "setup done"
