#!/bin/bash
# usage: tools/run_all_thorough.sh — every property's thorough command on the current tree, with timing
cd /verif
for p in C01 C02 C03 C04 C05 C06 C07 C08 C09 C10 C11 C12 C13 C14 C15 C16 C17 C18 C19 C20; do
  s=$(date +%s); out=$(./check $p --tier thorough 2>&1 | grep -v "^KNOWN" | tr '\n' ' ' | cut -c1-200); rc=$?
  e=$(date +%s); echo "$p $((e-s))s :: $out"
done
