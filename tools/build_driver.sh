#!/bin/bash
# Extract the model to OCaml (ExtrOcamlBasic + ExtrOcamlString only) and build the driver.
set -e
cd /verif/.cache/ocaml
if [ ! -f driver ] || [ -n "$(find /verif/coq/Model /verif/coq/Spec /verif/coq/Extract /verif/ocaml -newer driver \( -name '*.vo' -o -name '*.ml' -o -name 'Extract.v' \) 2>/dev/null | head -1)" ]; then
  timeout 600 coqc -Q /verif/coq LN /verif/coq/Extract/Extract.v >/dev/null
  cp /verif/ocaml/*.ml .
  ocamlfind ocamlopt -package zarith -linkpkg -w -a model.mli model.ml util.ml sexp.ml specio.ml $(ls /verif/ocaml | grep -v '^util.ml$\|^driver.ml$\|^sexp.ml$\|^specio.ml$' | grep '\.ml$' | sort || true) driver.ml -o driver.new
  mv driver.new driver
fi
