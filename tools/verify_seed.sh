#!/bin/bash
# usage: tools/verify_seed.sh <PROP> <seedname> — independently confirm a sub-agent's seeded change in its scratch worktree:
# demo passes on the clean tree; with the patch the workspace tests still pass (only the known always-failing test fails)
# and the demo fails. Copies patch + demo into /verif/seeded/<seedname>/ and writes meta.json with what was run.
PROP="$1"; NAME="$2"
WT=/tmp/seed/$PROP; SRC=/tmp/seed/out/$PROP/$NAME; DST=/verif/seeded/$NAME
export CARGO_NET_OFFLINE=true CARGO_TARGET_DIR=$WT/target
HEAD=$(git -C /repo rev-parse HEAD)
git -C $WT checkout -q --detach $HEAD 2>/dev/null; git -C $WT checkout -q -- . ; git -C $WT clean -fdq -e target
cd $WT
clean_rc=0; bash $SRC/demo/run.sh $WT > $SRC/verify_clean.log 2>&1 || clean_rc=$?
git -C $WT checkout -q -- . ; git -C $WT clean -fdq -e target
applied=yes; git -C $WT apply $SRC/patch.diff 2>/dev/null || (cd $WT && patch -p1 -F3 -s < $SRC/patch.diff) || applied=no
find $WT -name "*.orig" -not -path "*/target/*" -delete
cargo test --workspace --no-fail-fast --offline > $SRC/verify_tests.log 2>&1
failed=$(grep -E "^test .* FAILED$" $SRC/verify_tests.log | sort | tr '\n' ';')
compile_err=$(grep -c "^error" $SRC/verify_tests.log)
mut_rc=0; bash $SRC/demo/run.sh $WT > $SRC/verify_mut.log 2>&1 || mut_rc=$?
git -C $WT diff > $SRC/patch_rebased.diff
git -C $WT checkout -q -- . ; git -C $WT clean -fdq -e target
mkdir -p $DST; cp $SRC/patch_rebased.diff $DST/patch.diff; rm -rf $DST/demo; cp -r $SRC/demo $DST/demo
python3 - "$PROP" "$NAME" "$clean_rc" "$mut_rc" "$failed" "$compile_err" "$applied" "$HEAD" <<'PY'
import json,sys
prop,name,clean_rc,mut_rc,failed,cerr,applied,head=sys.argv[1:]
src=f'/tmp/seed/out/{prop}/{name}/meta.json'
try: m=json.load(open(src))
except Exception as e: m={'summary':'(meta.json of the sub-agent unreadable)'}
ok = applied=='yes' and clean_rc=='0' and mut_rc!='0' and failed.strip() in ('test test_generate_example ... FAILED;',) 
out={'property':prop,'summary':m.get('summary'),'needs_to_manifest':m.get('needs_to_manifest'),'files_touched':m.get('files_touched'),
 'confirmed_by_me':{'repo_head':head,'patch_applies':applied,'demo_exit_on_clean_tree':int(clean_rc),'demo_exit_with_patch':int(mut_rc),
   'workspace_tests_failing_with_patch':failed,'what_i_ran':'tools/verify_seed.sh: demo/run.sh on clean worktree; git apply patch.diff; cargo test --workspace --no-fail-fast --offline; demo/run.sh again; revert',
   'verdict':'kept' if ok else 'REJECTED'},
 'detected_by':None}
json.dump(out,open(f'/verif/seeded/{name}/meta.json','w'),indent=1)
print(name, 'kept' if ok else 'REJECTED', clean_rc, mut_rc, failed)
PY
