#!/usr/bin/env python3
"""Regenerate /verif/MANIFEST.json from the table below (kept next to the checks so it stays current)."""
import json
props=[json.loads(l) for l in open('/verif/properties.jsonl')]
ENGINE="coq-model+correspondence"
TECH="Coq proof over hand-written Gallina model + differential correspondence (extracted OCaml vs real Rust code)"
claimed={
"C13":dict(level_text="Unbounded Coq proof (closed under the global context) that the sanitiser's field, type, schema-module and operation-module forms are valid non-reserved identifiers for EVERY name of the name domain; the model is tied to /repo on every run by byte-equality of model and implementation outputs on ~385k names (exhaustive to length 3 over the 71-char alphabet, keywords, harvested names), with syn/proc_macro2 as direct oracle.",
  design_ref="DESIGN.md 7 (C13)",
  note="Trusted: Coq kernel, extraction (ExtrOcamlBasic/ExtrOcamlString), hand model of convert_case 0.6.0 and the regex (tied by correspondence), syn's notion of identifier (cross-checked against Spec/Ident.v on every case). ASCII names only."),
"C10":dict(level_text="Coq proof, for every plan (= every spec and code generator), every prior tree and every path, that a file whose decoded content contains `libninja: static` is byte-identical after any number of generations (gen_refines + static_untouched(_many)). The Gallina directory-tree machine (Fs.v, with UTF-8 decoding as read_to_string does it) is run against the real `libninja gen` CLI on ~320 generated histories per run, trees compared byte for byte, including real aborted runs.",
  design_ref="DESIGN.md 7 (C10-C12)",
  note="Trusted: OS create/truncate/write/unlink and walkdir semantics as modelled in Fs.v; prior trees are regular files; the plan (fresh code per path) is read from a fresh run of the implementation, theorems hold for any plan."),
"C11":dict(level_text="Coq proof that for a generated path whose file has its first `libninja: after` at |pre|, the result is pre ++ directive ++ newline ++ fresh code (lib.rs: without the generated default_http_client iff pre mentions it), and that the statement re-applies to its own result (C11_again) — for all plans, trees, prefixes. Tied to the real CLI by byte comparison of whole trees on generated histories (directive mid-line, at EOF, CRLF, repeated, long stale tails).",
  design_ref="DESIGN.md 7 (C10-C12)",
  note="As C10. `fresh code` is whatever a fresh run of the implementation writes; the theorem is parametric in it."),
"C12":dict(level_text="Coq proof of cleanup exactness and confinement, idempotence, and convergence after a crash at any write k / any byte b / any subset of removals — for all plans and prior trees, under the two hypotheses the proofs force (generated text free of directives; the interrupted file carried no `after` prefix), each shown necessary by a refutation theorem and reproduced on the real CLI as an open known finding. Correspondence: real aborted processes (cfg(libninja_verif) hook) against the model's crash states, trees byte for byte.",
  design_ref="DESIGN.md 7 (C10-C12), 8",
  note="As C10. Two open known findings (known_findings.json): prefix lost when the rewrite of an after-marked file is interrupted; directive text inside generated code."),
"C19":dict(level_text="Coq proofs over Z with explicit i64/i32 casts that each adapter deserialises what it serialises to the same value for ALL i64 / all valid dates of years 1..9999 (zero and the empty string mapping to absent), and that any wire value that deserialises to a present value denotes exactly that value (soundness of the decimal parser, of the u64/i64 dispatch and of the YYYYMMDD split). The model is tied to the template files, compiled verbatim into the harness and driven through serde_json, on ~62k values and wire forms per run. The `emitted exactly when needed` clause is decided with the emission model (see notes).",
  design_ref="DESIGN.md 7 (C19)",
  note="Trusted: serde_json's visitor dispatch and chrono::NaiveDate::from_ymd_opt as modelled in Adapters.v (exercised on every case)."),
"C08":dict(level_text="Coq proof that the owned Rust type emitted for a schema equals the documented type function (Spec/DocTy.v, written from the property text) at ANY nesting depth and through any chain of $refs, arrays and single-member allOf; that a reference gets the same type as model field and as parameter; that the borrowed form is used exactly for String and nested lists of strings; and that the result is the first declared status among 200,201,202,204,302. Model tied to the real extractor by equality of the whole HirSpec on ~1600 generated specs per run plus a direct oracle re-computing the documented type in Rust.",
  design_ref="DESIGN.md 7 (C08)",
  note="Trusted: openapiv3-extended accessors as modelled in OpenApi.v (exercised by the correspondence); emitted field/argument token types are tied at the emission level (notes)."),
"C07":dict(level_text="Coq proof that the table handed to the code generator is closed (every model name mentioned by an operation input/result or a retained record is a key) for every document without array-components-with-inline-items, by induction over the whole extraction (components fold, operations fold, invented response names) and both pruning passes incl. the nullable-alias rewrite; that a pass keeps everything mentioned and preserves reachability from the operations. The excluded shape is refuted by a Coq witness and is an open known finding. HirSpec before and after pruning compared with the real extractor on every generated spec.",
  design_ref="DESIGN.md 7 (C07)",
  note="Trusted as C08. `model file per schema` is tied at the emission level (notes)."),
"C06":dict(level_text="Coq proof that pascal/snake/sanitising preserve the case-folded alphanumeric skeleton of a name, hence operationIds distinct in that skeleton (D) yield distinct method, module and request-struct names; that extraction yields exactly one operation per (path, verb). Names synthesised from verb+path are not injective on D: refuted in Coq, open known finding. Operation tables compared with the real extractor on every generated spec.",
  design_ref="DESIGN.md 7 (C06)",
  note="Trusted as C08. File-per-operation on disk is tied at the emission level (notes)."),
"C05":dict(level_text="Coq proof that the extracted parameter table of an operation equals the declared input list computed straight from the OpenAPI document (operation parameters, unshadowed path-item parameters, flattened body properties with requiredness taken from the declaring allOf member and nullability) — same names, locations and requiredness, none dropped or duplicated — and that sorting only permutes it. Tied to the real extractor on every generated spec; direct oracle recomputes the declared inputs in Rust.",
  design_ref="DESIGN.md 7 (C05)",
  note="Trusted as C08. Positional-vs-struct arguments and setters of the emitted interface are tied at the emission level (notes)."),
"C18":dict(level_text="Coq proof that the derive attribute emitted by all four generators (struct, enum, newtype, request struct) is `built-ins [, Default] ++ every user derive that tokenises, trimmed, in order, duplicates kept`, that inserting a derive adds exactly its text at that position, and that an un-tokenisable string changes nothing else. The emission model (Emit.v) is tied to the real CLI by byte equality of EVERY emitted file of ~650 generated crates per run (after the same syn+prettyplease pass), with derive lists over simple/nested/padded/duplicate/un-tokenisable strings passed through the real --derive flag; a syn-based oracle reads every derive list back.",
  design_ref="DESIGN.md 7 (C18)",
  note="Trusted: `tokenizable` (balanced brackets, no quote/backslash characters) stands for str::parse::<TokenStream>() on the derive strings used; syn/prettyplease applied identically to both sides."),
"C17":dict(level_text="Coq proof of the composition of an operation's documentation (summary, description unless empty/equal, external-docs sentence; Spec method_doc_spec) and of its placement: the doc attribute heads exactly the client method / struct / enum / field it belongs to and its literal VALUE is the trimmed text. Whole-file equality with the real CLI on adversarial documentation (quotes, backslashes, */, braces, blank lines, CRLF, non-ASCII, text equal to or extending the summary); syn-based oracle reads every #[doc] back.",
  design_ref="DESIGN.md 7 (C17)",
  note="Partial for `does not corrupt the file`: escaping is proc_macro2::Literal::string and printing is prettyplease (which strips trailing spaces of doc lines); validated by parse-back, not proved. Trim is modelled for ASCII white space."),
"C15":dict(level_text="Coq proof that one server gives that URL verbatim, none gives the BaseUrl strategy, and that the variable the generated client reads equals <SERVICE>_BASE_URL / <SERVICE>_ENV as documented by hir::ServerStrategy (words of `svc var` = words of svc ++ words of var). Several servers select <SERVICE>_ENV only with distinct recognised keywords: refuted in Coq otherwise, open known finding. HirSpec servers and lib.rs compared with the real code on every generated crate.",
  design_ref="DESIGN.md 7 (C15)",
  note="Trusted: convert_case model (tied by C13/C06 correspondence)."),
"C14":dict(level_text="Coq proof that every request module passes the request through `authenticate` iff security is declared, of the placement call emitted per location kind, of what the extractor makes of each scheme kind, and that from_env constructs the variant of the FIRST strategy reading each credential from <SERVICE>_<NAME> (= SCREAMING(service)_SCREAMING(name)). lib.rs and every request module compared byte for byte with the real CLI over apiKey header/query/cookie, http bearer/basic, oauth2, anonymous-first requirement lists and awkward scheme names; syn-based oracle checks enum / match arms / from_env agreement.",
  design_ref="DESIGN.md 7 (C14)",
  note="The meaning of httpclient's header/query/cookie/bearer_auth/basic_auth builder calls is modelled (the crate is not available offline)."),
"C03":dict(level_text="Coq proof that the request module builds its request from exactly three things — the operation's verb, make_url's URL and the printed plan of the operation's inputs — and that executing that plan against the modelled request builder yields, for EVERY choice of supplied optional inputs, exactly the expected query / header / cookie / body members under their exact OpenAPI names (`name[]` for array-valued query parameters), nothing else; for every operation that does not take the all-query `set_query(self.params)` shortcut, which is refuted in Coq and an open known finding (as is the wrapped non-object body). The plan AST is the one the emission model prints, and every request module is compared byte for byte with the real CLI's output.",
  design_ref="DESIGN.md 7 (C03), Appendix A.2",
  note="The semantics of httpclient's query/header/cookie/json/set_query is modelled from its API (crate unavailable offline) — trusted. URL placeholders: fixed b21d9c5; the format!/path substitution itself is not modelled beyond placeholder = argument name."),
"C04":dict(level_text="Coq proofs at the level of one generated struct / enum, over a model of what serde derive does with the emitted attributes: every member travels under its exact OpenAPI name (identifier or rename) and only flattened allOf members have no key; component-named allOf members are flattened; a required non-nullable string/number/boolean/object member has neither Option nor default, so an instance lacking it is rejected; deserialise-then-serialise returns the same members up to omission of null/absent optional members and empty arrays; enum values travel as their exact strings and stay distinct. The field descriptions are the ones the emission model prints; every model file is compared byte for byte with the real CLI's output, and an oracle checks names/optionality against the abstract spec.",
  design_ref="DESIGN.md 7 (C04), Appendix A.1",
  note="PARTIAL: serde_derive's semantics is modelled (trusted), field values are carried as JSON (the codec of nested field types and the `with` adapters are outside this level: adapters are C19); no compiled round trip in the quick tier."),
}
m={"version":1,
 "setup_cmd":"./setup.sh",
 "hooks":{"guard":"libninja_verif","enable":"RUSTFLAGS=\"--cfg libninja_verif\" (checks build the harness and the CLI with it)",
          "baseline_off_cmd":"cd /repo && cargo test --workspace --no-fail-fast --offline",
          "source_commits":["e9fad62"],"add_only":True},
 "engines":[{"name":ENGINE,"path":"/verif/check","serves_properties":sorted(claimed),
             "kind_free_text":"Coq 8.16 theorems over a hand-written Gallina model; model extracted to OCaml and run against the implementation (Rust harness with path deps on /repo, and the real CLI) on the same generated inputs every run"}],
 "checks":[],
 "notes":"Built incrementally; properties not yet claimed are listed under not_applicable with reason 'not built yet' and move to checks as their theorems land.",
 "not_applicable":[]}
for p in props:
    pid=p['id']
    if pid in claimed:
        c=claimed[pid]
        m['checks'].append({"property_id":pid,"quick_cmd":f"./check {pid} --tier quick","thorough_cmd":f"./check {pid} --tier thorough",
          "evidence_file":f"/verif/evidence/{pid}.json","replay_cmd_template":f"./check {pid} --replay {{path}}","engine":ENGINE,
          "level_claimed":{"category":"proof","text":c['level_text'],"design_ref":c['design_ref']},"level_note":c['note'],"technique":c.get('technique',TECH)})
    else:
        m['not_applicable'].append({"property_id":pid,"reason":"not built yet (planned in DESIGN.md section 7; will be claimed once its Coq theorems and correspondence run exist)"})
json.dump(m,open('/verif/MANIFEST.json','w'),indent=1)
print('claimed',sorted(claimed))
