#!/bin/bash
# usage: tools/par_run.sh <workers> <jobs-file> <result-log>
# jobs-file: one job per line "<name> <abs patch file> <PROP>[,<PROP>...]" (ALL = all twenty).
# Applies each patch to a private copy of /repo and runs the quick checks named, W jobs at a time; every worker runs in
# its own mount namespace with copies of /repo and /verif bind-mounted over the real paths (see run_all_seeds_par.sh).
# Result lines: "<name> <PROP> exit=<rc> <VIOLATION line if any>".
W=$1; JOBS=$2; LOG=$3
base=/tmp/lnv_par2
rm -rf $base; mkdir -p $base
for w in $(seq 0 $((W-1))); do
  mkdir -p $base/$w
  rsync -a --exclude target /repo/ $base/$w/repo/
  rsync -a --exclude .git --exclude '.cache/run' --exclude '.cache/*.log' /verif/ $base/$w/verif/
  mkdir -p $base/$w/verif/.cache/run $base/$w/verif/.cache/tmp
  : > $base/$w/list
done
i=0
while read -r line; do [ -n "$line" ] && echo "$line" >> $base/$((i % W))/list && i=$((i+1)); done < $JOBS
ALL="C01,C02,C03,C04,C05,C06,C07,C08,C09,C10,C11,C12,C13,C14,C15,C16,C17,C18,C19,C20"
for w in $(seq 0 $((W-1))); do
  unshare -m bash -c "
    mount --bind $base/$w/repo /repo && mount --bind $base/$w/verif /verif || exit 9
    cd /verif
    while read -r name patch props; do
      [ \"\$props\" = ALL ] && props=$ALL
      git -C /repo apply \$patch 2>/dev/null || (cd /repo && patch -p1 -F3 -s < \$patch) || { echo \"\$name - patch-does-not-apply\"; continue; }
      for p in \$(echo \$props | tr ',' ' '); do
        out=\$(./check \$p --tier quick 2>&1); rc=\$?
        echo \"\$name \$p exit=\$rc \$(echo \"\$out\" | grep VIOLATION | head -1)\"
        if [ \$rc -ne 0 ]; then mkdir -p /verif/.cache/par_replays; for f in /verif/replays/\${p}_*.json; do [ -f \$f ] && cp \$f /verif/.cache/par_replays/\${name}_\$(basename \$f); done; fi
      done
      git -C /repo checkout -- .; find /repo -name '*.orig' -not -path '*/target/*' -delete; find /repo -name '*.rej' -not -path '*/target/*' -delete
    done < $base/$w/list
  " > $base/$w/log 2>&1 &
done
wait
cat $base/*/log | sort > $LOG
mkdir -p /verif/.cache/par_replays; cp $base/*/verif/.cache/par_replays/* /verif/.cache/par_replays/ 2>/dev/null
rm -rf $base
echo "jobs: $i; alarms: $(grep -c 'exit=1' $LOG)"
