#!/bin/bash
# usage: tools/run_all_seeds_par.sh [workers=4] [name-regex]
# Every seeded change against the quick check of its property, W seeds at a time. Each worker owns a copy of /repo and of
# /verif (with the build caches) under /tmp/lnv_par/<w> and runs inside a private mount namespace in which those copies
# are bind-mounted over /repo and /verif, so every path the checks use is the usual one. The real /repo is never touched.
# Results: /verif/.cache/seedrun_par.log ("<seed> <PROP> :: <verdict line>"). Scratch is removed at the end.
W=${1:-4}; F=${2:-.}
base=/tmp/lnv_par
rm -rf $base; mkdir -p $base
mapfile -t seeds < <(ls /verif/seeded | grep -E "$F")
for w in $(seq 0 $((W-1))); do
  mkdir -p $base/$w
  rsync -a --exclude target /repo/ $base/$w/repo/
  rsync -a --exclude .git --exclude '.cache/run' --exclude '.cache/*.log' /verif/ $base/$w/verif/
  mkdir -p $base/$w/verif/.cache/run $base/$w/verif/.cache/tmp
  : > $base/$w/list
done
i=0
for s in "${seeds[@]}"; do echo "$s" >> $base/$((i % W))/list; i=$((i+1)); done
for w in $(seq 0 $((W-1))); do
  unshare -m bash -c "
    mount --bind $base/$w/repo /repo && mount --bind $base/$w/verif /verif || exit 9
    cd /verif
    while read n; do
      prop=\$(python3 -c \"import json;print(json.load(open('seeded/\$n/meta.json'))['property'])\")
      patch=/verif/seeded/\$n/patch.diff; [ -f /verif/seeded/\$n/patch_rebased.diff ] && patch=/verif/seeded/\$n/patch_rebased.diff
      out=\$(tools/try_seed.sh \$patch \$prop 2>&1 | grep -v '^KNOWN' | tr '\n' ' ' | cut -c1-220)
      echo \"\$n \$prop :: \$out\"
    done < $base/$w/list
  " > $base/$w/log 2>&1 &
done
wait
cat $base/*/log | sort > /verif/.cache/seedrun_par.log
rm -rf $base
echo "reported: $(grep -c 'VIOLATION' /verif/.cache/seedrun_par.log) of ${#seeds[@]}; without a failing input: $(grep -c 'no-failing-input-found' /verif/.cache/seedrun_par.log); missed:"
grep -v VIOLATION /verif/.cache/seedrun_par.log | cut -c1-160
