#!/bin/bash
# usage: tools/run_all_seeds.sh — apply every seeded change in turn, run the quick check of its property, undo it.
cd /verif
for d in seeded/*/; do
  n=$(basename $d); prop=$(python3 -c "import json;print(json.load(open('$d/meta.json'))['property'])")
  patch=$d/patch.diff; [ -f $d/patch_rebased.diff ] && patch=$d/patch_rebased.diff
  out=$(tools/try_seed.sh /verif/$patch $prop 2>&1 | grep -v "^KNOWN" | tr '\n' ' ' | cut -c1-220)
  echo "$n $prop :: $out"
done
