#!/usr/bin/env python3
"""usage: compile_crates.py <dir with c<id>/ crates + index_*.txt + known_*.txt> [--examples]
Builds one cargo workspace over the generated crates (stand-ins + real serde/serde_json/chrono/tokio) and runs
`cargo check --workspace --lib [--examples] --offline`. Prints one line per crate:
  <id>\tOK
  <id>\tKNOWN\t<class,...>\t<errors>      rustc errors only in files the compile oracle expects to be rejected
  <id>\tERR\t<errors>                     at least one rustc error elsewhere
  <id>\tUNCONFIRMED\t<class,...>          rejection expected, but the crate compiled"""
import os, sys, subprocess, json, re, glob, shutil
d = sys.argv[1]
examples = '--examples' in sys.argv
members = sorted(x for x in os.listdir(d) if x.startswith('c') and os.path.exists(f'{d}/{x}/Cargo.toml'))
shutil = __import__('shutil')
open(f'{d}/Cargo.toml', 'w').write('[workspace]\nresolver = "2"\nmembers = [%s]\n' % ', '.join(f'"{m}"' for m in members))
if not os.path.exists(f'{d}/Cargo.lock'):
    shutil.copy('/repo/Cargo.lock', f'{d}/Cargo.lock')
known = {}
for kf in glob.glob(f'{d}/known_*.txt'):
    for l in open(kf):
        f = l.rstrip('\n').split('\t')
        if len(f) >= 3:
            known.setdefault(f[0], {}).setdefault(f[1], set()).add(f[2])
# dependencies are built once into a base target directory; every run works in a hard-linked copy of it that is removed
# afterwards, so the artefacts of the generated crates never accumulate
BASE = '/verif/.cache/target-compile-base'
warm = '--warm' in sys.argv
tgt = BASE if warm else f'{d}/target'
if not warm:
    shutil.rmtree(tgt, ignore_errors=True)
    if os.path.isdir(BASE):
        subprocess.run(['cp', '-al', BASE, tgt], check=False)
env = dict(os.environ, CARGO_NET_OFFLINE='true', CARGO_TARGET_DIR=tgt, RUSTFLAGS='-Awarnings')
cmd = ['cargo', 'check', '--workspace', '--lib', '--offline', '--message-format=json', '--keep-going', '-q']
if examples:
    cmd.insert(4, '--examples')
p = subprocess.run(cmd, cwd=d, env=env, stdout=subprocess.PIPE, stderr=subprocess.PIPE, text=True)
errs = {}
for l in p.stdout.split('\n'):
    if not l.startswith('{'):
        continue
    try:
        m = json.loads(l)
    except Exception:
        continue
    if m.get('reason') == 'compiler-message' and m['message'].get('level') == 'error':
        if m['message']['message'].startswith('aborting due to'):
            continue
        pid = m.get('package_id', '')
        mm = re.search(r'[/#]c(\d+)[@#]', pid) or re.search(r'/c(\d+)', pid)
        cid = mm.group(1) if mm else pid
        sp = m['message'].get('spans') or [{}]
        fn = sp[0].get('file_name', '?')
        rel = re.sub(r'^c\d+/', '', fn)
        target = m.get('target', {}).get('kind', ['?'])[0]
        code = (m['message'].get('code') or {}).get('code')
        errs.setdefault(cid, []).append((rel, f"[{target}] {code} {m['message']['message']} @ {rel}:{sp[0].get('line_start','?')}"))
for m in members:
    cid = m[1:]
    k = known.get(cid, {})
    if cid in errs:
        if '*' in k:
            k = dict({f: k['*'] for (f, _) in errs[cid]}, **k)     # a crate-wide expectation covers every file
        outside = [e for (f, e) in errs[cid] if f not in k]
        if outside:
            print(f"{cid}\tERR\t" + ' || '.join(outside[:6]))
        else:
            classes = sorted({c for (f, _) in errs[cid] for c in k[f]})
            print(f"{cid}\tKNOWN\t{','.join(classes)}\t" + ' || '.join(e for (_, e) in errs[cid][:3]))
    elif k:
        print(f"{cid}\tUNCONFIRMED\t" + ','.join(sorted({c for v in k.values() for c in v})))
    else:
        print(f"{cid}\tOK")
if not warm:
    shutil.rmtree(tgt, ignore_errors=True)
if p.returncode != 0 and not errs:
    print('CARGO-FAILED\t' + p.stderr[-1500:].replace('\n', ' | '))
