#!/usr/bin/env python3
"""Print the prompt given to a mutation sub-agent for property <id> (property text only, nothing from /verif machinery)."""
import json, sys
pid = sys.argv[1]
wt = sys.argv[2]
out = sys.argv[3]
n = sys.argv[4] if len(sys.argv) > 4 else "2"
for l in open('/verif/properties.jsonl'):
    d = json.loads(l)
    if d['id'] == pid:
        break
else:
    raise SystemExit("no such property")
print(f"""You are helping to evaluate a verification framework by producing realistic *property-breaking* code changes (seeded defects) for the Rust project kurtbuilds/libninja (an OpenAPI -> Rust client generator).

You have your own scratch git worktree of the repository at {wt} (detached HEAD). Work ONLY inside {wt} and write your results to {out}/. Do not look at or touch /verif or /repo. The sandbox has no network: always use `cargo ... --offline` (CARGO_NET_OFFLINE=true). Use `CARGO_TARGET_DIR={wt}/target`.

The property ({d['id']}: {d['title']}):

STATEMENT: {d['statement']}

QUANTIFIER: {d['quantifier']['text']}

WHY TESTS CANNOT SETTLE IT: {d['why_tests_cant']}

ANCHORS (where the mechanism lives): {json.dumps(d['anchors'])}

Your task: produce {n} DIFFERENT, independent changes to the libninja source (each a separate patch against the unmodified worktree) such that, for each change:
 1. the workspace still compiles, and the existing test suite still passes: `cd {wt} && cargo test --workspace --no-fail-fast --offline` — on the UNMODIFIED tree exactly one test fails (`basic::test_generate_example`, a known always-failing test); with your change the same set of tests must pass/fail (no new failures);
 2. the property above is violated by the changed code, but only under something *specific*: an unusual input, a particular multi-step history, a particular crash point, two sites that each look fine alone, a boundary value, etc. — NOT something that every ordinary use would expose at once. Think of the kind of subtle regression a real refactor or "optimisation" might introduce;
 3. you have a demonstration (a small Rust test file or a small program / shell script using the crates or the `libninja` binary) that FAILS with the change applied and PASSES on the unmodified tree. The demonstration must be runnable offline inside the worktree (e.g. a new file under libninja/tests/ or a script invoking `cargo run --offline --bin libninja -- gen ...` on a small spec you write).

For each change k = 1..{n} write:
  {out}/{d['id'].lower()}_k/patch.diff      (output of `git diff` for the source change ONLY, not including the demo files)
  {out}/{d['id'].lower()}_k/demo/...        (the demonstration files, plus a run.sh that runs the demo from the worktree root and exits 0 on pass / non-zero on fail; run.sh may copy demo files into the worktree)
  {out}/{d['id'].lower()}_k/meta.json       ({{"property": "{d['id']}", "summary": "...", "needs_to_manifest": "...", "files_touched": [...], "how_verified": "commands you ran and what you saw"}})

Procedure per change: make the edit in the worktree; run the test suite; run your demo (must fail); save `git diff` as patch.diff; then `git -C {wt} checkout -- . && git -C {wt} clean -fd -e target` to restore; run the demo again on the clean tree (must pass). Verify this yourself before reporting. Keep patches small (a few lines). Prefer different mechanisms for the different changes. Do not edit existing tests. When done, restore the worktree to clean state and reply with a short summary of each change.""")
