#!/usr/bin/env python3
"""compare eimpl_<s>.obs with emodel_canon_<s>.obs for the files the model predicts; print the first diffs"""
import sys, difflib
d, sh = sys.argv[1], sys.argv[2]
def load(p):
    res = {}; files = {}
    for l in open(p):
        q = l.rstrip('\n').split(' ')
        if q[1] == 'R': res[q[0]] = q[2]
        elif q[1] == 'F': files[(q[0], bytes.fromhex(q[2]).decode())] = q[3]
    return res, files
ri, fi = load(f'{d}/eimpl_{sh}.obs'); rm, fm = load(f'{d}/emodel_canon_{sh}.obs')
bad = 0; okf = 0
for cid in ri:
    a, b = ri[cid], rm.get(cid)
    na = 'ok' if a == 'ok' else a.split(':',1)[-1]
    nb = 'ok' if b == 'ok' else (b or '?').split(':',1)[-1]
    na = 'diverge' if na == 'stack_overflow' else na
    if na != nb:
        bad += 1
        if bad <= 8: print('RESULT', cid, 'impl', a, 'model', b)
for (cid, p), t in fm.items():
    it = fi.get((cid, p))
    if it is None:
        if ri.get(cid) == 'ok':
            bad += 1; print('MISSING in impl', cid, p)
        continue
    if it != t:
        bad += 1
        if bad <= 6:
            def dec(x):
                return bytes.fromhex(x[12:]).decode() if x.startswith('UNPARSEABLE:') else bytes.fromhex(x).decode()
            print('DIFF', cid, p)
            for l in list(difflib.unified_diff(dec(it).split('\n'), dec(t).split('\n'), 'impl', 'model', lineterm='', n=1))[:30]: print('   ', l)
    else: okf += 1
for (cid, p) in fi:
    if (cid, p) not in fm and rm.get(cid) == 'ok':
        bad += 1
        if bad <= 12: print('NOT PREDICTED by model', cid, p)
print('files equal', okf, 'problems', bad, 'cases', len(ri))
