#!/bin/bash
# usage: tools/try_seed.sh <patch.diff> <PROP> [<PROP>...] — apply a seeded change to /repo, run the quick checks, undo it.
patch="$1"; shift
cd /verif
git -C /repo apply "$patch" 2>/dev/null || (cd /repo && patch -p1 -F3 -s < "$patch") || { echo "patch does not apply"; exit 2; }
for p in "$@"; do
  echo "== $p on $(basename $(dirname $patch))"
  ./check "$p" --tier quick | cut -c1-400
  echo "   exit=${PIPESTATUS[0]}"
done
git -C /repo checkout -- .; find /repo -name "*.orig" -not -path "*/target/*" -delete; find /repo -name "*.rej" -not -path "*/target/*" -delete
git -C /repo status --short | head -3
