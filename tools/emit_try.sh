#!/bin/bash
# usage: tools/emit_try.sh <shard> <n> <profile>
d=/verif/.cache/run/EMIT; mkdir -p $d
/verif/.cache/target/release/lnverif emit --seed 1 --n $2 --out $d --shard $1 --profile $3 > /dev/null 2>&1
/verif/.cache/ocaml/driver emit < $d/ecases_$1.txt > $d/emodel_$1.obs
/verif/.cache/target/release/lnverif emit-canon --in $d/emodel_$1.obs --out $d/emodel_canon_$1.obs
/verif/tools/emit_cmp.py $d $1
