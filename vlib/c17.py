from . import emitprops
def run(tier, seed):
    return emitprops.run('C17', tier, seed, also_hir=True)
