from . import emitprops
def run(tier, seed):
    return emitprops.run('C09', tier, seed, det_layer=True)
