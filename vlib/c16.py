from . import emitprops
def run(tier, seed):
    return emitprops.run('C16', tier, seed, extra_props=('C01',), compile_layer=True, exec_layer=True)
