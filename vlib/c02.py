from . import emitprops
def run(tier, seed):
    return emitprops.run('C02', tier, seed, compile_layer=True)
