from . import fsprops
def run(tier, seed):
    return fsprops.run('C11', tier, seed)
