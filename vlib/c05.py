from . import emitprops
def run(tier, seed):
    return emitprops.run('C05', tier, seed, also_hir=True)
