from . import hirprops
def run(tier, seed):
    return hirprops.run('C05', tier, seed)
