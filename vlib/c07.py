from . import hirprops
def run(tier, seed):
    return hirprops.run('C07', tier, seed)
