from . import emitprops
def run(tier, seed):
    return emitprops.run('C07', tier, seed, also_hir=True)
