"""C19 — the emitted serde adapters round-trip their value space; emitted exactly when needed."""
import os, re, time
from .common import *


def days_in_month(y, m):
    if m in (1, 3, 5, 7, 8, 10, 12): return 31
    if m in (4, 6, 9, 11): return 30
    if m == 2: return 29 if (y % 4 == 0 and y % 100 != 0) or y % 400 == 0 else 28
    return 0


def denotes(which, wire, val):
    """does the wire token denote exactly the present value `val` (as printed in ok:some:<val>)?"""
    if which == 'str':
        if not wire.startswith('str:'): return False
        s = bytes.fromhex(wire[4:]).decode('utf8', 'replace')
        return re.fullmatch(r'[+-]?[0-9]+', s) is not None and int(s) == int(val)
    if which == 'nz':
        return wire.startswith('int:') and int(wire[4:]) == int(val) and int(val) != 0
    if which == 'date':
        if not wire.startswith('int:'): return False
        n = int(wire[4:]); y, m, d = (int(x) for x in val.split('/'))
        return n == y * 10000 + m * 100 + d and 1 <= m <= 12 and 1 <= d <= days_in_month(y, m)
    return False


def run(tier, seed):
    t0 = time.time()
    out = Outcome('C19')
    d = rundir('C19')
    coq_ok, drv_ok, har_ok, logs = build_all()
    ps = proof_side('C19')
    total = 0; disagreements = []; oracle = []; samples = []; nontriv = set()
    if not (har_ok and drv_ok):
        out.violation('build', {'what': 'harness or driver build failed', 'logs': logs}, no_input=True)
    else:
        sh(f'{HARNESS} adapters-gen --tier {tier} --seed {seed} --out {d}/cases.txt')
        sh(f'{HARNESS} adapters-impl --in {d}/cases.txt --out {d}/impl.obs')
        sh(f'{HARNESS} adapters-canon --in {d}/cases.txt --out {d}/canon.txt')
        sh(f'{DRIVER} adapters < {d}/canon.txt > {d}/model.obs')
        imp = open(f'{d}/impl.obs').read().split('\n'); mod = open(f'{d}/model.obs').read().split('\n')
        if len(imp) != len(mod):
            disagreements.append({'what': 'line count', 'impl': len(imp), 'model': len(mod)})
        de = {}
        sers = []
        for a, b in zip(imp, mod):
            if not a: continue
            total += 1
            lhs, ra = a.rsplit(' -> ', 1); rb = b.rsplit(' -> ', 1)[-1]
            kind, which, arg = lhs.split(' ')
            if arg not in ('0', 'none', 'null'):
                nontriv.add(lhs)
            if total % 9973 == 1 and len(samples) < 8:
                samples.append({'case': lhs, 'impl': ra, 'model': rb})
            if ra != rb:
                disagreements.append({'case': lhs, 'impl': ra, 'model': rb}) if len(disagreements) < 50 else None
            if kind == 'D':
                de[(which, 'float' if arg.startswith('float:') or arg == 'int:-0' else arg)] = ra
                # malformed wire never becomes some other present value
                if ra.startswith('ok:some:') and not denotes(which, arg, ra[8:]):
                    oracle.append({'adapter': which, 'wire': arg, 'deserialised_to': ra, 'why': 'the wire value does not denote this value'})
            else:
                sers.append((which, arg, ra))
                if ra.startswith('panic'):
                    oracle.append({'adapter': which, 'value': arg, 'serialise': ra})
        # round trip: deserialize(serialize(v)) == v (zero / None -> absent)
        for which, v, wire in sers:
            r = de.get((which, wire))
            if which == 'str':
                want = 'ok:none' if v == 'none' else f'ok:some:{v}'
            elif which == 'nz':
                want = 'ok:none' if v in ('none', '0') else f'ok:some:{v}'
            else:
                want = 'ok:none' if v == 'none' else f'ok:some:{v}'
            if r is None:
                if wire not in ('str:', 'int:0'):
                    oracle.append({'adapter': which, 'value': v, 'serialised_to': wire, 'why': 'serialised form is not the documented wire form (no matching deserialisation case)'})
            elif r != want:
                oracle.append({'adapter': which, 'value': v, 'serialised_to': wire, 'deserialised_to': r, 'expected': want})
    # ---- emission part: serde.rs / `mod serde;` versus the fields that reference crate::serde::*
    emit_stats = None
    if har_ok and drv_ok:
        from . import emitprops
        from .fsprops import build_cli
        build_cli()
        et, en, ef, es, ed, efind, eq = emitprops.emit_run(tier, seed, d, prior=2)   # every second case over a previous generation of another document
        emit_stats = dict(evaluations=et, distinct_nontrivial=en, files_compared_equal=eq, disagreements=len(ed))
        for cid, p, cls, msg, spec in efind:
            if p == 'C19':
                oracle.append({'level': 'emitted crate', 'case': cid, 'message': msg, 'config_and_spec': spec})
        for x in ed:
            if x and ((x.get('presence') and x.get('file') == 'src/serde.rs') or x.get('section') != '*') and not x.get('docs_only') and (x.get('file') == 'src/serde.rs' or (x.get('file') == 'src/lib.rs' and x.get('section') == 'mod') or (str(x.get('file', '')).startswith('src/model/') and x.get('section', '').startswith(('struct ', 'enum ', 'type ')))):
                disagreements.append(dict(x, level='emitted crate'))
    if oracle:
        out.violation('oracle', {'what': 'adapter template (compiled verbatim from codegen_rust/src/serde/*.rs, driven through serde_json) breaks round trip or turns a malformed wire value into a present value',
                                 'count': len(oracle), 'failures': oracle[:10]})
    proof_broken = bool(ps['problems']) or ps['discharged'] != ps['obligations'] or not coq_ok
    if proof_broken and not oracle:
        out.violation('proof', {'what': 'proof obligations of Properties/C19.v no longer check', 'problems': ps['problems'],
                                'searched': f'{total} adapter cases through the direct oracle, none failed'}, no_input=True)
    if disagreements and not oracle:
        out.violation('correspondence', {'what': 'model (coq/Model/Adapters.v) and the compiled adapter templates disagree; direct oracle found no failing input',
                                         'count': len(disagreements), 'first': [x for x in disagreements if x][:10]}, no_input=True)
    cov = dict(obligations=ps['obligations'], discharged=ps['discharged'],
               checker_cmd='make -C coq Properties/C19.vo && coqc Properties/C19.v (Print Assumptions parsed)',
               trusted_base=TRUSTED + ['serde_json visitor dispatch (u64/i64/f64/str) and chrono::NaiveDate::from_ymd_opt are modelled in Adapters.v and exercised on every case']
                            + [f'{n}: {a}' for n, a in ps['theorems']],
               evaluations=total, distinct_nontrivial=len(nontriv),
               rule='values: i64 boundaries, powers of ten +-1, random i64 of every bit width, None; dates: month starts/middles/ends of 14 landmark years + 10k random (thorough: every date 0001-01-01..9999-12-31); wire forms: null, bool, floats, -0, integers up to u64::MAX and beyond, 26 strings (signs, spaces, leading zeros, overflow, non-ASCII digits), invalid calendar days, years that wrap i32; non-trivial = not 0/none/null',
               samples=samples, disagreements_checked=len([x for x in disagreements if x]), oracle_failures=len(oracle), proof_problems=ps['problems'], emission_level=emit_stats)
    write_evidence('C19', tier, seed, 'proof', cov, time.time() - t0, len(out.violations),
                   assumptions=['adapters are compiled from the template files in /repo as they are now (include!)'])
    return out.finish()
