"""Shared machinery for ./check: builds, proof-side audit, evidence, known findings, decision."""
import json, os, re, subprocess, sys, time, hashlib

ROOT = '/verif'
CACHE = f'{ROOT}/.cache'
HARNESS = f'{CACHE}/target/release/lnverif'
DRIVER = f'{CACHE}/ocaml/driver'
ENV = dict(os.environ, CARGO_NET_OFFLINE='true', CARGO_TARGET_DIR=f'{CACHE}/target',
           RUSTFLAGS='--cfg libninja_verif')

FORBIDDEN = re.compile(r'\b(Admitted|admit|Axiom|Parameter|Conjecture|Abort All)\b|Unset Guard|bypass_check|type-in-type|impredicative-set|Admit Obligations')
ALLOWED_AXIOMS = set()   # none expected: stdlib List/Ascii/String/ZArith/Lia only


def sh(cmd, timeout=3600, cwd=None, env=None, inp=None):
    t0 = time.time()
    p = subprocess.run(cmd, shell=isinstance(cmd, str), cwd=cwd, env=env or ENV, input=inp,
                       stdout=subprocess.PIPE, stderr=subprocess.STDOUT, text=True, timeout=timeout)
    return p.returncode, p.stdout, time.time() - t0


def rundir(prop):
    d = f'{CACHE}/run/{prop}'
    os.makedirs(d, exist_ok=True)
    return d


def build_all():
    """Incremental build of Coq (.vo), the extracted driver and the harness (against /repo's working tree)."""
    os.makedirs(f'{CACHE}/ocaml', exist_ok=True)
    logs = {}
    if not os.path.exists(f'{ROOT}/coq/Makefile'):
        sh('coq_makefile -f _CoqProject -o Makefile', cwd=f'{ROOT}/coq')
    rc, out, _ = sh('timeout 3000 make -j16 2>&1 | tail -40', cwd=f'{ROOT}/coq')
    logs['coq_make'] = out
    coq_ok = 'Error' not in out and rc == 0
    rc2, out2, _ = sh(f'{ROOT}/tools/build_driver.sh 2>&1 | tail -20')
    logs['driver'] = out2
    rc3, out3, _ = sh('cargo build --offline --release 2>&1 | tail -30', cwd=f'{ROOT}/harness')
    logs['harness'] = out3
    harness_ok = 'Finished' in out3
    return coq_ok, (rc2 == 0), harness_ok, logs


def proof_side(prop):
    """Compile Properties/<prop>.v by itself, capturing Print Assumptions; audit the development for escapes.
    Returns dict(obligations, discharged, theorems=[(name, assumptions)], problems=[...])."""
    res = dict(obligations=0, discharged=0, theorems=[], problems=[])
    src = f'{ROOT}/coq/Properties/{prop}.v'
    if not os.path.exists(src):
        res['problems'].append(f'missing {src}')
        return res
    text = open(src).read()
    names = re.findall(r'^\s*(?:Theorem|Lemma|Corollary)\s+(\w+)', text, re.M)
    res['obligations'] = len(names)
    # audit: no Admitted/Axiom/... anywhere in the development
    bad = []
    for dp, _, fs in os.walk(f'{ROOT}/coq'):
        for f in fs:
            if f.endswith('.v'):
                body = open(os.path.join(dp, f)).read()
                body = re.sub(r'\(\*.*?\*\)', '', body, flags=re.S)
                for m in FORBIDDEN.finditer(body):
                    bad.append(f'{os.path.join(dp, f)}: {m.group(0)}')
    if bad:
        res['problems'].append('forbidden constructs: ' + '; '.join(bad[:5]))
    rc, out, _ = sh(f'timeout 1200 make Properties/{prop}.vo 2>&1 | tail -30', cwd=f'{ROOT}/coq')
    if rc != 0 or 'Error' in out:
        res['problems'].append('make failed: ' + out[-1500:])
        res['make_log'] = out
        return res
    rc, out, _ = sh(f'timeout 600 coqc -Q . LN -w -notation-overridden,-ambiguous-paths Properties/{prop}.v', cwd=f'{ROOT}/coq')
    if rc != 0:
        res['problems'].append('coqc failed: ' + out[-1500:])
        return res
    # Print Assumptions output, in order: either "Closed under the global context" or "Axioms:\n name : type ..."
    blocks = re.split(r'(?=Closed under the global context|Axioms:)', out)
    blocks = [b for b in blocks if b.startswith('Closed') or b.startswith('Axioms:')]
    if len(blocks) != len(names):
        res['problems'].append(f'{len(names)} theorems but {len(blocks)} Print Assumptions results')
    for n, b in zip(names, blocks):
        if b.startswith('Closed'):
            res['theorems'].append((n, 'Closed under the global context'))
            res['discharged'] += 1
        else:
            axs = re.findall(r'^(\S+)\s*:', b[len('Axioms:'):], re.M)
            res['theorems'].append((n, 'Axioms: ' + ', '.join(axs)))
            if all(a in ALLOWED_AXIOMS for a in axs):
                res['discharged'] += 1
            else:
                res['problems'].append(f'{n} depends on axioms not in the allow-list: {axs}')
    return res


def load_known():
    p = f'{ROOT}/known_findings.json'
    if os.path.exists(p):
        return json.load(open(p))
    return {'findings': []}


TRUSTED = [
    'Coq 8.16.1 kernel (coqc); vm_compute used for finite forallb sweeps and witnesses; no native_compute',
    'extraction: ExtrOcamlBasic + ExtrOcamlString only; OCaml 4.13.1; ocaml/driver.ml, ocaml/util.ml',
    'hand-written Gallina model of libninja + convert_case 0.6.0 + the regex used; tied to /repo by the correspondence run',
    'Rust harness (generators, canonical printers, oracles) built against /repo working tree',
]


def write_evidence(prop, tier, seed, level, coverage, wall, violations, assumptions=None):
    if RUN.get('replay'):
        return   # a replay re-runs one case; the evidence file describes full runs only
    os.makedirs(f'{ROOT}/evidence', exist_ok=True)
    ev = dict(property_id=prop, tier=tier, seed=seed, level=level, coverage=coverage,
              assumptions=assumptions or [], wall_s=round(wall, 2), violations=violations)
    with open(f'{ROOT}/evidence/{prop}.json', 'w') as f:
        json.dump(ev, f, indent=1, sort_keys=True)


RUN = {'tier': 'quick', 'seed': 1}   # set by ./check; copied into every replay file


def write_replay(prop, name, obj):
    if isinstance(obj, dict):
        obj = dict(obj, replay_with=f"./check {prop} --replay <this file>", run=dict(RUN))
    d = f'{ROOT}/replays'
    os.makedirs(d, exist_ok=True)
    p = f'{d}/{prop}_{name}.json'
    with open(p, 'w') as f:
        json.dump(obj, f, indent=1)
    return p


class Outcome:
    """Collects violations / known findings and prints the interface lines."""
    def __init__(self, prop):
        self.prop = prop
        self.violations = []   # (replay_path, no_input: bool)
        self.known = []
        # replay files of an earlier run of this property are stale
        import glob
        if not RUN.get('replay'):
            for old in glob.glob(f'{ROOT}/replays/{prop}_*.json'):
                os.remove(old)

    def violation(self, name, obj, no_input=False):
        p = write_replay(self.prop, name, obj)
        self.violations.append((p, no_input))

    def known_finding(self, what):
        self.known.append(what)

    def finish(self):
        for k in self.known:
            print(f'KNOWN-FINDING: property={self.prop} {k}')
        for p, ni in self.violations:
            print(f'VIOLATION property={self.prop} replay={p}' + (' no-failing-input-found' if ni else ''))
        sys.stdout.flush()
        return 1 if self.violations else 0
