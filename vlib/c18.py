from . import emitprops
def run(tier, seed):
    return emitprops.run('C18', tier, seed, also_hir=True)
