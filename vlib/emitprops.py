"""Emission-level engine: whole generated crates (real CLI) against the files the Coq model predicts, byte for byte after
the same canonicalisation (string literals re-created from their values, syn, prettyplease); plus syn-based direct oracles."""
import os, time, re, glob, json, subprocess
from concurrent.futures import ThreadPoolExecutor
from .common import *
from .fsprops import build_cli
from .hirprops import dehex

KNOWN_CLASSES = {
    ('C03', 'set_query_shortcut'): 'C03-set-query-shortcut',
    ('C03', 'body_wrapped'): 'C03-non-object-body-wrapped',
    ('C06', 'synth_name_collision'): 'C06-synthesised-name-collision',
    ('C15', 'several_servers_not_env'): 'C15-several-servers-not-env',
    ('C01', 'panic_model_not_found'): 'C07-array-component-inline-items',
    ('C01', 'abort_stack_overflow'): 'C01-recursive-model-cycle',
    ('C16', 'abort_stack_overflow'): 'C01-recursive-model-cycle',
    ('C01', 'synth_name_collision'): 'C06-synthesised-name-collision',
    ('C06', 'id_case_collision'): 'C06-ids-equal-up-to-case-and-punctuation',
    ('C01', 'id_case_collision'): 'C06-ids-equal-up-to-case-and-punctuation',
    ('C01', 'panic_parse'): 'C01-service-name-keyword',
    ('C17', 'alias_doc_dropped'): 'C17-description-dropped-on-alias-types',
    ('C04', 'adapter_value_nested'): 'C04-adapter-type-not-a-direct-member',
}
WF = {'t': 0, 'f': 0, 'x': 0, 'f_but_generated': 0}   # Spec/Wf.v hir_ok evaluated by the driver on every extracted table
# classes of the compile oracle (harness/src/coracle.rs): files rustc is expected to reject -> open finding id
COMPILE_CLASSES = {
    'input_type_without_display': 'C02-input-type-without-display',
    'nested_string_array_input': 'C02-nested-string-array-input',
    'missing_model': 'C07-array-component-inline-items',
    'component_shadows_prelude': 'C02-component-shadows-prelude',
    'operation_named_like_client_method': 'C02-operation-named-like-client-method',
    'operation_name_collision': 'C06-ids-equal-up-to-case-and-punctuation',   # or the synthesised-name finding: both give one module for two operations
}


def run_shard(args):
    d, seed, n, i, profile = args[:5]
    prior = args[5] if len(args) > 5 else 0
    sh(f'{HARNESS} emit --seed {seed} --n {n} --out {d} --shard {i} --profile {profile} --prior {prior} > /dev/null 2>{d}/eerr_{i}.txt')
    sh(f'{DRIVER} emit < {d}/ecases_{i}.txt > {d}/emodel_{i}.obs 2>>{d}/eerr_{i}.txt')
    sh(f'{HARNESS} emit-canon --in {d}/emodel_{i}.obs --out {d}/emodel_canon_{i}.obs 2>>{d}/eerr_{i}.txt')
    return i


def load(p, wf=None):
    res = {}; files = {}; by_path = {}
    for l in open(p):
        q = l.rstrip('\n').split(' ')
        if len(q) >= 3 and q[1] == 'W':
            if wf is not None:
                wf[q[0]] = q[2]
                if len(q) >= 4:
                    wf[('s', q[0])] = q[3]
        elif len(q) >= 3 and q[1] == 'R':
            res[q[0]] = q[2]
        elif len(q) >= 4 and q[1] == 'F':
            key = bytes.fromhex(q[2]).decode()
            path, _, sec = key.partition('#')
            if sec == '*':
                # the whole-file section comes first: a path written a second time (two operations sharing a module)
                # replaces every section of the earlier version, as the later write replaces the file on disk
                for k in by_path.pop((q[0], path), []):
                    files.pop(k, None)
            by_path.setdefault((q[0], path), []).append((q[0], key))
            files[(q[0], key)] = q[3]
    return res, files


def text_of(x):
    try:
        return bytes.fromhex(x[12:]).decode('utf8', 'replace') if x.startswith('UNPARSEABLE:') else bytes.fromhex(x).decode('utf8', 'replace')
    except ValueError:
        return x


def emit_run(tier, seed, d, prior=0):
    for k in list(WF):
        WF[k] = 0
    nshards = 16
    per = 40 if tier == 'quick' else 1200
    with ThreadPoolExecutor(16) as ex:
        list(ex.map(run_shard, [(d, seed, per, i, 'wild' if i % 3 == 1 else 'rich', prior) for i in range(nshards)]))
    total = 0; files_equal = 0; nontriv = set(); feats = {}; samples = []; disagreements = []; findings = []; case_dis = {}; outcome_dis = set()
    for i in range(nshards):
        try:
            wf = {}
            ri, fi = load(f'{d}/eimpl_{i}.obs'); rm, fm = load(f'{d}/emodel_canon_{i}.obs', wf)
            cases = dict(l.split(' ', 1) for l in open(f'{d}/ecases_{i}.txt').read().split('\n') if l)
        except FileNotFoundError:
            disagreements.append({'what': f'shard {i} produced no output', 'err': open(f'{d}/eerr_{i}.txt').read()[-800:]})
            continue
        agree = {}; model_kind = {}
        for cid, w in wf.items():
            if isinstance(cid, tuple):
                # Spec/WfSpec.v spec_ok (depth 60) on the document itself: C01_extraction_total applies where it holds
                WF['spec_ok_' + w] = WF.get('spec_ok_' + w, 0) + 1
                if w == 't' and wf.get(cid[1]) == 'x' and len(disagreements) < 40:
                    disagreements.append({'case': cid[1], 'what': 'spec_ok holds but the model\'s extraction returned an error (contradicts C01_extraction_total: driver defect)',
                                          'spec': dehex(cases.get(cid[1], ''))[:5000]})
                if w == 't' and wf.get(cid[1]) == 't':
                    WF['both_t'] = WF.get('both_t', 0) + 1
                continue
            WF[w] = WF.get(w, 0) + 1
            if w == 'f' and ri.get(cid) == 'ok':
                WF['f_but_generated'] += 1
            # C01_emission_total: where the hypotheses hold the model must produce the crate
            if w == 't' and rm.get(cid) != 'ok' and len(disagreements) < 40:
                disagreements.append({'case': cid, 'what': 'hir_ok holds but the model did not produce a crate (contradicts C01_emission_total: driver or extraction defect)',
                                      'model': rm.get(cid), 'spec': dehex(cases.get(cid, ''))[:5000]})
        for cid in ri:
            a, b = ri[cid], rm.get(cid)
            # outcomes are compared as a small enum: a crate / a failure (panic or error exit, whatever its message) /
            # runaway recursion (the model's fuel exhaustion is the real process overflowing its stack) / time limit.
            # WHY a generation failed is the model's error kind; the text of the implementation's panic message is
            # not an observation (it may be reworded freely)
            def coarse(x):
                if x == 'ok': return 'ok'
                k = (x or '?').split(':', 1)[-1]
                if k in ('stack_overflow', 'diverge'): return 'diverge'
                if (x or '').startswith('timeout'): return 'timeout'
                return 'fail'
            na, nb = coarse(a), coarse(b)
            if na == 'fail' and nb == 'fail':
                model_kind[cid] = (b or '?').split(':', 1)[-1]
            agree[cid] = (na == nb)
            if na != nb:
                outcome_dis.add(cid)
            if na != nb and len(disagreements) < 40:
                disagreements.append({'case': cid, 'what': 'outcome of the generation', 'impl': a, 'model': b, 'spec': dehex(cases.get(cid, ''))[:5000]})
        keys = set(fi) | set(fm)
        paths_i = {}; paths_m = {}
        for (cid, p) in fi:
            paths_i.setdefault(cid, set()).add(p.split('#', 1)[0])
        for (cid, p) in fm:
            paths_m.setdefault(cid, set()).add(p.split('#', 1)[0])

        def note(cid, x):
            case_dis.setdefault(cid, []).append({k: x.get(k) for k in ('file', 'section', 'docs_only', 'presence', 'docs_differ', 'one_sided')})
            if len(disagreements) >= 400:
                x = {k: x.get(k) for k in ('case', 'file', 'section', 'docs_only', 'presence', 'docs_differ', 'one_sided')}   # light record: the view filter needs it
            disagreements.append(x)
        for (cid, p) in sorted(keys):
            if ri.get(cid) != 'ok' or rm.get(cid) != 'ok':
                continue
            a, b = fi.get((cid, p)), fm.get((cid, p))
            if a == b:
                files_equal += 1
                continue
            path, sec = (p.split('#', 1) + ['*'])[:2]
            agree[cid] = False
            if path not in paths_i.get(cid, ()) or path not in paths_m.get(cid, ()):
                # the whole file exists on one side only: one entry per file
                if sec == '*':
                    note(cid, {'case': cid, 'file': path, 'section': '*', 'docs_only': False, 'docs_differ': True, 'presence': True, 'first_differing_line': 0,
                               'impl': ['<file written by the implementation>' if a else '<file not written by the implementation>'],
                               'model': ['<file predicted by the model>' if b else '<file not predicted by the model>'],
                               'spec': dehex(cases.get(cid, ''))[:5000] if len(disagreements) < 40 else ''})
                continue
            ta = text_of(a).split('\n') if a else []
            tb = text_of(b).split('\n') if b else []
            isdoc = lambda x: x.lstrip().startswith(('///', '//!'))
            # does the difference lie in documentation comments only? (prettyplease prints #[doc] as /// or //! lines)
            docs_only = [x for x in ta if not isdoc(x)] == [x for x in tb if not isdoc(x)]
            docs_differ = [x.strip() for x in ta if isdoc(x)] != [x.strip() for x in tb if isdoc(x)]
            k = next((jj for jj, (x, y) in enumerate(zip(ta, tb)) if x != y), min(len(ta), len(tb)))
            note(cid, {'case': cid, 'file': path, 'section': sec, 'docs_only': docs_only, 'docs_differ': docs_differ, 'presence': False, 'one_sided': not (a and b), 'first_differing_line': k,
                       'impl': ta[max(0, k - 2):k + 3] or ['<section absent>'], 'model': tb[max(0, k - 2):k + 3] or ['<section absent>'],
                       'spec': dehex(cases.get(cid, ''))[:5000] if len(disagreements) < 40 else ''})
        for l in open(f'{d}/efeatures_{i}.txt'):
            cid, fs = l.rstrip('\n').split('\t')
            total += 1
            for f in fs.split(','):
                if f:
                    feats[f] = feats.get(f, 0) + 1
            if fs:
                nontriv.add(hash(cases.get(cid, cid)))
            if len(samples) < 3 and fs and int(cid) < 900000:
                samples.append({'case': cid, 'features': fs.split(','), 'config_and_spec': dehex(cases.get(cid, ''))[:1500]})
        for l in open(f'{d}/eoracle_{i}.txt'):
            cid, p, cls, msg = l.rstrip('\n').split('\t', 3)
            if cls.startswith('panic_') and cid in model_kind:
                cls = 'panic_' + model_kind[cid]
            findings.append((cid, p, cls, msg, dehex(cases.get(cid, ''))[:5000]))
    CASE_DIS.clear(); CASE_DIS.update(case_dis); OUTCOME_DIS.clear(); OUTCOME_DIS.update(outcome_dis)
    return total, len(nontriv), feats, samples, disagreements, findings, files_equal


# Which sections of which emitted files a property's tie to the code rests on. Every file is cut into sections by the
# harness (one per top-level item, keyed by what the item is; `use`/`mod` lines as sorted sets; lint attributes dropped;
# the exact whole file is the section `*`). A disagreement between the model's predicted section and the implementation's
# outside this view does not touch the property's theorems: it is counted in the evidence (`disagreements_outside_view`)
# and judged by the properties whose view it falls in (C02 sees every item of every file).
CASE_DIS = {}      # case id -> section-level disagreements of the last emit_run
OUTCOME_DIS = set()  # case ids whose generation outcome differs between model and implementation
ITEM = r'^(?!\*$).'    # any item section, not the whole-file section
OPFILE = r'src/request/(?!mod\.rs)'
MODELFILE = r'src/model/(?!mod\.rs)'


def V(*pats, docs=False, presence=False, docs_lines_only=False):
    return dict(pats=[(re.compile(a), re.compile(b)) for a, b in pats], docs=docs, presence=presence, docs_lines_only=docs_lines_only,
                text=[f'{a} :: {b}' for a, b in pats])


VIEW = {
    'C01': V(presence=True),                                                        # outcome and the set of files
    'C02': V(('.*', ITEM), presence=True),                                          # every item of every file (rustc does not see item order, comments or lint attributes)
    'C03': V((OPFILE, r'(struct |impl )'), (r'src/lib\.rs', r'(struct FluentRequest|struct \w+Client$|impl \w+Client)')),
    'C04': V((MODELFILE, r'(struct |enum |type |impl .*(Serialize|Deserialize|Display|FromStr|Deref))'), (r'src/serde\.rs', ITEM)),
    'C05': V((OPFILE, r'(struct |impl )')),
    'C06': V((r'src/request/', r'(struct |impl |mod$|use$)'), (r'src/lib\.rs', r'mod$'), presence=True),   # examples: that the file exists
    'C07': V((r'src/model/', r'(struct |enum |type |mod$|use$)'), (OPFILE, r'(struct |impl )'), presence=True),
    'C08': V((MODELFILE, r'(struct |enum |type )'), (OPFILE, r'(struct |impl )')),
    'C09': V(),                                                                     # decided by the determinism run alone
    'C13': V((r'src/(model|request)/', ITEM), (r'examples/', ITEM), (r'src/lib\.rs', r'(struct |enum |impl \w+(Client|Authentication)|fn |mod$)'), presence=True),
    'C14': V((OPFILE, r'impl .*IntoFuture'), (r'src/lib\.rs', r'(enum \w+Authentication|impl \w+Authentication|impl \w+Client|struct \w+Client$|struct FluentRequest|fn )')),
    'C15': V((r'src/lib\.rs', r'(fn default_http_client|impl \w+Client)')),
    'C16': V((r'examples/', ITEM), presence=True),
    'C17': V(('.*', ITEM), docs=True, docs_lines_only=True),                          # the documentation lines of every item
    'C18': V((r'src/(model|request)/(?!mod\.rs)', r'(struct |enum |type )')),
}


def in_view(prop, x):
    """is this section-level disagreement part of what ties the model to the code for `prop`?"""
    v = VIEW.get(prop)
    if v is None or x is None or 'file' not in x:
        return True
    if x.get('presence'):
        return v['presence']
    if not any(a.match(x['file']) and b.search(x.get('section', '*')) for a, b in v['pats']):
        return False
    if v['docs_lines_only']:
        # an item that exists on one side only is not documentation of the spec gone astray (other views judge its presence)
        return bool(x.get('docs_differ')) and not x.get('one_sided')
    if x.get('docs_only') and not v['docs']:
        return False
    return True


def agrees_in_view(prop, cid):
    """the model predicts what the implementation did on this case, as far as `prop` looks: a failure in a known class
    is the KNOWN finding only then; elsewhere it is a new failing input"""
    if cid in OUTCOME_DIS:
        return False
    return not any(in_view(prop, x) for x in CASE_DIS.get(cid, ()))


def compile_run(tier, seed, d, targeted=None):
    """rustc over whole crates emitted by the real CLI (stand-in dependency crates under /verif/standins).
    targeted: case ids of the emission run (the search for a failing input after a broken correspondence): the crates of
    exactly those cases are generated again (same specs, examples on) and compiled.
    Returns (stats, unexpected errors [(case, target, message, spec)], {class: [(case, msg)]}, unconfirmed)."""
    import shutil
    cd = f'{d}/crates'
    shutil.rmtree(cd, ignore_errors=True)
    os.makedirs(cd)
    per = 8 if tier == 'quick' else 150
    profs = ['tame', 'rich', 'tame', 'wild', 'tame', 'rich', 'tame', 'wild']

    def gen(i):
        sh(f'{HARNESS} emit-crates --seed {seed} --n {per} --out {cd} --shard {i} --profile {profs[i % len(profs)]} > /dev/null 2>{cd}/err_{i}.txt')

    def gen_targeted(i):
        ids = [c for c in targeted if c // 100000 == i]
        if ids:
            n = max(c % 100000 for c in ids) + 1
            sh(f'{HARNESS} emit-crates --as-emit --ids {",".join(map(str, ids))} --seed {seed} --n {n} --out {cd} --shard {i} --profile {"wild" if i % 3 == 1 else "rich"} > /dev/null 2>{cd}/err_{i}.txt')
    with ThreadPoolExecutor(16) as ex:
        if targeted:
            list(ex.map(gen_targeted, range(16)))
        else:
            list(ex.map(gen, range(8)))
    rc, out, _ = sh(f'python3 {ROOT}/tools/compile_crates.py {cd} --examples', timeout=7200)
    specs = {}
    gen_outcomes = {}
    for f in glob.glob(f'{cd}/index_*.txt'):
        for l in open(f):
            q = l.rstrip('\n').split('\t')
            if len(q) >= 4:
                specs[q[0]] = q[3]
                gen_outcomes[q[1]] = gen_outcomes.get(q[1], 0) + 1
    stats = {'OK': 0, 'KNOWN': 0, 'ERR': 0, 'UNCONFIRMED': 0, 'generation_outcomes': gen_outcomes}
    errs = []; known = {}; unconfirmed = []
    for l in out.split('\n'):
        q = l.split('\t')
        if len(q) < 2:
            continue
        if q[0] == 'CARGO-FAILED':
            errs.append(('-', 'cargo', l[:1500], ''))
            continue
        stats[q[1]] = stats.get(q[1], 0) + 1
        if q[1] == 'ERR':
            for e in q[2].split(' || ')[:3]:
                errs.append((q[0], 'example' if e.startswith('[example]') else 'lib', e, dehex(specs.get(q[0], ''))[:5000]))
        elif q[1] == 'KNOWN':
            for c in q[2].split(','):
                known.setdefault(c, []).append((q[0], q[3][:200]))
        elif q[1] == 'UNCONFIRMED':
            unconfirmed.append((q[0], q[2]))
    shutil.rmtree(cd, ignore_errors=True)
    return stats, errs, known, unconfirmed


def det_run(tier, seed, d):
    """C09: every case generated by 5+ separate processes (JSON / YAML, fresh / other location and cwd / in place)."""
    for f in glob.glob(f'{d}/det_*.txt'):
        os.remove(f)
    per = 10 if tier == 'quick' else 250
    reps = 2 if tier == 'quick' else 6

    def go(i):
        sh(f'{HARNESS} det --seed {seed} --n {per} --out {d} --shard {i} --reps {reps} > /dev/null 2>{d}/deterr_{i}.txt')
    with ThreadPoolExecutor(16) as ex:
        list(ex.map(go, range(16)))
    stats = {'cases': 0, 'same': 0, 'diff': 0, 'processes': 0, 'generation_ok': 0, 'files_compared': 0, 'max_components': 0}
    diffs = []
    for i in range(16):
        try:
            lines = open(f'{d}/det_{i}.txt').read().split('\n')
        except FileNotFoundError:
            diffs.append(('-', f'shard {i} produced no output: ' + open(f'{d}/deterr_{i}.txt').read()[-400:], ''))
            continue
        for l in lines:
            q = l.split('\t')
            if len(q) < 4:
                continue
            stats['cases'] += 1
            if q[1] == 'SAME':
                stats['same'] += 1
                stats['processes'] += int(q[3])
                if q[2] == 'ok':
                    stats['generation_ok'] += 1
                    stats['files_compared'] += int(q[4]) * (int(q[3]) - 1)
                stats['max_components'] = max(stats['max_components'], int(q[5]))
            else:
                stats['diff'] += 1
                diffs.append((q[0], q[3], dehex(q[4])[:5000]))
    return stats, diffs


EXEC_BASE = f'{CACHE}/target-exec-base'


def exec_warm():
    """setup: build serde, serde_json, chrono, tokio and the stand-ins once in the dev profile (the execution layer links binaries)"""
    import shutil
    d = rundir('WARMX')
    shutil.rmtree(d, ignore_errors=True)
    os.makedirs(d)
    sh(f'{HARNESS} emit-crates --drivers --seed 1 --n 1 --out {d} --shard 9 --profile safe > /dev/null 2>&1')
    members = sorted(x for x in os.listdir(d) if x.startswith('c') and os.path.exists(f'{d}/{x}/Cargo.toml'))
    open(f'{d}/Cargo.toml', 'w').write('[workspace]\nresolver = "2"\nmembers = [%s]\n' % ', '.join(f'"{m}"' for m in members))
    shutil.copy('/repo/Cargo.lock', f'{d}/Cargo.lock')
    env = dict(os.environ, CARGO_NET_OFFLINE='true', CARGO_TARGET_DIR=EXEC_BASE, RUSTFLAGS='-Awarnings')
    rc, out, _ = sh('cargo build --workspace --examples --offline --keep-going -q 2>&1 | tail -3', cwd=d, env=env, timeout=3000)
    shutil.rmtree(d, ignore_errors=True)
    # keep the dependencies, drop what belongs to the warm-up crate
    for f in glob.glob(f'{EXEC_BASE}/debug/examples/*'):
        try:
            os.remove(f)
        except IsADirectoryError:
            pass
    print('execution layer warm-up:', 'ok' if rc == 0 else out[-300:])


def canon_request(rec):
    """canonical text of a recorded request (credentials taken out), and the credential entries"""
    def hx(s):
        return s.encode().hex()
    creds = []

    def split(pairs, place):
        keep = []
        for k, v in pairs:
            if 'val_' in v:
                creds.append((place, k, v))
            else:
                keep.append((k, v))
        return keep
    q = split(rec.get('query') or [], 'query')
    h = split(rec.get('headers') or [], 'header')
    c = split(rec.get('cookies') or [], 'cookie')
    for place in ('bearer', 'basic', 'token'):
        if rec.get(place) is not None:
            creds.append((place, '', rec[place]))
    for m in rec.get('middlewares') or []:
        creds.append(('middleware', '', m))
    # the index an array-valued query parameter may carry is not part of its name
    q = [(re.sub(r'\[\d+\]', '[]', k), v) for k, v in q]
    # the order among different keys is nobody's business; the order of the values of one key is kept
    q = sorted(q, key=lambda kv: kv[0]); h = sorted(h, key=lambda kv: kv[0]); c = sorted(c, key=lambda kv: kv[0])

    def pairs(l):
        return ';'.join(f'{hx(k)}={hx(v)}' for k, v in l)

    def scalar(x):
        if isinstance(x, bool):
            return 'true' if x else 'false'
        if isinstance(x, (int, float)):
            return json.dumps(x)
        return x if isinstance(x, str) else json.dumps(x, sort_keys=True)
    body = rec.get('body')
    b = []
    if isinstance(body, dict):
        for k in sorted(body):
            v = body[k]
            if v is None:
                continue
            if isinstance(v, list):
                b.append(f'{hx(k)}=l' + ','.join(hx(scalar(x)) for x in v))
            else:
                b.append(f'{hx(k)}=s{hx(scalar(v))}')
    elif body is not None:
        b.append('RAW=' + hx(json.dumps(body, sort_keys=True)))
    text = '|'.join([rec.get('method', ''), rec.get('url', ''), pairs(q), pairs(h), pairs(c), ';'.join(b)])
    return text, creds


def sort_body(canon):
    parts = canon.split('|')
    if len(parts) == 6:
        for i in (2, 3, 4):
            parts[i] = ';'.join(sorted((x for x in parts[i].split(';') if x), key=lambda x: x.split('=')[0]))
        parts[5] = ';'.join(sorted(x for x in parts[5].split(';') if x))
    return '|'.join(parts)


def exec_run(tier, seed, d):
    """C03/C14/C15/C16 execution layer: generated client methods and examples run against the recording stand-in."""
    import shutil, base64
    cd = f'{d}/xcrates'
    shutil.rmtree(cd, ignore_errors=True)
    os.makedirs(cd)
    per = 3 if tier == 'quick' else 40
    profs = ['tame', 'rich', 'tame', 'tame', 'rich', 'tame', 'tame', 'rich']

    def gen(i):
        sh(f'{HARNESS} emit-crates --drivers --seed {seed + 77} --n {per} --out {cd} --shard {i} --profile {profs[i % len(profs)]} > /dev/null 2>{cd}/err_{i}.txt')
    with ThreadPoolExecutor(16) as ex:
        list(ex.map(gen, range(8)))
    members = sorted(x for x in os.listdir(cd) if x.startswith('c') and os.path.exists(f'{cd}/{x}/Cargo.toml'))
    open(f'{cd}/Cargo.toml', 'w').write('[workspace]\nresolver = "2"\nmembers = [%s]\n' % ', '.join(f'"{m}"' for m in members))
    shutil.copy('/repo/Cargo.lock', f'{cd}/Cargo.lock')
    tgt = f'{cd}/target'
    if os.path.isdir(EXEC_BASE):
        sh(f'cp -al {EXEC_BASE} {tgt}')
    env = dict(os.environ, CARGO_NET_OFFLINE='true', CARGO_TARGET_DIR=tgt, RUSTFLAGS='-Awarnings')
    rc, out, _ = sh('cargo build --workspace --examples --offline --keep-going -q 2>&1 | tail -5', cwd=cd, env=env, timeout=7200)
    cases = {}
    for f in glob.glob(f'{cd}/index_*.txt'):
        for l in open(f):
            q = l.rstrip('\n').split('\t')
            if len(q) >= 4:
                cases[q[0]] = q[3]
    expect = {}
    for f in glob.glob(f'{cd}/expect_*.txt'):
        for l in open(f):
            q = l.rstrip('\n').split('\t')
            if len(q) == 2:
                expect[q[0]] = json.loads(q[1])
    drivers = []
    for f in glob.glob(f'{cd}/drivers_*.txt'):
        for l in open(f):
            q = l.rstrip('\n').split('\t')
            if len(q) == 5:
                drivers.append(dict(crate=q[0], name=q[1], kind=q[2], op=q[3], args=q[4]))
    rejected = set()
    for f in glob.glob(f'{cd}/known_*.txt'):
        for l in open(f):
            rejected.add(l.split('\t')[0])
    stats = {'crates': len(members), 'drivers': len(drivers), 'ran': 0, 'not_built': 0, 'requests': 0, 'agree': 0}
    findings = []; disagreements = []
    # what the model predicts for the method-call drivers
    with open(f'{cd}/rcases.txt', 'w') as f:
        for dr in drivers:
            if dr['kind'] == 'call' and dr['crate'] in cases:
                f.write(f"{dr['crate']} {dr['name']} {dr['op']} {dr['args']} {cases[dr['crate']]}\n")
    rc, mout, _ = sh(f'{DRIVER} request < {cd}/rcases.txt', timeout=1800)
    model = {}
    for l in mout.split('\n'):
        q = l.split(' ')
        if len(q) == 3:
            model[(q[0], q[1])] = q[2]
    # what Sem/Request.v auth_plan_of says a from_env client adds to every request
    with open(f'{cd}/acases.txt', 'w') as f:
        for cid in sorted({dr['crate'] for dr in drivers}):
            if cid in cases:
                f.write(f"{cid} {cases[cid]}\n")
    rc, aout, _ = sh(f'{DRIVER} auth < {cd}/acases.txt', timeout=1800)
    amodel = {}
    for l in aout.split('\n'):
        q = l.split(' ', 1)
        if len(q) == 2:
            amodel[q[0]] = q[1]
    stats['auth_compared'] = 0; stats['auth_agrees'] = 0
    for dr in drivers:
        cid = dr['crate']
        exe = f"{tgt}/debug/examples/{dr['name']}"
        spec = dehex(cases.get(cid, ''))[:5000]
        if not os.path.exists(exe):
            stats['not_built'] += 1
            if cid not in rejected and dr['kind'] == 'call':
                # the library compiles (no expected rejection) but a program written from the declared inputs does not
                findings.append((cid, 'C05', '', f"driver {dr['name']} for operation {bytes.fromhex(dr['op'][1:]).decode()} does not compile against the generated crate: the method does not take the declared inputs (required ones as arguments, optional ones as setters)", spec))
            continue
        lib = open(f'{cd}/c{cid}/src/lib.rs').read()
        envv = dict(os.environ)
        for name in set(re.findall(r'std::env::var\(\s*"([^"]+)"\s*\)', lib)):
            envv[name] = 'val_' + name
        p = subprocess.run([exe], env=envv, stdout=subprocess.PIPE, stderr=subprocess.PIPE, text=True, timeout=60)
        stats['ran'] += 1
        reqs = [json.loads(l[8:]) for l in p.stdout.split('\n') if l.startswith('REQUEST ')]
        stats['requests'] += len(reqs)
        what = f"{dr['kind']} {dr['name']} (operation {bytes.fromhex(dr['op'][1:]).decode()})"
        if len(reqs) != 1:
            findings.append((cid, 'C16' if dr['kind'] == 'example' else 'C03', '', f'{what}: {len(reqs)} requests were sent, expected exactly one; stderr: {p.stderr[-300:]}', spec))
            continue
        rec = reqs[0]
        text, creds = canon_request(rec)
        ex = expect.get(cid, {})
        # C15: where the base URL comes from
        srv = ex.get('server', {})
        want_base = srv.get('url') if 'url' in srv else 'val_' + srv.get('env', '?')
        if rec.get('base_url') != want_base:
            cls = 'several_servers_not_env' if ex.get('n_servers', 0) >= 2 else ''
            findings.append((cid, 'C15', cls, f'{what}: base URL {rec.get("base_url")!r}, the document asks for {want_base!r}', spec))
        # C14: the credentials of the first requirement, each from <SERVICE>_<NAME>, at the declared place
        if ex.get('auth') == 'token':
            for cr in ex.get('credentials', []):
                val = 'val_' + cr['env']
                if cr['place'] == 'basic':
                    val = base64.b64encode(val.encode()).decode().rstrip('=')
                want = (cr['place'], cr.get('key', '') if cr['place'] in ('header', 'query', 'cookie') else '', val)
                if want not in creds:
                    findings.append((cid, 'C14', '', f'{what}: credential of scheme {cr["scheme"]} expected as {want}, the request carries {creds}', spec))
        elif ex.get('auth') in ('none', 'anonymous') and creds:
            findings.append((cid, 'C14', '', f'{what}: no credential is declared but the request carries {creds}', spec))
        # the same credentials, as the Coq model of from_env + authenticate predicts them
        am = amodel.get(cid, '')
        if am.startswith('ok:'):
            kind = am[3:].split('|')[0]
            want_set = None
            if kind in ('none', 'anonymous'):
                want_set = set()
            elif kind == 'fields':
                want_set = set()
                for item in am[3:].split('|', 1)[1].split(';'):
                    if not item:
                        continue
                    pl, cr = item.split('=', 1)
                    pname, _, key = pl.partition(':')
                    ckind, _, envn = cr.partition(':')
                    val = 'val_' + envn
                    if ckind == 'base64':
                        val = base64.b64encode(val.encode()).decode().rstrip('=')
                    want_set.add((pname, bytes.fromhex(key).decode() if key else '', val))
            elif kind == 'oauth2':
                want_set = {('middleware', '', 'oauth2:val_' + am[3:].split('|')[1])}
            if want_set is not None:
                stats['auth_compared'] += 1
                if set(creds) == want_set:
                    stats['auth_agrees'] += 1
                elif len(disagreements) < 20:
                    disagreements.append({'case': cid, 'props': ('C14',), 'driver': dr['name'], 'what': 'credentials on the executed request differ from Sem/Request.v auth_plan_of',
                                          'executed': sorted(creds), 'model': sorted(want_set), 'spec': spec})
        if dr['kind'] == 'call':
            # document level: every member of the JSON body that is sent is a property the document declares for this body
            tplc = ex.get('ops', {}).get(dr['op'])
            if tplc and len(tplc) > 2 and tplc[2] is not None and isinstance(rec.get('body'), dict):
                extra = sorted(k for k in rec['body'] if k not in tplc[2])
                if extra:
                    findings.append((cid, 'C03', '', f'{what}: the body carries {extra}, the document declares only {sorted(tplc[2])} for this body', spec))
            m = model.get((cid, dr['name']))
            if m is None or not m.startswith('ok:'):
                disagreements.append({'case': cid, 'props': ('C03',), 'driver': dr['name'], 'what': 'the model has no prediction', 'model': m, 'spec': spec})
                continue
            mt = bytes.fromhex(m[3:]).decode()
            if sort_body(mt) == sort_body(text):
                stats['agree'] += 1
            elif len(disagreements) < 20:
                disagreements.append({'case': cid, 'props': ('C03',), 'driver': dr['name'], 'what': 'executed request differs from Sem/Request.v run_operation',
                                      'executed': text, 'model': mt, 'args': dehex(dr['args']), 'spec': spec})
        else:
            # libninja's own example: one request to THAT operation
            tpl = ex.get('ops', {}).get(dr['op'])
            if tpl:
                verb, path = tpl[0], tpl[1]
                rx = '^' + re.sub(r'\\\{[^}]*\\\}', '[^/]+', re.escape(path)) + '$'
                if rec.get('method') != verb or not re.match(rx, rec.get('url', '')):
                    findings.append((cid, 'C16', '', f'{what}: the request is {rec.get("method")} {rec.get("url")}, the operation is {verb} {path}', spec))
    # ---- C04: instances synthesised from the schemas through real serde on the compiled types
    def norm(v):
        if isinstance(v, dict):
            return {k: norm(x) for k, x in v.items() if x is not None and x != [] }
        if isinstance(v, list):
            return [norm(x) for x in v]
        return v
    by_crate = {}
    for f in glob.glob(f'{cd}/serde_*.txt'):
        for l in open(f):
            q = l.rstrip('\n').split('\t', 5)
            if len(q) == 6:
                by_crate.setdefault(q[0], []).append(q)
    sstats = {'instances': 0, 'round_trips_equal': 0, 'rejected_as_required': 0, 'crates': 0, 'kinds': {},
              'model_compared': 0, 'model_agrees': 0, 'model_skipped': {}}
    # what Sem/Serde.v says about every instance (struct level)
    with open(f'{cd}/scases.txt', 'w') as f:
        for cid, rows in by_crate.items():
            if cid in cases:
                for q in rows:
                    sx = q[4].split('|')[2] if q[4].count('|') >= 2 else 'null'
                    f.write(f"{cid} {q[1]} {q[3]} {sx} {cases[cid]}\n")
    rc, sout, _ = sh(f'{DRIVER} serde < {cd}/scases.txt', timeout=1800)
    smodel = {}
    for l in sout.split('\n'):
        w = l.split(' ')
        if len(w) == 3:
            smodel[(w[0], w[1])] = w[2]
    for cid, rows in by_crate.items():
        exe = f'{tgt}/debug/examples/lnv_serde_{cid}'
        if not os.path.exists(exe):
            continue
        sstats['crates'] += 1
        spec = dehex(cases.get(cid, ''))[:5000]
        inp = ''.join(f'{q[1]}\t{q[2]}\t{q[5]}\n' for q in rows)
        p = subprocess.run([exe], input=inp, stdout=subprocess.PIPE, stderr=subprocess.PIPE, text=True, timeout=120)
        got = dict(l.split('\t', 1) for l in p.stdout.split('\n') if '\t' in l)
        for q in rows:
            k, ty, schema, kind, js = q[1], q[2], bytes.fromhex(q[3][1:]).decode(), q[4], q[5]
            kind, flags = kind.split('|')[0], (kind.split('|') + [''])[1]
            flags = [x for x in flags.split(',') if x]
            # Sem/Serde.v against real serde_derive, instance by instance
            mres = smodel.get((cid, k), 'skip:no_answer')
            rr = got.get(k)
            if mres.startswith('skip:') or rr is None:
                sstats['model_skipped'][mres[5:]] = sstats['model_skipped'].get(mres[5:], 0) + 1
            elif 'adapter_value_nested' in flags and not rr.startswith('ok '):
                sstats['model_skipped']['open_finding_shape'] = sstats['model_skipped'].get('open_finding_shape', 0) + 1
            else:
                sstats['model_compared'] += 1
                if mres == 'rej':
                    same = not rr.startswith('ok ')
                else:
                    same = rr.startswith('ok ') and norm(json.loads(bytes.fromhex(mres[3:]).decode())) == norm(json.loads(rr[3:]))
                if same:
                    sstats['model_agrees'] += 1
                elif len(disagreements) < 20:
                    disagreements.append({'case': cid, 'props': ('C04',), 'what': f'Sem/Serde.v serde_struct and real serde disagree on an instance of schema {schema} ({kind})',
                                          'instance': js, 'serde': rr, 'model': mres if mres == 'rej' else bytes.fromhex(mres[3:]).decode(), 'spec': spec})
            sstats['instances'] += 1
            kk = kind.split(':')[0]
            sstats['kinds'][kk] = sstats['kinds'].get(kk, 0) + 1
            r = got.get(k)
            if r is None:
                findings.append((cid, 'C04', '', f'schema {schema} ({kind}): no answer from the serde driver; stderr {p.stderr[-200:]}', spec))
                continue
            if kind.startswith('missing:'):
                if r.startswith('ok '):
                    findings.append((cid, 'C04', 'missing_member_filled_in', f'schema {schema}: an instance lacking the required member {kind[8:]!r} was accepted ({js} -> {r[3:]})', spec))
                else:
                    sstats['rejected_as_required'] += 1
                continue
            if not r.startswith('ok '):
                # the two shapes recorded as open findings, recognised by the label of the instance AND the error serde gives
                cls = ''
                if 'adapter_value_nested' in flags and ('expected a formatted date string' in r or 'expected i64' in r or 'invalid type: string' in r):
                    cls = 'adapter_value_nested'
                findings.append((cid, 'C04', cls, f'schema {schema} ({kind}): a valid instance was rejected: {js} -> {r}', spec))
                continue
            back = json.loads(r[3:])
            if norm(back) == norm(json.loads(js)):
                sstats['round_trips_equal'] += 1
            else:
                findings.append((cid, 'C04', '', f'schema {schema} ({kind}): {js} came back as {r[3:]}', spec))
    stats['serde'] = sstats
    shutil.rmtree(cd, ignore_errors=True)
    return stats, findings, disagreements


def run(prop, tier, seed, extra_props=(), also_hir=False, compile_layer=False, det_layer=False, exec_layer=False):
    t0 = time.time()
    out = Outcome(prop)
    d = rundir(prop)
    for f in glob.glob(f'{d}/e*'):
        os.remove(f)
    coq_ok, drv_ok, har_ok, logs = build_all()
    cli_ok, cli_log = build_cli()
    ps = proof_side(prop)
    total = nontriv = files_equal = 0; feats = {}; samples = []; disagreements = []; oracle = []; known_seen = {}
    hir_part = None; compile_part = None; det_part = None; exec_part = None; outside_view = []; emission_findings = set()
    if not (har_ok and drv_ok and cli_ok):
        out.violation('build', {'what': 'harness, driver or CLI build failed', 'logs': {**logs, 'cli': cli_log}}, no_input=True)
    else:
        total, nontriv, feats, samples, disagreements, findings, files_equal = emit_run(tier, seed, d)
        # only these carry case ids of the emission run (the HIR, compile and execution layers number their own cases and
        # decide known classes against the model themselves)
        emission_findings = set((f[0], f[1], f[3]) for f in findings)
        outside_view = [x for x in disagreements if not in_view(prop, x)]
        disagreements = [x for x in disagreements if in_view(prop, x)]
        known_map = dict(KNOWN_CLASSES)
        if also_hir:
            from . import hirprops
            for f in glob.glob(f'{d}/h*'):
                os.remove(f)
            ht, hn, hf, hs, hd, hfind = hirprops.hir_run(prop, tier, seed, d)
            hir_part = dict(evaluations=ht, distinct_nontrivial=hn, disagreements=len(hd), disagreements_outside_view=len(hirprops.OUTSIDE_VIEW))
            disagreements += [dict(x, level='HIR') for x in hd if x]
            findings += hfind
            known_map.update(hirprops.KNOWN_CLASSES)
        if compile_layer:
            cstats, cerrs, cknown, cunconf = compile_run(tier, seed, d)
            for cid, target, msg, spec in cerrs:
                # a rejected example is C16's business, a rejected library C02's
                findings.append((cid, 'C16' if target == 'example' else 'C02', '', 'rustc: ' + msg, spec))
            for cls, lst in cknown.items():
                kid = COMPILE_CLASSES.get(cls)
                for cid, msg in lst:
                    if kid:
                        known_seen.setdefault(kid, []).append((cid, 'rustc: ' + msg))
                    else:
                        findings.append((cid, 'C02', '', f'rustc (class {cls}): {msg}', ''))
            compile_part = dict(crates=cstats, unconfirmed_expected_rejections=cunconf[:10],
                                rule='crates emitted by the real CLI (profiles tame/rich/wild, examples on), `cargo check --lib --examples` against /verif/standins + real serde, serde_json, chrono, tokio; an error outside the files the compile oracle expects to be rejected is a violation')
        if exec_layer:
            xstats, xfind, xdis = exec_run(tier, seed, d)
            findings += xfind
            # each comparison of the execution layer belongs to one property (request content C03, credentials C14, serde C04)
            disagreements += [dict(x, level='execution') for x in xdis if prop in x.get('props', (prop,))]
            exec_part = dict(xstats, rule='crates emitted by the real CLI are built with driver programs that call every client method whose inputs are strings, integers, floats, booleans or lists of those, with sentinel arguments and 1-3 subsets of the optional setters, plus a copy of each generated example; every binary runs against the recording stand-in for httpclient with every environment variable lib.rs reads set to val_<NAME>; the recorded request is compared with Sem/Request.v run_operation on the same arguments (call drivers) and with the document (exactly one request, verb and path of the operation, base URL source, credentials of the first security requirement)')
        if det_layer:
            dstats, ddiffs = det_run(tier, seed, d)
            for cid, msg, spec in ddiffs:
                findings.append((cid, 'C09', '', msg, spec))
            det_part = dict(dstats, rule='corpus (alias chains, unsorted paths, many components) then generated (spec, config) pairs (profiles big/rich/tame); per case: JSON into a fresh directory, YAML into a directory at another depth from another working directory, JSON again in place over the first tree, then more JSON runs in fresh directories - every run a separate process with its own hash seeds; all exits and all trees must be identical byte for byte')
        mine = (prop,) + tuple(extra_props)
        if compile_layer and not any(f[1] in mine and (f[1], f[2]) not in known_map for f in findings):
            # the correspondence is broken inside this property's view and nothing failed so far: compile the crates of
            # the very cases on which model and implementation disagree (search for a failing input)
            ids = []
            for x in disagreements:
                try:
                    c = int(x.get('case')) if x and x.get('file') else None
                except (TypeError, ValueError):
                    c = None
                if c is not None and c < 900000 and c not in ids:
                    ids.append(c)
            if ids:
                tstats, terrs, tknown, _ = compile_run(tier, seed, d, targeted=ids[:24])
                compile_part['targeted_search'] = dict(cases=ids[:24], crates=tstats)
                for cid, target, msg, spec in terrs:
                    findings.append((cid, 'C16' if target == 'example' else 'C02', '', 'rustc (crate of a case on which model and implementation disagree): ' + msg, spec))
        for cid, p, cls, msg, spec in findings:
            if p not in mine:
                continue
            if (p, cls) in known_map and (cid, p, msg) in emission_findings and not agrees_in_view(p, cid):
                cls = ''
            if (p, cls) in known_map:
                known_seen.setdefault(known_map[(p, cls)], []).append((cid, msg))
            else:
                oracle.append({'case': cid, 'property': p, 'message': msg, 'config_and_spec': spec})
    known = {f['id']: f for f in load_known()['findings'] if f.get('status') == 'open'}
    for kid, lst in known_seen.items():
        if kid in known:
            if prop in (known[kid].get('properties') or [known[kid].get('property')]):
                out.known_finding(f"{known[kid]['what']} (seen on {len(lst)} case(s), e.g. case {lst[0][0]}: {lst[0][1][:160]})")
        else:
            oracle.append({'case': lst[0][0], 'property': prop, 'message': lst[0][1], 'note': f'class {kid} is not listed open in known_findings.json'})
    if oracle:
        out.violation('oracle', {'what': f'direct oracle for {prop} failed on the crate the real `libninja gen` emitted', 'count': len(oracle), 'failures': oracle[:5],
                                 'replay': 'each failure carries the configuration and abstract spec (S-expressions); the harness renders the spec to OpenAPI JSON and runs the CLI'})
    proof_broken = bool(ps['problems']) or ps['discharged'] != ps['obligations'] or not coq_ok
    if proof_broken and not oracle:
        out.violation('proof', {'what': f'proof obligations of Properties/{prop}.v no longer check', 'problems': ps['problems'],
                                'searched': f'{total} generated crates through the direct oracles, none failed outside the known classes'}, no_input=True)
    dis = [x for x in disagreements if x]
    if disagreements and not oracle:
        out.violation('correspondence', {'what': 'the emitted files differ from the files the model (coq/Model/Emit.v) predicts; the direct oracles found no failing input',
                                         'count': len(disagreements), 'first': dis[:3]}, no_input=True)
    cov = dict(obligations=ps['obligations'], discharged=ps['discharged'],
               checker_cmd=f'make -C coq Properties/{prop}.vo && coqc Properties/{prop}.v (Print Assumptions parsed)',
               trusted_base=TRUSTED + ['syn 2 / prettyplease (pinned by /repo/Cargo.lock) applied identically to the implementation\'s files and to the model\'s predicted text; string literals compared by value',
                                       'the semantics of the third-party APIs the emitted code calls (httpclient builder methods, serde derive attributes) is modelled, not executed, in the quick tier']
                            + [f'{n}: {a}' for n, a in ps['theorems']],
               evaluations=total, distinct_nontrivial=nontriv, files_compared_equal=files_equal,
               rule='corpus then generated (spec, config) pairs: specs as in the HIR engine (rich profile; every third shard wild), configs = service names of one or more words, 0-4 derive strings over simple/nested/padded/duplicate/un-tokenisable, examples on/off; every file of every emitted crate is compared with the predicted file; non-trivial = at least one feature fired; distinct by input text',
               samples=samples, feature_histogram=feats, disagreements_checked=len(disagreements), oracle_failures=len(oracle),
               disagreements_outside_view=dict(count=len(outside_view), view=(VIEW.get(prop) or {}).get('text'), first=[{k: x[k] for k in ('case', 'file', 'section', 'docs_only')} for x in outside_view if x][:5]),
               known_findings_seen={k: len(v) for k, v in known_seen.items()}, proof_problems=ps['problems'], hir_level=hir_part, compile_level=compile_part, determinism_level=det_part, execution_level=exec_part,
               totality_hypotheses=dict(WF, note='Spec/Wf.v hir_ok (depth 60) evaluated on every table the model extracts: t = C01_emission_total applies, f = it does not (f_but_generated: the implementation produced a crate anyway), x = extraction itself returned an error; spec_ok_t / spec_ok_f = Spec/WfSpec.v spec_ok (depth 60) on the document, t = C01_extraction_total applies; both_t = both theorems apply, the whole pipeline is proved total on that input'))
    write_evidence(prop, tier, seed, 'proof', cov, time.time() - t0, len(out.violations),
                   assumptions=['names and documentation are ASCII or UTF-8 text; trimming is modelled for ASCII white space'])
    return out.finish()
