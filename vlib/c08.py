from . import hirprops
def run(tier, seed):
    return hirprops.run('C08', tier, seed)
