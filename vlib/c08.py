from . import emitprops
def run(tier, seed):
    return emitprops.run('C08', tier, seed, also_hir=True)
