from . import emitprops
def run(tier, seed):
    return emitprops.run('C04', tier, seed, also_hir=True, exec_layer=True)
