from . import fsprops
def run(tier, seed):
    return fsprops.run('C12', tier, seed)
