from . import hirprops
def run(tier, seed):
    return hirprops.run('C06', tier, seed)
