from . import emitprops
def run(tier, seed):
    return emitprops.run('C06', tier, seed, also_hir=True)
