"""C13 — every name becomes a valid, keyword-free Rust identifier."""
import os, time
from .common import *


def decode(v):
    return ('ok:' + bytes.fromhex(v[3:]).decode('latin1')) if v.startswith('ok:') else v


def parse_line(l):
    p = l.split()
    d = dict(x.split('=', 1) for x in p[1:] if '=' in x)
    d['name'] = bytes.fromhex(p[0]).decode('latin1')
    d['nondet'] = 'NONDET' in p
    return d


def run(tier, seed):
    t0 = time.time()
    out = Outcome('C13')
    d = rundir('C13')
    coq_ok, drv_ok, har_ok, logs = build_all()
    ps = proof_side('C13')
    shards = [None] if tier == 'quick' else [None] + [(i, 16) for i in range(16)]
    total = 0
    distinct_nontrivial = 0
    disagreements = []
    oracle_fail = []
    samples = []
    if not har_ok or not drv_ok:
        out.violation('build', {'what': 'harness or driver build failed', 'logs': logs}, no_input=True)
    else:
        for sh_i in shards:
            tag = 'base' if sh_i is None else f's{sh_i[0]}'
            cases, impl, model = f'{d}/cases_{tag}.txt', f'{d}/impl_{tag}.obs', f'{d}/model_{tag}.obs'
            shard_arg = '' if sh_i is None else f'--shard {sh_i[0]}/{sh_i[1]}'
            sh(f'{HARNESS} names-gen --tier {tier} --seed {seed} {shard_arg} --out {cases}')
            sh(f'{HARNESS} names-impl --in {cases} --out {impl}')
            sh(f'{DRIVER} names < {cases} > {model}')
            with open(impl) as fi, open(model) as fm:
                li, lm = fi.readlines(), fm.readlines()
            if len(li) != len(lm):
                disagreements.append({'what': 'line count', 'impl': len(li), 'model': len(lm)})
            for a, b in zip(li, lm):
                total += 1
                a = a.rstrip('\n'); b = b.rstrip('\n')
                da = parse_line(a)
                if any(c in da['name'] for c in "_.- /:@'+") or any(c.isdigit() for c in da['name']) or da['name'] != da['name'].lower():
                    distinct_nontrivial += 1
                if len(samples) < 6 and total % 50021 == 7:
                    samples.append({'name': da['name'], 'field': decode(da['F']), 'type': decode(da['T']), 'op_module': decode(da['O'])})
                # direct oracle on the implementation's outputs (syn + proc_macro2 judge)
                opid = all(c.isalnum() or c in '_.- ' for c in da['name'])
                if da['OKF'] != '1' or da['OKT'] != '1' or (opid and da['OKO'] != '1') or da['nondet'] or 'M' in da:
                    if len(oracle_fail) < 50:
                        oracle_fail.append({'name': da['name'], 'field': decode(da['F']), 'type': decode(da['T']),
                                            'op_module': decode(da['O']), 'syn_accepts_field': da['OKF'], 'syn_accepts_type': da['OKT'],
                                            'syn_accepts_op_module': da['OKO'], 'nondeterministic': da['nondet'],
                                            'filename_differs': da.get('M')})
                    else:
                        oracle_fail.append(None)
                elif a != b:
                    if len(disagreements) < 50:
                        disagreements.append({'name': da['name'], 'impl': a, 'model': b})
                    else:
                        disagreements.append(None)
            if tier == 'thorough' and sh_i is not None:
                for f in (cases, impl, model):
                    os.remove(f)
    # decision
    if oracle_fail:
        first = [x for x in oracle_fail if x][:10]
        out.violation('oracle', {'what': 'implementation output is not a valid non-reserved identifier (judged by syn::parse_str::<Ident> and proc_macro2::Ident::new)',
                                 'count': len(oracle_fail), 'inputs': first,
                                 'replay': 'mir_rust::ToRustIdent::to_rust_ident / to_rust_struct / hir::Operation::file_name on "name"'})
    if ps['problems'] or ps['discharged'] != ps['obligations'] or not coq_ok:
        if not oracle_fail:
            out.violation('proof', {'what': 'proof obligations of Properties/C13.v no longer check', 'problems': ps['problems'],
                                    'searched': f'{total} names through the direct oracle, none failed'}, no_input=True)
    if disagreements and not oracle_fail:
        out.violation('correspondence', {'what': 'model and implementation disagree on names (correspondence Names.v <-> mir_rust/src/lib.rs broken); the direct oracle found no failing input among them',
                                         'count': len(disagreements), 'first': [x for x in disagreements if x][:10]}, no_input=True)
    cov = dict(obligations=ps['obligations'], discharged=ps['discharged'],
               checker_cmd='make -C coq Properties/C13.vo && coqc Properties/C13.v (Print Assumptions parsed)',
               trusted_base=TRUSTED + [f'{n}: {a}' for n, a in ps['theorems']],
               evaluations=total, distinct_nontrivial=distinct_nontrivial,
               rule='exhaustive strings of length<=3 over the 71-character name alphabet containing an alphanumeric (thorough: +length 4 full alphabet, +length<=5 over a 15-symbol class-representative alphabet), keywords x casings x prefixes/suffixes, dictionary, names harvested from bundled specs, 20k random composites; non-trivial = contains a separator, digit or upper-case letter',
               samples=samples, disagreements_checked=len(disagreements), oracle_failures=len(oracle_fail),
               exhaustive=True, proof_problems=ps['problems'])
    write_evidence('C13', tier, seed, 'proof', cov, time.time() - t0, len(out.violations),
                   assumptions=['lexical validity = ASCII fragment of the Rust reference grammar, cross-checked against syn on every case',
                                'convert_case 0.6.0 and the regex are modelled (Case.v, Names.v), tied by byte-equality of outputs on every generated name'])
    return out.finish()
