"""C20: the code-building macros reproduce what was written inside them.
Generated macro invocations (token trees from the grammar of the property) are compiled into a probe crate against
/repo/macro, /repo/mir and /repo/mir_rust; what the expansions yield at run time is compared
 (a) with what the Coq model of the macros (coq/Model/Macro.v, extracted) yields on the same token trees — exact strings —
 (b) with the tokens that were written (semicolons removed, interpolations substituted), token-wise: the direct oracle."""
import os, time, re, json, random, shutil, glob
from .common import *

IDENTS = ['a', 'b', 'x', 'foo', 'print', 'self', 'response', 'client', 'it', 'buf', 'if', 'else', 'return', 'for', 'in', 'let', 'fmt', 'os', 'Exit',
          'camelCase', 'snake_case', 'r2', '_t', 'r#type', '_', 'Self', 'crate']
PUNCTS = list('+-*/=<>!&|:,.%^?@~')
INT_LITS = ['0', '1', '42', '1_000', '0x1f', '3.14', '2u8']
STR_LITS = ['"get"', '"a b"', '"{}"', '"a{b}c"', '"{{x}}"', '"semi;colon"', '"quote\\"d"', '"new\\nline"', '""', '"}{"', 'b"bytes"', "'c'", '"  padded  "',
            # braces in literals that do not start with a plain double quote: raw, byte, char
            'r"{{x}}"', 'r#"{"k": 1}"#', 'b"{}"', "'{'", 'r"{0}"', "'}'"]
VARS = {'v0': ('"alpha"', 'alpha'), 'v1': ('42', '42'), 'v2': ('"Beta_2"', 'Beta_2'), 'v3': ('7', '7')}
TVARS = {'t0': 'Vec<u8>', 't1': 'String', 't2': "&'static str"}
TYPES = ['i32', 'String', 'bool', 'u64', 'Client', 'Self']
DELIMS = {'paren': '()', 'brace': '{}', 'bracket': '[]'}


def I(s): return ('i', s)
def P(c): return ('p', c)
def L(s): return ('l', s)
def G(d, body): return ('g', d, body)


class Gen:
    def __init__(self, seed):
        self.r = random.Random(seed)

    def atom(self, depth, allow_interp=True):
        r = self.r
        k = r.random()
        if k < 0.30:
            return [I(r.choice(IDENTS))]
        if k < 0.42:
            return [L(r.choice(INT_LITS))]
        if k < 0.54:
            return [L(r.choice(STR_LITS))]
        if k < 0.66 and allow_interp:
            return [P('#'), I(r.choice(list(VARS)))]
        if k < 0.84 and depth > 0:
            d = r.choice(list(DELIMS))
            return [G(d, self.seq(depth - 1, group=d))]
        return [I(r.choice(IDENTS))]

    def expr(self, depth):
        """a run of atoms joined by punctuation runs; `.` only after an identifier or a group"""
        r = self.r
        out = self.atom(depth)
        for _ in range(r.randrange(0, 5)):
            prev = out[-1]
            n = r.choice([0, 1, 1, 1, 2, 3])
            ps = []
            for _ in range(n):
                c = r.choice(PUNCTS)
                interp = len(out) >= 2 and out[-2] == P('#')
                if c == '.' and not (prev[0] in ('i', 'g') and not ps and not interp):
                    c = ','
                ps.append(P(c))
            nxt = self.atom(depth)
            if ps and ps[-1][1] == '.' and nxt[0][0] == 'l':
                nxt = [I(r.choice(IDENTS))]
            out += ps + nxt
        return out

    def seq(self, depth, group=None):
        """statements separated by `;`, with or without a trailing unterminated expression; sometimes a repeated statement"""
        r = self.r
        n = r.choice([0, 1, 1, 1, 2, 3, 4]) if group else r.choice([1, 1, 2, 3, 4, 5])
        if group in ('paren', 'bracket') and r.random() < 0.7:
            # argument list
            out = []
            for i in range(r.randrange(0, 4)):
                if i:
                    out.append(P(','))
                out += self.expr(depth)
            return out
        out = []
        last = None
        for i in range(n):
            st = self.expr(depth)
            if last is not None and r.random() < 0.25:
                st = list(last)         # the same statement twice in a row
            out += st
            last = st
            if i < n - 1 or r.random() < 0.5:
                out.append(P(';'))
        return out

    def header(self, rust):
        r = self.r
        flags = []
        if r.random() < 0.5:
            flags.append('pub')
        if r.random() < 0.5:
            flags.append('async')
        if r.random() < 0.2:
            flags.reverse()
        toks = [I(f) for f in flags]
        if r.random() < 0.2:
            name = ('var', 'n0')
            toks += [P('#'), I('n0')]
        else:
            nm = r.choice(['main', 'get_pet', 'NewClientFromEnv', 'add', 'r#type'][:4])
            name = ('text', nm)
            toks.append(I(nm))
        args = []
        arg_toks = []
        for i in range(r.randrange(0, 5)):
            an = ['a', 'b', 'count', 'items', 'opt'][i]
            if i:
                arg_toks.append(P(','))
            arg_toks += [I(an), P(':')]
            if rust:
                if r.random() < 0.35:
                    tv = r.choice(list(TVARS))
                    arg_toks += [P('#'), I(tv)]
                    args.append((an, ('tvar', tv), None))
                else:
                    ty = r.choice(TYPES)
                    arg_toks.append(I(ty))
                    args.append((an, ('text', ty), None))
            else:
                k = r.random()
                if k < 0.3:
                    v = r.choice(['v0', 'v2'])
                    arg_toks += [P('#'), I(v)]
                    ty = ('var', v)
                elif k < 0.5:
                    arg_toks += [I('requests'), P('.'), I('Response')]
                    ty = ('text', 'requests.Response')
                else:
                    t = r.choice(['int', 'str', 'Any', 'bool'])
                    arg_toks.append(I(t))
                    ty = ('text', t)
                d = None
                if r.random() < 0.2:
                    d = r.choice(['5', '"x"', '1.5'])
                    arg_toks += [P('='), L(d)]
                args.append((an, ty, d))
        toks.append(G('paren', arg_toks))
        ret = None
        if rust:
            k = r.random()
            if k < 0.25:
                ret = [I(r.choice(TYPES))]
            elif k < 0.45:
                ret = [I('Result'), P('<'), P('#'), I('t0'), P(','), I('Box'), P('<'), I('dyn'), I('std'), P(':'), P(':'), I('error'), P(':'), P(':'), I('Error'), P('>'), P('>')]
            elif k < 0.6:
                ret = [P('&'), I('str')]
            elif k < 0.75:
                ret = [P('#'), I(r.choice(list(TVARS)))]
            if ret:
                toks += [P('-'), P('>')] + ret
        else:
            k = r.random()
            if k < 0.3:
                ret = ('text', r.choice(['int', 'str']))
                toks += [P('-'), P('>'), I(ret[1])]
            elif k < 0.45:
                ret = ('text', 'requests.Response')
                toks += [P('-'), P('>'), I('requests'), P('.'), I('Response')]
            elif k < 0.6:
                ret = ('var', 'v0')
                toks += [P('-'), P('>'), P('#'), I('v0')]
        return toks, flags, name, args, ret


def src(toks, rng):
    """Rust source text that lexes to exactly these tokens (adjacent punctuation sometimes written jointly)"""
    out = []
    prev_p = False
    for t in toks:
        if t[0] == 'p':
            joint = prev_p and rng.random() < 0.5 and (out[-1][-1] + t[1]) not in ('//', '/*', '*/') and out[-1][-1] not in "'" \
                and not (out[-1][-1] == '#')
            if joint:
                out[-1] += t[1]
            else:
                out.append(t[1])
            prev_p = True
            continue
        prev_p = False
        if t[0] in ('i', 'l'):
            out.append(t[1])
        else:
            o, c = DELIMS[t[1]]
            out.append(o + ' ' + src(t[2], rng) + ' ' + c)
    return ' '.join(out)


def hexs(s):
    return '#' + s.encode().hex()


def sexp(toks):
    out = []
    for t in toks:
        if t[0] == 'g':
            out.append(f'(g {t[1]} {sexp(t[2])})')
        else:
            out.append(f'({t[0]} {hexs(t[1])})')
    return ' '.join(out)


def canon(toks, subst=None):
    """canonical token text of what was written: `;` removed at every depth, interpolations substituted"""
    out = []
    i = 0
    while i < len(toks):
        t = toks[i]
        if t[0] == 'p' and t[1] == '#' and subst is not None and i + 1 < len(toks) and toks[i + 1][0] == 'i' and toks[i + 1][1] in subst:
            out.append(subst[toks[i + 1][1]])
            i += 2
            continue
        if t[0] == 'p' and t[1] == ';' and subst is not None:
            i += 1
            continue
        if t[0] == 'i':
            out.append('I:' + t[1])
        elif t[0] == 'p':
            out.append('P:' + t[1])
        elif t[0] == 'l':
            out.append('L:' + t[1])
        else:
            o, c = DELIMS[t[1]]
            inner = canon(t[2], subst)
            out.append(('G' + o + ' ' + inner + ' ' + c))
        i += 1
    return ' '.join(out)


VAL_CANON = {'v0': 'I:alpha', 'v1': 'L:42', 'v2': 'I:Beta_2', 'v3': 'L:7'}
TVAL_CANON = {'t0': 'I:Vec P:< I:u8 P:>', 't1': 'I:String', 't2': "P:& P:' I:static I:str"}

PRELUDE = r'''#![allow(unused, non_snake_case)]
use libninja_macro::{body, function, rfunction};
use mir::Function;
use mir_rust::ToRustCode;
use proc_macro2::{TokenStream, TokenTree, Delimiter};
use quote::quote;
fn hex(s: &str) -> String { s.bytes().map(|b| format!("{:02x}", b)).collect() }
fn canon(ts: TokenStream) -> String {
    let mut out: Vec<String> = vec![];
    for t in ts {
        match t {
            TokenTree::Ident(i) => out.push(format!("I:{}", i)),
            TokenTree::Punct(p) => out.push(format!("P:{}", p.as_char())),
            TokenTree::Literal(l) => out.push(format!("L:{}", l)),
            TokenTree::Group(g) => {
                let (o, c) = match g.delimiter() { Delimiter::Parenthesis => ("(", ")"), Delimiter::Brace => ("{", "}"), Delimiter::Bracket => ("[", "]"), Delimiter::None => ("<", ">") };
                out.push(format!("G{} {} {}", o, canon(g.stream()), c));
            }
        }
    }
    out.join(" ")
}
fn canon_str(s: &str) -> String { match s.parse::<TokenStream>() { Ok(ts) => canon(ts), Err(_) => "LEXFAIL".to_string() } }
fn show_fn(f: &Function<String>) -> String {
    let args: Vec<String> = f.args.iter().map(|a| match a {
        mir::Arg::Basic { name, ty, default } => format!("{}:{}{}", name.0, ty, default.as_ref().map(|d| format!("={}", d)).unwrap_or_default()),
        _ => "?".to_string() }).collect();
    format!("{}|{}|{}|{}|{}|{}", f.name.0, if f.is_async { 1 } else { 0 }, if matches!(f.vis, mir::Visibility::Public) { 1 } else { 0 }, args.join(";"), f.ret, f.body)
}
'''


def make_cases(seed, n):
    g = Gen(seed)
    rng = random.Random(seed * 31 + 7)
    cases = []
    # fixed corpus first: the shapes of the defects found so far (kept so that they stay fixed)
    corpus = [
        ('body', [I('if'), I('a'), G('brace', [I('b'), P(';'), I('c')])]),
        ('body', [I('while'), I('t'), G('brace', [I('a'), P(';'), I('if'), I('u'), G('brace', [I('b'), P(';'), I('c')]), P(';'), I('d')])]),
        ('body', [I('print'), G('paren', [L('"a{b}c"')])]),
        ('body', [I('print'), G('paren', [L('"x{}y"'), P(','), P('#'), I('v1')])]),
        ('body', [I('return'), L('1'), I('if'), I('x'), I('else'), L('2')]),
        ('body', [I('return'), P('#'), I('v1'), I('if'), I('x')]),
        ('body', [I('it'), P('.'), I('next'), G('paren', []), P(';'), I('it'), P('.'), I('next'), G('paren', []), P(';')]),
        ('body', [I('buf'), P('.'), I('push'), G('paren', [P('#'), I('v0')]), P(';'), I('buf'), P('.'), I('push'), G('paren', [P('#'), I('v0')]), P(';'), I('x')]),
        ('body', [I('f'), G('brace', [I('a'), P(';'), I('a'), P(';'), I('a'), P(';')])]),
    ]
    for k, toks in corpus:
        cases.append(dict(kind=k, toks=toks))
    for i in range(n):
        kind = ['body', 'body', 'function', 'rfunction'][i % 4]
        if kind == 'body':
            cases.append(dict(kind='body', toks=g.seq(3)))
        elif kind == 'function':
            h, flags, name, args, ret = g.header(False)
            has_body = g.r.random() < 0.8 or ret is None
            body = g.seq(2) if has_body else None
            toks = h + ([G('brace', body)] if has_body else [])
            cases.append(dict(kind='function', toks=toks, flags=flags, name=name, args=args, ret=ret, body=body))
        else:
            h, flags, name, args, ret = g.header(True)
            has_body = g.r.random() < 0.85
            # a Rust body: tokens only (quote! passes them through), interpolations are TokenStream variables
            body = None
            if has_body:
                gb = Gen(g.r.randrange(1 << 30))
                body = [t for t in gb.seq(2) ]
                body = retarget(body)
            toks = h + ([G('brace', body)] if has_body else [])
            cases.append(dict(kind='rfunction', toks=toks, flags=flags, name=name, args=args, ret=ret, body=body))
    for i, c in enumerate(cases):
        c['id'] = i
        c['src'] = src(c['toks'], rng)
    return cases


def retarget(toks):
    """interpolations inside an rfunction! body are quote! variables: use the TokenStream ones"""
    out = []
    i = 0
    while i < len(toks):
        t = toks[i]
        if t[0] == 'p' and t[1] == '#' and i + 1 < len(toks) and toks[i + 1][0] == 'i':
            out += [P('#'), I({'v0': 't0', 'v1': 't1', 'v2': 't2', 'v3': 't0'}[toks[i + 1][1]])]
            i += 2
            continue
        if t[0] == 'g':
            out.append(G(t[1], retarget(t[2])))
        else:
            out.append(t)
        i += 1
    return out


def direct_fn_src(c):
    """the hand-written equivalent of an rfunction! invocation, as quote! input"""
    parts = []
    if 'pub' in c['flags']:
        parts.append('pub')
    if 'async' in c['flags']:
        parts.append('async')
    parts.append('fn')
    parts.append('#n0_ident' if c['name'][0] == 'var' else c['name'][1])
    args = ', '.join(f"{an} : {('#' + ty[1]) if ty[0] == 'tvar' else ty[1]}" for an, ty, _ in c['args'])
    parts.append('( ' + args + ' )')
    if c['ret']:
        parts.append('-> ' + src(c['ret'], random.Random(1)))
    parts.append('{ ' + (src(c['body'], random.Random(1)) if c['body'] else '') + ' }')
    return ' '.join(parts)


def write_probe(d, cases):
    os.makedirs(f'{d}/src', exist_ok=True)
    open(f'{d}/Cargo.toml', 'w').write('''[package]
name = "probe"
version = "0.0.0"
edition = "2021"
[workspace]
[dependencies]
libninja_macro = { path = "/repo/macro" }
libninja_mir = { path = "/repo/mir" }
libninja_mir_rust = { path = "/repo/mir_rust" }
quote = "1"
proc-macro2 = "1"
''')
    shutil.copy('/repo/Cargo.lock', f'{d}/Cargo.lock')
    lines = PRELUDE.split('\n')
    lines.append('fn main() {')
    lines.append('    let v0 = "alpha"; let v1 = 42; let v2 = "Beta_2"; let v3 = 7; let n0 = "made_name";')
    lines.append("    let t0 = quote!(Vec<u8>); let t1 = quote!(String); let t2 = quote!(&'static str); let n0_ident = quote::format_ident!(\"made_name\");")
    line_of = {}
    for c in cases:
        i = c['id']
        line_of[len(lines) + 1] = i
        if c['kind'] == 'body':
            lines.append(f'    {{ let o: String = body!( {c["src"]} ); println!("{i} O {{}}", hex(&o)); println!("{i} T {{}}", hex(&canon_str(&o))); }}')
        elif c['kind'] == 'function':
            lines.append(f'    {{ let f: Function<String> = function!( {c["src"]} ); println!("{i} O {{}}", hex(&show_fn(&f))); println!("{i} T {{}}", hex(&canon_str(&f.body))); }}')
        else:
            lines.append(f'    {{ let f: Function<TokenStream> = rfunction!( {c["src"]} ); let d = quote!( {direct_fn_src(c)} ); println!("{i} O {{}}", hex(&canon(f.to_rust_code()))); println!("{i} T {{}}", hex(&canon(d))); }}')
    lines.append('}')
    open(f'{d}/src/main.rs', 'w').write('\n'.join(lines) + '\n')
    return line_of


def run_probe(d, cases):
    """build + run; invocations that do not compile are reported and removed, then the rest is rebuilt"""
    env = dict(os.environ, CARGO_NET_OFFLINE='true', CARGO_TARGET_DIR=f'{CACHE}/target-probe', RUSTFLAGS='-Awarnings')
    failed = {}
    live = list(cases)
    for attempt in range(6):
        line_of = write_probe(d, live)
        rc, out, _ = sh('cargo build --offline -q --message-format=json 2>/dev/null', cwd=d, env=env, timeout=3000)
        bad = {}
        for l in out.split('\n'):
            if not l.startswith('{'):
                continue
            try:
                m = json.loads(l)
            except Exception:
                continue
            if m.get('reason') == 'compiler-message' and m['message'].get('level') == 'error':
                for spn in m['message'].get('spans', []):
                    if spn.get('file_name', '').endswith('src/main.rs') and spn['line_start'] in line_of:
                        bad.setdefault(line_of[spn['line_start']], m['message']['message'][:300])
        if rc == 0:
            break
        if not bad:
            return None, failed, 'probe crate does not build: ' + out[-1500:]
        failed.update(bad)
        live = [c for c in live if c['id'] not in failed]
    else:
        return None, failed, 'probe crate still does not build after removing failing invocations'
    rc, out, _ = sh(f'{CACHE}/target-probe/debug/probe', cwd=d, env=env, timeout=600)
    res = {}
    for l in out.split('\n'):
        q = l.split(' ')
        if len(q) == 3 and q[1] in ('O', 'T'):
            try:
                res[(int(q[0]), q[1])] = bytes.fromhex(q[2]).decode('utf8', 'replace')
            except ValueError:
                pass
    return res, failed, None if rc == 0 else 'probe exited with an error: ' + out[-800:]


def run_model(d, cases):
    vals = ' '.join(f'({hexs(k)} {hexs(v[1])})' for k, v in VARS.items()) + f' ({hexs("n0")} {hexs("made_name")})'
    with open(f'{d}/mcases.txt', 'w') as f:
        for c in cases:
            f.write(f"{c['id']} {c['kind']} ({vals}) ({sexp(c['toks'])})\n")
    rc, out, _ = sh(f'{DRIVER} macro < {d}/mcases.txt', timeout=600)
    res = {}
    for l in out.split('\n'):
        q = l.split(' ')
        if len(q) == 2:
            if q[1].startswith('ok:'):
                res[int(q[0])] = ('ok', bytes.fromhex(q[1][3:]).decode('utf8', 'replace'))
            else:
                res[int(q[0])] = ('err', q[1])
    return res


def expected_function_fields(c):
    def tx(s):
        return VARS[s[1]][1] if s[0] == 'var' else s[1]
    name = 'made_name' if c['name'][0] == 'var' else c['name'][1]
    args = ';'.join(f"{an}:{tx(ty)}" + (f'={d}' if d else '') for an, ty, d in c['args'])
    ret = tx(c['ret']) if c['ret'] else ''
    return f"{name}|{1 if 'async' in c['flags'] else 0}|{1 if 'pub' in c['flags'] else 0}|{args}|{ret}|"


def run(tier, seed):
    t0 = time.time()
    prop = 'C20'
    out = Outcome(prop)
    d = rundir(prop)
    shutil.rmtree(f'{d}/probe', ignore_errors=True)
    coq_ok, drv_ok, har_ok, logs = build_all()
    ps = proof_side(prop)
    n = 240 if tier == 'quick' else 2400
    cases = make_cases(seed, n)
    only = os.environ.get('LNVERIF_ONLY')
    model = run_model(d, cases)
    if only:
        model = {k: v for k, v in model.items() if str(k) == only}
    # only invocations the model accepts are compiled (the others are outside the macros' own grammar: they panic at expansion)
    accepted = [c for c in cases if model.get(c['id'], ('err', ''))[0] == 'ok']
    rejected = {}
    for c in cases:
        m = model.get(c['id'], ('err', 'no output'))
        if m[0] != 'ok':
            rejected[m[1]] = rejected.get(m[1], 0) + 1
    res, failed, problem = run_probe(f'{d}/probe', accepted)
    disagreements = []; oracle = []
    kinds = {}
    if res is None:
        out.violation('build', {'what': problem, 'failed_invocations': list(failed.items())[:5]}, no_input=True)
        res = {}
    for cid, msg in failed.items():
        c = cases[cid]
        oracle.append({'case': cid, 'kind': c['kind'], 'invocation': c['src'], 'message': 'the expansion does not compile: ' + msg})
    for c in accepted:
        i = c['id']
        if i in failed:
            continue
        kinds[c['kind']] = kinds.get(c['kind'], 0) + 1
        o = res.get((i, 'O')); t = res.get((i, 'T'))
        m = model[i][1]
        if o is None:
            disagreements.append({'case': i, 'what': 'no output from the probe', 'invocation': c['src']})
            continue
        if c['kind'] == 'rfunction':
            # the model leaves quote! variables in place; substitute their tokens
            for k, v in TVAL_CANON.items():
                m = m.replace(f'P:# I:{k}', v)
            if o != t:
                oracle.append({'case': i, 'kind': 'rfunction', 'invocation': c['src'], 'message': 'rendered item differs token-wise from the hand-written fn',
                               'rendered': o, 'hand_written': t})
            if o != m and len(disagreements) < 30:
                disagreements.append({'case': i, 'kind': 'rfunction', 'invocation': c['src'], 'impl': o, 'model': m})
            continue
        if o != m and len(disagreements) < 30:
            disagreements.append({'case': i, 'kind': c['kind'], 'invocation': c['src'], 'impl': o, 'model': m})
        # direct oracle: the tokens that were written
        body = c['toks'] if c['kind'] == 'body' else (c.get('body') or [])
        want = canon(body, VAL_CANON)
        if t != want:
            oracle.append({'case': i, 'kind': c['kind'], 'invocation': c['src'], 'message': 'the rendered text does not lex to the tokens that were written (semicolons removed, interpolations substituted)',
                           'rendered_text': (o if c['kind'] == 'body' else o.split('|', 5)[-1]), 'rendered_tokens': t, 'written_tokens': want})
        if c['kind'] == 'function':
            head = expected_function_fields(c)
            if not o.startswith(head):
                oracle.append({'case': i, 'kind': 'function', 'invocation': c['src'], 'message': 'name/async/pub/arguments/return type differ from what was written',
                               'got': o.rsplit('|', 1)[0], 'written': head})
    if oracle:
        out.violation('oracle', {'what': 'a macro invocation does not reproduce what was written inside it', 'count': len(oracle), 'failures': oracle[:5],
                                 'replay': 'put the invocation into a crate depending on /repo/macro, /repo/mir, /repo/mir_rust (see .cache/run/C20/probe/src/main.rs) with v0="alpha", v1=42, v2="Beta_2", v3=7, n0="made_name", t0=quote!(Vec<u8>), t1=quote!(String), t2=quote!(&\'static str)'})
    proof_broken = bool(ps['problems']) or ps['discharged'] != ps['obligations'] or not coq_ok
    if proof_broken and not oracle:
        out.violation('proof', {'what': 'proof obligations of Properties/C20.v no longer check', 'problems': ps['problems'],
                                'searched': f'{len(accepted)} generated invocations through the direct oracle, none failed'}, no_input=True)
    if disagreements and not oracle:
        out.violation('correspondence', {'what': 'the macros yield something else than coq/Model/Macro.v on the same token trees; the direct oracle found no failing input',
                                         'count': len(disagreements), 'first': disagreements[:3]}, no_input=True)
    lens = [len(c['src']) for c in accepted]
    cov = dict(obligations=ps['obligations'], discharged=ps['discharged'],
               checker_cmd='make -C coq Properties/C20.vo && coqc Properties/C20.v (Print Assumptions parsed)',
               trusted_base=TRUSTED + ['rustc/proc_macro hand the macros the token trees the generator wrote (checked indirectly: the probe lexes the outputs back with proc_macro2)',
                                       'format! = unescape {{ }} and substitute {i}; quote! passes tokens through and substitutes #var (both modelled, not proved)']
                            + [f'{n}: {a}' for n, a in ps['theorems']],
               evaluations=len(accepted), distinct_nontrivial=len({c['src'] for c in accepted}),
               rule='corpus (shapes of the defects fixed so far) then invocations from the grammar: {pub, async} flags in either order x 0-4 arguments (identifier, dotted, interpolated types, defaults) x optional return type (path, generic, reference, interpolated) x bodies of nested groups with and without a trailing unterminated expression, repeated statements, literals (strings with braces, semicolons, escapes), punctuation runs (sometimes written jointly), repeated/shared interpolations; invocations the model rejects (they panic at expansion time) are not compiled',
               by_kind=kinds, rejected_by_model=rejected, source_length=dict(min=min(lens or [0]), max=max(lens or [0]), mean=round(sum(lens) / max(1, len(lens)), 1)),
               samples=[{'kind': c['kind'], 'invocation': c['src'][:300]} for c in accepted[9:12]],
               disagreements_checked=len(disagreements), oracle_failures=len(oracle), proof_problems=ps['problems'])
    write_evidence(prop, tier, seed, 'proof', cov, time.time() - t0, len(out.violations),
                   assumptions=['`.` is generated only after an identifier or a group and never before a literal; no lifetimes or `$` in bodies',
                                'python-style [..] generics in function! types are rendered by the compiler\'s own printer: not modelled, not generated'])
    return out.finish()


def warm():
    """setup: build the probe crate's dependencies once"""
    d = rundir('C20') + '/probe'
    shutil.rmtree(d, ignore_errors=True)
    write_probe(d, [])
    env = dict(os.environ, CARGO_NET_OFFLINE='true', CARGO_TARGET_DIR=f'{CACHE}/target-probe', RUSTFLAGS='-Awarnings')
    rc, out, _ = sh('cargo build --offline -q 2>&1 | tail -3', cwd=d, env=env, timeout=3000)
    print('probe warm-up:', 'ok' if rc == 0 else out[-300:])
