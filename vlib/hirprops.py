"""HIR-level engine: C05, C06, C07, C08, (HIR parts of) C14, C15, C17. Generated specs go through the real
serde/openapiv3 front-end and extractor, and through the extracted Coq model; direct oracles written from the
property texts judge the implementation's HirSpec."""
import os, time, re, glob
from concurrent.futures import ThreadPoolExecutor
from .common import *

KNOWN_CLASSES = {
    ('C06', 'synth_name_collision'): 'C06-synthesised-name-collision',
    ('C06', 'id_case_collision'): 'C06-ids-equal-up-to-case-and-punctuation',
    ('C07', 'array_component_inline_items'): 'C07-array-component-inline-items',
    ('C15', 'several_servers_not_env'): 'C15-several-servers-not-env',
    ('C17', 'doc_dropped_non_struct'): 'C17-description-dropped-on-non-struct',
}


OUTSIDE_VIEW = []   # case ids whose HirSpec differs from the model's outside the property's view (last hir_run)


def run_shard(args):
    d, seed, n, i, profile = args
    sh(f'{HARNESS} hir --seed {seed} --n {n} --out {d} --shard {i} --profile {profile} > /dev/null 2>{d}/herr_{i}.txt')
    sh(f'{DRIVER} hir < {d}/hcases_{i}.txt > {d}/hmodel_{i}.obs 2>>{d}/herr_{i}.txt')
    return i


def dehex(s):
    def f(m):
        x = m.group(1)
        if len(x) % 2:
            x = x[:-1]
        return '"' + bytes.fromhex(x).decode('utf8', 'replace') + '"'
    return re.sub(r'#([0-9a-f]*)', f, s)


# ---- views on the HirSpec: what of the extracted table a property's theorems speak about -------------------------------
def parse_sexp(text):
    """atoms (strings) and lists; the observation grammar has no quoting (names are #hex atoms)"""
    toks = re.findall(r'[()]|[^\s()]+', text)
    pos = 0

    def rd():
        nonlocal pos
        t = toks[pos]; pos += 1
        if t == '(':
            l = []
            while toks[pos] != ')':
                l.append(rd())
            pos += 1
            return l
        return t
    return rd()


def _models(t, acc):
    if isinstance(t, list):
        if len(t) == 2 and t[0] == 'model':
            acc.add(t[1])
        for x in t:
            _models(x, acc)


def _field(f, docs):          # (f ty optional flatten doc)
    return [f[1], f[2], f[3]] + ([f[4]] if docs else [])


def _record(r, docs):
    k = r[0]
    if k == 'struct':         # (struct name nullable docs ((k field)...))
        return [k, r[1], r[2]] + ([r[3]] if docs else []) + [[[kf[0], _field(kf[1], docs)] for kf in r[4]]]
    if k == 'newtype':        # (newtype name doc (fields))
        return [k, r[1]] + ([r[2]] if docs else []) + [[_field(f, docs) for f in r[3]]]
    if k == 'alias':          # (alias name field)
        return [k, r[1], _field(r[2], docs)]
    if k == 'enum':           # (enum name doc ((value alias)...))
        return [k, r[1]] + ([r[2]] if docs else []) + [r[3]]
    return r


def _record_docs(r):
    k = r[0]
    if k == 'struct':
        return [k, r[1], r[3], [[kf[0], kf[1][4]] for kf in r[4]]]
    if k == 'newtype':
        return [k, r[1], r[2], [f[4] for f in r[3]]]
    if k == 'alias':
        return [k, r[1], r[2][4]]
    if k == 'enum':
        return [k, r[1], r[2]]
    return r


def hir_view(prop, line):
    """the part of one observation line `<id> <stage> <payload>` that `prop` looks at (None: the whole line)"""
    q = line.split(' ', 2)
    if len(q) < 3:
        return None
    if not q[2].startswith('ok (hir '):
        # an error outcome: which error is the model's business (the text of a panic is not an observation); that
        # extraction failed is what is observed
        return ('outcome', 'fail') if q[2].startswith(('err', 'panic')) else None
    try:
        t = parse_sexp(q[2][3:])
        parts = {x[0]: x[1:] for x in t[1:]}
        schemas, ops = parts['schemas'], parts['ops']
        # op: (op name method path doc (params) ret); param: (p name loc ty optional)
        if prop == 'C01':
            return ('outcome', 'ok')
        if prop in ('C05', 'C03'):
            return sorted([o[2], o[3], [[p[1], p[2], p[4]] + ([p[3]] if prop == 'C03' else []) for p in o[5]]] for o in ops)
        if prop == 'C06':
            return sorted([o[1], o[2], o[3]] for o in ops)
        if prop == 'C07':
            m = set(); _models([schemas, [[o[5], o[6]] for o in ops]], m)
            return (sorted(kr[0] for kr in schemas), sorted(m))
        if prop == 'C08':
            return ([[kr[0], _record(kr[1], False)] for kr in schemas], sorted([o[2], o[3], [[p[1], p[3]] for p in o[5]], o[6]] for o in ops))
        if prop == 'C04':
            return [[kr[0], _record(kr[1], False)] for kr in schemas]
        if prop == 'C14':
            return parts.get('security')
        if prop == 'C15':
            return parts.get('servers')
        if prop == 'C17':
            return ([[kr[0], _record_docs(kr[1])] for kr in schemas], sorted([o[1], o[4]] for o in ops), parts.get('docs'))
        if prop == 'C18':
            return ()
    except (IndexError, KeyError, TypeError):
        return None
    return None


def same_in_view(prop, a, b):
    if a == b:
        return True
    va, vb = hir_view(prop, a), hir_view(prop, b)
    return va is not None and va == vb


def hir_run(prop, tier, seed, d):
    """runs the shards; returns (total, nontrivial, feats, samples, disagreements, findings)"""
    OUTSIDE_VIEW.clear()
    nshards = 16
    per = 100 if tier == 'quick' else 2500
    with ThreadPoolExecutor(16) as ex:
        list(ex.map(run_shard, [(d, seed, per, i, 'wild' if i % 2 else 'rich') for i in range(nshards)]))
    total = 0; nontriv = set(); feats = {}; samples = []; disagreements = []; findings = []
    for i in range(nshards):
        try:
            imp = open(f'{d}/himpl_{i}.obs').read().split('\n'); mod = open(f'{d}/hmodel_{i}.obs').read().split('\n')
            cases = dict(l.split(' ', 1) for l in open(f'{d}/hcases_{i}.txt').read().split('\n') if l)
        except FileNotFoundError:
            disagreements.append({'what': f'shard {i} produced no output', 'err': open(f'{d}/herr_{i}.txt').read()[-800:]})
            continue
        if len(imp) != len(mod):
            disagreements.append({'what': f'shard {i}: {len(imp)} implementation lines, {len(mod)} model lines', 'err': open(f'{d}/herr_{i}.txt').read()[-800:]})
        for a, b in zip(imp, mod):
            if a != b and same_in_view(prop, a, b):
                OUTSIDE_VIEW.append(a.split(' ', 1)[0])
            elif a != b:
                cid = a.split(' ', 1)[0]
                k = next((j for j, (x, y) in enumerate(zip(a, b)) if x != y), min(len(a), len(b)))
                if len(disagreements) < 40:
                    disagreements.append({'case': cid, 'stage': a.split(' ')[1] if ' ' in a else '?',
                                          'impl': dehex(a[max(0, k - 200):k + 200]), 'model': dehex(b[max(0, k - 200):k + 200]),
                                          'spec': dehex(cases.get(cid, ''))[:6000]})
                else:
                    disagreements.append(None)
        for l in open(f'{d}/hfeatures_{i}.txt'):
            cid, fs = l.rstrip('\n').split('\t')
            total += 1
            for f in fs.split(','):
                if f:
                    feats[f] = feats.get(f, 0) + 1
            if fs:
                nontriv.add(hash(cases.get(cid, cid)))
            if len(samples) < 3 and fs and int(cid) < 900000:
                samples.append({'case': cid, 'features': fs.split(','), 'spec': dehex(cases.get(cid, ''))[:1500]})
        agree = {}
        for a, b in zip(imp, mod):
            cid = a.split(' ', 1)[0]
            agree[cid] = agree.get(cid, True) and same_in_view(prop, a, b)
        for l in open(f'{d}/horacle_{i}.txt'):
            cid, p, cls, msg = l.rstrip('\n').split('\t', 3)
            # a failure counts as a KNOWN class only where the model (which encodes the recorded behaviour of the
            # unchanged code) predicts exactly what the implementation did; elsewhere it is a new failing input
            if not agree.get(cid, False):
                cls = ''
            findings.append((cid, p, cls, msg, dehex(cases.get(cid, ''))[:6000]))
    return total, len(nontriv), feats, samples, disagreements, findings


def run(prop, tier, seed, extra_props=()):
    t0 = time.time()
    out = Outcome(prop)
    d = rundir(prop)
    for f in glob.glob(f'{d}/h*'):
        os.remove(f)
    coq_ok, drv_ok, har_ok, logs = build_all()
    ps = proof_side(prop)
    total = nontriv = 0; feats = {}; samples = []; disagreements = []; oracle = []; known_seen = {}
    if not (har_ok and drv_ok):
        out.violation('build', {'what': 'harness or driver build failed', 'logs': logs}, no_input=True)
    else:
        total, nontriv, feats, samples, disagreements, findings = hir_run(prop, tier, seed, d)
        mine = (prop,) + tuple(extra_props)
        for cid, p, cls, msg, spec in findings:
            if p not in mine:
                continue
            if (p, cls) in KNOWN_CLASSES:
                known_seen.setdefault(KNOWN_CLASSES[(p, cls)], []).append((cid, msg))
            else:
                oracle.append({'case': cid, 'property': p, 'message': msg, 'spec': spec})
    known = {f['id']: f for f in load_known()['findings'] if f.get('status') == 'open' and f.get('property') == prop}
    for kid, lst in known_seen.items():
        if kid in known:
            out.known_finding(f"{known[kid]['what']} (seen on {len(lst)} case(s), e.g. case {lst[0][0]}: {lst[0][1][:160]})")
        else:
            oracle.append({'case': lst[0][0], 'property': prop, 'message': lst[0][1], 'note': f'class {kid} is not listed open in known_findings.json'})
    if oracle:
        out.violation('oracle', {'what': f'direct oracle for {prop} failed on the HirSpec the real extractor produced', 'count': len(oracle), 'failures': oracle[:5],
                                 'replay': 'each failure carries the abstract spec (S-expression); harness renders it to OpenAPI JSON and calls libninja::extractor::extract_spec'})
    proof_broken = bool(ps['problems']) or ps['discharged'] != ps['obligations'] or not coq_ok
    if proof_broken and not oracle:
        out.violation('proof', {'what': f'proof obligations of Properties/{prop}.v no longer check', 'problems': ps['problems'],
                                'searched': f'{total} generated specs through the direct oracle, none failed outside the known classes'}, no_input=True)
    dis = [x for x in disagreements if x]
    if disagreements and not oracle:
        out.violation('correspondence', {'what': 'model (coq/Model/Extractor.v, Shake.v) and libninja::extractor disagree on the extracted HirSpec; the direct oracle found no failing input',
                                         'count': len(disagreements), 'first': dis[:3]}, no_input=True)
    cov = dict(obligations=ps['obligations'], discharged=ps['discharged'],
               checker_cmd=f'make -C coq Properties/{prop}.vo && coqc Properties/{prop}.v (Print Assumptions parsed)',
               trusted_base=TRUSTED + ['abstract-spec -> OpenAPI JSON printer and S-expression reader (structural recursions; document order preserved)',
                                       'serde_json + openapiv3-extended deserialisation of the document is part of the implementation side; its accessors are modelled in OpenApi.v']
                            + [f'{n}: {a}' for n, a in ps['theorems']],
               evaluations=total, distinct_nontrivial=nontriv,
               rule='corpus (minimised earlier failures, one witness per finding) then generated specs: 0-8 components over objects/enums/maps/allOf/aliases/arrays/primitives with adversarial property names and docs, 1-6 operations with parameters in all locations at operation and path-item level, $ref/inline/allOf bodies, $ref/inline/array/primitive responses, servers 0..3, security schemes of every kind; odd shards use the `wild` profile (array components with inline items, placeholder equal to the previous segment, colliding synthesised names, undescribed servers, basic/oauth2/cookie auth); non-trivial = at least one feature fired; distinct by spec text',
               samples=samples, feature_histogram=feats, disagreements_checked=len(disagreements), oracle_failures=len(oracle),
               known_findings_seen={k: len(v) for k, v in known_seen.items()}, proof_problems=ps['problems'], disagreements_outside_view=len(OUTSIDE_VIEW))
    write_evidence(prop, tier, seed, 'proof', cov, time.time() - t0, len(out.violations),
                   assumptions=['names are ASCII; documents are inside the supported domain D except for the explicitly generated diagnostic classes'])
    return out.finish()
