"""HIR-level engine: C05, C06, C07, C08, (HIR parts of) C14, C15, C17. Generated specs go through the real
serde/openapiv3 front-end and extractor, and through the extracted Coq model; direct oracles written from the
property texts judge the implementation's HirSpec."""
import os, time, re, glob
from concurrent.futures import ThreadPoolExecutor
from .common import *

KNOWN_CLASSES = {
    ('C06', 'synth_name_collision'): 'C06-synthesised-name-collision',
    ('C07', 'array_component_inline_items'): 'C07-array-component-inline-items',
    ('C15', 'several_servers_not_env'): 'C15-several-servers-not-env',
    ('C17', 'doc_dropped_non_struct'): 'C17-description-dropped-on-non-struct',
}


def run_shard(args):
    d, seed, n, i, profile = args
    sh(f'{HARNESS} hir --seed {seed} --n {n} --out {d} --shard {i} --profile {profile} > /dev/null 2>{d}/herr_{i}.txt')
    sh(f'{DRIVER} hir < {d}/hcases_{i}.txt > {d}/hmodel_{i}.obs 2>>{d}/herr_{i}.txt')
    return i


def dehex(s):
    def f(m):
        x = m.group(1)
        if len(x) % 2:
            x = x[:-1]
        return '"' + bytes.fromhex(x).decode('utf8', 'replace') + '"'
    return re.sub(r'#([0-9a-f]*)', f, s)


def hir_run(prop, tier, seed, d):
    """runs the shards; returns (total, nontrivial, feats, samples, disagreements, findings)"""
    nshards = 16
    per = 100 if tier == 'quick' else 2500
    with ThreadPoolExecutor(16) as ex:
        list(ex.map(run_shard, [(d, seed, per, i, 'wild' if i % 2 else 'rich') for i in range(nshards)]))
    total = 0; nontriv = set(); feats = {}; samples = []; disagreements = []; findings = []
    for i in range(nshards):
        try:
            imp = open(f'{d}/himpl_{i}.obs').read().split('\n'); mod = open(f'{d}/hmodel_{i}.obs').read().split('\n')
            cases = dict(l.split(' ', 1) for l in open(f'{d}/hcases_{i}.txt').read().split('\n') if l)
        except FileNotFoundError:
            disagreements.append({'what': f'shard {i} produced no output', 'err': open(f'{d}/herr_{i}.txt').read()[-800:]})
            continue
        if len(imp) != len(mod):
            disagreements.append({'what': f'shard {i}: {len(imp)} implementation lines, {len(mod)} model lines', 'err': open(f'{d}/herr_{i}.txt').read()[-800:]})
        for a, b in zip(imp, mod):
            if a != b:
                cid = a.split(' ', 1)[0]
                k = next((j for j, (x, y) in enumerate(zip(a, b)) if x != y), min(len(a), len(b)))
                if len(disagreements) < 40:
                    disagreements.append({'case': cid, 'stage': a.split(' ')[1] if ' ' in a else '?',
                                          'impl': dehex(a[max(0, k - 200):k + 200]), 'model': dehex(b[max(0, k - 200):k + 200]),
                                          'spec': dehex(cases.get(cid, ''))[:6000]})
                else:
                    disagreements.append(None)
        for l in open(f'{d}/hfeatures_{i}.txt'):
            cid, fs = l.rstrip('\n').split('\t')
            total += 1
            for f in fs.split(','):
                if f:
                    feats[f] = feats.get(f, 0) + 1
            if fs:
                nontriv.add(hash(cases.get(cid, cid)))
            if len(samples) < 3 and fs and int(cid) < 900000:
                samples.append({'case': cid, 'features': fs.split(','), 'spec': dehex(cases.get(cid, ''))[:1500]})
        agree = {}
        for a, b in zip(imp, mod):
            cid = a.split(' ', 1)[0]
            agree[cid] = agree.get(cid, True) and (a == b)
        for l in open(f'{d}/horacle_{i}.txt'):
            cid, p, cls, msg = l.rstrip('\n').split('\t', 3)
            # a failure counts as a KNOWN class only where the model (which encodes the recorded behaviour of the
            # unchanged code) predicts exactly what the implementation did; elsewhere it is a new failing input
            if not agree.get(cid, False):
                cls = ''
            findings.append((cid, p, cls, msg, dehex(cases.get(cid, ''))[:6000]))
    return total, len(nontriv), feats, samples, disagreements, findings


def run(prop, tier, seed, extra_props=()):
    t0 = time.time()
    out = Outcome(prop)
    d = rundir(prop)
    for f in glob.glob(f'{d}/h*'):
        os.remove(f)
    coq_ok, drv_ok, har_ok, logs = build_all()
    ps = proof_side(prop)
    total = nontriv = 0; feats = {}; samples = []; disagreements = []; oracle = []; known_seen = {}
    if not (har_ok and drv_ok):
        out.violation('build', {'what': 'harness or driver build failed', 'logs': logs}, no_input=True)
    else:
        total, nontriv, feats, samples, disagreements, findings = hir_run(prop, tier, seed, d)
        mine = (prop,) + tuple(extra_props)
        for cid, p, cls, msg, spec in findings:
            if p not in mine:
                continue
            if (p, cls) in KNOWN_CLASSES:
                known_seen.setdefault(KNOWN_CLASSES[(p, cls)], []).append((cid, msg))
            else:
                oracle.append({'case': cid, 'property': p, 'message': msg, 'spec': spec})
    known = {f['id']: f for f in load_known()['findings'] if f.get('status') == 'open' and f.get('property') == prop}
    for kid, lst in known_seen.items():
        if kid in known:
            out.known_finding(f"{known[kid]['what']} (seen on {len(lst)} case(s), e.g. case {lst[0][0]}: {lst[0][1][:160]})")
        else:
            oracle.append({'case': lst[0][0], 'property': prop, 'message': lst[0][1], 'note': f'class {kid} is not listed open in known_findings.json'})
    if oracle:
        out.violation('oracle', {'what': f'direct oracle for {prop} failed on the HirSpec the real extractor produced', 'count': len(oracle), 'failures': oracle[:5],
                                 'replay': 'each failure carries the abstract spec (S-expression); harness renders it to OpenAPI JSON and calls libninja::extractor::extract_spec'})
    proof_broken = bool(ps['problems']) or ps['discharged'] != ps['obligations'] or not coq_ok
    if proof_broken and not oracle:
        out.violation('proof', {'what': f'proof obligations of Properties/{prop}.v no longer check', 'problems': ps['problems'],
                                'searched': f'{total} generated specs through the direct oracle, none failed outside the known classes'}, no_input=True)
    dis = [x for x in disagreements if x]
    if disagreements and not oracle:
        out.violation('correspondence', {'what': 'model (coq/Model/Extractor.v, Shake.v) and libninja::extractor disagree on the extracted HirSpec; the direct oracle found no failing input',
                                         'count': len(disagreements), 'first': dis[:3]}, no_input=True)
    cov = dict(obligations=ps['obligations'], discharged=ps['discharged'],
               checker_cmd=f'make -C coq Properties/{prop}.vo && coqc Properties/{prop}.v (Print Assumptions parsed)',
               trusted_base=TRUSTED + ['abstract-spec -> OpenAPI JSON printer and S-expression reader (structural recursions; document order preserved)',
                                       'serde_json + openapiv3-extended deserialisation of the document is part of the implementation side; its accessors are modelled in OpenApi.v']
                            + [f'{n}: {a}' for n, a in ps['theorems']],
               evaluations=total, distinct_nontrivial=nontriv,
               rule='corpus (minimised earlier failures, one witness per finding) then generated specs: 0-8 components over objects/enums/maps/allOf/aliases/arrays/primitives with adversarial property names and docs, 1-6 operations with parameters in all locations at operation and path-item level, $ref/inline/allOf bodies, $ref/inline/array/primitive responses, servers 0..3, security schemes of every kind; odd shards use the `wild` profile (array components with inline items, placeholder equal to the previous segment, colliding synthesised names, undescribed servers, basic/oauth2/cookie auth); non-trivial = at least one feature fired; distinct by spec text',
               samples=samples, feature_histogram=feats, disagreements_checked=len(disagreements), oracle_failures=len(oracle),
               known_findings_seen={k: len(v) for k, v in known_seen.items()}, proof_problems=ps['problems'])
    write_evidence(prop, tier, seed, 'proof', cov, time.time() - t0, len(out.violations),
                   assumptions=['names are ASCII; documents are inside the supported domain D except for the explicitly generated diagnostic classes'])
    return out.finish()
