"""C10 / C11 / C12 — the directory-tree state machine. One engine, three property views."""
import os, time, re, glob
from concurrent.futures import ThreadPoolExecutor
from .common import *

# open findings of this engine: class tag in the oracle line -> known_findings id
CLASSES = {'after_prefix_lost': 'C12-after-prefix-lost-on-crash', 'marker_in_code': 'C12-directive-text-in-generated-code'}


def build_cli():
    rc, out, _ = sh('cargo build --offline --bin libninja 2>&1 | tail -5', cwd='/repo',
                    env=dict(ENV, CARGO_TARGET_DIR=f'{CACHE}/target-cli'))
    return 'Finished' in out, out


def run_shard(args):
    d, seed, n, i, extra = args
    sh(f'{HARNESS} fs --seed {seed} --n {n} --out {d} --shard {i} {extra} > /dev/null 2>{d}/err_{i}.txt')
    sh(f'{DRIVER} fs < {d}/cases_{i}.txt > {d}/model_{i}.obs')
    return i


def split_cases(lines):
    cases, cur, cid = {}, [], None
    for l in lines:
        if l.startswith('CASE '):
            cid = l.split()[1]; cur = []
        elif l == 'E':
            cases[cid] = cur
        else:
            cur.append(l)
    return cases


def run(prop, tier, seed):
    t0 = time.time()
    out = Outcome(prop)
    d = rundir(prop)
    for f in glob.glob(f'{d}/*'):
        os.remove(f)
    coq_ok, drv_ok, har_ok, logs = build_all()
    cli_ok, cli_log = build_cli()
    ps = proof_side(prop)
    nshards = 16
    per = 20 if tier == 'quick' else 640
    total = 0; disagreements = []; oracle = []; known_seen = {}; feats = {}; samples = []; nontrivial = set()
    if not (har_ok and drv_ok and cli_ok):
        out.violation('build', {'what': 'harness, driver or CLI build failed', 'logs': {**logs, 'cli': cli_log}}, no_input=True)
    else:
        extra = '--directive-docs' if tier == 'thorough' else ''
        with ThreadPoolExecutor(16) as ex:
            list(ex.map(run_shard, [(d, seed, per, i, extra) for i in range(nshards)]))
        for i in range(nshards):
            try:
                impl = split_cases(open(f'{d}/impl_{i}.obs').read().split('\n'))
                model = split_cases(open(f'{d}/model_{i}.obs').read().split('\n'))
                inputs = split_cases(open(f'{d}/cases_{i}.txt').read().split('\n'))
            except FileNotFoundError:
                disagreements.append({'what': f'shard {i} produced no output', 'err': open(f'{d}/err_{i}.txt').read()[-500:]})
                continue
            for l in open(f'{d}/features_{i}.txt'):
                cid, nprior, nsteps, fs = l.rstrip('\n').split('\t')
                total += 1
                for f in fs.split(','):
                    if f:
                        feats[f] = feats.get(f, 0) + 1
                if fs:
                    nontrivial.add((nprior, nsteps, fs, tuple(inputs.get(cid, []))[:40].__hash__()))
                if len(samples) < 3 and fs and 'corpus' not in fs:
                    samples.append({'case': cid, 'prior_files': int(nprior), 'generations': int(nsteps), 'features': fs.split(','),
                                    'first_input_lines': [x[:120] for x in inputs.get(cid, [])[:6]]})
            for cid, obs in impl.items():
                if model.get(cid) != obs:
                    mo = model.get(cid) or []
                    first = next((k for k, (a, b) in enumerate(zip(obs, mo)) if a != b), min(len(obs), len(mo)))
                    disagreements.append({'case': cid, 'first_differing_line': first,
                                          'impl': (obs[first] if first < len(obs) else None), 'model': (mo[first] if first < len(mo) else None),
                                          'input': inputs.get(cid)})
            for l in open(f'{d}/oracle_{i}.txt'):
                cid, p, msg = l.rstrip('\n').split('\t', 2)
                m = re.search(r'\[class=(\w+)\]', msg)
                cls = m.group(1) if m else None
                if p == prop or (p == 'C01' and prop == 'C12'):
                    if cls in CLASSES and p == 'C12':
                        known_seen.setdefault(cls, []).append((cid, msg))
                    elif p == 'C01':
                        oracle.append({'case': cid, 'property': p, 'message': msg, 'input': inputs.get(cid)})
                    else:
                        oracle.append({'case': cid, 'property': p, 'message': msg, 'input': inputs.get(cid)})
    # decision
    known = {f['id']: f for f in load_known()['findings'] if f.get('status') == 'open' and f.get('property') == prop}
    for cls, lst in known_seen.items():
        kid = CLASSES[cls]
        if kid in known:
            out.known_finding(f"{known[kid]['what']} (seen on {len(lst)} case(s), e.g. case {lst[0][0]})")
        else:
            oracle.append({'case': lst[0][0], 'property': prop, 'message': lst[0][1], 'note': 'class not listed in known_findings.json'})
    if oracle:
        out.violation('oracle', {'what': f'direct oracle for {prop} failed on the real trees produced by `libninja gen`', 'count': len(oracle), 'failures': oracle[:5],
                                 'replay': 'each input lists the prior tree (T path content, hex), the plan of each generation (W), crash points (X k b / Y removed) and generations (G)'})
    proof_broken = bool(ps['problems']) or ps['discharged'] != ps['obligations'] or not coq_ok
    if proof_broken and not oracle:
        out.violation('proof', {'what': f'proof obligations of Properties/{prop}.v no longer check', 'problems': ps['problems'],
                                'searched': f'{total} histories through the direct oracles, none failed outside the known classes'}, no_input=True)
    if disagreements and not oracle:
        out.violation('correspondence', {'what': 'model (coq/Model/Fs.v) and implementation disagree on the tree after a generation / crash; direct oracles found no failing input',
                                         'count': len(disagreements), 'first': disagreements[:3]}, no_input=True)
    cov = dict(obligations=ps['obligations'], discharged=ps['discharged'],
               checker_cmd=f'make -C coq Properties/{prop}.vo && coqc Properties/{prop}.v (Print Assumptions parsed)',
               trusted_base=TRUSTED + ['OS semantics of create/truncate/write/unlink and walkdir are modelled (Fs.v); files are UTF-8 text',
                                       'crash states come from the real CLI aborted by the cfg(libninja_verif) hook in hir::write_file / remove_old_files']
                            + [f'{n}: {a}' for n, a in ps['theorems']],
               evaluations=total, distinct_nontrivial=len(nontrivial),
               rule='histories = generated prior tree over {root, src, src/model, src/request, src/<other>/, examples, tests, benches} x {.rs, other} x {plain, static, after, both; marker mid-line/EOF/CRLF/far into the file} + files at generated paths, then 1..3 generations (each run twice) of generated specs with changing specs, half of them interrupted (real abort during the k-th write after b bytes, or before the j-th removal) and rerun; non-trivial = at least one feature (static/after prior file, crash, marker in code ...) fired; distinct by (sizes, features, input hash)',
               samples=samples, feature_histogram=feats, disagreements_checked=len(disagreements), oracle_failures=len(oracle),
               known_findings_seen={CLASSES[k]: len(v) for k, v in known_seen.items()}, proof_problems=ps['problems'])
    write_evidence(prop, tier, seed, 'proof', cov, time.time() - t0, len(out.violations),
                   assumptions=['the generated code per path is a parameter of the theorems (any plan); the plan used in the correspondence is read from a fresh run of the implementation',
                                'prior trees consist of regular UTF-8 files'])
    return out.finish()
