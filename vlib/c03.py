from . import emitprops
def run(tier, seed):
    return emitprops.run('C03', tier, seed, also_hir=True, exec_layer=True)
