from . import fsprops
def run(tier, seed):
    return fsprops.run('C10', tier, seed)
