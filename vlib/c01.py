from . import emitprops
def run(tier, seed):
    return emitprops.run('C01', tier, seed, also_hir=True)
