//! C10/C11/C12 (and C09 in-place): histories of generations over generated prior trees, run through the
//! real CLI; observations for the model; direct oracles on the real trees.
use crate::spec::*;
use crate::specgen::*;
use crate::util::*;
use std::collections::{BTreeMap, HashMap};
use std::io::Write;
use std::path::{Path, PathBuf};
use std::process::Command;

pub type Tree = BTreeMap<String, Vec<u8>>;

pub fn cli_path() -> String {
    std::env::var("LNVERIF_CLI").unwrap_or_else(|_| "/verif/.cache/target-cli/debug/libninja".to_string())
}

pub struct CliOut {
    pub code: Option<i32>,
    pub signal: Option<i32>,
    pub stdout: String,
    pub stderr: String,
}

pub fn run_cli(spec_path: &Path, name: &str, out: &Path, examples: bool, derives: &[String], env: &[(&str, String)], cwd: Option<&Path>) -> CliOut {
    use std::os::unix::process::ExitStatusExt;
    // The CLI's `--examples` is a default-true flag that cannot be switched off, so generations without
    // examples go through `lnverif gen-one`, which repeats Generate::run with build_examples = false.
    let mut c = if examples {
        let mut c = Command::new(cli_path());
        c.arg("gen").arg("-o").arg(out);
        c
    } else {
        let mut c = Command::new(std::env::current_exe().unwrap());
        c.arg("gen-one").arg("-o").arg(out);
        c
    };
    for d in derives {
        c.arg("--derive").arg(d);
    }
    c.arg(name).arg(spec_path);
    for (k, v) in env {
        c.env(k, v);
    }
    if let Some(d) = cwd {
        c.current_dir(d);
    }
    // a generation that does not return is a finding (C01), not a reason for the check to hang: 120 s limit
    use std::io::Read;
    let mut child = c.stdin(std::process::Stdio::null()).stdout(std::process::Stdio::piped()).stderr(std::process::Stdio::piped()).spawn().expect("cannot run libninja CLI");
    let mut so = child.stdout.take().unwrap();
    let mut se = child.stderr.take().unwrap();
    let t1 = std::thread::spawn(move || {
        let mut b = Vec::new();
        let _ = so.read_to_end(&mut b);
        b
    });
    let t2 = std::thread::spawn(move || {
        let mut b = Vec::new();
        let _ = se.read_to_end(&mut b);
        b
    });
    let start = std::time::Instant::now();
    let mut timed_out = false;
    let status = loop {
        match child.try_wait() {
            Ok(Some(s)) => break s,
            Ok(None) => {
                if start.elapsed() > std::time::Duration::from_secs(120) {
                    let _ = child.kill();
                    timed_out = true;
                    break child.wait().unwrap();
                }
                std::thread::sleep(std::time::Duration::from_millis(2));
            }
            Err(e) => panic!("wait: {}", e),
        }
    };
    let stdout = String::from_utf8_lossy(&t1.join().unwrap()).to_string();
    let mut stderr = String::from_utf8_lossy(&t2.join().unwrap()).to_string();
    if timed_out {
        stderr.push_str("\nLNVERIF-TIMEOUT: no exit within 120 s");
    }
    CliOut { code: status.code(), signal: status.signal(), stdout, stderr }
}

pub fn read_tree(dir: &Path) -> Tree {
    let mut t = Tree::new();
    let mut stack = vec![dir.to_path_buf()];
    while let Some(d) = stack.pop() {
        if let Ok(rd) = std::fs::read_dir(&d) {
            for e in rd.flatten() {
                let p = e.path();
                if p.is_dir() {
                    stack.push(p);
                } else if let Ok(b) = std::fs::read(&p) {
                    let rel = p.strip_prefix(dir).unwrap().to_string_lossy().to_string();
                    t.insert(rel, b);
                }
            }
        }
    }
    t
}

pub fn write_tree(dir: &Path, t: &Tree) {
    for (p, c) in t {
        let f = dir.join(p);
        std::fs::create_dir_all(f.parent().unwrap()).unwrap();
        std::fs::write(f, c).unwrap();
    }
}

/// order in which files were written, from the "<path>: Wrote file." lines
pub fn write_order(stdout: &str, dest: &Path) -> Vec<String> {
    let mut v = vec![];
    for l in stdout.lines() {
        if let Some(p) = l.strip_suffix(": Wrote file.") {
            let pb = PathBuf::from(p);
            if let Ok(rel) = pb.strip_prefix(dest) {
                v.push(rel.to_string_lossy().to_string());
            }
        }
    }
    v
}

#[derive(Clone)]
pub struct Fresh {
    pub ok: bool,
    pub plan: Vec<(String, Vec<u8>)>,
    pub lib_alt: Option<Vec<u8>>,
    pub diag: String,
}

pub struct Ctx {
    pub tmp: PathBuf,
    pub counter: usize,
    pub cache: HashMap<String, Fresh>,
}

impl Ctx {
    pub fn new(tag: &str) -> Ctx {
        let tmp = PathBuf::from(format!("/verif/.cache/tmp/{}_{}", tag, std::process::id()));
        let _ = std::fs::remove_dir_all(&tmp);
        std::fs::create_dir_all(&tmp).unwrap();
        Ctx { tmp, counter: 0, cache: HashMap::new() }
    }
    pub fn fresh_dir(&mut self) -> PathBuf {
        self.counter += 1;
        let d = self.tmp.join(format!("d{}", self.counter));
        std::fs::create_dir_all(&d).unwrap();
        d
    }
    pub fn spec_file(&mut self, spec: &Spec) -> PathBuf {
        self.counter += 1;
        let p = self.tmp.join(format!("spec{}.json", self.counter));
        std::fs::write(&p, spec_json(spec).to_text()).unwrap();
        p
    }
    /// the contents a fresh generation produces, in write order (= the plan the FS theorems quantify over)
    pub fn fresh(&mut self, spec: &Spec, name: &str, examples: bool) -> Fresh {
        let key = format!("{}|{}|{}", spec_sexp(spec), name, examples);
        if let Some(f) = self.cache.get(&key) {
            return f.clone();
        }
        let sp = self.spec_file(spec);
        let d = self.fresh_dir();
        let o = run_cli(&sp, name, &d, examples, &[], &[], None);
        let mut fr = Fresh { ok: o.code == Some(0), plan: vec![], lib_alt: None, diag: String::new() };
        if fr.ok {
            let t = read_tree(&d);
            for p in write_order(&o.stdout, &d) {
                let c = t.get(&p).cloned().unwrap_or_default();
                fr.plan.push((p, c));
            }
            // lib.rs variant without the generated default_http_client
            let d2 = self.fresh_dir();
            let prefix = b"fn default_http_client() {}\n// libninja: after".to_vec();
            std::fs::create_dir_all(d2.join("src")).unwrap();
            std::fs::write(d2.join("src/lib.rs"), &prefix).unwrap();
            let o2 = run_cli(&sp, name, &d2, examples, &[], &[], None);
            if o2.code == Some(0) {
                let c = std::fs::read(d2.join("src/lib.rs")).unwrap_or_default();
                if c.len() > prefix.len() && c[..prefix.len()] == prefix[..] {
                    fr.lib_alt = Some(c[prefix.len() + 1..].to_vec());
                }
            }
            let _ = std::fs::remove_dir_all(&d2);
        } else {
            fr.diag = format!("exit={:?} signal={:?} stderr={}", o.code, o.signal, o.stderr.lines().rev().take(6).collect::<Vec<_>>().join(" | "));
        }
        let _ = std::fs::remove_dir_all(&d);
        let _ = std::fs::remove_file(&sp);
        self.cache.insert(key, fr.clone());
        fr
    }
}

impl Drop for Ctx {
    fn drop(&mut self) {
        let _ = std::fs::remove_dir_all(&self.tmp);
    }
}

// ------------------------------------------------------------------ prior trees
const EXTRA_PATHS: &[&str] = &[
    "Cargo.toml", "README.md", "notes.rs", "src/extra.rs", "src/util/helpers.rs", "src/model/zzz_old.rs",
    "src/request/old_op.rs", "src/model/notes.txt", "src/data.json", "src/other/deep/nested/x.rs",
    "examples/old_example.rs", "examples/data.txt", "tests/t.rs", "benches/b.rs", "src/model/.rs", "src/a.b.rs",
    "src/serde.rs", "examples/README",
];

fn content(rng: &mut Rng, kind: usize) -> Vec<u8> {
    let body = ["fn old() {}\n", "// hand written\npub fn helper() -> u32 { 1 }\n", "", "x"][rng.below(4)];
    let nl = if rng.chance(1, 4) { "\r\n" } else { "\n" };
    let s = match kind {
        0 => body.to_string(),
        1 => match rng.below(6) {
            4 => format!("{}{}// libninja: static{}", body, "// padding line to push the marker far into the file\n".repeat(120), nl),
            5 => format!("{}{}/* libninja: static */", "// 0123456789 padding\n".repeat(400), body),
            0 => format!("// libninja: static{}{}", nl, body),
            1 => format!("{}// keep this libninja: static", body),
            2 => format!("{}/* a libninja: static b */{}{}", body, nl, body),
            _ => format!("use x;{}// libninja: static{}// libninja: after{}old", nl, nl, nl),
        },
        2 => match rng.below(8) {
            // a long hand-written head: the directive sits beyond any plausible read-ahead or buffer size
            7 => format!("{}// libninja: after{}old", "// hand-written helper documentation, kept above the generated part\n".repeat(150 + rng.below(400)), nl),
            5 => format!("use a::b;{}// libninja: after{}{}", nl, nl, "pub fn old_generated_item() {}\n".repeat(3000)),
            6 => format!("// caf\u{e9} libninja: after{}{}", nl, "old\n".repeat(5000)),
            0 => format!("use std::fmt;{}// libninja: after{}OLD GENERATED{}", nl, nl, nl),
            1 => "// libninja: after".to_string(),
            2 => format!("fn mine() {{}} /* libninja: after */ trailing on the same line{}old", nl),
            3 => format!("// libninja: after{}old{}// libninja: after{}older", nl, nl, nl),
            _ => format!("pub fn default_http_client() -> u8 {{ 0 }}{}// libninja: after{}old", nl, nl),
        },
        _ => format!("// libninja: after{}gen{}// libninja: static (below the after marker)", nl, nl),
    };
    s.into_bytes()
}

pub struct Step {
    pub spec: Spec,
    pub name: String,
    pub examples: bool,
    /// None = run to completion; Some((r1,r2)) = interrupted during a write chosen by r1, at a byte chosen by r2
    /// (resolved against the tree as it is when the step runs), then rerun
    pub crash: Option<(u64, u64)>,
    /// Some(j) = interrupted before the (j+1)-th removal, then rerun
    pub crash_remove: Option<usize>,
    /// corpus cases: interrupt the write of exactly this path
    pub crash_path: Option<String>,
}

pub struct History {
    pub prior: Tree,
    pub steps: Vec<Step>,
}

fn mutate_spec(rng: &mut Rng, s: &Spec, p: &Profile) -> Spec {
    let mut s2 = s.clone();
    match rng.below(4) {
        0 => {
            // drop the last operation / path
            if s2.paths.len() > 1 {
                s2.paths.pop();
            }
        }
        1 => {
            // a completely new spec
            return gen_spec(rng, p);
        }
        2 => {
            // rename one operation
            if let Some(pi) = s2.paths.first_mut() {
                if let Some(o) = pi.ops.first_mut() {
                    o.operation_id = Some("renamedOperation".into());
                }
            }
        }
        _ => {}
    }
    s2
}

pub fn gen_history(rng: &mut Rng, ctx: &mut Ctx, prof: &Profile, with_crash: bool) -> History {
    let spec = gen_spec(rng, prof);
    let name = ["Petstore", "Acme", "MyApi"][rng.below(3)].to_string();
    let examples = rng.chance(1, 2);
    let fr = ctx.fresh(&spec, &name, examples);
    let mut prior = Tree::new();
    // extra files
    let n_extra = rng.below(7);
    for _ in 0..n_extra {
        let p = EXTRA_PATHS[rng.below(EXTRA_PATHS.len())];
        let kind = [0, 0, 1, 1, 2, 3][rng.below(6)];
        prior.insert(p.to_string(), content(rng, kind));
    }
    // files at generated paths
    if fr.ok && !fr.plan.is_empty() {
        let n_gen = rng.below(5);
        for _ in 0..n_gen {
            let (p, c) = &fr.plan[rng.below(fr.plan.len())];
            let kind = rng.below(6);
            let v = match kind {
                0 => c.clone(), // a previous identical generation
                1 => b"stale generated text\n".to_vec(),
                2 => content(rng, 1),
                3 | 4 => content(rng, 2),
                _ => content(rng, 3),
            };
            prior.insert(p.clone(), v);
        }
        if rng.chance(1, 3) {
            let v = if rng.chance(1, 2) { content(rng, 2) } else { b"// my crate docs\n// libninja: after\nOLD".to_vec() };
            prior.insert("src/lib.rs".to_string(), v);
        }
        if rng.chance(1, 3) {
            // previous generation of a different spec, complete
            let other = gen_spec(rng, prof);
            let fo = ctx.fresh(&other, &name, true);
            for (p, c) in fo.plan {
                prior.entry(p).or_insert(c);
            }
        }
    }
    let mut steps = vec![];
    let nsteps = 1 + rng.below(3);
    let mut cur = spec;
    for i in 0..nsteps {
        let mut crash = None;
        let mut crash_remove = None;
        if with_crash && rng.chance(1, 2) {
            if rng.chance(4, 5) {
                crash = Some((rng.next(), rng.next()));
            } else {
                crash_remove = Some(rng.below(3));
            }
        }
        steps.push(Step { spec: cur.clone(), name: name.clone(), examples, crash, crash_remove, crash_path: None });
        if i + 1 < nsteps {
            cur = if rng.chance(1, 3) { cur.clone() } else { mutate_spec(rng, &cur, prof) };
        }
    }
    History { prior, steps }
}

// ------------------------------------------------------------------ running a history
fn has(c: &[u8], m: &[u8]) -> bool {
    c.windows(m.len()).any(|w| w == m)
}
fn find(c: &[u8], m: &[u8]) -> Option<usize> {
    c.windows(m.len()).position(|w| w == m)
}
const STATIC: &[u8] = b"libninja: static";
const AFTER: &[u8] = b"libninja: after";

fn is_rs(p: &str) -> bool {
    let f = p.rsplit('/').next().unwrap_or("");
    f.ends_with(".rs") && f != ".rs"
}
fn in_scope(p: &str) -> bool {
    (p.starts_with("src/") || p.starts_with("examples/")) && is_rs(p)
}

fn emit_tree(out: &mut Vec<String>, tag: &str, t: &Tree) {
    out.push(format!("{} {}", tag, t.len()));
    for (p, c) in t {
        out.push(format!("F {} {}", hex(p.as_bytes()), hex(c)));
    }
}

pub struct RunResult {
    pub case_lines: Vec<String>,  // input for the model
    pub impl_lines: Vec<String>,  // observations of the implementation, same grammar as the model's output
    pub oracle: Vec<(String, String)>, // (property, message) direct-oracle failures
    pub features: Vec<&'static str>,
    pub skipped: bool,
}

pub fn run_history(ctx: &mut Ctx, id: usize, h: &History) -> RunResult {
    let mut rr = RunResult { case_lines: vec![], impl_lines: vec![], oracle: vec![], features: vec![], skipped: false };
    let dir = ctx.fresh_dir();
    write_tree(&dir, &h.prior);
    rr.case_lines.push(format!("CASE {}", id));
    for (p, c) in &h.prior {
        rr.case_lines.push(format!("T {} {}", hex(p.as_bytes()), hex(c)));
        if has(c, STATIC) {
            rr.features.push("prior_static");
        }
        if has(c, AFTER) {
            rr.features.push("prior_after");
        }
    }
    rr.impl_lines.push(format!("CASE {}", id));
    let mut cur = h.prior.clone();
    for st in &h.steps {
        let fr = ctx.fresh(&st.spec, &st.name, st.examples);
        if !fr.ok {
            rr.skipped = true;
            rr.oracle.push(("C01".into(), format!("fresh generation failed: {}", fr.diag)));
            break;
        }
        let sp = ctx.spec_file(&st.spec);
        // plan for the model
        for (p, c) in &fr.plan {
            let alt = if p == "src/lib.rs" { fr.lib_alt.as_ref().map(|a| hex(a)).unwrap_or("-".into()) } else { "-".into() };
            rr.case_lines.push(format!("W {} {} {}", hex(p.as_bytes()), hex(c), alt));
        }
        let plan_paths: Vec<&String> = fr.plan.iter().map(|(p, _)| p).collect();
        let markers_free = fr.plan.iter().all(|(_, c)| !has(c, STATIC) && !has(c, AFTER));
        if !markers_free {
            rr.features.push("marker_in_code");
        }
        let before = cur.clone();
        // ---- interrupted run first, if requested
        let mut crash_k: Option<usize> = None;
        if let Some((r1, r2)) = st.crash {
            // candidates: plan entries that will really be written (their current content is not static)
            let cands: Vec<usize> = (0..fr.plan.len()).filter(|&i| !cur.get(&fr.plan[i].0).map(|c| has(c, STATIC)).unwrap_or(false)).collect();
            if !cands.is_empty() {
                let mut k = cands[(r1 % cands.len() as u64) as usize];
                if let Some(cp) = &st.crash_path {
                    if let Some(i) = cands.iter().find(|&&i| &fr.plan[i].0 == cp) {
                        k = *i;
                    }
                }
                let hook_k = cands.iter().position(|&i| i == k).unwrap();
                // length of the new content of that file
                let (p, code) = &fr.plan[k];
                let newlen = match cur.get(p) {
                    Some(c) if has(c, AFTER) => find(c, AFTER).unwrap() + AFTER.len() + 1 + code.len(),
                    _ => code.len(),
                };
                let newbytes: Vec<u8> = match cur.get(p) {
                    Some(c) if has(c, AFTER) => {
                        let mut v = c[..find(c, AFTER).unwrap() + AFTER.len()].to_vec();
                        v.push(b'\n');
                        v.extend_from_slice(code);
                        v
                    }
                    _ => code.clone(),
                };
                let b = match r2 % 8 {
                    6 | 7 => match newbytes.iter().position(|x| *x >= 0x80) {
                        // cut in the middle of the first multi-byte UTF-8 sequence
                        Some(i) => {
                            rr.features.push("crash_inside_utf8_char");
                            i + 1
                        }
                        None => newlen / 3,
                    },
                    0 => 0,
                    1 => 1.min(newlen),
                    2 => newlen.saturating_sub(1),
                    3 => newlen / 2,
                    4 => newlen,
                    _ => ((r2 / 7) % (newlen as u64 + 1)) as usize,
                };
                rr.features.push("crash_write");
                if cur.get(p).map(|c| has(c, AFTER)).unwrap_or(false) {
                    rr.features.push("crash_on_after_file");
                }
                let o = run_cli(&sp, &st.name, &dir, st.examples, &[], &[("LIBNINJA_VERIF_CRASH_AT", format!("{}:{}", hook_k, b))], None);
                let crashed = read_tree(&dir);
                rr.case_lines.push(format!("X {} {}", k, b));
                if o.signal.is_none() {
                    rr.oracle.push(("C12".into(), format!("[class=harness] crash hook did not fire at write {} (plan index {})", hook_k, k)));
                }
                emit_tree(&mut rr.impl_lines, "XR", &crashed);
                crash_k = Some(k);
            }
        } else if let Some(j) = st.crash_remove {
            rr.features.push("crash_remove");
            let o = run_cli(&sp, &st.name, &dir, st.examples, &[], &[("LIBNINJA_VERIF_CRASH_AT_REMOVE", format!("{}", j))], None);
            let crashed = read_tree(&dir);
            // which doomed files were removed is up to walkdir: tell the model
            let written = {
                let mut t = Tree::new();
                let _ = &o;
                for (p, c) in &crashed {
                    t.insert(p.clone(), c.clone());
                }
                t
            };
            let mut removed: Vec<String> = vec![];
            for p in cur.keys() {
                if !written.contains_key(p) {
                    removed.push(p.clone());
                }
            }
            rr.case_lines.push(format!("Y {}", removed.iter().map(|p| hex(p.as_bytes())).collect::<Vec<_>>().join(",")));
            emit_tree(&mut rr.impl_lines, "YR", &crashed);
        }
        // ---- the (re)run to completion
        rr.case_lines.push("G".to_string());
        let o = run_cli(&sp, &st.name, &dir, st.examples, &[], &[], None);
        let after = read_tree(&dir);
        if o.code != Some(0) {
            rr.oracle.push(("C01".into(), format!("generation over a prior tree failed: exit={:?} signal={:?} {}", o.code, o.signal, o.stderr.lines().last().unwrap_or(""))));
        }
        emit_tree(&mut rr.impl_lines, "R", &after);
        // ---- direct oracles on the real trees
        // C10: static-marked files untouched
        for (p, c) in &before {
            if has(c, STATIC) && after.get(p) != Some(c) {
                rr.oracle.push(("C10".into(), format!("static-marked file {} was {}", p, if after.contains_key(p) { "modified" } else { "deleted" })));
            }
        }
        // C11: after-marked generated files
        for (p, fresh) in &fr.plan {
            if let Some(c) = before.get(p) {
                if !has(c, STATIC) {
                    if let Some(i) = find(c, AFTER) {
                        rr.features.push("after_at_generated_path");
                        let mut expect = c[..i + AFTER.len()].to_vec();
                        expect.push(b'\n');
                        let code: &Vec<u8> = if p == "src/lib.rs" && has(&c[..i], b"default_http_client") {
                            rr.features.push("custom_default_http_client");
                            fr.lib_alt.as_ref().unwrap_or(fresh)
                        } else {
                            fresh
                        };
                        expect.extend_from_slice(code);
                        // an interrupted rewrite of this very file may have destroyed the prefix (finding P17): judged under C12
                        let interrupted_here = crash_k.map(|k| fr.plan.get(k).map(|(q, _)| q == p).unwrap_or(false)).unwrap_or(false);
                        if after.get(p) != Some(&expect) && !interrupted_here {
                            rr.oracle.push(("C11".into(), format!("after-marked file {}: expected prefix+directive+newline+fresh code ({} bytes), found {} bytes", p, expect.len(), after.get(p).map(|x| x.len()).unwrap_or(0))));
                        }
                    }
                }
            }
        }
        // C12 exact / confined
        for (p, c) in &after {
            if in_scope(p) {
                let ok = plan_paths.contains(&p) || before.get(p).map(|b| has(b, STATIC)).unwrap_or(false);
                if !ok {
                    rr.oracle.push(("C12".into(), format!("stale .rs file {} survived cleanup", p)));
                }
            } else if !plan_paths.contains(&p) && before.get(p) != Some(c) {
                rr.oracle.push(("C12".into(), format!("file outside the cleanup scope {} was created or changed", p)));
            }
        }
        for p in &plan_paths {
            if !after.contains_key(*p) {
                rr.oracle.push(("C12".into(), format!("generated file {} is missing", p)));
            }
        }
        for (p, c) in &before {
            if !in_scope(p) && !plan_paths.contains(&p) && after.get(p) != Some(c) {
                rr.oracle.push(("C12".into(), format!("file outside the cleanup scope {} was removed or changed", p)));
            }
            if has(c, STATIC) && std::str::from_utf8(c).is_ok() && in_scope(p) && !after.contains_key(p) {
                rr.oracle.push(("C12".into(), format!("static-marked file {} is not among the files after the generation", p)));
            }
        }
        // C12 exact, contents: a generated path whose prior content carried no directive (or that did not exist) holds
        // exactly the code of the current generation afterwards, nothing of what was there before
        for (p, fresh) in &fr.plan {
            let marked = before.get(p).map(|c| has(c, STATIC) || has(c, AFTER)).unwrap_or(false);
            if !marked && o.code == Some(0) {
                if let Some(got) = after.get(p) {
                    if got != fresh {
                        let class = if markers_free { "other" } else { "marker_in_code" };
                        rr.oracle.push(("C12".into(), format!("[class={}] generated file {} does not hold the code of the current generation: {} bytes expected, {} found (prior content: {} bytes)",
                                                              class, p, fresh.len(), got.len(), before.get(p).map(|c| c.len()).unwrap_or(0))));
                    }
                }
            }
        }
        // C12 crash convergence: compare with an uninterrupted run from the same prior state
        if crash_k.is_some() || st.crash_remove.is_some() {
            let d2 = ctx.fresh_dir();
            write_tree(&d2, &before);
            let _ = run_cli(&sp, &st.name, &d2, st.examples, &[], &[], None);
            let clean = read_tree(&d2);
            let _ = std::fs::remove_dir_all(&d2);
            if clean != after {
                // classify: known class P17 = the interrupted file carried an `after` prefix
                let mut class = "other";
                if let Some(k) = crash_k {
                    if let Some((p, _)) = fr.plan.get(k) {
                        if before.get(p).map(|c| has(c, AFTER) && !has(c, STATIC)).unwrap_or(false) {
                            class = "after_prefix_lost";
                        }
                    }
                }
                if !markers_free {
                    class = "marker_in_code";
                }
                let diffs: Vec<&String> = clean.keys().chain(after.keys()).filter(|p| clean.get(*p) != after.get(*p)).collect();
                rr.oracle.push(("C12".into(), format!("[class={}] tree after interrupted+rerun differs from uninterrupted run at {:?}", class, diffs.iter().take(3).collect::<Vec<_>>())));
            }
        }
        // C12 idempotence: run the same generation again
        {
            let o2 = run_cli(&sp, &st.name, &dir, st.examples, &[], &[], None);
            let again = read_tree(&dir);
            rr.case_lines.push("G".to_string());
            emit_tree(&mut rr.impl_lines, "R", &again);
            if again != after || o2.code != Some(0) {
                let class = if markers_free { "other" } else { "marker_in_code" };
                let diffs: Vec<&String> = again.keys().chain(after.keys()).filter(|p| again.get(*p) != after.get(*p)).collect();
                rr.oracle.push(("C12".into(), format!("[class={}] second identical generation changed the tree at {:?}", class, diffs.iter().take(3).collect::<Vec<_>>())));
            }
            cur = again;
        }
        rr.case_lines.push("S".to_string()); // end of step: the next W lines start a new plan
        let _ = std::fs::remove_file(&sp);
    }
    rr.case_lines.push("E".to_string());
    rr.impl_lines.push("E".to_string());
    let _ = std::fs::remove_dir_all(&dir);
    rr.features.sort();
    rr.features.dedup();
    rr
}

/// deterministic witnesses: one per recorded finding, plus minimised cases kept from earlier failures
pub fn corpus() -> Vec<(&'static str, History)> {
    let ping = Spec {
        paths: vec![PathItem {
            path: "/ping".into(),
            params: vec![],
            ops: vec![Op { method: "get".into(), operation_id: Some("ping".into()), responses: vec![(200, None)], ..Default::default() }],
        }],
        ..Default::default()
    };
    let mut v = vec![];
    // P17: interrupted rewrite of an after-marked file loses the hand-written prefix
    let mut prior = Tree::new();
    prior.insert("src/lib.rs".into(), b"// my own header\n// libninja: after\nOLD".to_vec());
    v.push((
        "after_prefix_lost",
        History {
            prior,
            steps: vec![Step { spec: ping.clone(), name: "Petstore".into(), examples: true, crash: Some((0, 8 * 1 + 1)), crash_remove: None, crash_path: Some("src/lib.rs".into()) }],
        },
    ));
    // P16: a description containing a directive makes the second identical generation rewrite the file
    let mut sp = ping.clone();
    sp.components.push(("Pet".into(), Schema { descr: Some("see libninja: after for details".into()), ..s_obj(vec![("id", inl(s_int()))], &["id"]) }));
    sp.paths[0].ops[0].responses = vec![(200, Some(rf("Pet")))];
    v.push((
        "marker_in_code",
        History { prior: Tree::new(), steps: vec![Step { spec: sp, name: "Petstore".into(), examples: true, crash: None, crash_remove: None, crash_path: None }] },
    ));
    v
}

pub fn cmd_fs(args: &[String]) {
    let seed: u64 = arg_val(args, "--seed").and_then(|s| s.parse().ok()).unwrap_or(1);
    let n: usize = arg_val(args, "--n").and_then(|s| s.parse().ok()).unwrap_or(100);
    let out = arg_val(args, "--out").unwrap();
    let shard: usize = arg_val(args, "--shard").and_then(|s| s.parse().ok()).unwrap_or(0);
    let directive_docs = args.iter().any(|a| a == "--directive-docs");
    let mut rng = Rng::new(seed.wrapping_mul(1000003).wrapping_add(shard as u64));
    let mut ctx = Ctx::new(&format!("fs{}", shard));
    let mut prof = Profile::safe();
    prof.docs = true;
    prof.directive_docs = directive_docs;
    let mut cases = std::io::BufWriter::new(std::fs::File::create(format!("{}/cases_{}.txt", out, shard)).unwrap());
    let mut imp = std::io::BufWriter::new(std::fs::File::create(format!("{}/impl_{}.obs", out, shard)).unwrap());
    let mut orc = std::io::BufWriter::new(std::fs::File::create(format!("{}/oracle_{}.txt", out, shard)).unwrap());
    let mut feat = std::io::BufWriter::new(std::fs::File::create(format!("{}/features_{}.txt", out, shard)).unwrap());
    let corp = if shard == 0 { corpus() } else { vec![] };
    let ncorp = corp.len();
    let mut corp = corp.into_iter();
    for i in 0..n + ncorp {
        let id = shard * 100000 + i;
        let (tag, h) = match corp.next() {
            Some((tag, h)) => (tag, h),
            None => ("", gen_history(&mut rng, &mut ctx, &prof, true)),
        };
        let mut rr = run_history(&mut ctx, id, &h);
        if !tag.is_empty() {
            rr.features.push("corpus");
            for (_, m) in rr.oracle.iter_mut() {
                m.push_str(&format!(" [corpus={}]", tag));
            }
        }
        if rr.skipped {
            for (p, m) in &rr.oracle {
                writeln!(orc, "{}\t{}\t{}", id, p, m).unwrap();
            }
            continue;
        }
        for l in &rr.case_lines {
            writeln!(cases, "{}", l).unwrap();
        }
        for l in &rr.impl_lines {
            writeln!(imp, "{}", l).unwrap();
        }
        for (p, m) in &rr.oracle {
            writeln!(orc, "{}\t{}\t{}", id, p, m).unwrap();
        }
        writeln!(feat, "{}\t{}\t{}\t{}", id, h.prior.len(), h.steps.len(), rr.features.join(",")).unwrap();
    }
}

/// `lnverif gen-one -o <dir> [--derive D]* <Name> <spec>`: what `libninja gen` does, with examples off.
pub fn cmd_gen_one(args: &[String]) {
    use convert_case::{Case, Casing};
    let mut out = ".".to_string();
    let mut derives = vec![];
    let mut pos = vec![];
    let mut i = 2;
    while i < args.len() {
        match args[i].as_str() {
            "-o" => {
                out = args[i + 1].clone();
                i += 2;
            }
            "--derive" => {
                derives.push(args[i + 1].clone());
                i += 2;
            }
            _ => {
                pos.push(args[i].clone());
                i += 1;
            }
        }
    }
    let spec = read_spec(Path::new(&pos[1]));
    let spec = libninja::extractor::extract_spec(&spec).unwrap();
    let config = hir::Config {
        name: pos[0].to_case(Case::Pascal),
        dest: PathBuf::from(out),
        derives,
        build_examples: false,
        ormlite: false,
    };
    codegen_rust::generate_rust_library(spec, config).unwrap();
}

/// libninja/src/command/generate.rs: read_spec (private there)
pub fn read_spec(path: &Path) -> openapiv3::OpenAPI {
    let file = std::fs::File::open(path).expect("OpenAPI file not found");
    let ext = path.extension().map(|s| s.to_str().unwrap()).unwrap_or("yaml");
    let v: openapiv3::VersionedOpenAPI = match ext {
        "yaml" => serde_yaml::from_reader(file).unwrap(),
        "json" => serde_json::from_reader(file).unwrap(),
        _ => panic!("Unknown file extension"),
    };
    v.upgrade()
}
