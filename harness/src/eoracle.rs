//! Direct oracles on the emitted files (read back with syn), written from the property texts.
//! Reference data: the abstract spec, the configuration, and the HirSpec the real extractor produced
//! (itself judged against the abstract spec by horacle.rs).
use crate::emitrun::Cfg;
use crate::fsrun::Tree;
use crate::horacle::Finding;
use crate::spec::*;
use hir::{AuthStrategy, HirSpec, Location, Record};
use mir_rust::{sanitize_filename, ToRustIdent};
use quote::ToTokens;
use std::collections::{BTreeMap, BTreeSet};
use syn::{Attribute, Expr, ImplItem, Item, Lit, Meta};

fn f(prop: &'static str, class: &'static str, msg: String) -> Finding {
    Finding { prop, class, msg }
}

fn doc_of(attrs: &[Attribute]) -> Option<String> {
    let mut parts = vec![];
    for a in attrs {
        if a.path().is_ident("doc") {
            if let Meta::NameValue(nv) = &a.meta {
                if let Expr::Lit(l) = &nv.value {
                    if let Lit::Str(s) = &l.lit {
                        parts.push(s.value());
                    }
                }
            }
        }
    }
    if parts.is_empty() {
        None
    } else {
        Some(parts.join("\n"))
    }
}

/// prettyplease strips trailing spaces from every line of a doc comment: compare up to that
fn dn(s: &str) -> String {
    s.trim().lines().map(|l| l.trim_end()).collect::<Vec<_>>().join("\n")
}

fn derives_of(attrs: &[Attribute]) -> Option<Vec<String>> {
    for a in attrs {
        if a.path().is_ident("derive") {
            if let Meta::List(l) = &a.meta {
                // split the token stream on top-level commas
                let mut out = vec![];
                let mut cur = String::new();
                for tt in l.tokens.clone() {
                    match &tt {
                        proc_macro2::TokenTree::Punct(p) if p.as_char() == ',' => {
                            out.push(cur.trim().to_string());
                            cur = String::new();
                        }
                        other => {
                            cur.push_str(&other.to_string());
                            cur.push(' ');
                        }
                    }
                }
                if !cur.trim().is_empty() {
                    out.push(cur.trim().to_string());
                }
                return Some(out);
            }
        }
    }
    None
}

fn serde_args(attrs: &[Attribute]) -> Vec<String> {
    let mut v = vec![];
    for a in attrs {
        if a.path().is_ident("serde") {
            v.push(a.meta.to_token_stream().to_string());
        }
    }
    v
}

fn norm_tokens(s: &str) -> String {
    s.parse::<proc_macro2::TokenStream>().map(|t| t.into_iter().map(|x| x.to_string() + " ").collect::<String>().trim().to_string()).unwrap_or_else(|_| s.to_string())
}

/// the non-blank description the document gives component `name`, if any
fn described(spec: &Spec, name: &str) -> Option<String> {
    spec.components.iter().find(|(n, _)| n == name).and_then(|(_, s)| s.descr.clone()).filter(|d| !d.trim().is_empty())
}

pub fn judge_files(spec: &Spec, cfg: &Cfg, h: &HirSpec, files: &Tree) -> Vec<Finding> {
    let mut out = vec![];
    let parse = |p: &str| -> Option<syn::File> { files.get(p).and_then(|c| syn::parse_file(&String::from_utf8_lossy(c)).ok()) };
    // ---------------- every emitted file parses (C02 / C17 "does not corrupt the file")
    for (p, c) in files {
        if p.ends_with(".rs") && syn::parse_file(&String::from_utf8_lossy(c)).is_err() {
            out.push(f("C02", "", format!("emitted file {} does not parse", p)));
        }
    }
    let user: Vec<String> = cfg.derives.iter().filter(|d| d.trim().parse::<proc_macro2::TokenStream>().is_ok()).map(|d| norm_tokens(d.trim())).filter(|d| !d.is_empty() || true).collect();
    // a derive string that lexes to nothing contributes `, ` + nothing: visible as an empty element; keep as is
    let check_derives = |what: &str, got: Option<Vec<String>>, builtin_opts: &[Vec<&str>], out: &mut Vec<Finding>| {
        let Some(got) = got else {
            out.push(f("C18", "", format!("{} has no derive attribute", what)));
            return;
        };
        let got: Vec<String> = got.iter().map(|g| norm_tokens(g)).collect();
        let user_nonempty: Vec<String> = user.iter().filter(|u| !u.is_empty()).cloned().collect();
        let ok = builtin_opts.iter().any(|b| {
            let mut want: Vec<String> = b.iter().map(|x| x.to_string()).collect();
            want.extend(user_nonempty.iter().cloned());
            want == got
        });
        if !ok {
            out.push(f("C18", "", format!("{}: derive list {:?}, expected built-ins {:?} followed by {:?}", what, got, builtin_opts, user_nonempty)));
        }
    };
    // ---------------- model files
    let mut expected_model_files: BTreeSet<String> = BTreeSet::new();
    expected_model_files.insert("src/model/mod.rs".into());
    for (name, rec) in &h.schemas {
        let path = format!("src/model/{}.rs", sanitize_filename(name));
        expected_model_files.insert(path.clone());
        let Some(file) = parse(&path) else {
            out.push(f("C07", "", format!("schema {} has no model file {}", name, path)));
            continue;
        };
        let ident = name.as_str().to_rust_struct().0;
        match rec {
            Record::Struct(st) => {
                let Some(Item::Struct(s)) = file.items.iter().find(|i| matches!(i, Item::Struct(s) if s.ident == ident)) else {
                    out.push(f("C04", "", format!("{}: struct {} not found", path, ident)));
                    continue;
                };
                check_derives(&format!("struct {}", ident), derives_of(&s.attrs), &[vec!["Debug", "Clone", "Serialize", "Deserialize"], vec!["Debug", "Clone", "Serialize", "Deserialize", "Default"]], &mut out);
                if doc_of(&s.attrs).map(|d| dn(&d)) != st.docs.as_ref().map(|d| dn(&d.0)) {
                    out.push(f("C17", "", format!("struct {}: doc {:?}, description {:?}", ident, doc_of(&s.attrs), st.docs)));
                }
                let fields: Vec<&syn::Field> = s.fields.iter().collect();
                if fields.len() != st.fields.len() {
                    out.push(f("C04", "", format!("struct {} has {} fields, schema has {}", ident, fields.len(), st.fields.len())));
                }
                for (fname, hf) in &st.fields {
                    let fid = fname.as_str().to_rust_ident().0;
                    let Some(fl) = fields.iter().find(|x| x.ident.as_ref().map(|i| i == &fid).unwrap_or(false)) else {
                        out.push(f("C04", "", format!("struct {}: no field {} for property {}", ident, fid, fname)));
                        continue;
                    };
                    let sa = serde_args(&fl.attrs).join(" ");
                    // the wire name is the exact OpenAPI name: either the identifier itself or an explicit rename
                    let renamed = sa.contains(&format!("rename = {:?}", fname));
                    if hf.flatten {
                        if fid != *fname && !sa.contains("flatten") {
                            out.push(f("C04", "", format!("{}.{}: allOf member is not flattened ({})", ident, fid, sa)));
                        }
                    } else if fid != *fname && !renamed {
                        out.push(f("C04", "", format!("{}.{}: property {:?} travels under a different name ({})", ident, fid, fname, sa)));
                    } else if fid == *fname && sa.contains("rename") {
                        out.push(f("C04", "", format!("{}.{}: unexpected rename ({})", ident, fid, sa)));
                    }
                    let ty = fl.ty.to_token_stream().to_string();
                    let is_opt = ty.starts_with("Option <");
                    let plain_required = !hf.optional
                        && matches!(hf.ty, mir::Ty::String | mir::Ty::Float | mir::Ty::Boolean | mir::Ty::Model(_) | mir::Ty::Integer { ser: mir::IntegerSerialization::Simple });
                    if plain_required && (is_opt || sa.contains("default")) {
                        out.push(f("C04", "", format!("{}.{}: required non-nullable member is optional/defaulted in the generated type ({} {})", ident, fid, ty, sa)));
                    }
                    if hf.optional && !is_opt {
                        out.push(f("C04", "", format!("{}.{}: optional member is not Option ({})", ident, fid, ty)));
                    }
                    if doc_of(&fl.attrs).map(|d| dn(&d)) != hf.doc.as_ref().map(|d| dn(&d.0)) {
                        out.push(f("C17", "", format!("{}.{}: doc {:?}, property description {:?}", ident, fid, doc_of(&fl.attrs), hf.doc)));
                    }
                    // C19: every adapter reference is backed by serde.rs
                    for adapter in ["option_i64_str", "option_i64_null_as_zero", "option_chrono_naive_date_as_int"] {
                        if sa.contains(&format!("crate::serde::{}", adapter)) {
                            let serde_rs = files.get("src/serde.rs").map(|c| String::from_utf8_lossy(c).to_string()).unwrap_or_default();
                            let lib = files.get("src/lib.rs").map(|c| String::from_utf8_lossy(c).to_string()).unwrap_or_default();
                            if !serde_rs.contains(&format!("pub mod {}", adapter)) || !lib.contains("mod serde;") {
                                out.push(f("C19", "", format!("{}.{} uses crate::serde::{} but serde.rs / `mod serde;` does not provide it", ident, fid, adapter)));
                            }
                        }
                    }
                }
            }
            Record::Enum(e) => {
                let Some(Item::Enum(en)) = file.items.iter().find(|i| matches!(i, Item::Enum(s) if s.ident == ident)) else {
                    out.push(f("C04", "", format!("{}: enum {} not found", path, ident)));
                    continue;
                };
                check_derives(&format!("enum {}", ident), derives_of(&en.attrs), &[vec!["Debug", "Serialize", "Deserialize", "Clone"]], &mut out);
                if doc_of(&en.attrs).map(|d| dn(&d)) != e.doc.as_ref().map(|d| dn(&d.0)) {
                    out.push(f("C17", "", format!("enum {}: doc {:?}, description {:?}", ident, doc_of(&en.attrs), e.doc)));
                }
                let mut wire = BTreeSet::new();
                for (v, hv) in en.variants.iter().zip(e.variants.iter()) {
                    let sa = serde_args(&v.attrs).join(" ");
                    let w = if sa.contains("rename") { sa.split('"').nth(1).unwrap_or("").to_string() } else { v.ident.to_string() };
                    if w != hv.value {
                        out.push(f("C04", "", format!("enum {}: value {:?} travels as {:?}", ident, hv.value, w)));
                    }
                    wire.insert(w);
                }
                if wire.len() != e.variants.len() || en.variants.len() != e.variants.len() {
                    out.push(f("C04", "", format!("enum {}: {} values, {} variants, {} distinct wire strings", ident, e.variants.len(), en.variants.len(), wire.len())));
                }
            }
            Record::NewType(_) => {
                let Some(Item::Struct(s)) = file.items.iter().find(|i| matches!(i, Item::Struct(s) if s.ident == ident)) else {
                    out.push(f("C04", "", format!("{}: newtype {} not found", path, ident)));
                    continue;
                };
                check_derives(&format!("newtype {}", ident), derives_of(&s.attrs), &[vec!["Debug", "Clone", "Serialize", "Deserialize"], vec!["Debug", "Clone", "Serialize", "Deserialize", "Default"]], &mut out);
                // C17 "a schema's description documents its type", judged from the DOCUMENT
                if let Some(d) = described(spec, name) {
                    if doc_of(&s.attrs).map(|x| dn(&x)) != Some(dn(&d)) {
                        out.push(f("C17", "alias_doc_dropped", format!("tuple struct {}: description {:?} of the schema is not its doc comment ({:?})", ident, d, doc_of(&s.attrs))));
                    }
                }
            }
            Record::TypeAlias(..) => {
                let Some(Item::Type(t)) = file.items.iter().find(|i| matches!(i, Item::Type(t) if t.ident == ident)) else {
                    out.push(f("C04", "", format!("{}: type alias {} not found", path, ident)));
                    continue;
                };
                if let Some(d) = described(spec, name) {
                    if doc_of(&t.attrs).map(|x| dn(&x)) != Some(dn(&d)) {
                        out.push(f("C17", "alias_doc_dropped", format!("type alias {}: description {:?} of the schema is not its doc comment ({:?})", ident, d, doc_of(&t.attrs))));
                    }
                }
            }
        }
    }
    // model/mod.rs declares exactly the schemas
    if let Some(m) = parse("src/model/mod.rs") {
        let mods: BTreeSet<String> = m.items.iter().filter_map(|i| if let Item::Mod(x) = i { Some(x.ident.to_string()) } else { None }).collect();
        let want: BTreeSet<String> = h.schemas.keys().map(|k| sanitize_filename(k)).collect();
        if mods != want {
            out.push(f("C07", "", format!("model/mod.rs declares {:?}, schema table has {:?}", mods, want)));
        }
    } else {
        out.push(f("C07", "", "src/model/mod.rs missing or unparseable".into()));
    }
    for p in files.keys() {
        if p.starts_with("src/model/") && !expected_model_files.contains(p) {
            out.push(f("C07", "", format!("unexpected model file {}", p)));
        }
    }
    // ---------------- request files
    // why two operations can share a module: names synthesised from the path, or explicit ids equal up to case/punctuation
    let ids: Vec<&String> = spec.paths.iter().flat_map(|p| p.ops.iter()).filter_map(|o| o.operation_id.as_ref()).collect();
    let case_only = ids.iter().enumerate().any(|(i, a)| ids.iter().skip(i + 1).any(|b| a != b && crate::specgen::norm(a) == crate::specgen::norm(b)));
    let collision_class: &'static str = if case_only { "id_case_collision" } else { "synth_name_collision" };
    let mut req_files: BTreeSet<String> = BTreeSet::new();
    let client_ident = format!("{}Client", cfg_name(cfg));
    for o in &h.operations {
        let path = format!("src/request/{}.rs", o.file_name());
        if !req_files.insert(path.clone()) {
            out.push(f("C06", collision_class, format!("two operations write {}", path)));
        }
        if h.operations.iter().filter(|x| x.file_name() == o.file_name()).count() > 1 {
            continue; // which operation the surviving file belongs to is the C06 finding itself
        }
        let Some(file) = parse(&path) else {
            out.push(f("C06", "", format!("operation {} has no request module {}", o.name, path)));
            continue;
        };
        let rs = o.request_struct_name().as_str().to_rust_struct().0;
        let Some(Item::Struct(s)) = file.items.iter().find(|i| matches!(i, Item::Struct(s) if s.ident == rs)) else {
            out.push(f("C06", "", format!("{}: request struct {} not found", path, rs)));
            continue;
        };
        check_derives(&format!("request struct {}", rs), derives_of(&s.attrs), &[vec!["Debug", "Clone", "Serialize", "Deserialize"]], &mut out);
        // C05: every input is a field of the request struct; optional ones are Option and have a setter; required ones are arguments
        let field_names: Vec<String> = s.fields.iter().filter_map(|x| x.ident.as_ref().map(|i| i.to_string())).collect();
        let want_fields: Vec<String> = o.parameters.iter().map(|p| p.name.as_str().to_rust_ident().0).collect();
        if field_names != want_fields {
            out.push(f("C05", "", format!("{}: request struct fields {:?}, inputs {:?}", rs, field_names, want_fields)));
        }
        // each once: whatever table the extractor produced, no input may appear twice in the interface
        {
            let mut seen = std::collections::BTreeSet::new();
            for n in &field_names {
                if !seen.insert(n.clone()) {
                    out.push(f("C05", "", format!("{}: input {} is a field of the request struct more than once", rs, n)));
                }
            }
        }
        let mut setters: Vec<String> = vec![];
        let mut client_sig: Option<(Vec<(String, String)>, Option<String>)> = None;
        let mut into_future_body: Option<String> = None;
        for it in &file.items {
            if let Item::Impl(im) = it {
                let selfty = im.self_ty.to_token_stream().to_string();
                if im.trait_.is_none() && selfty.starts_with("FluentRequest") {
                    for ii in &im.items {
                        if let ImplItem::Fn(m) = ii {
                            setters.push(m.sig.ident.to_string());
                        }
                    }
                } else if im.trait_.is_none() && selfty.replace(' ', "") == format!("crate::{}", client_ident) {
                    for ii in &im.items {
                        if let ImplItem::Fn(m) = ii {
                            let args: Vec<(String, String)> = m
                                .sig
                                .inputs
                                .iter()
                                .filter_map(|a| if let syn::FnArg::Typed(pt) = a { Some((pt.pat.to_token_stream().to_string(), pt.ty.to_token_stream().to_string())) } else { None })
                                .collect();
                            if m.sig.ident == o.name.as_str().to_rust_ident().0 {
                                client_sig = Some((args, doc_of(&m.attrs)));
                            }
                        }
                    }
                } else if im.trait_.is_some() {
                    for ii in &im.items {
                        if let ImplItem::Fn(m) = ii {
                            if m.sig.ident == "into_future" {
                                into_future_body = Some(m.block.to_token_stream().to_string());
                            }
                        }
                    }
                }
            }
        }
        let want_setters: Vec<String> = o.parameters.iter().filter(|p| p.optional).map(|p| p.name.as_str().to_rust_ident().0).collect();
        if setters != want_setters {
            out.push(f("C05", "", format!("{}: setters {:?}, optional inputs {:?}", rs, setters, want_setters)));
        }
        let required: Vec<String> = o.parameters.iter().filter(|p| !p.optional).map(|p| p.name.as_str().to_rust_ident().0).collect();
        match &client_sig {
            None => out.push(f("C06", "", format!("{}: client method for {} not found", path, o.name))),
            Some((args, doc)) => {
                if required.len() > 3 {
                    let reqs = o.required_struct_name().as_str().to_rust_struct().0;
                    if !(args.len() == 1 && args[0].0 == "args" && args[0].1 == reqs) {
                        out.push(f("C05", "", format!("{}: more than three required inputs but the method takes {:?}", o.name, args)));
                    }
                    match file.items.iter().find_map(|i| if let Item::Struct(x) = i { if x.ident == reqs { Some(x) } else { None } } else { None }) {
                        None => out.push(f("C05", "", format!("{}: required-arguments struct {} missing", o.name, reqs))),
                        Some(x) => {
                            let fs: Vec<String> = x.fields.iter().filter_map(|y| y.ident.as_ref().map(|i| i.to_string())).collect();
                            if fs != required {
                                out.push(f("C05", "", format!("{}: fields of {} are {:?}, required inputs {:?}", o.name, reqs, fs, required)));
                            }
                        }
                    }
                } else {
                    // C08: the borrowed form is used exactly for String and (nested) lists of strings
                    for (p, (_, aty)) in o.parameters.iter().filter(|p| !p.optional).zip(args.iter()) {
                        use mir_rust::ToRustType;
                        fn borrowed(t: &Ty) -> Option<String> {
                            match t {
                                Ty::String => Some("& str".into()),
                                Ty::Array(i) => borrowed(i).map(|b| format!("& [{}]", b)),
                                _ => None,
                            }
                        }
                        let want = borrowed(&p.ty).unwrap_or_else(|| p.ty.to_rust_type().to_string());
                        if norm_tokens(&want) != norm_tokens(aty) {
                            out.push(f("C08", "", format!("{}: argument {} has type `{}`, expected `{}`", o.name, p.name, aty, want)));
                        }
                    }
                    let names: Vec<String> = args.iter().map(|a| a.0.clone()).collect();
                    if names != required {
                        out.push(f("C05", "", format!("{}: positional arguments {:?}, required inputs {:?}", o.name, names, required)));
                    }
                }
                // C17: method documentation
                if doc.as_ref().map(|d| dn(d)) != o.doc.as_ref().map(|d| dn(&d.0)) {
                    out.push(f("C17", "", format!("method {}: doc {:?}, expected {:?}", o.name, doc, o.doc)));
                }
            }
        }
        // C03 / C14: the request that is built
        if let Some(body) = &into_future_body {
            let b = body.replace(' ', "");
            if !b.contains(&format!("self.client.client.{}(url)", o.method)) {
                out.push(f("C03", "", format!("{}: verb {} is not the verb used ({})", o.name, o.method, &b[..b.len().min(200)])));
            }
            let has_auth = b.contains("self.client.authenticate(r)");
            if has_auth != !h.security.is_empty() {
                out.push(f("C14", "", format!("{}: security declared = {}, authenticate called = {}", o.name, !h.security.is_empty(), has_auth)));
            }
            let non_path: Vec<&hir::Parameter> = o.parameters.iter().filter(|p| p.location != Location::Path).collect();
            let shortcut = b.contains("r.set_query(self.params)");
            if shortcut {
                // keys are then the Rust identifiers of ALL request-struct fields, path parameters included
                let misnamed: Vec<&str> = o.parameters.iter().filter(|p| p.name.as_str().to_rust_ident().0 != p.name).map(|p| p.name.as_str()).collect();
                let has_path = o.parameters.iter().any(|p| p.location == Location::Path);
                if !misnamed.is_empty() || has_path {
                    out.push(f("C03", "set_query_shortcut", format!("{}: all inputs are sent with set_query(self.params): renamed keys {:?}, path parameters in the query: {}", o.name, misnamed, has_path)));
                }
            } else {
                for p in &non_path {
                    let key = if p.ty.is_iterable() && p.location == Location::Query { format!("{}[]", p.name) } else { p.name.clone() };
                    let lit = format!("{:?}", key);
                    let call = match p.location {
                        Location::Query => format!("r.query({},", lit),
                        Location::Header => format!("r.header({},", lit),
                        Location::Cookie => format!("r.cookie({},", lit),
                        Location::Body => format!("r.json(serde_json::json!({{{}:", lit),
                        Location::Path => String::new(),
                    };
                    if !b.contains(&call.replace(' ', "")) {
                        out.push(f("C03", "", format!("{}: input {} ({:?}) is not sent as {}", o.name, p.name, p.location, call)));
                    }
                    if p.location == Location::Body && (p.name == "body") && matches!(p.ty, Ty::Array(_) | Ty::Any(_)) {
                        out.push(f("C03", "body_wrapped", format!("{}: a non-object request body is sent wrapped as {{\"body\": ..}}", o.name)));
                    }
                }
            }
            // URL: placeholders of the format string are the named arguments
            if o.parameters.iter().any(|p| p.location == Location::Path) {
                for p in o.parameters.iter().filter(|p| p.location == Location::Path) {
                    let id = p.name.as_str().to_rust_ident().0;
                    if !b.contains(&format!("{}=self.params.{}", id, id)) || !b.contains(&format!("{{{}}}", id)) {
                        out.push(f("C03", "placeholder_mismatch", format!("{}: path parameter {} has no matching placeholder/argument `{}` in the URL format string", o.name, p.name, id)));
                    }
                }
            } else if !b.contains(&format!("leturl={:?};", o.path)) {
                out.push(f("C03", "", format!("{}: url is not the path {:?}", o.name, o.path)));
            }
        } else {
            out.push(f("C03", "", format!("{}: no into_future body found", o.name)));
        }
        // C16: one example per operation, exercising every input
        if cfg.examples {
            let ep = format!("examples/{}.rs", o.file_name());
            match files.get(&ep) {
                None => out.push(f("C16", "", format!("operation {} has no example {}", o.name, ep))),
                Some(c) => {
                    let text = String::from_utf8_lossy(c).replace([' ', '\n'], "");
                    let call = format!("client.{}(", o.name.as_str().to_rust_ident().0);
                    if !text.contains(&call) {
                        out.push(f("C16", "", format!("{} does not call {}", ep, call)));
                    }
                    if required.len() > 3 {
                        let pkg = convert_case::Casing::to_case(&cfg_name(cfg), convert_case::Case::Snake);
                        let imp = format!("use{}::request::{}::{};", pkg, o.file_name(), o.required_struct_name().as_str().to_rust_struct().0);
                        if !text.contains(&imp) {
                            out.push(f("C16", "", format!("{}: the required-arguments struct is not imported from the operation's module ({})", ep, imp)));
                        }
                    }
                    for p in &o.parameters {
                        // an enum-typed input must be given a variant the generated enum really has
                        if let Ty::Model(m) = &p.ty {
                            if let Some(Record::Enum(_)) = h.schemas.get(m) {
                                let mid = m.as_str().to_rust_struct().0;
                                let mpath = format!("src/model/{}.rs", sanitize_filename(m));
                                if let Some(mf) = parse(&mpath) {
                                    if let Some(Item::Enum(en)) = mf.items.iter().find(|i| matches!(i, Item::Enum(e) if e.ident == mid)) {
                                        let ok = en.variants.iter().any(|v| text.contains(&format!("{}::{}", mid, v.ident)));
                                        if !ok {
                                            out.push(f("C16", "", format!("{}: input {} of enum type {} is not given one of its variants", ep, p.name, mid)));
                                        }
                                    }
                                }
                            }
                        }
                        let id = p.name.as_str().to_rust_ident().0;
                        if p.optional {
                            if !text.contains(&format!(".{}(", id)) {
                                out.push(f("C16", "", format!("{}: optional input {} is not set", ep, id)));
                            }
                        } else if !text.contains(&format!("let{}=", id)) {
                            out.push(f("C16", "", format!("{}: required input {} is not declared", ep, id)));
                        }
                    }
                }
            }
        }
    }
    // request/mod.rs and the file set
    if let Some(m) = parse("src/request/mod.rs") {
        let mods: Vec<String> = m.items.iter().filter_map(|i| if let Item::Mod(x) = i { Some(x.ident.to_string()) } else { None }).collect();
        let want: Vec<String> = h.operations.iter().map(|o| o.file_name()).collect();
        if mods != want {
            out.push(f("C06", "", format!("request/mod.rs declares {:?}, operations are {:?}", mods, want)));
        }
        for md in &mods {
            if !files.contains_key(&format!("src/request/{}.rs", md)) {
                out.push(f("C06", "", format!("request/mod.rs declares module {} but there is no such file", md)));
            }
        }
    }
    let n_req = files.keys().filter(|p| p.starts_with("src/request/") && *p != "src/request/mod.rs").count();
    if n_req != h.operations.len() {
        out.push(f("C06", collision_class, format!("{} operations, {} request modules on disk", h.operations.len(), n_req)));
    }
    if cfg.examples {
        let n_ex = files.keys().filter(|p| p.starts_with("examples/")).count();
        if n_ex != h.operations.len() {
            out.push(f("C06", collision_class, format!("{} operations, {} examples on disk", h.operations.len(), n_ex)));
        }
    }
    // ---------------- C01: a complete crate, counted from the DOCUMENT (not from the extracted table)
    for must in ["src/lib.rs", "src/model/mod.rs", "src/request/mod.rs"] {
        if !files.contains_key(must) {
            out.push(f("C01", "", format!("{} was not written", must)));
        }
    }
    let n_ops_doc: usize = spec.paths.iter().map(|p| p.ops.len()).sum();
    if n_req != n_ops_doc {
        out.push(f("C01", collision_class, format!("the document has {} operations, {} request modules on disk", n_ops_doc, n_req)));
    }
    let n_ex = files.keys().filter(|p| p.starts_with("examples/")).count();
    if cfg.examples && n_ex != n_ops_doc {
        out.push(f("C01", collision_class, format!("examples enabled: the document has {} operations, {} examples on disk", n_ops_doc, n_ex)));
    }
    if !cfg.examples && n_ex != 0 {
        out.push(f("C01", "", format!("examples disabled but {} example files were written", n_ex)));
    }
    // ---------------- lib.rs: server and authentication
    if let Some(lib) = files.get("src/lib.rs") {
        let text = String::from_utf8_lossy(lib).replace([' ', '\n'], "");
        let svc = convert_case::Casing::to_case(&cfg_name(cfg), convert_case::Case::ScreamingSnake);
        match spec.servers.len() {
            1 => {
                if !text.contains(&format!("Client::new().base_url({:?})", spec.servers[0].url)) {
                    out.push(f("C15", "", format!("one server {:?} but default_http_client does not use it verbatim", spec.servers[0].url)));
                }
            }
            0 => {
                if !text.contains(&format!("base_url(std::env::var(\"{}_BASE_URL\")", svc)) {
                    out.push(f("C15", "", format!("no servers: base url is not read from {}_BASE_URL", svc)));
                }
            }
            _ => {
                if !text.contains(&format!("base_url(std::env::var(\"{}_ENV\")", svc)) {
                    out.push(f("C15", "several_servers_not_env", format!("several servers: base url is not read from {}_ENV", svc)));
                }
            }
        }
        // needs_serde <-> some retained field has an adapter type (C19 emission)
        let needs = h.schemas.values().flat_map(|r| r.fields()).any(|fl| {
            matches!(fl.ty, mir::Ty::Integer { ser: mir::IntegerSerialization::NullAsZero } | mir::Ty::Integer { ser: mir::IntegerSerialization::String } | mir::Ty::Date { ser: mir::DateSerialization::Integer })
        });
        if needs != files.contains_key("src/serde.rs") || needs != text.contains("modserde;") {
            out.push(f("C19", "", format!("adapter types present = {}, serde.rs emitted = {}, `mod serde;` = {}", needs, files.contains_key("src/serde.rs"), text.contains("modserde;"))));
        }
        // C14: enum, match arms and from_env agree; env var names
        if let Ok(file) = syn::parse_file(&String::from_utf8_lossy(lib)) {
            let auth_name = format!("{}Auth", cfg_name(cfg));
            let auth_ident = auth_name.as_str().to_rust_struct().0;
            let en = file.items.iter().find_map(|i| if let Item::Enum(e) = i { if e.ident == auth_ident { Some(e) } else { None } } else { None });
            if h.security.is_empty() != en.is_none() {
                out.push(f("C14", "", format!("security declared = {}, auth enum present = {}", !h.security.is_empty(), en.is_some())));
            }
            if let Some(en) = en {
                let mut variants: BTreeMap<String, Vec<String>> = BTreeMap::new();
                for v in &en.variants {
                    variants.insert(v.ident.to_string(), v.fields.iter().filter_map(|x| x.ident.as_ref().map(|i| i.to_string())).collect());
                }
                if let Some(AuthStrategy::NoAuth) = h.security.first() {
                    if !text.contains("pubfnfrom_env()->Self{Self::NoAuth}") {
                        out.push(f("C14", "", "the first declared requirement is anonymous but from_env does not build NoAuth".to_string()));
                    }
                }
                if let Some(AuthStrategy::Token(tk)) = h.security.first() {
                    // from_env must construct a variant that exists, with exactly its fields, from <SERVICE>_<NAME>
                    let fe = text.split("pubfnfrom_env()->Self{Self::").nth(1).unwrap_or("");
                    let vname: String = fe.chars().take_while(|c| c.is_alphanumeric() || *c == '_').collect();
                    match variants.get(&vname) {
                        None => out.push(f("C14", "from_env_ident_mismatch", format!("from_env constructs variant {} which the enum {:?} does not have", vname, variants.keys().collect::<Vec<_>>()))),
                        Some(fields) => {
                            for fld in fields {
                                if !fe.contains(&format!("{}:", fld)) {
                                    out.push(f("C14", "from_env_ident_mismatch", format!("from_env does not initialise field {} of variant {}", fld, vname)));
                                }
                            }
                        }
                    }
                    for fp in &tk.fields {
                        let var = convert_case::Casing::to_case(&format!("{} {}", cfg_name(cfg), fp.name), convert_case::Case::ScreamingSnake);
                        if !fe.contains(&format!("std::env::var({:?})", var)) {
                            out.push(f("C14", "", format!("from_env does not read credential {} from {}", fp.name, var)));
                        }
                    }
                }
                // placement per strategy
                for st in &h.security {
                    if let AuthStrategy::Token(tk) = st {
                        for fp in &tk.fields {
                            let id = fp.name.as_str().to_rust_ident().0;
                            let want = match &fp.location {
                                hir::AuthLocation::Header { key } => format!("r=r.header({:?},{});", key, id),
                                hir::AuthLocation::Query { key } => format!("r=r.query({:?},{});", key, id),
                                hir::AuthLocation::Cookie { key } => format!("r=r.cookie({:?},{});", key, id),
                                hir::AuthLocation::Bearer => format!("r=r.bearer_auth({});", id),
                                hir::AuthLocation::Basic => format!("r=r.basic_auth({});", id),
                                hir::AuthLocation::Token => format!("r=r.token_auth({});", id),
                            };
                            if !text.contains(&want) {
                                out.push(f("C14", "", format!("authenticate does not place credential {} as {}", fp.name, want)));
                            }
                        }
                    }
                }
            }
        }
    } else {
        out.push(f("C02", "", "src/lib.rs missing".into()));
    }
    out
}

use mir::Ty;

pub fn cfg_name(cfg: &Cfg) -> String {
    convert_case::Casing::to_case(&cfg.name, convert_case::Case::Pascal)
}
