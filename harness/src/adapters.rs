//! C19 adapter level: the three template files, compiled verbatim, driven through serde_json.
use crate::util::*;
use serde::{Deserialize, Serialize};
use std::io::{BufRead, Write};

include!("/repo/codegen_rust/src/serde/option_i64_str.rs");
include!("/repo/codegen_rust/src/serde/option_i64_null_as_zero.rs");
include!("/repo/codegen_rust/src/serde/option_chrono_naive_date_as_int.rs");

#[derive(Serialize, Deserialize)]
struct WStr {
    #[serde(with = "option_i64_str")]
    v: Option<i64>,
}
#[derive(Serialize, Deserialize)]
struct WNz {
    #[serde(with = "option_i64_null_as_zero")]
    v: Option<i64>,
}
#[derive(Serialize, Deserialize)]
struct WDate {
    #[serde(with = "option_chrono_naive_date_as_int")]
    v: Option<chrono::NaiveDate>,
}

/// canonical wire token of a JSON value (same grammar as the model's)
fn wire_of_json(v: &serde_json::Value) -> String {
    match v {
        serde_json::Value::Null => "null".into(),
        serde_json::Value::Bool(b) => format!("{}", b),
        serde_json::Value::Number(n) => {
            if let Some(i) = n.as_i64() {
                format!("int:{}", i)
            } else if let Some(u) = n.as_u64() {
                format!("int:{}", u)
            } else {
                "float".into()
            }
        }
        serde_json::Value::String(s) => format!("str:{}", hex(s.as_bytes())),
        _ => "other".into(),
    }
}

/// JSON text for a wire token; integers outside [i64::MIN, u64::MAX] are what serde_json reads as f64
fn json_of_wire(w: &str) -> Option<(String, String)> {
    // returns (json text, canonical token as the model should see it)
    if w == "null" || w == "true" || w == "false" {
        return Some((w.to_string(), w.to_string()));
    }
    if w == "other" {
        return Some(("[1]".into(), w.to_string()));
    }
    if let Some(f) = w.strip_prefix("float:") {
        return Some((f.to_string(), "float".into()));
    }
    if let Some(i) = w.strip_prefix("int:") {
        // serde_json reads the literal `-0` as the float -0.0
        let tok = if i == "-0" { "float".to_string() } else { w.to_string() };
        return Some((i.to_string(), tok));
    }
    if let Some(h) = w.strip_prefix("str:") {
        let s = String::from_utf8(unhex(h)).ok()?;
        return Some((serde_json::to_string(&s).unwrap(), w.to_string()));
    }
    None
}

fn date_str(d: &chrono::NaiveDate) -> String {
    use chrono::Datelike;
    format!("{}/{}/{}", d.year(), d.month(), d.day())
}

fn run_line(line: &str) -> String {
    let p: Vec<&str> = line.split(' ').collect();
    let res = match (p[0], p[1]) {
        ("S", which) => {
            let r = catch(|| match which {
                "str" => serde_json::to_value(WStr { v: if p[2] == "none" { None } else { Some(p[2].parse().unwrap()) } }).unwrap(),
                "nz" => serde_json::to_value(WNz { v: if p[2] == "none" { None } else { Some(p[2].parse().unwrap()) } }).unwrap(),
                _ => {
                    let v = if p[2] == "none" {
                        None
                    } else {
                        let q: Vec<i64> = p[2].split('/').map(|x| x.parse().unwrap()).collect();
                        Some(chrono::NaiveDate::from_ymd_opt(q[0] as i32, q[1] as u32, q[2] as u32).expect("generator only emits valid dates"))
                    };
                    serde_json::to_value(WDate { v }).unwrap()
                }
            });
            match r {
                Ok(v) => wire_of_json(&v["v"]),
                Err(k) => format!("panic:{}", k),
            }
        }
        ("D", which) => {
            let (json, _) = json_of_wire(p[2]).unwrap();
            let text = format!("{{\"v\": {}}}", json);
            match which {
                "str" => match serde_json::from_str::<WStr>(&text) {
                    Ok(w) => w.v.map(|z| format!("ok:some:{}", z)).unwrap_or("ok:none".into()),
                    Err(_) => "err".into(),
                },
                "nz" => match serde_json::from_str::<WNz>(&text) {
                    Ok(w) => w.v.map(|z| format!("ok:some:{}", z)).unwrap_or("ok:none".into()),
                    Err(_) => "err".into(),
                },
                _ => match serde_json::from_str::<WDate>(&text) {
                    Ok(w) => w.v.map(|d| format!("ok:some:{}", date_str(&d))).unwrap_or("ok:none".into()),
                    Err(_) => "err".into(),
                },
            }
        }
        _ => "?".into(),
    };
    format!("{} -> {}", line, res)
}

fn days_in_month(y: i64, m: i64) -> i64 {
    match m {
        1 | 3 | 5 | 7 | 8 | 10 | 12 => 31,
        4 | 6 | 9 | 11 => 30,
        _ => {
            if (y % 4 == 0 && y % 100 != 0) || y % 400 == 0 {
                29
            } else {
                28
            }
        }
    }
}

pub fn cmd_gen(args: &[String]) {
    let tier = arg_val(args, "--tier").unwrap_or("quick".into());
    let seed: u64 = arg_val(args, "--seed").and_then(|s| s.parse().ok()).unwrap_or(1);
    let out = arg_val(args, "--out").unwrap();
    let mut rng = Rng::new(seed);
    let mut f = std::io::BufWriter::new(std::fs::File::create(out).unwrap());
    // ---- integers
    let mut ints: Vec<i128> = vec![0, 1, -1, 9, 10, -10, 99, 100, i64::MAX as i128, i64::MIN as i128, i64::MAX as i128 - 1, i64::MIN as i128 + 1];
    let mut p: i128 = 1;
    for _ in 0..19 {
        p *= 10;
        for d in [-1i128, 0, 1] {
            if p + d <= i64::MAX as i128 {
                ints.push(p + d);
                ints.push(-(p + d));
            }
        }
    }
    let n_rand = if tier == "quick" { 10_000 } else { 100_000 };
    for _ in 0..n_rand {
        let bits = 1 + rng.below(64);
        let v = (rng.next() >> (64 - bits)) as i64;
        ints.push(if rng.chance(1, 2) { v as i128 } else { (v as i128).wrapping_neg().max(i64::MIN as i128) });
    }
    for z in &ints {
        writeln!(f, "S str {}", z).unwrap();
        writeln!(f, "S nz {}", z).unwrap();
        // what the value serialises to is also fed back (round trip), see the check
        writeln!(f, "D str str:{}", hex(z.to_string().as_bytes())).unwrap();
        writeln!(f, "D nz int:{}", z).unwrap();
    }
    writeln!(f, "S str none\nS nz none\nS date none").unwrap();
    // ---- wire forms
    let mut wires: Vec<String> = vec![
        "null", "true", "false", "other", "float:1.5", "float:1e3", "float:-0.0", "float:1.0", "int:0", "int:-0",
        "int:18446744073709551615", "int:9223372036854775808", "int:9223372036854775807", "int:-9223372036854775808",
        "float:18446744073709551616", "float:-9223372036854775809", "float:123456789012345678901234567890",
    ]
    .iter()
    .map(|s| s.to_string())
    .collect();
    for s in [
        "", "0", "00", "007", "-0", "+5", "+", "-", " 5", "5 ", "1_000", "0x10", "1e3", "1.0", "abc", "12a", "9223372036854775807",
        "9223372036854775808", "-9223372036854775808", "-9223372036854775809", "99999999999999999999", "--1", "+-1", "١٢٣", "１２", "null",
    ] {
        wires.push(format!("str:{}", hex(s.as_bytes())));
    }
    // u64 values above i64::MAX and date-like integers with wrapping years
    for _ in 0..200 {
        let v = (1u128 << 63) + (rng.next() as u128 >> 1);
        wires.push(format!("int:{}", v));
    }
    for y in [0u64, 1, 9999, 10000, 262142, 262143, 262144, 2147483647, 2147483648, 4294967296 + 2024, 4294967295, 1844674407370955] {
        for md in [101u64, 229, 1231, 0, 1301, 132, 100, 1] {
            let v = y as u128 * 10000 + md as u128;
            if v <= u64::MAX as u128 {
                wires.push(format!("int:{}", v));
            }
        }
    }
    for w in &wires {
        for which in ["str", "nz", "date"] {
            writeln!(f, "D {} {}", which, w).unwrap();
        }
    }
    // ---- dates
    let mut dates: Vec<(i64, i64, i64)> = vec![];
    if tier == "thorough" {
        for y in 1..=9999 {
            for m in 1..=12 {
                for d in 1..=days_in_month(y, m) {
                    dates.push((y, m, d));
                }
            }
        }
    } else {
        for y in [1, 4, 100, 400, 999, 1000, 1582, 1900, 1999, 2000, 2023, 2024, 2100, 9999] {
            for m in 1..=12 {
                for d in [1, 15, days_in_month(y, m)] {
                    dates.push((y, m, d));
                }
            }
        }
        for _ in 0..10_000 {
            let y = 1 + rng.below(9999) as i64;
            let m = 1 + rng.below(12) as i64;
            let d = 1 + rng.below(days_in_month(y, m) as usize) as i64;
            dates.push((y, m, d));
        }
    }
    for (y, m, d) in &dates {
        writeln!(f, "S date {}/{}/{}", y, m, d).unwrap();
        writeln!(f, "D date int:{}", y * 10000 + m * 100 + d).unwrap();
    }
    // invalid calendar days as wire values
    for y in [1, 1900, 2000, 2023, 2024, 9999] {
        for (m, d) in [(2, 29), (2, 30), (4, 31), (13, 1), (0, 1), (1, 0), (12, 32), (99, 99)] {
            writeln!(f, "D date int:{}", y * 10000 + m * 100 + d).unwrap();
        }
    }
}

pub fn cmd_impl(args: &[String]) {
    let inp = arg_val(args, "--in").unwrap();
    let out = arg_val(args, "--out").unwrap();
    let lines: Vec<String> = std::io::BufReader::new(std::fs::File::open(inp).unwrap()).lines().map(|l| l.unwrap()).collect();
    let obs = par_map(&lines, |l| run_line(l));
    let mut f = std::io::BufWriter::new(std::fs::File::create(out).unwrap());
    for o in &obs {
        writeln!(f, "{}", o).unwrap();
    }
}

/// the model is given the canonical token of each wire (float:<text> -> float)
pub fn cmd_canon(args: &[String]) {
    let inp = arg_val(args, "--in").unwrap();
    let out = arg_val(args, "--out").unwrap();
    let mut f = std::io::BufWriter::new(std::fs::File::create(out).unwrap());
    for l in std::io::BufReader::new(std::fs::File::open(inp).unwrap()).lines() {
        let l = l.unwrap();
        let p: Vec<&str> = l.split(' ').collect();
        if p[0] == "D" {
            let (_, tok) = json_of_wire(p[2]).unwrap();
            writeln!(f, "D {} {}", p[1], tok).unwrap();
        } else {
            writeln!(f, "{}", l).unwrap();
        }
    }
}
