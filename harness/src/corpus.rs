//! Deterministic corpus cases (run first on every check): minimised earlier failures and one witness per finding.
use crate::spec::*;

fn op(method: &str, id: Option<&str>, responses: Vec<(u16, Option<SRef>)>) -> Op {
    Op { method: method.into(), operation_id: id.map(|s| s.to_string()), responses, ..Default::default() }
}
fn item(path: &str, ops: Vec<Op>) -> PathItem {
    PathItem { path: path.into(), params: vec![], ops }
}

pub fn hir_corpus() -> Vec<Spec> {
    let mut v = vec![];
    // minimal
    v.push(Spec { paths: vec![item("/ping", vec![op("get", Some("ping"), vec![(200, None)])])], ..Default::default() });
    // models mentioned ONLY as the value type of a retained map component (and, through it, an enum): all survive pruning
    v.push(Spec {
        components: vec![
            ("Color".into(), s_enum(&["red", "green"])),
            ("Label".into(), s_obj(vec![("text", inl(s_string())), ("color", rf("Color"))], &["text"])),
            ("Labels".into(), Schema { kind: Kind::Object { props: vec![], required: vec![], addl: Some(Addl::Schema(rf("Label"))) }, ..Default::default() }),
            ("Limit".into(), s_obj(vec![("max", inl(s_int()))], &[])),
            ("Limits".into(), Schema { kind: Kind::Object { props: vec![], required: vec![], addl: Some(Addl::Schema(rf("Limit"))) }, ..Default::default() }),
            ("Pet".into(), s_obj(vec![("id", inl(s_int())), ("labels", rf("Labels"))], &["id"])),
            ("Unused".into(), s_obj(vec![("x", inl(s_bool()))], &[])),
        ],
        paths: vec![
            item("/pets", vec![op("get", Some("getPet"), vec![(200, Some(rf("Pet")))])]),
            item("/limits", vec![op("get", Some("getLimits"), vec![(200, Some(rf("Limits")))])]),
        ],
        ..Default::default()
    });
    // object + enum + alias + map + nullable alias short-circuit
    v.push(Spec {
        components: vec![
            ("Pet".into(), s_obj(vec![("id", inl(s_int())), ("owner", rf("NullableOwner")), ("tags", inl(s_arr(rf("Tag")))), ("status", rf("Status"))], &["id"])),
            ("Owner".into(), s_obj(vec![("name", inl(s_string()))], &[])),
            ("NullableOwner".into(), Schema { nullable: true, kind: Kind::AllOf(vec![rf("Owner")]), ..Default::default() }),
            ("Tag".into(), s_obj(vec![("label", inl(s_string()))], &["label"])),
            ("Status".into(), s_enum(&["active", "in-active", "2nd"])),
            ("Unused".into(), s_obj(vec![("x", inl(s_bool()))], &[])),
            ("Meta".into(), Schema { kind: Kind::Object { props: vec![], required: vec![], addl: Some(Addl::Schema(rf("Tag"))) }, ..Default::default() }),
            ("PaymentWebhook".into(), s_obj(vec![("amount", inl(s_fmt("decimal")))], &[])),
        ],
        paths: vec![item("/pets/{id}", vec![Op { params: vec![Param { name: "id".into(), loc: Loc::Path, required: true, schema: inl(s_string()) }], ..op("get", Some("getPet"), vec![(200, Some(rf("Pet")))]) }])],
        ..Default::default()
    });
    // synthesised names, path-item parameters, inline response, status preference
    v.push(Spec {
        components: vec![("Job".into(), s_obj(vec![("id", inl(s_string()))], &["id"]))],
        paths: vec![
            PathItem {
                path: "/jobs/{job_id}".into(),
                params: vec![Param { name: "job_id".into(), loc: Loc::Path, required: true, schema: inl(s_string()) }, Param { name: "verbose".into(), loc: Loc::Query, required: false, schema: inl(s_bool()) }],
                ops: vec![op("get", None, vec![(202, None), (200, Some(rf("Job")))]), op("delete", None, vec![(204, None)])],
            },
            item("/jobs", vec![op("post", Some("createJob"), vec![(201, Some(inl(s_obj(vec![("ok", inl(s_bool()))], &["ok"]))))])]),
        ],
        ..Default::default()
    });
    // fixed c675c11 (P3): last placeholder equal to the previous segment, no operationId
    v.push(Spec {
        paths: vec![PathItem {
            path: "/user/{user}".into(),
            params: vec![Param { name: "user".into(), loc: Loc::Path, required: true, schema: inl(s_string()) }],
            ops: vec![op("get", None, vec![(200, None)])],
        }],
        ..Default::default()
    });
    // P21: two operations without operationId synthesise the same name
    v.push(Spec {
        paths: vec![
            PathItem {
                path: "/user/{a}/account/{id}".into(),
                params: vec![
                    Param { name: "a".into(), loc: Loc::Path, required: true, schema: inl(s_string()) },
                    Param { name: "id".into(), loc: Loc::Path, required: true, schema: inl(s_string()) },
                ],
                ops: vec![op("get", None, vec![(200, None)])],
            },
            PathItem {
                path: "/user/account/{id}".into(),
                params: vec![Param { name: "id".into(), loc: Loc::Path, required: true, schema: inl(s_string()) }],
                ops: vec![op("get", None, vec![(200, None)])],
            },
        ],
        ..Default::default()
    });
    // P6: the name invented for an inline response coincides with a component
    v.push(Spec {
        components: vec![("GetThingResponse".into(), s_obj(vec![("original", inl(s_string()))], &["original"]))],
        paths: vec![
            item("/thing", vec![op("get", Some("getThing"), vec![(200, Some(inl(s_obj(vec![("invented", inl(s_int()))], &[]))))])]),
            item("/other", vec![op("get", Some("getOther"), vec![(200, Some(rf("GetThingResponse")))])]),
        ],
        ..Default::default()
    });
    // P5: array-typed component with inline object items, referenced
    v.push(Spec {
        components: vec![("Pets".into(), s_arr(inl(s_obj(vec![("name", inl(s_string()))], &["name"]))))],
        paths: vec![item("/pets", vec![op("get", Some("listPets"), vec![(200, Some(rf("Pets")))])])],
        ..Default::default()
    });
    // P24: operationId starting with a digit plus an inline object response
    v.push(Spec {
        paths: vec![item("/2fa", vec![op("post", Some("2fa"), vec![(200, Some(inl(s_obj(vec![("ok", inl(s_bool()))], &[]))))])])],
        ..Default::default()
    });
    v
}

/// specs for the compile layer: one per shape whose emitted code was once rejected by rustc
pub fn compile_corpus() -> Vec<Spec> {
    let mut v = vec![];
    // result: array of $ref; free-form object; map
    v.push(Spec {
        components: vec![("Pet".into(), s_obj(vec![("id", inl(s_int())), ("name", inl(s_string()))], &["id"]))],
        paths: vec![
            item("/pets", vec![op("get", Some("listPets"), vec![(200, Some(inl(s_arr(rf("Pet")))))])]),
            item("/raw", vec![op("get", Some("getRaw"), vec![(200, Some(inl(Schema { kind: Kind::Object { props: vec![], required: vec![], addl: None }, ..Default::default() })))])]),
        ],
        ..Default::default()
    });
    // more than three required inputs, none a string, one optional string
    v.push(Spec {
        paths: vec![item(
            "/calc",
            vec![Op {
                params: vec![
                    Param { name: "a".into(), loc: Loc::Query, required: true, schema: inl(s_int()) },
                    Param { name: "b".into(), loc: Loc::Query, required: true, schema: inl(s_int()) },
                    Param { name: "c".into(), loc: Loc::Query, required: true, schema: inl(s_num()) },
                    Param { name: "d".into(), loc: Loc::Header, required: true, schema: inl(s_bool()) },
                    Param { name: "note".into(), loc: Loc::Query, required: false, schema: inl(s_string()) },
                ],
                ..op("get", Some("calc"), vec![(200, None)])
            }],
        )],
        ..Default::default()
    });
    // more than three required inputs on an operation whose id starts with a digit: the example must import the
    // required-arguments struct under its sanitised name
    v.push(Spec {
        paths: vec![item(
            "/2fa",
            vec![Op {
                params: vec![
                    Param { name: "a".into(), loc: Loc::Query, required: true, schema: inl(s_int()) },
                    Param { name: "b".into(), loc: Loc::Query, required: true, schema: inl(s_string()) },
                    Param { name: "c".into(), loc: Loc::Header, required: true, schema: inl(s_num()) },
                    Param { name: "d".into(), loc: Loc::Query, required: true, schema: inl(s_bool()) },
                ],
                ..op("post", Some("2fa"), vec![(200, None)])
            }],
        )],
        ..Default::default()
    });
    // a schema that contains itself through a list and whose type name differs from its own name (HTTPNode -> HttpNode)
    v.push(Spec {
        components: vec![
            ("HTTPNode".into(), s_obj(vec![("value", inl(s_int())), ("children", inl(s_arr(rf("HTTPNode"))))], &["value"])),
            ("FAQSection".into(), s_obj(vec![("title", inl(s_string())), ("sub", inl(s_arr(rf("FAQSection"))))], &[])),
        ],
        paths: vec![
            item("/nodes", vec![op("get", Some("getNode"), vec![(200, Some(rf("HTTPNode")))])]),
            item("/faq", vec![op("get", Some("getFaq"), vec![(200, Some(rf("FAQSection")))])]),
        ],
        ..Default::default()
    });
    // allOf over an ordinary base and a NULLABLE base: both are read and written at the same level
    v.push(Spec {
        components: vec![
            ("Timestamps".into(), s_obj(vec![("created_at", inl(s_string())), ("updated_at", inl(s_string()))], &["created_at"])),
            ("Audit".into(), Schema { nullable: true, ..s_obj(vec![("actor", inl(s_string())), ("reason", inl(s_string()))], &["actor"]) }),
            ("Refund".into(), Schema {
                kind: Kind::AllOf(vec![rf("Timestamps"), rf("Audit"), inl(s_obj(vec![("amount", inl(s_int())), ("note", inl(s_string()))], &["amount"]))]),
                ..Default::default()
            }),
        ],
        paths: vec![item("/refunds", vec![op("get", Some("getRefund"), vec![(200, Some(rf("Refund")))])])],
        ..Default::default()
    });
    // oauth2
    v.push(Spec {
        paths: vec![item("/me", vec![op("get", Some("me"), vec![(200, None)])])],
        schemes: vec![(
            "oauth".into(),
            Scheme::OAuth2 { auth_url: "https://example.com/authorize".into(), token_url: "https://example.com/token".into(), refresh_url: None, scopes: vec![] },
        )],
        security: vec![vec!["oauth".into()]],
        ..Default::default()
    });
    // trait bounds across generated items: alias of an enum, structs that contain it directly and transitively,
    // a tuple struct over an enum list, a map alias; enum-typed query and header inputs
    v.push(Spec {
        components: vec![
            ("Kind".into(), s_enum(&["cat", "dog"])),
            ("AnimalKind".into(), Schema { kind: Kind::AllOf(vec![rf("Kind")]), ..Default::default() }),
            ("Animal".into(), s_obj(vec![("id", inl(s_int())), ("kind", rf("AnimalKind")), ("name", inl(s_string()))], &["id", "kind"])),
            ("Kennel".into(), s_obj(vec![("animal", rf("Animal")), ("labels", rf("Labels"))], &["animal", "labels"])),
            ("Kinds".into(), s_arr(rf("Kind"))),
            ("Shelf".into(), s_obj(vec![("kinds", rf("Kinds")), ("maybe", rf("MaybeAnimal"))], &["kinds", "maybe"])),
            ("Labels".into(), Schema { kind: Kind::Object { props: vec![], required: vec![], addl: Some(Addl::Schema(inl(s_string()))) }, ..Default::default() }),
            ("MaybeAnimal".into(), Schema { kind: Kind::AllOf(vec![rf("Animal")]), nullable: true, ..Default::default() }),
        ],
        paths: vec![
            item("/animals", vec![Op {
                params: vec![
                    Param { name: "kind".into(), loc: Loc::Query, required: true, schema: rf("Kind") },
                    Param { name: "alias".into(), loc: Loc::Header, required: false, schema: rf("AnimalKind") },
                    Param { name: "kinds".into(), loc: Loc::Query, required: false, schema: inl(s_arr(rf("Kind"))) },
                    Param { name: "since".into(), loc: Loc::Cookie, required: false, schema: inl(s_fmt("date")) },
                ],
                body: Some(rf("Kennel")),
                ..op("post", Some("listAnimals"), vec![(200, Some(rf("Animal")))])
            }]),
            item("/kennel", vec![op("get", Some("getKennel"), vec![(200, Some(rf("Kennel")))])]),
            item("/shelf", vec![op("get", Some("getShelf"), vec![(200, Some(rf("Shelf")))])]),
        ],
        ..Default::default()
    });
    // the required-arguments struct: borrowed list of strings as the only borrowed required input; only optional strings;
    // strings and lists together
    v.push(Spec {
        paths: vec![
            item("/tagged", vec![Op {
                params: vec![
                    Param { name: "tags".into(), loc: Loc::Query, required: true, schema: inl(s_arr(inl(s_string()))) },
                    Param { name: "a".into(), loc: Loc::Query, required: true, schema: inl(s_int()) },
                    Param { name: "b".into(), loc: Loc::Query, required: true, schema: inl(s_int()) },
                    Param { name: "c".into(), loc: Loc::Header, required: true, schema: inl(s_bool()) },
                    Param { name: "note".into(), loc: Loc::Query, required: false, schema: inl(s_string()) },
                ],
                ..op("get", Some("tagged"), vec![(200, None)])
            }]),
            item("/named", vec![Op {
                params: vec![
                    Param { name: "name".into(), loc: Loc::Query, required: true, schema: inl(s_string()) },
                    Param { name: "tags".into(), loc: Loc::Header, required: true, schema: inl(s_arr(inl(s_string()))) },
                    Param { name: "a".into(), loc: Loc::Query, required: true, schema: inl(s_int()) },
                    Param { name: "ids".into(), loc: Loc::Query, required: true, schema: inl(s_arr(inl(s_int()))) },
                    Param { name: "opt".into(), loc: Loc::Query, required: false, schema: inl(s_arr(inl(s_string()))) },
                ],
                ..op("put", Some("named"), vec![(200, None)])
            }]),
        ],
        ..Default::default()
    });
    v
}

/// specs for the determinism runs: shapes where an unordered container or the input syntax could leak into the output
pub fn det_corpus() -> Vec<Spec> {
    let mut v = vec![];
    let nullable_alias = |t: &str| Schema { kind: Kind::AllOf(vec![rf(t)]), nullable: true, ..Default::default() };
    // chains of nullable single-$ref aliases used from members, parameters and results; paths not in alphabetical order
    v.push(Spec {
        components: vec![
            ("Core".into(), s_obj(vec![("id", inl(s_int())), ("name", inl(s_string()))], &["id"])),
            ("B".into(), nullable_alias("Core")),
            ("A".into(), nullable_alias("B")),
            ("Z".into(), nullable_alias("A")),
            ("Y".into(), nullable_alias("Z")),
            ("Holder".into(), s_obj(vec![("a", rf("A")), ("b", rf("B")), ("y", rf("Y")), ("z", rf("Z")), ("core", rf("Core"))], &["a", "y"])),
        ],
        paths: vec![
            item("/zebras", vec![op("get", Some("listZebras"), vec![(200, Some(rf("Holder")))])]),
            item("/apples/{id}", vec![Op {
                params: vec![Param { name: "id".into(), loc: Loc::Path, required: true, schema: inl(s_string()) }],
                body: Some(rf("Holder")),
                ..op("put", Some("putApple"), vec![(200, Some(rf("Y")))])
            }]),
            item("/mangos", vec![op("get", Some("listMangos"), vec![(200, Some(inl(s_arr(rf("A")))))]), op("delete", Some("dropMangos"), vec![(204, None)])]),
            item("/bananas", vec![op("post", Some("addBanana"), vec![(201, Some(rf("Z")))])]),
        ],
        ..Default::default()
    });
    // two independent alias chains of different lengths and many plain components
    let mut comps: Vec<(String, Schema)> = vec![];
    for n in ["Pet", "User", "Order", "Account", "Tag", "Team", "Invoice", "Webhook", "Category", "Address", "Status", "Meta"] {
        comps.push((n.to_string(), s_obj(vec![("id", inl(s_int())), ("label", inl(s_string()))], &["id"])));
    }
    comps.push(("P1".into(), nullable_alias("Pet")));
    comps.push(("P2".into(), nullable_alias("P1")));
    comps.push(("P3".into(), nullable_alias("P2")));
    comps.push(("U1".into(), nullable_alias("User")));
    comps.push(("U2".into(), nullable_alias("U1")));
    comps.push(("Bag".into(), s_obj(vec![("p3", rf("P3")), ("p2", rf("P2")), ("p1", rf("P1")), ("u2", rf("U2")), ("u1", rf("U1")), ("order", rf("Order")), ("team", rf("Team")), ("meta", rf("Meta"))], &["p3"])));
    v.push(Spec {
        components: comps,
        paths: vec![
            item("/y", vec![op("get", Some("getBag"), vec![(200, Some(rf("Bag")))])]),
            item("/x", vec![op("get", Some("getAccount"), vec![(200, Some(rf("Account")))])]),
            item("/w", vec![op("get", Some("getInvoice"), vec![(200, Some(rf("Invoice")))]), op("post", Some("newWebhook"), vec![(201, Some(rf("Webhook")))])]),
            item("/a", vec![op("get", Some("cats"), vec![(200, Some(inl(s_arr(rf("Category")))))])]),
            item("/b", vec![op("get", Some("addr"), vec![(200, Some(rf("Address")))]), op("put", Some("stat"), vec![(200, Some(rf("Status")))])]),
            item("/c", vec![op("get", Some("tags"), vec![(200, Some(inl(s_arr(rf("Tag")))))])]),
        ],
        ..Default::default()
    });
    // the same component names as the document above with other shapes (Status an enumeration, Meta holding it): a generation
    // that remembers anything about an earlier document of the same process answers differently here
    v.push(Spec {
        components: vec![
            ("Status".into(), s_enum(&["open", "closed"])),
            ("Pet".into(), s_enum(&["cat", "dog"])),
            ("Meta".into(), s_obj(vec![("status", rf("Status")), ("pet", rf("Pet")), ("n", inl(s_int()))], &["status", "pet"])),
            ("Bag".into(), s_obj(vec![("meta", rf("Meta")), ("order", rf("Order"))], &["meta"])),
            ("Order".into(), s_obj(vec![("id", inl(s_string()))], &[])),
        ],
        paths: vec![
            item("/y", vec![op("get", Some("getBag"), vec![(200, Some(rf("Bag")))])]),
            item("/b", vec![op("put", Some("stat"), vec![(200, Some(rf("Status")))])]),
        ],
        ..Default::default()
    });
    v
}
