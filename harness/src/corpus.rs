//! Deterministic corpus cases (run first on every check): minimised earlier failures and one witness per finding.
use crate::spec::*;

fn op(method: &str, id: Option<&str>, responses: Vec<(u16, Option<SRef>)>) -> Op {
    Op { method: method.into(), operation_id: id.map(|s| s.to_string()), responses, ..Default::default() }
}
fn item(path: &str, ops: Vec<Op>) -> PathItem {
    PathItem { path: path.into(), params: vec![], ops }
}

pub fn hir_corpus() -> Vec<Spec> {
    let mut v = vec![];
    // minimal
    v.push(Spec { paths: vec![item("/ping", vec![op("get", Some("ping"), vec![(200, None)])])], ..Default::default() });
    // object + enum + alias + map + nullable alias short-circuit
    v.push(Spec {
        components: vec![
            ("Pet".into(), s_obj(vec![("id", inl(s_int())), ("owner", rf("NullableOwner")), ("tags", inl(s_arr(rf("Tag")))), ("status", rf("Status"))], &["id"])),
            ("Owner".into(), s_obj(vec![("name", inl(s_string()))], &[])),
            ("NullableOwner".into(), Schema { nullable: true, kind: Kind::AllOf(vec![rf("Owner")]), ..Default::default() }),
            ("Tag".into(), s_obj(vec![("label", inl(s_string()))], &["label"])),
            ("Status".into(), s_enum(&["active", "in-active", "2nd"])),
            ("Unused".into(), s_obj(vec![("x", inl(s_bool()))], &[])),
            ("Meta".into(), Schema { kind: Kind::Object { props: vec![], required: vec![], addl: Some(Addl::Schema(rf("Tag"))) }, ..Default::default() }),
            ("PaymentWebhook".into(), s_obj(vec![("amount", inl(s_fmt("decimal")))], &[])),
        ],
        paths: vec![item("/pets/{id}", vec![Op { params: vec![Param { name: "id".into(), loc: Loc::Path, required: true, schema: inl(s_string()) }], ..op("get", Some("getPet"), vec![(200, Some(rf("Pet")))]) }])],
        ..Default::default()
    });
    // synthesised names, path-item parameters, inline response, status preference
    v.push(Spec {
        components: vec![("Job".into(), s_obj(vec![("id", inl(s_string()))], &["id"]))],
        paths: vec![
            PathItem {
                path: "/jobs/{job_id}".into(),
                params: vec![Param { name: "job_id".into(), loc: Loc::Path, required: true, schema: inl(s_string()) }, Param { name: "verbose".into(), loc: Loc::Query, required: false, schema: inl(s_bool()) }],
                ops: vec![op("get", None, vec![(202, None), (200, Some(rf("Job")))]), op("delete", None, vec![(204, None)])],
            },
            item("/jobs", vec![op("post", Some("createJob"), vec![(201, Some(inl(s_obj(vec![("ok", inl(s_bool()))], &["ok"]))))])]),
        ],
        ..Default::default()
    });
    // fixed c675c11 (P3): last placeholder equal to the previous segment, no operationId
    v.push(Spec {
        paths: vec![PathItem {
            path: "/user/{user}".into(),
            params: vec![Param { name: "user".into(), loc: Loc::Path, required: true, schema: inl(s_string()) }],
            ops: vec![op("get", None, vec![(200, None)])],
        }],
        ..Default::default()
    });
    // P21: two operations without operationId synthesise the same name
    v.push(Spec {
        paths: vec![
            PathItem {
                path: "/user/{a}/account/{id}".into(),
                params: vec![
                    Param { name: "a".into(), loc: Loc::Path, required: true, schema: inl(s_string()) },
                    Param { name: "id".into(), loc: Loc::Path, required: true, schema: inl(s_string()) },
                ],
                ops: vec![op("get", None, vec![(200, None)])],
            },
            PathItem {
                path: "/user/account/{id}".into(),
                params: vec![Param { name: "id".into(), loc: Loc::Path, required: true, schema: inl(s_string()) }],
                ops: vec![op("get", None, vec![(200, None)])],
            },
        ],
        ..Default::default()
    });
    // P6: the name invented for an inline response coincides with a component
    v.push(Spec {
        components: vec![("GetThingResponse".into(), s_obj(vec![("original", inl(s_string()))], &["original"]))],
        paths: vec![
            item("/thing", vec![op("get", Some("getThing"), vec![(200, Some(inl(s_obj(vec![("invented", inl(s_int()))], &[]))))])]),
            item("/other", vec![op("get", Some("getOther"), vec![(200, Some(rf("GetThingResponse")))])]),
        ],
        ..Default::default()
    });
    // P5: array-typed component with inline object items, referenced
    v.push(Spec {
        components: vec![("Pets".into(), s_arr(inl(s_obj(vec![("name", inl(s_string()))], &["name"]))))],
        paths: vec![item("/pets", vec![op("get", Some("listPets"), vec![(200, Some(rf("Pets")))])])],
        ..Default::default()
    });
    // P24: operationId starting with a digit plus an inline object response
    v.push(Spec {
        paths: vec![item("/2fa", vec![op("post", Some("2fa"), vec![(200, Some(inl(s_obj(vec![("ok", inl(s_bool()))], &[]))))])])],
        ..Default::default()
    });
    v
}
