//! Abstract OpenAPI subset (mirror of coq/Model/OpenApi.v), its JSON rendering (fed to the real
//! serde/openapiv3 front-end) and its S-expression rendering (fed to the extracted model).
use crate::util::*;

#[derive(Clone, Debug, PartialEq)]
pub enum SRef {
    Ref(String),
    Inl(Box<Schema>),
}

#[derive(Clone, Debug, PartialEq, Default)]
pub struct Schema {
    pub nullable: bool,
    pub descr: Option<String>,
    pub null_as_zero: bool,
    pub xformat_date: bool,
    pub kind: Kind,
}

#[derive(Clone, Debug, PartialEq)]
pub enum Addl {
    Any(bool),
    Schema(SRef),
}

#[derive(Clone, Debug, PartialEq, Default)]
pub enum Kind {
    Str { format: String, enumeration: Vec<String> },
    Integer,
    Number,
    Boolean,
    Object { props: Vec<(String, SRef)>, required: Vec<String>, addl: Option<Addl> },
    Array { items: Option<SRef> },
    AllOf(Vec<SRef>),
    OneOf(Vec<SRef>),
    AnyOf(Vec<SRef>),
    Not,
    #[default]
    Any,
}

#[derive(Clone, Copy, Debug, PartialEq)]
pub enum Loc {
    Path,
    Query,
    Header,
    Cookie,
}

#[derive(Clone, Debug, PartialEq)]
pub struct Param {
    pub name: String,
    pub loc: Loc,
    pub required: bool,
    pub schema: SRef,
}

#[derive(Clone, Debug, PartialEq, Default)]
pub struct Op {
    pub method: String,
    pub operation_id: Option<String>,
    pub summary: Option<String>,
    pub description: Option<String>,
    pub ext_docs: Option<String>,
    pub params: Vec<Param>,
    pub body: Option<SRef>,
    /// (status, JSON schema of the response if it has an application/json body with a schema)
    pub responses: Vec<(u16, Option<SRef>)>,
}

#[derive(Clone, Debug, PartialEq, Default)]
pub struct PathItem {
    pub path: String,
    pub params: Vec<Param>,
    pub ops: Vec<Op>,
}

#[derive(Clone, Debug, PartialEq)]
pub struct Server {
    pub url: String,
    pub description: Option<String>,
}

#[derive(Clone, Debug, PartialEq)]
pub enum Scheme {
    ApiKey { loc: Loc, name: String },
    HttpBearer,
    HttpBasic,
    OAuth2 { auth_url: String, token_url: String, refresh_url: Option<String>, scopes: Vec<(String, String)> },
}

#[derive(Clone, Debug, PartialEq, Default)]
pub struct Spec {
    pub components: Vec<(String, Schema)>,
    pub paths: Vec<PathItem>,
    pub servers: Vec<Server>,
    /// each requirement lists scheme names (empty = anonymous access)
    pub security: Vec<Vec<String>>,
    pub schemes: Vec<(String, Scheme)>,
    pub ext_docs: Option<String>,
}

// ------------------------------------------------------------------ JSON (document order preserved)
/// ordered JSON value: object members keep the order of the abstract spec, whatever serde_json::Map does
#[derive(Clone, Debug)]
pub enum J {
    Null,
    Bool(bool),
    Num(i64),
    Str(String),
    Arr(Vec<J>),
    Obj(Vec<(String, J)>),
}
impl J {
    pub fn to_text(&self) -> String {
        match self {
            J::Null => "null".into(),
            J::Bool(b) => b.to_string(),
            J::Num(n) => n.to_string(),
            J::Str(s) => serde_json::to_string(s).unwrap(),
            J::Arr(v) => format!("[{}]", v.iter().map(|x| x.to_text()).collect::<Vec<_>>().join(",")),
            J::Obj(m) => format!(
                "{{{}}}",
                m.iter().map(|(k, v)| format!("{}:{}", serde_json::to_string(k).unwrap(), v.to_text())).collect::<Vec<_>>().join(",")
            ),
        }
    }
    /// YAML flow-style rendering of the same document (JSON is YAML, but quote style differs: single-quoted scalars)
    pub fn to_yaml(&self, indent: usize) -> String {
        let pad = "  ".repeat(indent);
        match self {
            J::Obj(m) if !m.is_empty() => m
                .iter()
                .map(|(k, v)| match v {
                    J::Obj(x) if !x.is_empty() => format!("{}{}:\n{}", pad, serde_json::to_string(k).unwrap(), v.to_yaml(indent + 1)),
                    J::Arr(x) if !x.is_empty() => format!("{}{}:\n{}", pad, serde_json::to_string(k).unwrap(), v.to_yaml(indent + 1)),
                    _ => format!("{}{}: {}\n", pad, serde_json::to_string(k).unwrap(), v.to_text()),
                })
                .collect::<Vec<_>>()
                .join(""),
            J::Arr(v) if !v.is_empty() => v
                .iter()
                .map(|x| match x {
                    J::Obj(m) if !m.is_empty() => {
                        let inner = x.to_yaml(indent + 1);
                        let trimmed = inner.trim_start();
                        format!("{}- {}", pad, trimmed)
                    }
                    _ => format!("{}- {}\n", pad, x.to_text()),
                })
                .collect::<Vec<_>>()
                .join(""),
            _ => format!("{}{}\n", pad, self.to_text()),
        }
    }
}
fn js(s: &str) -> J {
    J::Str(s.to_string())
}
fn obj(v: Vec<(&str, J)>) -> J {
    J::Obj(v.into_iter().map(|(k, v)| (k.to_string(), v)).collect())
}

pub fn sref_json(r: &SRef) -> J {
    match r {
        SRef::Ref(n) => obj(vec![("$ref", J::Str(format!("#/components/schemas/{}", n)))]),
        SRef::Inl(s) => schema_json(s),
    }
}

pub fn schema_json(s: &Schema) -> J {
    let mut m: Vec<(String, J)> = vec![];
    let mut put = |k: &str, v: J| m.push((k.to_string(), v));
    match &s.kind {
        Kind::Str { format, enumeration } => {
            put("type", js("string"));
            if !format.is_empty() {
                put("format", js(format));
            }
            if !enumeration.is_empty() {
                put("enum", J::Arr(enumeration.iter().map(|e| js(e)).collect()));
            }
        }
        Kind::Integer => put("type", js("integer")),
        Kind::Number => put("type", js("number")),
        Kind::Boolean => put("type", js("boolean")),
        Kind::Object { props, required, addl } => {
            put("type", js("object"));
            if !props.is_empty() {
                put("properties", J::Obj(props.iter().map(|(k, v)| (k.clone(), sref_json(v))).collect()));
            }
            if !required.is_empty() {
                put("required", J::Arr(required.iter().map(|e| js(e)).collect()));
            }
            match addl {
                None => {}
                Some(Addl::Any(b)) => put("additionalProperties", J::Bool(*b)),
                Some(Addl::Schema(r)) => put("additionalProperties", sref_json(r)),
            }
        }
        Kind::Array { items } => {
            put("type", js("array"));
            if let Some(i) = items {
                put("items", sref_json(i));
            }
        }
        Kind::AllOf(l) => put("allOf", J::Arr(l.iter().map(sref_json).collect())),
        Kind::OneOf(l) => put("oneOf", J::Arr(l.iter().map(sref_json).collect())),
        Kind::AnyOf(l) => put("anyOf", J::Arr(l.iter().map(sref_json).collect())),
        Kind::Not => put("not", obj(vec![("type", js("string"))])),
        Kind::Any => {}
    }
    if s.nullable {
        put("nullable", J::Bool(true));
    }
    if let Some(d) = &s.descr {
        put("description", js(d));
    }
    if s.null_as_zero {
        put("x-null-as-zero", J::Bool(true));
    }
    if s.xformat_date {
        put("x-format", js("date"));
    }
    J::Obj(m)
}

thread_local! {
    /// parameters moved to components.parameters while one document is printed (they are referenced by `$ref`)
    static HOISTED: std::cell::RefCell<Vec<(String, J)>> = std::cell::RefCell::new(vec![]);
}

/// A parameter object, or — for some parameters, chosen by their content so that the printer stays a function of the
/// document — a `$ref` to the same object under components.parameters. The names P0, P1, ... are reused by every document,
/// so a reference string means something else in each of them.
fn param_json(p: &Param) -> J {
    let loc = match p.loc {
        Loc::Path => "path",
        Loc::Query => "query",
        Loc::Header => "header",
        Loc::Cookie => "cookie",
    };
    let o = obj(vec![("name", js(&p.name)), ("in", js(loc)), ("required", J::Bool(p.required)), ("schema", sref_json(&p.schema))]);
    if (p.name.len() + p.required as usize) % 3 == 0 {
        let k = HOISTED.with(|h| {
            let mut h = h.borrow_mut();
            let n = h.len();
            h.push((format!("P{}", n), o.clone()));
            h.len() - 1
        });
        obj(vec![("$ref", js(&format!("#/components/parameters/P{}", k)))])
    } else {
        o
    }
}

fn op_json(o: &Op) -> J {
    let mut m: Vec<(String, J)> = vec![];
    let mut put = |k: &str, v: J| m.push((k.to_string(), v));
    if let Some(id) = &o.operation_id {
        put("operationId", js(id));
    }
    if let Some(s) = &o.summary {
        put("summary", js(s));
    }
    if let Some(s) = &o.description {
        put("description", js(s));
    }
    if let Some(u) = &o.ext_docs {
        put("externalDocs", obj(vec![("url", js(u))]));
    }
    if !o.params.is_empty() {
        put("parameters", J::Arr(o.params.iter().map(param_json).collect()));
    }
    if let Some(b) = &o.body {
        put(
            "requestBody",
            obj(vec![("required", J::Bool(true)), ("content", obj(vec![("application/json", obj(vec![("schema", sref_json(b))]))]))]),
        );
    }
    let mut rm: Vec<(String, J)> = vec![];
    for (code, schema) in &o.responses {
        let v = match schema {
            Some(s) => obj(vec![("description", js("r")), ("content", obj(vec![("application/json", obj(vec![("schema", sref_json(s))]))]))]),
            None => obj(vec![("description", js("r"))]),
        };
        rm.push((code.to_string(), v));
    }
    put("responses", J::Obj(rm));
    J::Obj(m)
}

pub fn http_spelling(scheme_name: &str, base: &str) -> String {
    let letters: Vec<char> = scheme_name.chars().filter(|c| c.is_ascii_alphabetic()).collect();
    if !letters.is_empty() && letters.iter().all(|c| c.is_ascii_uppercase()) {
        base.to_uppercase()
    } else if letters.first().map(|c| c.is_ascii_uppercase()).unwrap_or(false) {
        let mut c = base.chars();
        c.next().map(|f| f.to_ascii_uppercase().to_string() + c.as_str()).unwrap_or_default()
    } else {
        base.to_string()
    }
}

pub fn spec_json(s: &Spec) -> J {
    HOISTED.with(|h| h.borrow_mut().clear());
    let mut paths: Vec<(String, J)> = vec![];
    for pi in &s.paths {
        let mut m: Vec<(String, J)> = vec![];
        if !pi.params.is_empty() {
            m.push(("parameters".into(), J::Arr(pi.params.iter().map(param_json).collect())));
        }
        for o in &pi.ops {
            m.push((o.method.clone(), op_json(o)));
        }
        paths.push((pi.path.clone(), J::Obj(m)));
    }
    let schemas: Vec<(String, J)> = s.components.iter().map(|(n, sc)| (n.clone(), schema_json(sc))).collect();
    let mut schemes: Vec<(String, J)> = vec![];
    for (n, sc) in &s.schemes {
        let v = match sc {
            Scheme::ApiKey { loc, name } => {
                let l = match loc {
                    Loc::Header => "header",
                    Loc::Query => "query",
                    Loc::Cookie => "cookie",
                    Loc::Path => "header",
                };
                obj(vec![("type", js("apiKey")), ("in", js(l)), ("name", js(name))])
            }
            // the auth-scheme token is case-insensitive (RFC 7235) and the IANA registry spells it `Basic` / `Bearer`:
            // the spelling follows the capitalisation of the scheme's own name, so that all three forms occur
            Scheme::HttpBearer => obj(vec![("type", js("http")), ("scheme", js(&http_spelling(n, "bearer")))]),
            Scheme::HttpBasic => obj(vec![("type", js("http")), ("scheme", js(&http_spelling(n, "basic")))]),
            Scheme::OAuth2 { auth_url, token_url, refresh_url, scopes } => {
                let mut flow: Vec<(String, J)> = vec![("authorizationUrl".into(), js(auth_url)), ("tokenUrl".into(), js(token_url))];
                if let Some(r) = refresh_url {
                    flow.push(("refreshUrl".into(), js(r)));
                }
                flow.push(("scopes".into(), J::Obj(scopes.iter().map(|(k, v)| (k.clone(), js(v))).collect())));
                obj(vec![("type", js("oauth2")), ("flows", obj(vec![("authorizationCode", J::Obj(flow))]))])
            }
        };
        schemes.push((n.clone(), v));
    }
    let mut root: Vec<(String, J)> = vec![
        ("openapi".into(), js("3.0.3")),
        ("info".into(), obj(vec![("title", js("t")), ("version", js("1.0.0"))])),
    ];
    if !s.servers.is_empty() {
        root.push((
            "servers".into(),
            J::Arr(
                s.servers
                    .iter()
                    .map(|sv| match &sv.description {
                        Some(d) => obj(vec![("url", js(&sv.url)), ("description", js(d))]),
                        None => obj(vec![("url", js(&sv.url))]),
                    })
                    .collect(),
            ),
        ));
    }
    root.push(("paths".into(), J::Obj(paths)));
    let mut comps: Vec<(String, J)> = vec![("schemas".into(), J::Obj(schemas))];
    if !schemes.is_empty() {
        comps.push(("securitySchemes".into(), J::Obj(schemes)));
    }
    let hoisted = HOISTED.with(|h| std::mem::take(&mut *h.borrow_mut()));
    if !hoisted.is_empty() {
        comps.push(("parameters".into(), J::Obj(hoisted)));
    }
    root.push(("components".into(), J::Obj(comps)));
    if !s.security.is_empty() {
        root.push((
            "security".into(),
            J::Arr(s.security.iter().map(|req| J::Obj(req.iter().map(|n| (n.clone(), J::Arr(vec![]))).collect())).collect()),
        ));
    }
    if let Some(u) = &s.ext_docs {
        root.push(("externalDocs".into(), obj(vec![("url", js(u))])));
    }
    J::Obj(root)
}

// ------------------------------------------------------------------ S-expressions (atoms are hex)
fn a(s: &str) -> String {
    format!("#{}", hex(s.as_bytes()))
}
fn opt(o: &Option<String>) -> String {
    match o {
        Some(s) => format!("(some {})", a(s)),
        None => "none".into(),
    }
}
fn b(x: bool) -> &'static str {
    if x {
        "t"
    } else {
        "f"
    }
}
pub fn sref_sexp(r: &SRef) -> String {
    match r {
        SRef::Ref(n) => format!("(ref {})", a(n)),
        SRef::Inl(s) => format!("(inl {})", schema_sexp(s)),
    }
}
fn list<T>(xs: &[T], f: impl Fn(&T) -> String) -> String {
    format!("({})", xs.iter().map(f).collect::<Vec<_>>().join(" "))
}
pub fn schema_sexp(s: &Schema) -> String {
    let k = match &s.kind {
        Kind::Str { format, enumeration } => format!("(str {} {})", a(format), list(enumeration, |e| a(e))),
        Kind::Integer => "(integer)".into(),
        Kind::Number => "(number)".into(),
        Kind::Boolean => "(boolean)".into(),
        Kind::Object { props, required, addl } => format!(
            "(object {} {} {})",
            list(props, |(k, v)| format!("({} {})", a(k), sref_sexp(v))),
            list(required, |r| a(r)),
            match addl {
                None => "none".to_string(),
                Some(Addl::Any(x)) => format!("(any {})", b(*x)),
                Some(Addl::Schema(r)) => format!("(schema {})", sref_sexp(r)),
            }
        ),
        Kind::Array { items } => match items {
            Some(i) => format!("(array (some {}))", sref_sexp(i)),
            None => "(array none)".into(),
        },
        Kind::AllOf(l) => format!("(allof {})", list(l, sref_sexp)),
        Kind::OneOf(l) => format!("(oneof {})", list(l, sref_sexp)),
        Kind::AnyOf(l) => format!("(anyof {})", list(l, sref_sexp)),
        Kind::Not => "(not)".into(),
        Kind::Any => "(anykind)".into(),
    };
    format!("(sch {} {} {} {} {})", b(s.nullable), opt(&s.descr), b(s.null_as_zero), b(s.xformat_date), k)
}
fn loc_s(l: Loc) -> &'static str {
    match l {
        Loc::Path => "path",
        Loc::Query => "query",
        Loc::Header => "header",
        Loc::Cookie => "cookie",
    }
}
fn param_sexp(p: &Param) -> String {
    format!("(param {} {} {} {})", a(&p.name), loc_s(p.loc), b(p.required), sref_sexp(&p.schema))
}
fn op_sexp(o: &Op) -> String {
    format!(
        "(op {} {} {} {} {} {} {} {})",
        a(&o.method),
        opt(&o.operation_id),
        opt(&o.summary),
        opt(&o.description),
        opt(&o.ext_docs),
        list(&o.params, param_sexp),
        match &o.body {
            Some(x) => format!("(some {})", sref_sexp(x)),
            None => "none".into(),
        },
        list(&o.responses, |(c, s)| format!(
            "({} {})",
            c,
            match s {
                Some(x) => format!("(some {})", sref_sexp(x)),
                None => "none".into(),
            }
        ))
    )
}
pub fn spec_sexp(s: &Spec) -> String {
    format!(
        "(spec {} {} {} {} {} {})",
        list(&s.components, |(n, sc)| format!("({} {})", a(n), schema_sexp(sc))),
        list(&s.paths, |pi| format!("(item {} {} {})", a(&pi.path), list(&pi.params, param_sexp), list(&pi.ops, op_sexp))),
        list(&s.servers, |sv| format!("({} {})", a(&sv.url), opt(&sv.description))),
        list(&s.security, |r| list(r, |n| a(n))),
        list(&s.schemes, |(n, sc)| format!(
            "({} {})",
            a(n),
            match sc {
                Scheme::ApiKey { loc, name } => format!("(apikey {} {})", loc_s(*loc), a(name)),
                Scheme::HttpBearer => "(bearer)".into(),
                Scheme::HttpBasic => "(basic)".into(),
                Scheme::OAuth2 { auth_url, token_url, refresh_url, scopes } => format!(
                    "(oauth2 {} {} {} {})",
                    a(auth_url),
                    a(token_url),
                    opt(refresh_url),
                    list(scopes, |(k, v)| format!("({} {})", a(k), a(v)))
                ),
            }
        )),
        opt(&s.ext_docs)
    )
}

// ------------------------------------------------------------------ convenience constructors
pub fn s_string() -> Schema {
    Schema { kind: Kind::Str { format: String::new(), enumeration: vec![] }, ..Default::default() }
}
pub fn s_fmt(f: &str) -> Schema {
    Schema { kind: Kind::Str { format: f.into(), enumeration: vec![] }, ..Default::default() }
}
pub fn s_enum(vals: &[&str]) -> Schema {
    Schema {
        kind: Kind::Str { format: String::new(), enumeration: vals.iter().map(|s| s.to_string()).collect() },
        ..Default::default()
    }
}
pub fn s_int() -> Schema {
    Schema { kind: Kind::Integer, ..Default::default() }
}
pub fn s_num() -> Schema {
    Schema { kind: Kind::Number, ..Default::default() }
}
pub fn s_bool() -> Schema {
    Schema { kind: Kind::Boolean, ..Default::default() }
}
pub fn s_obj(props: Vec<(&str, SRef)>, required: &[&str]) -> Schema {
    Schema {
        kind: Kind::Object {
            props: props.into_iter().map(|(k, v)| (k.to_string(), v)).collect(),
            required: required.iter().map(|s| s.to_string()).collect(),
            addl: None,
        },
        ..Default::default()
    }
}
pub fn s_arr(items: SRef) -> Schema {
    Schema { kind: Kind::Array { items: Some(items) }, ..Default::default() }
}
pub fn inl(s: Schema) -> SRef {
    SRef::Inl(Box::new(s))
}
pub fn rf(n: &str) -> SRef {
    SRef::Ref(n.to_string())
}
