//! Abstract OpenAPI subset (mirror of coq/Model/OpenApi.v), its JSON rendering (fed to the real
//! serde/openapiv3 front-end) and its S-expression rendering (fed to the extracted model).
use crate::util::*;
use serde_json::{json, Map, Value};

#[derive(Clone, Debug, PartialEq)]
pub enum SRef {
    Ref(String),
    Inl(Box<Schema>),
}

#[derive(Clone, Debug, PartialEq, Default)]
pub struct Schema {
    pub nullable: bool,
    pub descr: Option<String>,
    pub null_as_zero: bool,
    pub xformat_date: bool,
    pub kind: Kind,
}

#[derive(Clone, Debug, PartialEq)]
pub enum Addl {
    Any(bool),
    Schema(SRef),
}

#[derive(Clone, Debug, PartialEq, Default)]
pub enum Kind {
    Str { format: String, enumeration: Vec<String> },
    Integer,
    Number,
    Boolean,
    Object { props: Vec<(String, SRef)>, required: Vec<String>, addl: Option<Addl> },
    Array { items: Option<SRef> },
    AllOf(Vec<SRef>),
    OneOf(Vec<SRef>),
    AnyOf(Vec<SRef>),
    Not,
    #[default]
    Any,
}

#[derive(Clone, Copy, Debug, PartialEq)]
pub enum Loc {
    Path,
    Query,
    Header,
    Cookie,
}

#[derive(Clone, Debug, PartialEq)]
pub struct Param {
    pub name: String,
    pub loc: Loc,
    pub required: bool,
    pub schema: SRef,
}

#[derive(Clone, Debug, PartialEq, Default)]
pub struct Op {
    pub method: String,
    pub operation_id: Option<String>,
    pub summary: Option<String>,
    pub description: Option<String>,
    pub ext_docs: Option<String>,
    pub params: Vec<Param>,
    pub body: Option<SRef>,
    /// (status, JSON schema of the response if it has an application/json body with a schema)
    pub responses: Vec<(u16, Option<SRef>)>,
}

#[derive(Clone, Debug, PartialEq, Default)]
pub struct PathItem {
    pub path: String,
    pub params: Vec<Param>,
    pub ops: Vec<Op>,
}

#[derive(Clone, Debug, PartialEq)]
pub struct Server {
    pub url: String,
    pub description: Option<String>,
}

#[derive(Clone, Debug, PartialEq)]
pub enum Scheme {
    ApiKey { loc: Loc, name: String },
    HttpBearer,
    HttpBasic,
    OAuth2 { auth_url: String, token_url: String, refresh_url: Option<String>, scopes: Vec<(String, String)> },
}

#[derive(Clone, Debug, PartialEq, Default)]
pub struct Spec {
    pub components: Vec<(String, Schema)>,
    pub paths: Vec<PathItem>,
    pub servers: Vec<Server>,
    /// each requirement lists scheme names (empty = anonymous access)
    pub security: Vec<Vec<String>>,
    pub schemes: Vec<(String, Scheme)>,
    pub ext_docs: Option<String>,
}

// ------------------------------------------------------------------ JSON
pub fn sref_json(r: &SRef) -> Value {
    match r {
        SRef::Ref(n) => json!({ "$ref": format!("#/components/schemas/{}", n) }),
        SRef::Inl(s) => schema_json(s),
    }
}

pub fn schema_json(s: &Schema) -> Value {
    let mut m = Map::new();
    match &s.kind {
        Kind::Str { format, enumeration } => {
            m.insert("type".into(), json!("string"));
            if !format.is_empty() {
                m.insert("format".into(), json!(format));
            }
            if !enumeration.is_empty() {
                m.insert("enum".into(), json!(enumeration));
            }
        }
        Kind::Integer => {
            m.insert("type".into(), json!("integer"));
        }
        Kind::Number => {
            m.insert("type".into(), json!("number"));
        }
        Kind::Boolean => {
            m.insert("type".into(), json!("boolean"));
        }
        Kind::Object { props, required, addl } => {
            m.insert("type".into(), json!("object"));
            if !props.is_empty() {
                let mut pm = Map::new();
                for (k, v) in props {
                    pm.insert(k.clone(), sref_json(v));
                }
                m.insert("properties".into(), Value::Object(pm));
            }
            if !required.is_empty() {
                m.insert("required".into(), json!(required));
            }
            match addl {
                None => {}
                Some(Addl::Any(b)) => {
                    m.insert("additionalProperties".into(), json!(b));
                }
                Some(Addl::Schema(r)) => {
                    m.insert("additionalProperties".into(), sref_json(r));
                }
            }
        }
        Kind::Array { items } => {
            m.insert("type".into(), json!("array"));
            if let Some(i) = items {
                m.insert("items".into(), sref_json(i));
            }
        }
        Kind::AllOf(l) => {
            m.insert("allOf".into(), Value::Array(l.iter().map(sref_json).collect()));
        }
        Kind::OneOf(l) => {
            m.insert("oneOf".into(), Value::Array(l.iter().map(sref_json).collect()));
        }
        Kind::AnyOf(l) => {
            m.insert("anyOf".into(), Value::Array(l.iter().map(sref_json).collect()));
        }
        Kind::Not => {
            m.insert("not".into(), json!({"type": "string"}));
        }
        Kind::Any => {}
    }
    if s.nullable {
        m.insert("nullable".into(), json!(true));
    }
    if let Some(d) = &s.descr {
        m.insert("description".into(), json!(d));
    }
    if s.null_as_zero {
        m.insert("x-null-as-zero".into(), json!(true));
    }
    if s.xformat_date {
        m.insert("x-format".into(), json!("date"));
    }
    Value::Object(m)
}

fn param_json(p: &Param) -> Value {
    let loc = match p.loc {
        Loc::Path => "path",
        Loc::Query => "query",
        Loc::Header => "header",
        Loc::Cookie => "cookie",
    };
    json!({"name": p.name, "in": loc, "required": p.required, "schema": sref_json(&p.schema)})
}

fn op_json(o: &Op) -> Value {
    let mut m = Map::new();
    if let Some(id) = &o.operation_id {
        m.insert("operationId".into(), json!(id));
    }
    if let Some(s) = &o.summary {
        m.insert("summary".into(), json!(s));
    }
    if let Some(s) = &o.description {
        m.insert("description".into(), json!(s));
    }
    if let Some(u) = &o.ext_docs {
        m.insert("externalDocs".into(), json!({ "url": u }));
    }
    if !o.params.is_empty() {
        m.insert("parameters".into(), Value::Array(o.params.iter().map(param_json).collect()));
    }
    if let Some(b) = &o.body {
        m.insert(
            "requestBody".into(),
            json!({"required": true, "content": {"application/json": {"schema": sref_json(b)}}}),
        );
    }
    let mut rm = Map::new();
    for (code, schema) in &o.responses {
        let v = match schema {
            Some(s) => json!({"description": "r", "content": {"application/json": {"schema": sref_json(s)}}}),
            None => json!({"description": "r"}),
        };
        rm.insert(code.to_string(), v);
    }
    m.insert("responses".into(), Value::Object(rm));
    Value::Object(m)
}

pub fn spec_json(s: &Spec) -> Value {
    let mut paths = Map::new();
    for pi in &s.paths {
        let mut m = Map::new();
        if !pi.params.is_empty() {
            m.insert("parameters".into(), Value::Array(pi.params.iter().map(param_json).collect()));
        }
        for o in &pi.ops {
            m.insert(o.method.clone(), op_json(o));
        }
        paths.insert(pi.path.clone(), Value::Object(m));
    }
    let mut schemas = Map::new();
    for (n, sc) in &s.components {
        schemas.insert(n.clone(), schema_json(sc));
    }
    let mut schemes = Map::new();
    for (n, sc) in &s.schemes {
        let v = match sc {
            Scheme::ApiKey { loc, name } => {
                let l = match loc {
                    Loc::Header => "header",
                    Loc::Query => "query",
                    Loc::Cookie => "cookie",
                    Loc::Path => "header",
                };
                json!({"type": "apiKey", "in": l, "name": name})
            }
            Scheme::HttpBearer => json!({"type": "http", "scheme": "bearer"}),
            Scheme::HttpBasic => json!({"type": "http", "scheme": "basic"}),
            Scheme::OAuth2 { auth_url, token_url, refresh_url, scopes } => {
                let mut sm = Map::new();
                for (k, v) in scopes {
                    sm.insert(k.clone(), json!(v));
                }
                let mut flow = Map::new();
                flow.insert("authorizationUrl".into(), json!(auth_url));
                flow.insert("tokenUrl".into(), json!(token_url));
                if let Some(r) = refresh_url {
                    flow.insert("refreshUrl".into(), json!(r));
                }
                flow.insert("scopes".into(), Value::Object(sm));
                json!({"type": "oauth2", "flows": {"authorizationCode": Value::Object(flow)}})
            }
        };
        schemes.insert(n.clone(), v);
    }
    let mut root = Map::new();
    root.insert("openapi".into(), json!("3.0.3"));
    root.insert("info".into(), json!({"title": "t", "version": "1.0.0"}));
    if !s.servers.is_empty() {
        root.insert(
            "servers".into(),
            Value::Array(
                s.servers
                    .iter()
                    .map(|sv| match &sv.description {
                        Some(d) => json!({"url": sv.url, "description": d}),
                        None => json!({"url": sv.url}),
                    })
                    .collect(),
            ),
        );
    }
    root.insert("paths".into(), Value::Object(paths));
    let mut comps = Map::new();
    comps.insert("schemas".into(), Value::Object(schemas));
    if !schemes.is_empty() {
        comps.insert("securitySchemes".into(), Value::Object(schemes));
    }
    root.insert("components".into(), Value::Object(comps));
    if !s.security.is_empty() {
        root.insert(
            "security".into(),
            Value::Array(
                s.security
                    .iter()
                    .map(|req| {
                        let mut m = Map::new();
                        for n in req {
                            m.insert(n.clone(), json!([]));
                        }
                        Value::Object(m)
                    })
                    .collect(),
            ),
        );
    }
    if let Some(u) = &s.ext_docs {
        root.insert("externalDocs".into(), json!({ "url": u }));
    }
    Value::Object(root)
}

// ------------------------------------------------------------------ S-expressions (atoms are hex)
fn a(s: &str) -> String {
    format!("#{}", hex(s.as_bytes()))
}
fn opt(o: &Option<String>) -> String {
    match o {
        Some(s) => format!("(some {})", a(s)),
        None => "none".into(),
    }
}
fn b(x: bool) -> &'static str {
    if x {
        "t"
    } else {
        "f"
    }
}
pub fn sref_sexp(r: &SRef) -> String {
    match r {
        SRef::Ref(n) => format!("(ref {})", a(n)),
        SRef::Inl(s) => format!("(inl {})", schema_sexp(s)),
    }
}
fn list<T>(xs: &[T], f: impl Fn(&T) -> String) -> String {
    format!("({})", xs.iter().map(f).collect::<Vec<_>>().join(" "))
}
pub fn schema_sexp(s: &Schema) -> String {
    let k = match &s.kind {
        Kind::Str { format, enumeration } => format!("(str {} {})", a(format), list(enumeration, |e| a(e))),
        Kind::Integer => "(integer)".into(),
        Kind::Number => "(number)".into(),
        Kind::Boolean => "(boolean)".into(),
        Kind::Object { props, required, addl } => format!(
            "(object {} {} {})",
            list(props, |(k, v)| format!("({} {})", a(k), sref_sexp(v))),
            list(required, |r| a(r)),
            match addl {
                None => "none".to_string(),
                Some(Addl::Any(x)) => format!("(any {})", b(*x)),
                Some(Addl::Schema(r)) => format!("(schema {})", sref_sexp(r)),
            }
        ),
        Kind::Array { items } => match items {
            Some(i) => format!("(array (some {}))", sref_sexp(i)),
            None => "(array none)".into(),
        },
        Kind::AllOf(l) => format!("(allof {})", list(l, sref_sexp)),
        Kind::OneOf(l) => format!("(oneof {})", list(l, sref_sexp)),
        Kind::AnyOf(l) => format!("(anyof {})", list(l, sref_sexp)),
        Kind::Not => "(not)".into(),
        Kind::Any => "(anykind)".into(),
    };
    format!("(sch {} {} {} {} {})", b(s.nullable), opt(&s.descr), b(s.null_as_zero), b(s.xformat_date), k)
}
fn loc_s(l: Loc) -> &'static str {
    match l {
        Loc::Path => "path",
        Loc::Query => "query",
        Loc::Header => "header",
        Loc::Cookie => "cookie",
    }
}
fn param_sexp(p: &Param) -> String {
    format!("(param {} {} {} {})", a(&p.name), loc_s(p.loc), b(p.required), sref_sexp(&p.schema))
}
fn op_sexp(o: &Op) -> String {
    format!(
        "(op {} {} {} {} {} {} {} {})",
        a(&o.method),
        opt(&o.operation_id),
        opt(&o.summary),
        opt(&o.description),
        opt(&o.ext_docs),
        list(&o.params, param_sexp),
        match &o.body {
            Some(x) => format!("(some {})", sref_sexp(x)),
            None => "none".into(),
        },
        list(&o.responses, |(c, s)| format!(
            "({} {})",
            c,
            match s {
                Some(x) => format!("(some {})", sref_sexp(x)),
                None => "none".into(),
            }
        ))
    )
}
pub fn spec_sexp(s: &Spec) -> String {
    format!(
        "(spec {} {} {} {} {} {})",
        list(&s.components, |(n, sc)| format!("({} {})", a(n), schema_sexp(sc))),
        list(&s.paths, |pi| format!("(item {} {} {})", a(&pi.path), list(&pi.params, param_sexp), list(&pi.ops, op_sexp))),
        list(&s.servers, |sv| format!("({} {})", a(&sv.url), opt(&sv.description))),
        list(&s.security, |r| list(r, |n| a(n))),
        list(&s.schemes, |(n, sc)| format!(
            "({} {})",
            a(n),
            match sc {
                Scheme::ApiKey { loc, name } => format!("(apikey {} {})", loc_s(*loc), a(name)),
                Scheme::HttpBearer => "(bearer)".into(),
                Scheme::HttpBasic => "(basic)".into(),
                Scheme::OAuth2 { auth_url, token_url, refresh_url, scopes } => format!(
                    "(oauth2 {} {} {} {})",
                    a(auth_url),
                    a(token_url),
                    opt(refresh_url),
                    list(scopes, |(k, v)| format!("({} {})", a(k), a(v)))
                ),
            }
        )),
        opt(&s.ext_docs)
    )
}

// ------------------------------------------------------------------ convenience constructors
pub fn s_string() -> Schema {
    Schema { kind: Kind::Str { format: String::new(), enumeration: vec![] }, ..Default::default() }
}
pub fn s_fmt(f: &str) -> Schema {
    Schema { kind: Kind::Str { format: f.into(), enumeration: vec![] }, ..Default::default() }
}
pub fn s_enum(vals: &[&str]) -> Schema {
    Schema {
        kind: Kind::Str { format: String::new(), enumeration: vals.iter().map(|s| s.to_string()).collect() },
        ..Default::default()
    }
}
pub fn s_int() -> Schema {
    Schema { kind: Kind::Integer, ..Default::default() }
}
pub fn s_num() -> Schema {
    Schema { kind: Kind::Number, ..Default::default() }
}
pub fn s_bool() -> Schema {
    Schema { kind: Kind::Boolean, ..Default::default() }
}
pub fn s_obj(props: Vec<(&str, SRef)>, required: &[&str]) -> Schema {
    Schema {
        kind: Kind::Object {
            props: props.into_iter().map(|(k, v)| (k.to_string(), v)).collect(),
            required: required.iter().map(|s| s.to_string()).collect(),
            addl: None,
        },
        ..Default::default()
    }
}
pub fn s_arr(items: SRef) -> Schema {
    Schema { kind: Kind::Array { items: Some(items) }, ..Default::default() }
}
pub fn inl(s: Schema) -> SRef {
    SRef::Inl(Box::new(s))
}
pub fn rf(n: &str) -> SRef {
    SRef::Ref(n.to_string())
}
