//! C04 execution layer: JSON instances synthesised from the OpenAPI schemas themselves (all properties, required only,
//! nulls for nullable members, one required member missing) and a driver program that pushes them through
//! serde_json::from_str / to_value on the compiled generated types.
use crate::spec::*;
use hir::HirSpec;
use mir_rust::ToRustIdent;
use serde_json::{json, Map, Value};

thread_local! {
    /// labels of the instance being built: shapes recorded as open findings (see known_findings.json)
    static FLAGS: std::cell::RefCell<std::collections::BTreeSet<&'static str>> = std::cell::RefCell::new(Default::default());
}
fn flag(l: &'static str) {
    FLAGS.with(|f| {
        f.borrow_mut().insert(l);
    });
}
fn take_flags() -> Vec<&'static str> {
    FLAGS.with(|f| std::mem::take(&mut *f.borrow_mut()).into_iter().collect())
}
/// does this schema travel through one of the `with` adapters when it is a direct struct member?
fn adapter_typed(s: &Schema) -> bool {
    match &s.kind {
        Kind::Integer => s.null_as_zero || s.xformat_date,
        Kind::Str { format, enumeration } => enumeration.is_empty() && format == "integer",
        _ => false,
    }
}
fn resolve<'a>(spec: &'a Spec, r: &'a SRef) -> Option<&'a Schema> {
    resolve_n(spec, r, 8)
}
/// the schema a reference stands for, seen through component references and single-member allOf wrappers (the type of
/// `allOf: [{type: integer, x-format: date}]` is that of its member)
fn resolve_n<'a>(spec: &'a Spec, r: &'a SRef, depth: usize) -> Option<&'a Schema> {
    let s = match r {
        SRef::Ref(n) => comp(spec, n)?,
        SRef::Inl(s) => s,
    };
    match &s.kind {
        Kind::AllOf(l) if l.len() == 1 && depth > 0 => resolve_n(spec, &l[0], depth - 1).or(Some(s)),
        _ => Some(s),
    }
}

#[derive(Clone, Copy, PartialEq)]
enum Mode {
    All,
    RequiredOnly,
    Nulls,
}

fn comp<'a>(spec: &'a Spec, name: &str) -> Option<&'a Schema> {
    spec.components.iter().find(|(n, _)| n == name).map(|(_, s)| s)
}

fn inst_ref(spec: &Spec, r: &SRef, mode: Mode, depth: usize) -> Option<Value> {
    match r {
        SRef::Ref(n) => comp(spec, n).and_then(|s| inst(spec, s, mode, depth)),
        SRef::Inl(s) => inst(spec, s, mode, depth),
    }
}

/// a JSON instance valid for the schema (None: no finite instance within the depth limit)
fn inst(spec: &Spec, s: &Schema, mode: Mode, depth: usize) -> Option<Value> {
    if depth == 0 {
        return None;
    }
    Some(match &s.kind {
        Kind::Str { format, enumeration } => {
            if let Some(v) = enumeration.first() {
                json!(v)
            } else {
                match format.as_str() {
                    "date" => json!("2020-01-02"),
                    "date-time" => json!("2020-01-02T03:04:05Z"),
                    "decimal" => json!("12.50"),
                    "integer" => json!("7"),
                    "uuid" => json!("123e4567-e89b-12d3-a456-426614174000"),
                    _ => json!("some \"text\" with \\ and é"),
                }
            }
        }
        Kind::Integer => {
            if s.xformat_date {
                json!(20200102)
            } else {
                json!(7)
            }
        }
        Kind::Number => json!(1.5),
        Kind::Boolean => json!(true),
        Kind::Any | Kind::OneOf(_) | Kind::AnyOf(_) | Kind::Not => json!({"free": 1}),
        Kind::Array { items } => match items {
            Some(i) => {
                if resolve(spec, i).map(adapter_typed).unwrap_or(false) {
                    flag("adapter_value_nested");
                }
                json!([inst_ref(spec, i, mode, depth - 1)?])
            }
            None => json!([1]),
        },
        Kind::Object { props, required, addl } => {
            if props.is_empty() {
                match addl {
                    Some(Addl::Schema(r)) => {
                        if resolve(spec, r).map(adapter_typed).unwrap_or(false) {
                            flag("adapter_value_nested");
                        }
                        json!({"k": inst_ref(spec, r, mode, depth - 1)?})
                    }
                    Some(Addl::Any(_)) => json!({"k": 1}),
                    None => json!({"free": 1}),
                }
            } else {
                Value::Object(object_members(spec, props, required, mode, depth)?)
            }
        }
        Kind::AllOf(members) => {
            let mut m = Map::new();
            let mut scalar = None;
            for r in members {
                if let Some(ms) = resolve(spec, r) {
                    let free_form = match &ms.kind {
                        Kind::Object { props, addl, .. } => props.is_empty() && addl.is_none(),
                        Kind::Any | Kind::OneOf(_) | Kind::AnyOf(_) | Kind::Not => true,
                        _ => false,
                    };
                    if free_form && members.len() > 1 {
                        continue;
                    }
                }
                match inst_ref(spec, r, mode, depth - 1)? {
                    Value::Object(o) => m.extend(o),
                    other => scalar = Some(other),
                }
            }
            match scalar {
                Some(v) if m.is_empty() => v,
                _ => Value::Object(m),
            }
        }
    })
}

fn nullable_of(spec: &Spec, r: &SRef) -> bool {
    match r {
        SRef::Ref(n) => comp(spec, n).map(|s| s.nullable).unwrap_or(false),
        SRef::Inl(s) => s.nullable,
    }
}

fn object_members(spec: &Spec, props: &[(String, SRef)], required: &[String], mode: Mode, depth: usize) -> Option<Map<String, Value>> {
    let mut m = Map::new();
    for (k, r) in props {
        let req = required.contains(k);
        let nullable = nullable_of(spec, r);
        if mode == Mode::RequiredOnly && !req {
            continue;
        }
        if mode == Mode::Nulls && nullable {
            if resolve(spec, r).map(adapter_typed).unwrap_or(false) {
                flag("null_for_adapter_member");
            }
            m.insert(k.clone(), Value::Null);
            continue;
        }
        match inst_ref(spec, r, mode, depth - 1) {
            Some(v) => {
                m.insert(k.clone(), v);
            }
            None => {
                if req {
                    return None;
                }
            }
        }
    }
    Some(m)
}

/// is a member of this schema one the property names: a non-nullable string, number, boolean or object
fn must_be_present(spec: &Spec, r: &SRef, depth: usize) -> bool {
    if depth == 0 {
        return false;
    }
    let s = match r {
        SRef::Ref(n) => match comp(spec, n) {
            Some(s) => s,
            None => return false,
        },
        SRef::Inl(s) => s,
    };
    if s.nullable {
        return false;
    }
    match &s.kind {
        Kind::Str { .. } | Kind::Integer | Kind::Number | Kind::Boolean => true,
        Kind::Object { props, .. } => !props.is_empty(),
        Kind::AllOf(l) if l.len() == 1 => must_be_present(spec, &l[0], depth - 1),
        _ => false,
    }
}

pub struct Instance {
    pub schema: String,
    pub ty: String,
    pub kind: String,
    pub json: Value,
    pub flags: Vec<&'static str>,
}

pub fn instances(spec: &Spec, h: &HirSpec) -> Vec<Instance> {
    let mut out = vec![];
    for (name, _rec) in &h.schemas {
        let Some(s) = comp(spec, name) else { continue };
        let ty = name.as_str().to_rust_struct().0;
        for (mode, label) in [(Mode::All, "all"), (Mode::RequiredOnly, "required_only"), (Mode::Nulls, "nulls")] {
            take_flags();
            if adapter_typed(s) || matches!(&s.kind, Kind::AllOf(l) if l.len() == 1 && resolve(spec, &l[0]).map(adapter_typed).unwrap_or(false)) {
                flag("adapter_value_nested"); // the component itself: a tuple struct / alias, no `with` there either
            }
            if let Some(v) = inst(spec, s, mode, 6) {
                out.push(Instance { schema: name.clone(), ty: ty.clone(), kind: label.into(), json: v, flags: take_flags() });
            }
        }
        // one required member missing (top level only)
        if let Kind::Object { props, required, .. } = &s.kind {
            take_flags();
            let full = inst(spec, s, Mode::All, 6);
            let fl = take_flags();
            if let Some(Value::Object(full)) = full {
                for (k, r) in props {
                    if required.contains(k) && must_be_present(spec, r, 4) {
                        let mut m = full.clone();
                        m.remove(k);
                        out.push(Instance { schema: name.clone(), ty: ty.clone(), kind: format!("missing:{}", k), json: Value::Object(m), flags: fl.clone() });
                    }
                }
            }
        }
    }
    out
}

pub fn driver_source(h: &HirSpec, spec: &Spec, pkg: &str) -> String {
    let mut arms = String::new();
    for (name, _) in &h.schemas {
        if comp(spec, name).is_none() {
            continue;
        }
        let ty = name.as_str().to_rust_struct().0;
        arms.push_str(&format!("            \"{}\" => rt::<{}::model::{}>(j),\n", ty, pkg, ty));
    }
    format!(
        r#"#![allow(unused_imports)]
use std::io::BufRead;
fn rt<T: serde::de::DeserializeOwned + serde::Serialize>(j: &str) -> String {{
    match serde_json::from_str::<T>(j) {{
        Ok(v) => format!("ok {{}}", serde_json::to_string(&serde_json::to_value(&v).unwrap()).unwrap()),
        Err(e) => format!("err {{}}", e),
    }}
}}
fn main() {{
    let stdin = std::io::stdin();
    for line in stdin.lock().lines() {{
        let line = line.unwrap();
        let mut it = line.splitn(3, '\t');
        let (id, ty, j) = (it.next().unwrap_or(""), it.next().unwrap_or(""), it.next().unwrap_or(""));
        let out = match ty {{
{}            _ => "unknown type".to_string(),
        }};
        println!("{{}}\t{{}}", id, out);
    }}
}}
"#,
        arms
    )
}

/// the instance as an S-expression for the Coq model's driver
pub fn json_sexp(v: &Value) -> String {
    let h = |s: &str| format!("#{}", crate::util::hex(s.as_bytes()));
    match v {
        Value::Null => "null".into(),
        Value::Bool(b) => format!("(b {})", if *b { "t" } else { "f" }),
        Value::Number(n) => format!("(n {})", h(&n.to_string())),
        Value::String(s) => format!("(s {})", h(s)),
        Value::Array(a) => format!("(a {})", a.iter().map(json_sexp).collect::<Vec<_>>().join(" ")),
        Value::Object(m) => format!("(o {})", m.iter().map(|(k, x)| format!("({} {})", h(k), json_sexp(x))).collect::<Vec<_>>().join(" ")),
    }
}
