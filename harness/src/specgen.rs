//! Generator of abstract specs inside the supported domain D (plus knobs for known-defect classes).
//! Every random choice comes from the one Rng passed in.
use crate::spec::*;
use crate::util::Rng;

#[derive(Clone, Debug)]
pub struct Profile {
    /// allow model cycles through object properties / arrays / maps (P4: crashes the unchanged code)
    pub cycles: bool,
    /// allow operations without operationId (names synthesised from verb + path)
    pub synth_names: bool,
    /// property / parameter names from the adversarial pool (keywords, digits, separators)
    pub hard_names: bool,
    /// documentation strings from the adversarial pool
    pub docs: bool,
    pub max_components: usize,
    pub max_ops: usize,
    /// array-typed components with inline object items (P5), inline responses named like components (P6)
    pub array_components: bool,
    pub security: bool,
    pub servers: bool,
    /// allOf request bodies (P14), array / free-form bodies (P15)
    pub odd_bodies: bool,
    /// descriptions that contain a libninja directive (P16)
    pub directive_docs: bool,
    /// shapes on which the unchanged code was seen to violate a property (kept in D by the property texts)
    pub wild: bool,
    /// arrays of arrays in parameter / property position (compile-level finding C02-nested-array-input)
    pub nested_arrays: bool,
}

impl Profile {
    pub fn safe() -> Self {
        Profile {
            cycles: false,
            synth_names: false,
            hard_names: false,
            docs: false,
            max_components: 5,
            max_ops: 4,
            array_components: false,
            security: true,
            servers: true,
            odd_bodies: false,
            directive_docs: false,
            wild: false,
            nested_arrays: true,
        }
    }
    pub fn wild() -> Self {
        Profile { wild: true, array_components: true, odd_bodies: true, ..Profile::rich() }
    }
    /// rich without the input shapes recorded as open compile-level findings: what must compile
    pub fn tame() -> Self {
        Profile { nested_arrays: false, ..Profile::rich() }
    }
    /// many components and operations: enough entries for an unordered container's iteration order to vary
    pub fn big() -> Self {
        Profile { max_components: 20, max_ops: 12, ..Profile::rich() }
    }
    pub fn rich() -> Self {
        Profile { hard_names: true, docs: true, max_components: 8, max_ops: 6, synth_names: true, ..Profile::safe() }
    }
}

pub const SCHEMA_NAMES: &[&str] = &[
    "Pet", "User", "Order", "OrderItem", "Account", "HTTPConfig", "Tag", "V2Settings", "Address", "Invoice", "Team",
    "ApiKey", "Status", "Color", "Webhook", "PaymentWebhook", "Category", "Item", "Items", "Node", "Tree", "Meta",
];

pub const EASY_PROPS: &[&str] = &["id", "name", "count", "price", "active", "created", "label", "note", "email", "size", "owner", "kind"];
/// every strict and reserved keyword is a legal OpenAPI name (D: "Rust keywords ... included")
pub const KEYWORD_PROPS: &[&str] = &[
    "as", "break", "const", "continue", "crate", "else", "enum", "extern", "false", "fn", "for", "if", "impl", "in", "let", "loop", "match", "mod",
    "move", "mut", "pub", "ref", "return", "self", "Self", "static", "struct", "super", "trait", "true", "type", "unsafe", "use", "where", "while",
    "async", "await", "dyn", "abstract", "become", "box", "do", "final", "macro", "override", "priv", "typeof", "unsized", "virtual", "yield", "try",
];
pub const HARD_PROPS: &[&str] = &[
    "type", "in", "self", "fn", "loop", "async", "match", "userId", "created_at", "2fa", "X-Rate-Limit",
    "address.line1", "HTTPStatus", "v2", "item2Id", "page size", "e-mail", "Ref", "is_1099", "a_1", "crate", "super",
    "Self", "try", "IPv4", "x", "ID", "move", "box",
];
pub const DOCS: &[&str] = &[
    "A simple description.",
    "  padded with spaces  ",
    "Has \"quotes\" and \\backslashes\\.",
    "Ends a comment */ here and /* opens one",
    "Braces {like} {{this}} and {}",
    "First line\n\nThird line after a blank",
    "CRLF line\r\nnext",
    "Unicode: caf\u{e9} \u{2014} \u{65e5}\u{672c}",
    "\n\nleading and trailing newlines\n\n",
    "",
    "tab\there",
    "# Markdown heading\n* bullet `code`",
];

pub fn norm(s: &str) -> String {
    s.chars().filter(|c| c.is_ascii_alphanumeric()).map(|c| c.to_ascii_lowercase()).collect()
}

fn pick_distinct(rng: &mut Rng, pool: &[&str], n: usize, taken: &mut Vec<String>) -> Vec<String> {
    let mut out = Vec::new();
    let mut tries = 0;
    while out.len() < n && tries < 200 {
        tries += 1;
        let c = pool[rng.below(pool.len())];
        let k = norm(c);
        if k.is_empty() || taken.contains(&k) {
            continue;
        }
        taken.push(k);
        out.push(c.to_string());
    }
    out
}

fn doc(rng: &mut Rng, p: &Profile) -> Option<String> {
    if !p.docs || rng.chance(1, 2) {
        return None;
    }
    if p.directive_docs && rng.chance(1, 6) {
        return Some("see libninja: after for details".to_string());
    }
    Some(DOCS[rng.below(DOCS.len())].to_string())
}

fn prim(rng: &mut Rng) -> Schema {
    match rng.below(12) {
        0 | 1 | 2 => s_string(),
        3 | 4 => s_int(),
        5 => s_num(),
        6 => s_bool(),
        7 => s_fmt("date"),
        8 => s_fmt("date-time"),
        9 => s_fmt("decimal"),
        10 => match rng.below(3) {
            0 => s_fmt("integer"),
            1 => Schema { null_as_zero: true, ..s_int() },
            _ => Schema { xformat_date: true, ..s_int() },
        },
        _ => s_fmt("uuid"),
    }
}

/// a property/parameter-position schema reference; `refs` are component names that may be referenced
fn field_ref(rng: &mut Rng, refs: &[String], depth: usize) -> SRef {
    let r = rng.below(20);
    if r < 6 && !refs.is_empty() {
        return SRef::Ref(refs[rng.below(refs.len())].clone());
    }
    let mut s = match r {
        6..=12 => prim(rng),
        13 | 14 if depth > 0 => s_arr(field_ref(rng, refs, depth - 1)),
        15 => Schema { kind: Kind::Object { props: vec![], required: vec![], addl: None }, ..Default::default() },
        16 => Schema { kind: Kind::Any, ..Default::default() },
        17 if !refs.is_empty() && rng.chance(2, 3) => Schema { kind: Kind::AllOf(vec![SRef::Ref(refs[rng.below(refs.len())].clone())]), ..Default::default() },
        // a one-member allOf wrapping an inline primitive (a way to attach a description or nullable to a formatted string)
        17 => Schema { kind: Kind::AllOf(vec![inl(prim(rng))]), ..Default::default() },
        18 => Schema { kind: Kind::OneOf(vec![inl(s_string()), inl(s_int())]), ..Default::default() },
        _ => prim(rng),
    };
    if rng.chance(1, 6) {
        s.nullable = true;
    }
    inl(s)
}

fn object_schema(rng: &mut Rng, p: &Profile, refs: &[String]) -> Schema {
    let n = 1 + rng.below(5);
    let mut taken = vec![];
    let pool: Vec<&str> = if p.hard_names && rng.chance(1, 2) { [HARD_PROPS, KEYWORD_PROPS].concat() } else { EASY_PROPS.to_vec() };
    let names = pick_distinct(rng, &pool, n, &mut taken);
    let mut props = vec![];
    let mut required = vec![];
    for nm in names {
        let mut r = field_ref(rng, refs, if p.nested_arrays { 2 } else { 1 });
        if let SRef::Inl(s) = &mut r {
            if s.descr.is_none() {
                s.descr = doc(rng, p);
            }
        }
        if rng.chance(1, 2) {
            required.push(nm.clone());
        }
        props.push((nm, r));
    }
    // declared properties AND additionalProperties: still a struct of the declared members (the extra keys have no field)
    let addl = if p.hard_names && rng.chance(1, 8) {
        Some(if rng.chance(1, 3) { Addl::Any(rng.chance(1, 2)) } else { Addl::Schema(field_ref(rng, refs, 1)) })
    } else {
        None
    };
    Schema { kind: Kind::Object { props, required, addl }, descr: doc(rng, p), ..Default::default() }
}

pub fn gen_spec(rng: &mut Rng, p: &Profile) -> Spec {
    let mut spec = Spec::default();
    // ---- components
    let nc = rng.below(p.max_components + 1);
    let mut taken = vec![];
    let names = pick_distinct(rng, SCHEMA_NAMES, nc, &mut taken);
    let mut obj_names: Vec<String> = vec![];
    let mut struct_names: Vec<String> = vec![];
    for (i, name) in names.iter().enumerate() {
        // references only go backwards unless cycles are allowed
        let refs: Vec<String> = if p.cycles { names.clone() } else { names[..i].to_vec() };
        // only reference object/enum-like components most of the time (others are aliases/primitives)
        let k = rng.below(14);
        let sc = match k {
            0..=6 => {
                let mut o = object_schema(rng, p, &refs);
                if p.hard_names && rng.chance(1, 6) {
                    o.nullable = true;
                }
                o
            }
            7 => {
                let mut t = vec![];
                let nv = 1 + rng.below(4);
                let vals = pick_distinct(rng, &["active", "in-active", "PENDING", "type", "2nd", "a b", "done.", "X_Y"], nv, &mut t);
                Schema { descr: doc(rng, p), ..s_enum(&vals.iter().map(|s| s.as_str()).collect::<Vec<_>>()) }
            }
            8 => Schema {
                kind: Kind::Object { props: vec![], required: vec![], addl: Some(Addl::Schema(field_ref(rng, &refs, 1))) },
                ..Default::default()
            },
            9 if refs.iter().any(|r| struct_names.contains(r)) => {
                // allOf of a ref and an inline object; the referenced component is itself an object (an instance has to
                // satisfy every member: allOf of an array or a string with an object has no instances at all)
                let cands: Vec<&String> = refs.iter().filter(|r| struct_names.contains(*r)).collect();
                let target = cands[rng.below(cands.len())].clone();
                let r = SRef::Ref(target.clone());
                // D: property names of one object, allOf members included, are pairwise distinct after normalisation
                let taken_names = body_prop_names(&spec, &target);
                let mut o = object_schema(rng, p, &refs);
                if let Kind::Object { props, required, .. } = &mut o.kind {
                    props.retain(|(k, _)| !taken_names.contains(&norm(k)));
                    required.retain(|q| props.iter().any(|(k, _)| k == q));
                }
                Schema { kind: Kind::AllOf(vec![r, inl(o)]), descr: doc(rng, p), ..Default::default() }
            }
            10 if !refs.is_empty() => {
                // single-member allOf alias, sometimes nullable
                let r = SRef::Ref(refs[rng.below(refs.len())].clone());
                Schema { kind: Kind::AllOf(vec![r]), nullable: rng.chance(1, 2), ..Default::default() }
            }
            11 => prim(rng),
            12 if p.array_components && rng.chance(1, 2) => {
                let o = object_schema(rng, p, &refs);
                obj_names.push(name.clone()); // may be referenced like a model (P5)
                s_arr(inl(o))
            }
            // a matrix: array component whose inline items are themselves an array of primitives (used inline wherever referenced)
            12 if rng.chance(1, 3) => s_arr(inl(s_arr(inl(prim(rng))))),
            12 if p.hard_names && rng.chance(1, 4) => Schema { nullable: true, ..s_arr(if !refs.is_empty() { SRef::Ref(refs[rng.below(refs.len())].clone()) } else { inl(prim(rng)) }) },
            12 => s_arr(if !refs.is_empty() && rng.chance(1, 2) { SRef::Ref(refs[rng.below(refs.len())].clone()) } else { inl(prim(rng)) }),
            _ => object_schema(rng, p, &refs),
        };
        if matches!(sc.kind, Kind::Object { .. } | Kind::AllOf(_)) || matches!(&sc.kind, Kind::Str{enumeration, ..} if !enumeration.is_empty()) {
            obj_names.push(name.clone());
        }
        if matches!(&sc.kind, Kind::Object { props, .. } if !props.is_empty()) || matches!(&sc.kind, Kind::AllOf(l) if l.len() > 1) {
            struct_names.push(name.clone());
        }
        spec.components.push((name.clone(), sc));
    }
    if p.wild && rng.chance(1, 8) && !names.iter().any(|n| n == "Node" || n == "Tree") {
        // recursive schemas: directly, through an optional member, mutually; and (harmless today) through an array
        match rng.below(4) {
            0 => spec.components.push(("Node".into(), s_obj(vec![("value", inl(s_int())), ("child", rf("Node"))], &["value", "child"]))),
            1 => spec.components.push(("Node".into(), s_obj(vec![("value", inl(s_int())), ("next", rf("Node"))], &["value"]))),
            2 => {
                spec.components.push(("Node".into(), s_obj(vec![("tree", rf("Tree"))], &["tree"])));
                spec.components.push(("Tree".into(), s_obj(vec![("root", rf("Node"))], &[])));
            }
            _ => spec.components.push(("Node".into(), s_obj(vec![("value", inl(s_int())), ("children", inl(s_arr(rf("Node"))))], &["value"]))),
        }
        obj_names.push("Node".into());
    }
    if p.wild && p.array_components && rng.chance(1, 6) && !names.iter().any(|n| n == "Item" || n == "Items") {
        // a plural array component with inline items, declared after the component its invented item name would take
        let o1 = object_schema(rng, p, &[]);
        let o2 = object_schema(rng, p, &[]);
        spec.components.push(("Item".into(), o1));
        spec.components.push(("Items".into(), s_arr(inl(o2))));
        obj_names.push("Item".into());
    }
    if p.wild && rng.chance(1, 10) {
        // a component named like a type the generated code itself relies on (open finding C02-component-shadows-prelude)
        let nm = ["Result", "Option", "Vec", "String", "Box"][rng.below(5)];
        if !names.iter().any(|n| n == nm) {
            spec.components.push((nm.into(), s_obj(vec![("id", inl(s_int())), ("note", inl(s_string())), ("tags", inl(s_arr(inl(s_string()))))], &["id"])));
            obj_names.push(nm.into());
        }
    }
    let all_names: Vec<String> = names.clone();
    // ---- operations
    let nops = 1 + rng.below(p.max_ops);
    // the five common verbs most of the time; head / options / trace are operations like any other
    let verbs: Vec<&str> = if p.hard_names { vec!["get", "post", "put", "delete", "patch", "get", "post", "put", "delete", "patch", "head", "options", "trace"] } else { vec!["get", "post", "put", "delete", "patch"] };
    let resources = ["pets", "users", "orders", "items", "teams", "tags", "accounts", "v2/things"];
    let mut op_taken: Vec<String> = vec![];
    let mut path_taken: Vec<String> = vec![];
    let ids = [
        "listPets", "getPet", "createPet", "deletePet", "updateUser", "users.list", "get-order", "ListTeams", "type",
        "searchV2Things", "fetch_tag", "loop", "HTTPGet", "create2FA",
        // ids that end in the suffixes the generator itself appends to operation names
        "createPetRequest", "getPetRequired", "deletePetResponse", "listPetsRequest",
    ];
    for _ in 0..nops {
        let res = resources[rng.below(resources.len())];
        let with_id = rng.chance(1, 2);
        let mut path = if with_id { format!("/{}/{{id}}", res) } else { format!("/{}", res) };
        let mut wild_path = false;
        if p.wild && with_id && rng.chance(1, 4) {
            // placeholder equal to / prefixed by the previous segment, or in the middle of the path
            path = match rng.below(5) {
                0 => "/user/{id}".replace("id", "user"),
                1 => format!("/{}/{{id}}/details", res),
                2 => format!("/{}/{{item2Id}}", res),
                3 => format!("/{}/{{type}}", res),
                _ => "/user/{user_id}".to_string(),
            };
            wild_path = true;
        }
        if p.hard_names && with_id && !wild_path && rng.chance(1, 6) {
            // kebab-case / dotted placeholder names (the placeholder is whatever stands between the braces)
            path = match rng.below(4) {
                0 => format!("/{}/{{pet-id}}", res),
                1 => format!("/{}/{{user.id}}", res),
                2 => format!("/v1.0/{}.json/{{id}}", res),
                _ => format!("/{}/{{Item-ID}}/history", res),
            };
            wild_path = true;
        }
        if p.hard_names && rng.chance(1, 10) {
            path.push('/');     // Django-style route: the trailing slash is part of the template
        }
        let verb = verbs[rng.below(verbs.len())];
        let key = format!("{} {}", verb, erase_placeholders(&path));
        if path_taken.contains(&key) {
            continue;
        }
        let opid = if p.synth_names && rng.chance(1, 5) {
            None
        } else {
            // wild: operationIds that coincide with methods the client type has anyway (open finding)
            let wild_ids = ["new", "from_env", "fromEnv", "with_auth", "authenticate"];
            let pool: Vec<&str> = if p.wild && rng.chance(1, 12) { wild_ids.to_vec() } else if p.hard_names { ids.to_vec() } else { ids[..8].to_vec() };
            let used_ids: Vec<String> = spec.paths.iter().flat_map(|p| p.ops.iter()).filter_map(|o| o.operation_id.clone()).collect();
            if p.wild && !used_ids.is_empty() && rng.chance(1, 14) {
                // an id that differs from one already used only in case or punctuation (C06 names these; open finding)
                let base = &used_ids[rng.below(used_ids.len())];
                let words: Vec<String> = {
                    use convert_case::{Case, Casing};
                    base.to_case(Case::Snake).split('_').map(|w| w.to_string()).collect()
                };
                let variant = match rng.below(3) {
                    0 => words.join("_"),
                    1 => words.join("-"),
                    _ => words.iter().map(|w| { let mut c = w.chars(); c.next().map(|f| f.to_uppercase().collect::<String>() + c.as_str()).unwrap_or_default() }).collect::<Vec<_>>().join(""),
                };
                if variant != *base && !used_ids.contains(&variant) && norm(&variant) == norm(base) { Some(variant) } else { continue }
            } else {
            let v = pick_distinct(rng, &pool, 1, &mut op_taken);
            if v.is_empty() {
                continue;
            }
            Some(v[0].clone())
            }
        };
        if opid.is_none() {
            // synthesised name must not collide with others: verb+path key is unique already
            let synth = norm(&format!("{}{}", verb, path.replace("{id}", "byid")));
            if op_taken.contains(&synth) && !p.wild {
                continue;
            }
            op_taken.push(synth);
        }
        path_taken.push(key);
        let mut params = vec![];
        let mut scope: Vec<String> = vec![];
        if with_id {
            let pname = if wild_path { path.split('{').nth(1).unwrap().split('}').next().unwrap().to_string() } else { "id".to_string() };
            params.push(Param { name: pname.clone(), loc: Loc::Path, required: true, schema: inl(if rng.chance(1, 2) { s_string() } else { s_int() }) });
            scope.push(norm(&pname));
        }
        let np = rng.below(5);
        let pool: Vec<&str> = if p.hard_names && rng.chance(1, 2) { [HARD_PROPS, KEYWORD_PROPS].concat() } else { EASY_PROPS.to_vec() };
        for nm in pick_distinct(rng, &pool, np, &mut scope) {
            let loc = match rng.below(6) {
                0 => Loc::Header,
                1 => Loc::Cookie,
                _ => Loc::Query,
            };
            let schema = match rng.below(10) {
                0 => inl(s_arr(inl(s_string()))),
                1 => inl(s_arr(inl(s_int()))),
                8 if p.nested_arrays => inl(s_arr(inl(s_arr(inl(s_int()))))),
                9 if p.nested_arrays => inl(s_arr(inl(s_arr(inl(s_string()))))),
                2 if !obj_names.is_empty() => SRef::Ref(obj_names[rng.below(obj_names.len())].clone()),
                _ => inl(prim(rng)),
            };
            params.push(Param { name: nm, loc, required: rng.chance(1, 2), schema });
        }
        // body
        let body = if verb != "get" && verb != "delete" && rng.chance(2, 3) {
            if !obj_names.is_empty() && rng.chance(1, 2) {
                // $ref body: its properties join the operation's input scope
                let cand = obj_names[rng.below(obj_names.len())].clone();
                Some(SRef::Ref(cand))
            } else {
                let mut o = object_schema(rng, p, &all_names);
                // keep body property names distinct from parameter names
                if let Kind::Object { props, required, .. } = &mut o.kind {
                    props.retain(|(k, _)| !scope.contains(&norm(k)));
                    required.retain(|r| props.iter().any(|(k, _)| k == r));
                    if props.is_empty() {
                        props.push(("payload".into(), inl(s_string())));
                    }
                }
                Some(inl(o))
            }
        } else {
            None
        };
        // a $ref body may clash with parameter names: drop clashing parameters
        let mut params = params;
        if let Some(SRef::Ref(n)) = &body {
            let body_names = body_prop_names(&spec, n);
            params.retain(|q| !body_names.contains(&norm(&q.name)) || q.loc == Loc::Path);
            if params.iter().any(|q| body_names.contains(&norm(&q.name))) {
                continue;
            }
        }
        // responses
        // any of the success codes libninja looks for; a redirect-only operation (302) is one of them
        let status = [200u16, 201, 202, 204, 200, 201, 202, 204, 302][rng.below(9)];
        let schema = match rng.below(6) {
            0 => None,
            1 | 2 if !obj_names.is_empty() => Some(SRef::Ref(obj_names[rng.below(obj_names.len())].clone())),
            3 if !obj_names.is_empty() => Some(inl(s_arr(SRef::Ref(obj_names[rng.below(obj_names.len())].clone())))),
            4 => Some(inl(object_schema(rng, p, &all_names))),
            _ => Some(inl(prim(rng))),
        };
        let mut responses = vec![(status, schema)];
        if rng.chance(1, 3) {
            responses.push((404, None));
        }
        if p.hard_names && rng.chance(1, 6) {
            // a second success response, declared before or after the first: the result is the one with the first
            // status in libninja's order 200, 201, 202, 204, 302, whatever the document order
            let other = [200u16, 201, 202, 204, 302][rng.below(5)];
            if other != status {
                let extra = (other, if rng.chance(1, 2) { Some(inl(s_string())) } else { None });
                if rng.chance(1, 2) {
                    responses.insert(0, extra);
                } else {
                    responses.push(extra);
                }
            }
        }
        let summary = doc(rng, p);
        let description = match (&summary, rng.below(4)) {
            (Some(s0), 0) if p.docs => Some(format!("{} and then some more detail.", s0)),
            (Some(s0), 1) if p.docs => Some(s0.clone()),
            _ => doc(rng, p),
        };
        let op = Op {
            method: verb.to_string(),
            operation_id: opid,
            summary,
            description,
            ext_docs: if p.docs && rng.chance(1, 4) { Some("https://example.com/docs".into()) } else { None },
            params,
            body,
            responses,
        };
        let mut op = op;
        if p.wild && wild_path && path.ends_with("/details") && op.operation_id.is_none() && rng.chance(1, 2) {
            let sib = format!("/{}/details", res);
            if !spec.paths.iter().any(|pi| pi.path == sib) {
                spec.paths.push(PathItem {
                    path: sib,
                    params: vec![],
                    ops: vec![Op { method: op.method.clone(), operation_id: None, responses: vec![(200, None)], ..Default::default() }],
                });
            }
        }
        let spec_components_view = Spec { components: spec.components.clone(), ..Default::default() };
        if let Some(pi) = spec.paths.iter_mut().find(|pi| pi.path == path) {
            // inputs already declared on the path item are inherited, not repeated; D: the names of one operation's
            // inputs (inherited ones included) stay distinct after normalisation
            op.params.retain(|q| !pi.params.iter().any(|x| x.name == q.name || norm(&x.name) == norm(&q.name)));
            // a body property may carry EXACTLY the name of an inherited parameter (it shadows it: one input); what D excludes
            // is two different spellings of one normalised name
            let inherited_names: Vec<String> = pi.params.iter().map(|x| x.name.clone()).collect();
            let inherited: Vec<String> = pi.params.iter().map(|x| norm(&x.name)).collect();
            let clash = match &mut op.body {
                Some(SRef::Inl(b)) => {
                    if let Kind::Object { props, required, .. } = &mut b.kind {
                        props.retain(|(k, _)| inherited_names.contains(k) || !inherited.contains(&norm(k)));
                        required.retain(|r| props.iter().any(|(k, _)| k == r));
                        props.is_empty()
                    } else {
                        false
                    }
                }
                Some(SRef::Ref(n)) => body_prop_names(&spec_components_view, n).iter().any(|k| inherited.contains(k)),
                None => false,
            };
            if clash {
                op.body = None;
            }
            pi.ops.push(op);
        } else {
            // sometimes move some parameters to the path item
            let mut item_params = vec![];
            if rng.chance(1, 3) {
                let k = rng.below(op.params.len() + 1);
                item_params = op.params.split_off(op.params.len() - k);
            }
            spec.paths.push(PathItem { path, params: item_params, ops: vec![op] });
        }
    }
    if spec.paths.is_empty() {
        spec.paths.push(PathItem {
            path: "/ping".into(),
            params: vec![],
            ops: vec![Op { method: "get".into(), operation_id: Some("ping".into()), responses: vec![(200, None)], ..Default::default() }],
        });
    }
    // ---- servers
    if p.servers {
        match rng.below(4) {
            0 => {}
            1 | 2 => {
                let urls = ["https://api.example.com/v1", "https://api.example.com/", "https://api.example.com:8443/v1/", "https://{region}.example.com/v2", "http://localhost:3000"];
                spec.servers.push(Server { url: urls[rng.below(urls.len())].into(), description: if rng.chance(1, 2) { Some("Production".into()) } else { None } })
            }
            _ if rng.chance(1, 4) => {
                // two named environments behind one templated URL: still several servers
                spec.servers.push(Server { url: "https://{region}.example.com/v1".into(), description: Some("Production".into()) });
                spec.servers.push(Server { url: "https://{region}.example.com/v1".into(), description: Some("Sandbox".into()) });
            }
            _ => {
                spec.servers.push(Server { url: "https://api.example.com".into(), description: Some("Production server".into()) });
                spec.servers.push(Server { url: "https://sandbox.example.com".into(), description: Some("Sandbox".into()) });
            }
        }
    }
    if p.wild && rng.chance(1, 3) {
        spec.servers.clear();
        match rng.below(5) {
            3 => {
                // several servers of which exactly one carries a recognised keyword
                spec.servers.push(Server { url: "https://api.petstore.example".into(), description: Some("Production".into()) });
                spec.servers.push(Server { url: "https://staging.petstore.example".into(), description: Some("Staging".into()) });
            }
            4 => {
                spec.servers.push(Server { url: "https://local.example".into(), description: None });
                spec.servers.push(Server { url: "https://staging.example".into(), description: Some("Staging".into()) });
                spec.servers.push(Server { url: "https://sandbox.example".into(), description: Some("Sandbox".into()) });
            }
            0 => {
                spec.servers.push(Server { url: "https://a.example.com".into(), description: Some("Main".into()) });
                spec.servers.push(Server { url: "https://b.example.com".into(), description: None });
            }
            1 => {
                spec.servers.push(Server { url: "https://a.example.com".into(), description: Some("production east".into()) });
                spec.servers.push(Server { url: "https://b.example.com".into(), description: Some("production west".into()) });
            }
            _ => {
                spec.servers.push(Server { url: "https://a.example.com/".into(), description: Some("beta".into()) });
                spec.servers.push(Server { url: "https://b.example.com:8443/v2".into(), description: Some("the Sandbox".into()) });
                spec.servers.push(Server { url: "https://{region}.example.com".into(), description: Some("Development".into()) });
            }
        }
    }
    // ---- security
    if p.wild && rng.chance(1, 3) {
        match rng.below(5) {
            4 => {
                // identifiers on which `sanitize` and a plain snake/pascal conversion differ
                spec.schemes.push(("api_key2".into(), Scheme::ApiKey { loc: Loc::Header, name: "X-Api-Key-2".into() }));
                spec.security.push(vec!["api_key2".into()]);
            }
            0 => {
                let nm = ["basicAuth", "BasicAuth", "BASIC_AUTH"][rng.below(3)];
                spec.schemes.push((nm.into(), Scheme::HttpBasic));
                spec.security.push(vec![nm.into()]);
            }
            1 => {
                spec.schemes.push(("session".into(), Scheme::ApiKey { loc: Loc::Cookie, name: "SESSIONID".into() }));
                spec.schemes.push(("api_key2".into(), Scheme::ApiKey { loc: Loc::Header, name: "X-Api-Key-2".into() }));
                spec.security.push(vec![]);
                spec.security.push(vec!["session".into()]);
                spec.security.push(vec!["api_key2".into()]);
            }
            2 => {
                spec.schemes.push((
                    "oauth".into(),
                    Scheme::OAuth2 { auth_url: "https://example.com/authorize".into(), token_url: "https://example.com/token".into(), refresh_url: None, scopes: vec![("read".into(), "Read access".into())] },
                ));
                if rng.chance(1, 2) {
                    // several requirements, the OAuth2 one not the first; names not in alphabetical order
                    spec.schemes.push(("zuluKey".into(), Scheme::ApiKey { loc: Loc::Header, name: "X-Zulu-Key".into() }));
                    spec.security.push(vec!["zuluKey".into()]);
                }
                spec.security.push(vec!["oauth".into()]);
            }
            _ => {
                spec.schemes.push(("bearerInQuery".into(), Scheme::ApiKey { loc: Loc::Query, name: "bearer".into() }));
                spec.security.push(vec!["bearerInQuery".into()]);
            }
        }
    } else if p.security {
        match rng.below(5) {
            0 => {}
            1 => {
                let nm = ["basicAuth", "BasicAuth", "BASIC_AUTH"][rng.below(3)];
                spec.schemes.push((nm.into(), Scheme::HttpBasic));
                spec.security.push(vec![nm.into()]);
            }
            2 => {
                spec.schemes.push(("apiKeyAuth".into(), Scheme::ApiKey { loc: Loc::Header, name: "X-API-Key".into() }));
                spec.security.push(vec!["apiKeyAuth".into()]);
            }
            3 => {
                let nm = ["bearerAuth", "BearerToken", "BEARER"][rng.below(3)];
                spec.schemes.push((nm.into(), Scheme::HttpBearer));
                spec.security.push(vec![nm.into()]);
            }
            _ => {
                spec.schemes.push(("token".into(), Scheme::ApiKey { loc: Loc::Query, name: "api_token".into() }));
                spec.security.push(vec!["token".into()]);
            }
        }
    }
    spec
}

/// normalised property names of a component (through allOf), used to keep operation input scopes distinct
pub fn body_prop_names(spec: &Spec, name: &str) -> Vec<String> {
    let mut out = vec![];
    let mut stack = vec![name.to_string()];
    let mut seen = vec![];
    while let Some(n) = stack.pop() {
        if seen.contains(&n) {
            continue;
        }
        seen.push(n.clone());
        if let Some((_, sc)) = spec.components.iter().find(|(k, _)| *k == n) {
            collect_props(sc, &mut out, &mut stack);
        }
    }
    out
}

fn collect_props(sc: &Schema, out: &mut Vec<String>, stack: &mut Vec<String>) {
    match &sc.kind {
        Kind::Object { props, .. } => {
            for (k, _) in props {
                out.push(norm(k));
            }
        }
        Kind::AllOf(l) => {
            for r in l {
                match r {
                    SRef::Ref(n) => stack.push(n.clone()),
                    SRef::Inl(s) => collect_props(s, out, stack),
                }
            }
        }
        _ => {}
    }
}

pub fn erase_placeholders(path: &str) -> String {
    let mut out = String::new();
    let mut depth = 0;
    for c in path.chars() {
        match c {
            '{' => {
                depth += 1;
                out.push_str("{}");
            }
            '}' => depth -= 1,
            _ if depth == 0 => out.push(c),
            _ => {}
        }
    }
    out
}
