//! HIR level: run the real extractor on generated specs and print the HirSpec in the model's canonical grammar.
use crate::spec::*;
use crate::specgen::*;
use crate::util::*;
use hir::{AuthLocation, AuthStrategy, HirField, HirSpec, Location, Record};
use mir::{DateSerialization, IntegerSerialization, Ty};
use std::io::Write;

fn h(s: &str) -> String {
    format!("#{}", hex(s.as_bytes()))
}
fn po(o: &Option<String>) -> String {
    match o {
        Some(s) => format!("(some {})", h(s)),
        None => "none".into(),
    }
}
fn pb(b: bool) -> &'static str {
    if b {
        "t"
    } else {
        "f"
    }
}
pub fn ty(t: &Ty) -> String {
    match t {
        Ty::String => "string".into(),
        Ty::Integer { ser } => match ser {
            IntegerSerialization::Simple => "(int simple)".into(),
            IntegerSerialization::String => "(int string)".into(),
            IntegerSerialization::NullAsZero => "(int naz)".into(),
        },
        Ty::Float => "float".into(),
        Ty::Boolean => "bool".into(),
        Ty::Array(t) => format!("(array {})", ty(t)),
        Ty::HashMap(t) => format!("(map {})", ty(t)),
        Ty::Model(n) => format!("(model {})", h(n)),
        Ty::Unit => "unit".into(),
        Ty::Date { ser } => match ser {
            DateSerialization::Iso8601 => "(date iso)".into(),
            DateSerialization::Integer => "(date int)".into(),
        },
        Ty::DateTime => "datetime".into(),
        Ty::Currency { .. } => "decimal".into(),
        Ty::Any(_) => "any".into(),
    }
}
fn field(f: &HirField) -> String {
    format!("(f {} {} {} {})", ty(&f.ty), pb(f.optional), pb(f.flatten), po(&f.doc.as_ref().map(|d| d.0.clone())))
}
fn record(r: &Record) -> String {
    match r {
        Record::Struct(s) => format!(
            "(struct {} {} {} ({}))",
            h(&s.name),
            pb(s.nullable),
            po(&s.docs.as_ref().map(|d| d.0.clone())),
            s.fields.iter().map(|(k, f)| format!("({} {})", h(k), field(f))).collect::<Vec<_>>().join(" ")
        ),
        Record::NewType(n) => format!(
            "(newtype {} {} ({}))",
            h(&n.name),
            po(&n.doc.as_ref().map(|d| d.0.clone())),
            n.fields.iter().map(field).collect::<Vec<_>>().join(" ")
        ),
        Record::TypeAlias(n, f) => format!("(alias {} {})", h(n), field(f)),
        Record::Enum(e) => format!(
            "(enum {} {} ({}))",
            h(&e.name),
            po(&e.doc.as_ref().map(|d| d.0.clone())),
            e.variants.iter().map(|v| format!("({} {})", h(&v.value), po(&v.alias))).collect::<Vec<_>>().join(" ")
        ),
    }
}
fn loc(l: &Location) -> &'static str {
    match l {
        Location::Path => "path",
        Location::Body => "body",
        Location::Query => "query",
        Location::Header => "header",
        Location::Cookie => "cookie",
    }
}
fn authloc(l: &AuthLocation) -> String {
    match l {
        AuthLocation::Header { key } => format!("(header {})", h(key)),
        AuthLocation::Basic => "basic".into(),
        AuthLocation::Bearer => "bearer".into(),
        AuthLocation::Token => "token".into(),
        AuthLocation::Query { key } => format!("(query {})", h(key)),
        AuthLocation::Cookie { key } => format!("(cookie {})", h(key)),
    }
}
fn sorted_strs(mut v: Vec<String>) -> Vec<String> {
    v.sort();
    v
}
pub fn hir_str(x: &HirSpec) -> String {
    format!(
        "(hir (schemas {}) (ops {}) (servers {}) (security {}) (docs {}))",
        x.schemas.iter().map(|(k, r)| format!("({} {})", h(k), record(r))).collect::<Vec<_>>().join(" "),
        // sorted: the order of the operation table is not an observation (no property depends on it)
        sorted_strs(x.operations
            .iter()
            .map(|o| format!(
                "(op {} {} {} {} ({}) {})",
                h(&o.name),
                h(&o.method),
                h(&o.path),
                po(&o.doc.as_ref().map(|d| d.0.clone())),
                o.parameters.iter().map(|p| format!("(p {} {} {} {})", h(&p.name), loc(&p.location), ty(&p.ty), pb(p.optional))).collect::<Vec<_>>().join(" "),
                ty(&o.ret)
            ))
            .collect::<Vec<_>>())
            .join(" "),
        x.servers.iter().map(|(k, v)| format!("({} {})", h(k), h(v))).collect::<Vec<_>>().join(" "),
        x.security
            .iter()
            .map(|s| match s {
                AuthStrategy::Token(t) => format!(
                    "(token {} ({}))",
                    h(&t.name),
                    t.fields.iter().map(|f| format!("({} {})", h(&f.name), authloc(&f.location))).collect::<Vec<_>>().join(" ")
                ),
                AuthStrategy::OAuth2(o) => format!(
                    "(oauth2 {} {} {} ({}))",
                    h(&o.auth_url),
                    h(&o.exchange_url),
                    h(&o.refresh_url),
                    o.scopes.iter().map(|(k, v)| format!("({} {})", h(k), h(v))).collect::<Vec<_>>().join(" ")
                ),
                AuthStrategy::NoAuth => "noauth".into(),
            })
            .collect::<Vec<_>>()
            .join(" "),
        po(&x.api_docs_url)
    )
}

pub fn parse_openapi(spec: &Spec) -> openapiv3::OpenAPI {
    let text = spec_json(spec).to_text();
    let v: openapiv3::VersionedOpenAPI = serde_json::from_str(&text).expect("generated spec does not deserialise");
    v.upgrade()
}

pub struct Observed {
    pub u: String,
    pub s: String,
    pub findings: Vec<crate::horacle::Finding>,
}

pub fn observe(spec: &Spec) -> Observed {
    let oa = match catch(|| parse_openapi(spec)) {
        Ok(o) => o,
        Err(k) => return Observed { u: format!("err:parse_{}", k), s: format!("err:parse_{}", k), findings: vec![] },
    };
    let ur = catch_msg(|| libninja::extractor::extract_without_treeshake(&oa));
    let sr = catch_msg(|| libninja::extractor::extract_spec(&oa));
    let show = |r: &Result<anyhow::Result<HirSpec>, (String, String)>| match r {
        Ok(Ok(h)) => format!("ok {}", hir_str(h)),
        Ok(Err(_)) => "err:unresolved".to_string(),
        Err((k, _)) => format!("err:{}", k),
    };
    let mut findings = crate::horacle::judge(
        spec,
        ur.as_ref().ok().and_then(|x| x.as_ref().ok()),
        sr.as_ref().ok().and_then(|x| x.as_ref().ok()),
    );
    if let Err((k, msg)) = &sr {
        findings.push(crate::horacle::Finding { prop: "C01", class: "", msg: format!("extraction panicked ({}): {}", k, msg) });
    }
    Observed { u: show(&ur), s: show(&sr), findings }
}

pub fn cmd_hir(args: &[String]) {
    let seed: u64 = arg_val(args, "--seed").and_then(|s| s.parse().ok()).unwrap_or(1);
    let n: usize = arg_val(args, "--n").and_then(|s| s.parse().ok()).unwrap_or(100);
    let out = arg_val(args, "--out").unwrap();
    let shard: usize = arg_val(args, "--shard").and_then(|s| s.parse().ok()).unwrap_or(0);
    let profile = arg_val(args, "--profile").unwrap_or("rich".into());
    let mut rng = Rng::new(seed.wrapping_mul(7919).wrapping_add(shard as u64));
    let prof = match profile.as_str() {
        "safe" => Profile::safe(),
        "wild" => Profile::wild(),
        "tame" => Profile::tame(),
        _ => Profile::rich(),
    };
    let mut cases = std::io::BufWriter::new(std::fs::File::create(format!("{}/hcases_{}.txt", out, shard)).unwrap());
    let mut imp = std::io::BufWriter::new(std::fs::File::create(format!("{}/himpl_{}.obs", out, shard)).unwrap());
    let mut orc = std::io::BufWriter::new(std::fs::File::create(format!("{}/horacle_{}.txt", out, shard)).unwrap());
    let mut feat = std::io::BufWriter::new(std::fs::File::create(format!("{}/hfeatures_{}.txt", out, shard)).unwrap());
    let mut specs: Vec<(usize, Spec)> = crate::corpus::hir_corpus().into_iter().enumerate().filter(|_| shard == 0).map(|(i, s)| (900000 + i, s)).collect();
    for i in 0..n {
        specs.push((shard * 100000 + i, gen_spec(&mut rng, &prof)));
    }
    for (id, spec) in &specs {
        if crate::util::skip_case(*id) {
            continue;
        }
        writeln!(cases, "{} {}", id, spec_sexp(spec)).unwrap();
        let ob = observe(spec);
        writeln!(imp, "{} U {}", id, ob.u).unwrap();
        writeln!(imp, "{} S {}", id, ob.s).unwrap();
        for fd in &ob.findings {
            writeln!(orc, "{}\t{}\t{}\t{}", id, fd.prop, fd.class, fd.msg.replace('\n', "\\n")).unwrap();
        }
        writeln!(feat, "{}\t{}", id, features(spec).join(",")).unwrap();
    }
}

/// which generator features a spec exercises (measured, for the evidence file)
pub fn features(spec: &Spec) -> Vec<&'static str> {
    let mut v = vec![];
    fn walk(s: &Schema, v: &mut Vec<&'static str>) {
        if s.nullable {
            v.push("nullable");
        }
        if s.descr.is_some() {
            v.push("description");
        }
        match &s.kind {
            Kind::Str { enumeration, format } => {
                if !enumeration.is_empty() {
                    v.push("enum");
                }
                if !format.is_empty() {
                    v.push("string_format");
                }
            }
            Kind::Object { props, addl, .. } => {
                if addl.is_some() {
                    v.push("map");
                }
                for (_, r) in props {
                    wr(r, v);
                }
            }
            Kind::Array { items } => {
                v.push("array");
                if let Some(i) = items {
                    wr(i, v);
                }
            }
            Kind::AllOf(l) => {
                v.push(if l.len() == 1 { "allof1" } else { "allof_n" });
                for r in l {
                    wr(r, v);
                }
            }
            Kind::OneOf(_) | Kind::AnyOf(_) | Kind::Not | Kind::Any => v.push("untyped"),
            _ => {}
        }
    }
    fn wr(r: &SRef, v: &mut Vec<&'static str>) {
        match r {
            SRef::Ref(_) => v.push("ref"),
            SRef::Inl(s) => walk(s, v),
        }
    }
    for (_, s) in &spec.components {
        walk(s, &mut v);
    }
    for pi in &spec.paths {
        if !pi.params.is_empty() {
            v.push("path_item_params");
        }
        for o in &pi.ops {
            if o.operation_id.is_none() {
                v.push("synth_name");
            }
            if o.body.is_some() {
                v.push("body");
            }
            if o.params.iter().filter(|p| p.required).count() > 3 {
                v.push("crowded");
            }
            for p in &o.params {
                wr(&p.schema, &mut v);
            }
            for (_, r) in &o.responses {
                if let Some(SRef::Inl(_)) = r {
                    v.push("inline_response");
                }
            }
            if o.summary.is_some() || o.description.is_some() {
                v.push("op_docs");
            }
        }
    }
    if !spec.security.is_empty() {
        v.push("security");
    }
    match spec.servers.len() {
        0 => {}
        1 => v.push("one_server"),
        _ => v.push("many_servers"),
    }
    v.sort();
    v.dedup();
    v
}
