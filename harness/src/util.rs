//! Shared helpers: PRNG, hex atoms, panic capture, parallel map.
use std::cell::RefCell;
use std::panic::{self, AssertUnwindSafe};

#[derive(Clone)]
pub struct Rng(pub u64);
impl Rng {
    pub fn new(seed: u64) -> Self {
        Rng(seed ^ 0x9E3779B97F4A7C15)
    }
    pub fn next(&mut self) -> u64 {
        self.0 = self.0.wrapping_add(0x9E3779B97F4A7C15);
        let mut z = self.0;
        z = (z ^ (z >> 30)).wrapping_mul(0xBF58476D1CE4E5B9);
        z = (z ^ (z >> 27)).wrapping_mul(0x94D049BB133111EB);
        z ^ (z >> 31)
    }
    pub fn below(&mut self, n: usize) -> usize {
        if n == 0 {
            0
        } else {
            (self.next() % (n as u64)) as usize
        }
    }
    pub fn chance(&mut self, num: u64, den: u64) -> bool {
        self.next() % den < num
    }
    pub fn pick<'a, T>(&mut self, xs: &'a [T]) -> &'a T {
        &xs[self.below(xs.len())]
    }
    pub fn fork(&mut self) -> Rng {
        Rng(self.next())
    }
}

pub fn hex(s: &[u8]) -> String {
    let mut o = String::with_capacity(s.len() * 2);
    for b in s {
        o.push_str(&format!("{:02x}", b));
    }
    o
}
pub fn unhex(s: &str) -> Vec<u8> {
    (0..s.len() / 2)
        .map(|i| u8::from_str_radix(&s[2 * i..2 * i + 2], 16).unwrap())
        .collect()
}

thread_local! {
    static LAST_PANIC: RefCell<Option<(String, String)>> = RefCell::new(None);
}

/// Install a silent panic hook that records (message, file) of the last panic per thread.
pub fn install_hook() {
    panic::set_hook(Box::new(|info| {
        let msg = if let Some(s) = info.payload().downcast_ref::<&str>() {
            s.to_string()
        } else if let Some(s) = info.payload().downcast_ref::<String>() {
            s.clone()
        } else {
            "?".to_string()
        };
        let file = info.location().map(|l| l.file().to_string()).unwrap_or_default();
        LAST_PANIC.with(|p| *p.borrow_mut() = Some((msg, file)));
    }));
}

/// Classify a panic by message prefix and source file (never by line number).
pub fn classify(msg: &str, file: &str) -> &'static str {
    if msg.starts_with("Parentheses in identifier") {
        "paren"
    } else if msg.starts_with("Numeric identifier") {
        "numeric"
    } else if msg.starts_with("Dot in identifier") {
        "dot"
    } else if msg.starts_with("Empty identifier") {
        "empty_ident"
    } else if msg.contains("Option::unwrap()") && msg.contains("None") {
        "unwrap_none"
    } else if msg.starts_with("Failed to parse generated code") {
        "parse"
    } else if msg.starts_with("Schema name must be uppercase") {
        "schema_not_upper"
    } else if msg.starts_with("Model not found") || msg.starts_with("record not found") {
        "model_not_found"
    } else if msg.starts_with("No success response") {
        "no_success"
    } else if msg.starts_with("Expected schema, not reference") {
        "ref_component"
    } else if msg.starts_with("TODO support refs in securitySchemes") {
        "ref_scheme"
    } else if msg.starts_with("not implemented") {
        "ref_property"
    } else if msg.starts_with("Security scheme") {
        "scheme_not_found"
    } else if msg.contains("out of range") || msg.contains("is out of bounds") || msg.contains("byte index") || msg.contains("slice index") {
        "slice"
    } else if msg.contains("is not a valid Ident") || msg.contains("Ident is not allowed to be empty") || msg.contains("Ident cannot be a number") {
        "ident_new"
    } else if msg.starts_with("Failed to parse as syn::Path") || file.ends_with("import.rs") || file.ends_with("file.rs") {
        "parse"
    } else if msg.contains("No schema for parameter") || msg.contains("Err") {
        "unresolved"
    } else {
        "other"
    }
}

pub fn catch<T>(f: impl FnOnce() -> T) -> Result<T, String> {
    LAST_PANIC.with(|p| *p.borrow_mut() = None);
    match panic::catch_unwind(AssertUnwindSafe(f)) {
        Ok(v) => Ok(v),
        Err(_) => {
            let (msg, file) = LAST_PANIC.with(|p| p.borrow_mut().take()).unwrap_or_default();
            Err(classify(&msg, &file).to_string())
        }
    }
}

/// Like `catch` but also returns the raw message for diagnostics.
pub fn catch_msg<T>(f: impl FnOnce() -> T) -> Result<T, (String, String)> {
    LAST_PANIC.with(|p| *p.borrow_mut() = None);
    match panic::catch_unwind(AssertUnwindSafe(f)) {
        Ok(v) => Ok(v),
        Err(_) => {
            let (msg, file) = LAST_PANIC.with(|p| p.borrow_mut().take()).unwrap_or_default();
            Err((classify(&msg, &file).to_string(), format!("{} @ {}", msg, file)))
        }
    }
}

pub fn par_map<T: Sync, U: Send>(items: &[T], f: impl Fn(&T) -> U + Sync) -> Vec<U> {
    let n = std::thread::available_parallelism().map(|n| n.get()).unwrap_or(4).min(16);
    let chunk = (items.len() + n - 1) / n.max(1);
    if chunk == 0 {
        return vec![];
    }
    let f = &f;
    std::thread::scope(|s| {
        let handles: Vec<_> = items
            .chunks(chunk)
            .map(|c| s.spawn(move || c.iter().map(f).collect::<Vec<U>>()))
            .collect();
        handles.into_iter().flat_map(|h| h.join().unwrap()).collect()
    })
}

pub fn arg_val(args: &[String], key: &str) -> Option<String> {
    args.iter().position(|a| a == key).and_then(|i| args.get(i + 1).cloned())
}

/// replay: `LNVERIF_ONLY=<case id>` restricts a run to that one generated case (all cases are still generated, so the
/// pseudo-random stream — and hence the case — is the same as in the run that reported it)
pub fn only_id() -> Option<usize> {
    std::env::var("LNVERIF_ONLY").ok().and_then(|s| s.parse().ok())
}
pub fn skip_case(id: usize) -> bool {
    matches!(only_id(), Some(o) if o != id)
}

/// the model a type mentions, through lists and maps — the oracles' own walk (not `Ty::inner_model`, which is part of what
/// is being judged)
pub fn model_of(t: &mir::Ty) -> Option<&str> {
    match t {
        mir::Ty::Model(n) => Some(n.as_str()),
        mir::Ty::Array(i) | mir::Ty::HashMap(i) => model_of(i),
        _ => None,
    }
}
