//! Direct oracles for the HIR-level properties, written from the property texts (not from the model):
//! they judge the implementation's HirSpec against the abstract spec it was extracted from.
use crate::spec::*;
use hir::{AuthLocation, AuthStrategy, HirSpec, Location, Record, ServerStrategy};
use mir::Ty;
use std::collections::BTreeSet;

#[derive(Clone, Debug, PartialEq)]
pub enum DocTy {
    String,
    I64,
    F64,
    Bool,
    Vec(Box<DocTy>),
    Map(Box<DocTy>),
    Model(String),
    Unit,
    Value,
    NaiveDate,
    DateTime,
    Decimal,
}

pub fn of_ty(t: &Ty) -> DocTy {
    match t {
        Ty::String => DocTy::String,
        Ty::Integer { .. } => DocTy::I64,
        Ty::Float => DocTy::F64,
        Ty::Boolean => DocTy::Bool,
        Ty::Array(i) => DocTy::Vec(Box::new(of_ty(i))),
        Ty::HashMap(i) => DocTy::Map(Box::new(of_ty(i))),
        Ty::Model(n) => DocTy::Model(n.clone()),
        Ty::Unit => DocTy::Unit,
        Ty::Any(_) => DocTy::Value,
        Ty::Date { .. } => DocTy::NaiveDate,
        Ty::DateTime => DocTy::DateTime,
        Ty::Currency { .. } => DocTy::Decimal,
    }
}

fn comp<'a>(spec: &'a Spec, n: &str) -> Option<&'a Schema> {
    spec.components.iter().find(|(k, _)| k == n).map(|(_, s)| s)
}
fn resolve<'a>(spec: &'a Spec, r: &'a SRef) -> Option<&'a Schema> {
    match r {
        SRef::Ref(n) => comp(spec, n),
        SRef::Inl(s) => Some(s),
    }
}

/// "a $ref to a primitive" — strings without enum, numbers, booleans, arrays of those, single-member allOf of those
pub fn prim_like(spec: &Spec, s: &Schema, depth: usize) -> bool {
    if depth == 0 {
        return false;
    }
    match &s.kind {
        Kind::Str { enumeration, .. } => enumeration.is_empty(),
        Kind::Integer | Kind::Number | Kind::Boolean => true,
        Kind::Array { items: Some(i) } => resolve(spec, i).map(|t| prim_like(spec, t, depth - 1)).unwrap_or(false),
        Kind::AllOf(l) if l.len() == 1 => resolve(spec, &l[0]).map(|t| prim_like(spec, t, depth - 1)).unwrap_or(false),
        _ => false,
    }
}

pub fn doc_ty_schema(spec: &Spec, s: &Schema, depth: usize) -> DocTy {
    if depth == 0 {
        return DocTy::Value;
    }
    match &s.kind {
        Kind::Str { format, .. } => match format.as_str() {
            "date" => DocTy::NaiveDate,
            "date-time" => DocTy::DateTime,
            "decimal" => DocTy::Decimal,
            "integer" => DocTy::I64,
            _ => DocTy::String,
        },
        Kind::Integer => {
            if !s.null_as_zero && s.xformat_date {
                DocTy::NaiveDate
            } else {
                DocTy::I64
            }
        }
        Kind::Number => DocTy::F64,
        Kind::Boolean => DocTy::Bool,
        Kind::Array { items: Some(i) } => DocTy::Vec(Box::new(doc_ty(spec, i, depth - 1))),
        Kind::Array { items: None } => DocTy::Vec(Box::new(DocTy::Value)),
        Kind::AllOf(l) if l.len() == 1 => doc_ty(spec, &l[0], depth - 1),
        _ => DocTy::Value,
    }
}

pub fn doc_ty(spec: &Spec, r: &SRef, depth: usize) -> DocTy {
    match r {
        SRef::Ref(n) => match comp(spec, n) {
            Some(t) if prim_like(spec, t, 50) => doc_ty_schema(spec, t, depth),
            _ => DocTy::Model(n.clone()),
        },
        SRef::Inl(s) => doc_ty_schema(spec, s, depth),
    }
}

/// flattened (name, schema ref, required-as-listed) members of a body / object schema, through $ref and allOf
fn flat_props<'a>(spec: &'a Spec, s: &'a Schema, depth: usize, out: &mut Vec<(String, &'a SRef, bool)>) {
    if depth == 0 {
        return;
    }
    match &s.kind {
        Kind::Object { props, required, .. } => {
            for (k, v) in props {
                out.push((k.clone(), v, required.contains(k)));
            }
        }
        Kind::AllOf(l) => {
            for r in l {
                if let Some(t) = resolve(spec, r) {
                    flat_props(spec, t, depth - 1, out);
                }
            }
        }
        _ => {}
    }
}

fn loc_of(l: Loc) -> Location {
    match l {
        Loc::Path => Location::Path,
        Loc::Query => Location::Query,
        Loc::Header => Location::Header,
        Loc::Cookie => Location::Cookie,
    }
}

pub fn norm(s: &str) -> String {
    s.chars().filter(|c| c.is_ascii_alphanumeric()).map(|c| c.to_ascii_lowercase()).collect()
}

pub struct Finding {
    pub prop: &'static str,
    pub class: &'static str,
    pub msg: String,
}

fn f(prop: &'static str, class: &'static str, msg: String) -> Finding {
    Finding { prop, class, msg }
}

/// all (path item, operation) pairs in the order the extractor visits them
pub fn spec_ops(spec: &Spec) -> Vec<(&PathItem, &Op)> {
    let order = ["get", "put", "post", "delete", "options", "head", "patch", "trace"];
    let mut v = vec![];
    for pi in &spec.paths {
        for m in order {
            if let Some(o) = pi.ops.iter().find(|o| o.method == m) {
                v.push((pi, o));
            }
        }
    }
    v
}

pub fn judge(spec: &Spec, u: Option<&HirSpec>, s: Option<&HirSpec>) -> Vec<Finding> {
    let mut out = vec![];
    let (Some(u), Some(s)) = (u, s) else {
        return out;
    };
    let ops = spec_ops(spec);
    // ---------------- C06: one distinct operation per (path, verb)
    if s.operations.len() != ops.len() {
        out.push(f("C06", "", format!("{} operations in the document, {} extracted", ops.len(), s.operations.len())));
    }
    {
        let mut names = BTreeSet::new();
        let mut files = BTreeSet::new();
        let mut structs = BTreeSet::new();
        for o in &s.operations {
            let synth = ops.iter().find(|(pi, so)| pi.path == o.path && so.method == o.method).map(|(_, so)| so.operation_id.is_none()).unwrap_or(false);
            // explicit ids that are equal up to case and punctuation (getUser / get_user / get-User): the quantifier of C06
            // names them; the unchanged code maps them to one name (open finding)
            let my_id = ops.iter().find(|(pi, so)| pi.path == o.path && so.method == o.method).and_then(|(_, so)| so.operation_id.clone());
            let case_only = my_id.as_ref().map(|id| ops.iter().filter(|(_, so)| so.operation_id.as_ref().map(|x| x != id && crate::specgen::norm(x) == crate::specgen::norm(id)).unwrap_or(false)).count() > 0).unwrap_or(false);
            let class = if synth { "synth_name_collision" } else if case_only { "id_case_collision" } else { "" };
            if !names.insert(o.name.clone()) {
                out.push(f("C06", class, format!("two operations share the name {}", o.name)));
            }
            if !files.insert(o.file_name()) {
                out.push(f("C06", class, format!("two operations share the module/file name {}", o.file_name())));
            }
            if !structs.insert(o.request_struct_name()) {
                out.push(f("C06", class, format!("two operations share the request struct {}", o.request_struct_name())));
            }
        }
    }
    // the order of the operation table is not observable by any property: match by (path, verb)
    let mut used = vec![false; s.operations.len()];
    for (pi, so) in ops.iter() {
        let Some(j) = (0..s.operations.len()).find(|&j| !used[j] && s.operations[j].path == pi.path && s.operations[j].method == so.method) else {
            out.push(f("C06", "", format!("the document's operation {} {} has no extracted operation", so.method, pi.path)));
            continue;
        };
        used[j] = true;
        let o = &s.operations[j];
        // ---------------- C05: declared inputs
        let mut declared: Vec<(String, Location, bool)> = vec![];
        for p in &so.params {
            declared.push((p.name.clone(), loc_of(p.loc), p.required));
        }
        for p in &pi.params {
            if !declared.iter().any(|d| d.0 == p.name) {
                declared.push((p.name.clone(), loc_of(p.loc), p.required));
            }
        }
        let mut body_class = "";
        if let Some(b) = &so.body {
            if let Some(bs) = resolve(spec, b) {
                let mut props = vec![];
                flat_props(spec, bs, 20, &mut props);
                if matches!(bs.kind, Kind::Array { .. }) || props.is_empty() {
                    if !declared.iter().any(|d| d.0 == "body") {
                        declared.push(("body".into(), Location::Body, true));
                    }
                } else {
                    if matches!(bs.kind, Kind::AllOf(_)) {
                        body_class = "allof_body_required";
                    }
                    for (k, r, listed) in props {
                        let nullable = resolve(spec, r).map(|t| t.nullable).unwrap_or(false);
                        if !declared.iter().any(|d| d.0 == k) {
                            declared.push((k, Location::Body, listed && !nullable));
                        }
                    }
                }
            }
        }
        let mut got: Vec<(String, Location, bool)> = o.parameters.iter().map(|p| (p.name.clone(), p.location, !p.optional)).collect();
        let key = |x: &(String, Location, bool)| (x.0.clone(), format!("{:?}", x.1), x.2);
        declared.sort_by_key(key);
        got.sort_by_key(key);
        if declared != got {
            let only_required_flip_on_body = declared.len() == got.len()
                && declared.iter().zip(got.iter()).all(|(a, b)| a.0 == b.0 && a.1 == b.1 && (a.2 == b.2 || (a.1 == Location::Body && !a.2 && b.2)));
            let class = if only_required_flip_on_body && body_class == "allof_body_required" { "allof_body_required" } else { "" };
            out.push(f("C05", class, format!("{} {}: declared inputs {:?} but extracted {:?}", so.method, pi.path, declared, got)));
        }
        // ---------------- C03: every input keeps its OpenAPI name at its location (the name is the key it is sent under)
        for (n, l, _) in &got {
            if !declared.iter().any(|d| &d.0 == n && d.1 == *l) {
                out.push(f("C03", "", format!("{} {}: input {:?} is sent in {:?}, where the document declares no parameter or property of that name", so.method, pi.path, n, l)));
            }
        }
        // ---------------- C08: parameter / body-property / result types
        let mut want_ty: Vec<(String, DocTy)> = vec![];
        for p in so.params.iter().chain(pi.params.iter()) {
            if !want_ty.iter().any(|w| w.0 == p.name) {
                want_ty.push((p.name.clone(), doc_ty(spec, &p.schema, 20)));
            }
        }
        if let Some(b) = &so.body {
            if let Some(bs) = resolve(spec, b) {
                let mut props = vec![];
                flat_props(spec, bs, 20, &mut props);
                if let Kind::Array { items } = &bs.kind {
                    let inner = items.as_ref().map(|i| doc_ty(spec, i, 20)).unwrap_or(DocTy::Value);
                    want_ty.push(("body".into(), DocTy::Vec(Box::new(inner))));
                } else if props.is_empty() {
                    want_ty.push(("body".into(), DocTy::Value));
                } else {
                    for (k, r, _) in props {
                        if !want_ty.iter().any(|w| w.0 == k) {
                            want_ty.push((k, doc_ty(spec, r, 20)));
                        }
                    }
                }
            }
        }
        for (n, want) in &want_ty {
            if let Some(p) = o.parameters.iter().find(|p| &p.name == n) {
                if &of_ty(&p.ty) != want {
                    out.push(f("C08", "", format!("{} {}: input {} has type {:?}, documented type is {:?}", so.method, pi.path, n, of_ty(&p.ty), want)));
                }
            }
        }
        let first = [200u16, 201, 202, 204, 302].iter().filter_map(|c| so.responses.iter().find(|r| r.0 == *c)).next();
        if let Some((_, schema)) = first {
            let want = match schema {
                None => DocTy::Unit,
                Some(SRef::Ref(n)) => doc_ty(spec, &SRef::Ref(n.clone()), 20),
                Some(SRef::Inl(rs)) => {
                    if prim_like(spec, rs, 50) || matches!(rs.kind, Kind::Array { .. }) {
                        doc_ty_schema(spec, rs, 20)
                    } else {
                        DocTy::Model(format!("{}Response", o.name))
                    }
                }
            };
            // an inline object response gets an invented model: `<Op>Response`, suffixed when that name is taken
            let invented_ok = match (&want, of_ty(&o.ret), schema) {
                (DocTy::Model(w), DocTy::Model(g), Some(SRef::Inl(_))) => g.starts_with(w.as_str()) && comp(spec, &g).is_none() && s.schemas.contains_key(&g),
                _ => false,
            };
            if of_ty(&o.ret) != want && !invented_ok {
                out.push(f("C08", "", format!("{} {}: result type {:?}, documented {:?}", so.method, pi.path, of_ty(&o.ret), want)));
            }
        }
        // ---------------- C17: method documentation
        let mut pieces: Vec<String> = vec![];
        if let Some(x) = &so.summary {
            if !x.is_empty() {
                pieces.push(x.clone());
            }
        }
        if let Some(d) = &so.description {
            if !d.is_empty() && Some(d) != so.summary.as_ref() {
                pieces.push(d.clone());
            }
        }
        if let Some(uu) = &so.ext_docs {
            pieces.push(format!("See endpoint docs at <{}>.", uu));
        }
        let want_doc = if pieces.is_empty() { None } else { Some(pieces.join("\n\n")) };
        let got_doc = o.doc.as_ref().map(|d| d.0.clone());
        if want_doc.as_ref().map(|x| x.trim().to_string()) != got_doc.as_ref().map(|x| x.trim().to_string()) {
            out.push(f("C17", "", format!("{} {}: method doc is {:?}, expected {:?}", so.method, pi.path, got_doc, want_doc)));
        }
    }
    // ---------------- C08 / C17 / C07 on components (before pruning, so every component is visible)
    for (name, sc) in &spec.components {
        let rec = u.schemas.get(name);
        match (&sc.kind, rec) {
            (Kind::Object { props, addl, .. }, Some(Record::Struct(st))) if !(props.is_empty() && addl.is_some()) => {
                let got: BTreeSet<&String> = st.fields.keys().collect();
                let want: BTreeSet<&String> = props.iter().map(|(k, _)| k).collect();
                if got != want {
                    out.push(f("C07", "component_replaced", format!("component {} has fields {:?} but its schema declares {:?} (replaced by an invented schema?)", name, got, want)));
                    continue;
                }
                let required_list: Vec<String> = match &sc.kind {
                    Kind::Object { required, .. } => required.clone(),
                    _ => vec![],
                };
                for (k, r) in props {
                    let fld = &st.fields[k];
                    // C04: a member may be absent / null exactly when it is nullable or not listed as required
                    let nullable = resolve(spec, r).map(|t| t.nullable).unwrap_or(false);
                    let want_optional = nullable || !required_list.contains(k);
                    if fld.optional != want_optional {
                        out.push(f("C04", "", format!("member {}.{}: nullable={} listed-required={} but optional={} in the generated model", name, k, nullable, required_list.contains(k), fld.optional)));
                    }
                    let want = doc_ty(spec, r, 20);
                    if of_ty(&fld.ty) != want {
                        out.push(f("C08", "", format!("field {}.{} has type {:?}, documented type {:?}", name, k, of_ty(&fld.ty), want)));
                    }
                    let d = resolve(spec, r).and_then(|t| t.descr.clone()).map(|d| d.trim().to_string());
                    if fld.doc.as_ref().map(|x| x.0.trim().to_string()) != d {
                        out.push(f("C17", "", format!("field {}.{} doc is {:?}, property description is {:?}", name, k, fld.doc, d)));
                    }
                }
                if st.docs.as_ref().map(|d| d.0.trim().to_string()) != sc.descr.as_ref().map(|d| d.trim().to_string()) {
                    out.push(f("C17", "", format!("struct {} doc is {:?}, schema description is {:?}", name, st.docs, sc.descr)));
                }
            }
            (Kind::Object { props, addl: Some(a), .. }, Some(Record::TypeAlias(_, fld))) if props.is_empty() => {
                let inner = match a {
                    Addl::Any(_) => DocTy::Value,
                    Addl::Schema(r) => doc_ty(spec, r, 20),
                };
                if of_ty(&fld.ty) != DocTy::Map(Box::new(inner.clone())) {
                    out.push(f("C08", "", format!("map component {} has type {:?}, documented HashMap<String, {:?}>", name, of_ty(&fld.ty), inner)));
                }
                if sc.descr.as_ref().map(|d| !d.trim().is_empty()).unwrap_or(false) {
                    out.push(f("C17", "doc_dropped_non_struct", format!("description of map component {} is dropped", name)));
                }
            }
            (Kind::Str { enumeration, .. }, Some(Record::Enum(e))) if !enumeration.is_empty() => {
                let got: Vec<&String> = e.variants.iter().map(|v| &v.value).collect();
                let want: Vec<&String> = enumeration.iter().collect();
                if got != want {
                    out.push(f("C07", "component_replaced", format!("enum component {} has values {:?}, declared {:?}", name, got, want)));
                }
                if e.doc.as_ref().map(|d| d.0.trim().to_string()) != sc.descr.as_ref().map(|d| d.trim().to_string()) {
                    out.push(f("C17", "", format!("enum {} doc is {:?}, schema description is {:?}", name, e.doc, sc.descr)));
                }
            }
            (Kind::Object { .. }, Some(other)) | (Kind::Str { .. }, Some(other)) if !matches!(other, Record::NewType(_)) || matches!(sc.kind, Kind::Object { .. }) => {
                out.push(f("C07", "component_replaced", format!("component {} is extracted as {:?}", name, other.name())));
            }
            _ => {}
        }
    }
    // ---------------- C07: closure after pruning
    let mut mention = |what: String, t: &Ty, out: &mut Vec<Finding>| {
        if let Some(m) = crate::util::model_of(t) {
            if !s.schemas.contains_key(m) {
                let class = match comp(spec, m) {
                    Some(c) if matches!(&c.kind, Kind::Array { items: Some(SRef::Inl(_)) }) => "array_component_inline_items",
                    _ => "",
                };
                out.push(f("C07", class, format!("{} mentions model {} which is not in the schema table", what, m)));
            }
        }
    };
    for o in &s.operations {
        mention(format!("result of {}", o.name), &o.ret, &mut out);
        for p in &o.parameters {
            mention(format!("input {} of {}", p.name, o.name), &p.ty, &mut out);
        }
    }
    for (k, r) in &s.schemas {
        for fl in r.fields() {
            mention(format!("a field of {}", k), &fl.ty, &mut out);
        }
    }
    // ---------------- C15: server selection
    match (spec.servers.len(), s.server_strategy()) {
        (0, ServerStrategy::BaseUrl) => {}
        (1, ServerStrategy::Single(url)) => {
            if url != spec.servers[0].url {
                out.push(f("C15", "", format!("single server url {:?} became {:?}", spec.servers[0].url, url)));
            }
        }
        (n, ServerStrategy::Env) if n >= 2 => {}
        (n, st) => {
            let class = if n >= 2 { "several_servers_not_env" } else { "" };
            let d = match st {
                ServerStrategy::BaseUrl => "BaseUrl".to_string(),
                ServerStrategy::Single(u) => format!("Single({})", u),
                ServerStrategy::Env => "Env".to_string(),
            };
            out.push(f("C15", class, format!("{} servers declared but the strategy is {}", n, d)));
        }
    }
    // ---------------- C14: where each credential goes
    if s.security.len() != spec.security.len() {
        out.push(f("C14", "", format!("{} security requirements declared, {} strategies extracted", spec.security.len(), s.security.len())));
    }
    for (req, strat) in spec.security.iter().zip(s.security.iter()) {
        match (req.first(), strat) {
            (None, AuthStrategy::NoAuth) => {}
            (Some(n), st) => {
                let scheme = spec.schemes.iter().find(|(k, _)| k == n).map(|(_, v)| v);
                match (scheme, st) {
                    (Some(Scheme::ApiKey { loc, name }), AuthStrategy::Token(t)) => {
                        let ok = t.fields.len() == 1
                            && t.fields[0].name == *name
                            && match (&t.fields[0].location, loc) {
                                (AuthLocation::Header { key }, Loc::Header) => key == name,
                                (AuthLocation::Query { key }, Loc::Query) => key == name,
                                (AuthLocation::Cookie { key }, Loc::Cookie) => key == name,
                                _ => false,
                            };
                        if !ok {
                            out.push(f("C14", "", format!("apiKey scheme {} (in {:?}, name {}) extracted as {:?}", n, loc, name, t.fields)));
                        }
                    }
                    (Some(Scheme::HttpBearer), AuthStrategy::Token(t)) => {
                        if !(t.fields.len() == 1 && matches!(t.fields[0].location, AuthLocation::Bearer)) {
                            out.push(f("C14", "", format!("http bearer scheme {} extracted as {:?}", n, t.fields)));
                        }
                    }
                    (Some(Scheme::HttpBasic), AuthStrategy::Token(t)) => {
                        if !(t.fields.len() == 1 && matches!(t.fields[0].location, AuthLocation::Basic)) {
                            out.push(f("C14", "basic_as_bearer", format!("http basic scheme {} extracted as {:?}", n, t.fields)));
                        }
                    }
                    (Some(Scheme::OAuth2 { auth_url, token_url, .. }), AuthStrategy::OAuth2(o)) => {
                        if &o.auth_url != auth_url || &o.exchange_url != token_url {
                            out.push(f("C14", "", format!("oauth2 scheme {}: urls {:?}/{:?} extracted as {:?}/{:?}", n, auth_url, token_url, o.auth_url, o.exchange_url)));
                        }
                    }
                    (sc, _) => out.push(f("C14", "", format!("scheme {} ({:?}) extracted as a different kind of strategy", n, sc))),
                }
            }
            (None, _) => out.push(f("C14", "", "anonymous requirement extracted as a credential strategy".to_string())),
        }
    }
    out
}
