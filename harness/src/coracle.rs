//! Compile-level expectations (C02/C16), written from the property texts and rustc's rules, not from the generator:
//! which generated files are EXPECTED to be rejected by rustc because of an input shape recorded as an open finding.
//! Everything else must compile; an error in any other file is a violation.
use hir::{HirSpec, Location, Record};
use mir::Ty;

/// does `value.to_string()` / `{}` type-check for a value of this type (Display available)?
pub fn displayable(t: &Ty, h: &HirSpec, depth: usize) -> bool {
    if depth == 0 {
        return false;
    }
    match t {
        Ty::String | Ty::Integer { .. } | Ty::Float | Ty::Boolean | Ty::Date { .. } | Ty::DateTime | Ty::Currency { .. } | Ty::Any(_) => true,
        Ty::Array(_) | Ty::HashMap(_) | Ty::Unit => false,
        Ty::Model(m) => match h.schemas.get(m) {
            // structs and enums come with a generated Display impl; tuple structs do not; an alias is its target
            Some(Record::Struct(_)) | Some(Record::Enum(_)) => true,
            Some(Record::NewType(_)) => false,
            Some(Record::TypeAlias(_, f)) => !f.optional && displayable(&f.ty, h, depth - 1),
            None => false,
        },
    }
}

fn string_depth(t: &Ty) -> usize {
    match t {
        Ty::Array(i) => {
            let d = string_depth(i);
            if d > 0 { d + 1 } else { 0 }
        }
        Ty::String => 1,
        _ => 0,
    }
}

/// (file, finding class, explanation)
pub fn expected_rejections(h: &HirSpec) -> Vec<(String, &'static str, String)> {
    let mut out = vec![];
    // two operations whose names give the same module: `pub mod x;` twice in request/mod.rs, one file for both
    {
        let mut seen: std::collections::BTreeMap<String, &hir::Operation> = Default::default();
        for o in &h.operations {
            if let Some(first) = seen.get(&o.file_name()) {
                out.push(("*".into(), "operation_name_collision", format!("operations {} and {} share the module {}", first.name, o.name, o.file_name())));
            } else {
                seen.insert(o.file_name(), o);
            }
        }
    }
    for o in &h.operations {
        let file = format!("src/request/{}.rs", o.file_name());
        let non_path: Vec<_> = o.parameters.iter().filter(|p| p.location != Location::Path).collect();
        let all_query = non_path.iter().all(|p| p.location == Location::Query);
        for p in &o.parameters {
            // arrays of arrays of strings: the borrowed form `&[&[&str]]` is converted with one level of to_owned()
            if string_depth(&p.ty) >= 3 {
                out.push((file.clone(), "nested_string_array_input", format!("input {} of {} is an array of arrays of strings", p.name, o.name)));
            }
            let receiver: Option<&Ty> = match p.location {
                Location::Body => None,
                Location::Path => Some(&p.ty),
                _ if all_query => None,
                _ => Some(match &p.ty {
                    Ty::Array(i) => i.as_ref(),
                    t => t,
                }),
            };
            if let Some(r) = receiver {
                if !displayable(r, h, 8) {
                    out.push((file.clone(), "input_type_without_display", format!("input {} of {} is rendered with to_string() but its type has no Display", p.name, o.name)));
                }
            }
        }
    }
    // a component whose type name is one the generated code itself uses unqualified: every file that mentions either is suspect
    for name in h.schemas.keys() {
        let ty = mir_rust::ToRustIdent::to_rust_struct(&name.as_str()).0;
        if ["Result", "Option", "Vec", "String", "Box"].contains(&ty.as_str()) {
            out.push(("*".into(), "component_shadows_prelude", format!("component {} is emitted as `{}`, which shadows the standard type of that name", name, ty)));
        }
    }
    // an operation whose method name the client type already has
    for o in &h.operations {
        let m = mir_rust::ToRustIdent::to_rust_ident(&o.name.as_str()).0;
        let taken = match m.as_str() {
            "new" | "from_env" => true,
            "with_auth" | "authenticate" => !h.security.is_empty(),
            _ => false,
        };
        if taken && m == "authenticate" {
            // every request module calls self.client.authenticate(r): the call becomes ambiguous everywhere
            out.push(("*".into(), "operation_named_like_client_method", format!("operation {} becomes method `authenticate`, which every request module calls on the client", o.name)));
        }
        if taken {
            for f in [format!("src/request/{}.rs", o.file_name()), "src/lib.rs".to_string(), format!("examples/{}.rs", o.file_name())] {
                out.push((f, "operation_named_like_client_method", format!("operation {} becomes method `{}`, which the client type defines itself", o.name, m)));
            }
        }
    }
    // a type name that is mentioned but has no model file (the closure finding of C07, seen here as E0412/E0425/E0432)
    for o in &h.operations {
        let file = format!("src/request/{}.rs", o.file_name());
        for t in o.parameters.iter().map(|p| &p.ty).chain(std::iter::once(&o.ret)) {
            if let Some(m) = crate::util::model_of(t) {
                if !h.schemas.contains_key(m) {
                    out.push((file.clone(), "missing_model", format!("{} mentions model {} which has no file", o.name, m)));
                    out.push((format!("examples/{}.rs", o.file_name()), "missing_model", format!("{} mentions model {}", o.name, m)));
                }
            }
        }
    }
    for (name, r) in &h.schemas {
        for f in r.fields() {
            if let Some(m) = crate::util::model_of(&f.ty) {
                if !h.schemas.contains_key(m) {
                    out.push((format!("src/model/{}.rs", mir_rust::sanitize_filename(name)), "missing_model", format!("schema {} mentions model {} which has no file", name, m)));
                }
            }
        }
    }
    out
}
