#![allow(dead_code)]
mod adapters;
mod coracle;
mod corpus;
mod detrun;
mod emitrun;
mod eoracle;
mod execgen;
mod hirobs;
mod horacle;
mod fsrun;
mod names;
mod serdegen;
mod spec;
mod specgen;
mod util;

fn main() {
    util::install_hook();
    let args: Vec<String> = std::env::args().collect();
    let cmd = args.get(1).map(|s| s.as_str()).unwrap_or("");
    match cmd {
        "names-gen" => names::cmd_gen(&args),
        "names-impl" => names::cmd_impl(&args),
        "fs" => fsrun::cmd_fs(&args),
        "hir" => hirobs::cmd_hir(&args),
        "emit" => emitrun::cmd_emit(&args),
        "emit-canon" => emitrun::cmd_emit_canon(&args),
        "emit-crates" => emitrun::cmd_emit_crates(&args),
        "det" => detrun::cmd_det(&args),
        "adapters-gen" => adapters::cmd_gen(&args),
        "adapters-impl" => adapters::cmd_impl(&args),
        "adapters-canon" => adapters::cmd_canon(&args),
        "gen-one" => {
            let _ = std::panic::take_hook(); // default panic output, like the CLI
            fsrun::cmd_gen_one(&args)
        }
        _ => {
            eprintln!("unknown command {cmd}");
            std::process::exit(2);
        }
    }
}
