mod names;
mod util;

fn main() {
    util::install_hook();
    let args: Vec<String> = std::env::args().collect();
    let cmd = args.get(1).map(|s| s.as_str()).unwrap_or("");
    match cmd {
        "names-gen" => names::cmd_gen(&args),
        "names-impl" => names::cmd_impl(&args),
        _ => {
            eprintln!("unknown command {cmd}");
            std::process::exit(2);
        }
    }
}
