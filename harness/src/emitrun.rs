//! Emission level: generate a crate with the real code, canonicalise every file (string literals re-created from
//! their values, then syn + prettyplease), and do the same to the text the Coq model predicts for that file.
use crate::fsrun::{read_tree, run_cli, Ctx};
use crate::spec::*;
use crate::specgen::*;
use crate::util::*;
use proc_macro2::{Group, Literal, TokenStream, TokenTree};
use std::io::{BufRead, Write};

fn canon_tokens(ts: TokenStream) -> TokenStream {
    ts.into_iter()
        .map(|tt| match tt {
            TokenTree::Group(g) => {
                let mut ng = Group::new(g.delimiter(), canon_tokens(g.stream()));
                ng.set_span(g.span());
                TokenTree::Group(ng)
            }
            TokenTree::Literal(l) => {
                let s = l.to_string();
                if s.starts_with('"') || s.starts_with("r\"") || s.starts_with("r#") {
                    match syn::parse_str::<syn::LitStr>(&s) {
                        Ok(ls) => TokenTree::Literal(Literal::string(&ls.value())),
                        Err(_) => TokenTree::Literal(l),
                    }
                } else {
                    TokenTree::Literal(l)
                }
            }
            other => other,
        })
        .collect()
}

/// text -> tokens -> literal canonicalisation -> syn::File -> prettyplease
pub fn canon_file(text: &str) -> Result<String, String> {
    let ts: TokenStream = text.parse().map_err(|e| format!("lex: {:?}", e))?;
    let ts = canon_tokens(ts);
    let f: syn::File = syn::parse2(ts).map_err(|e| format!("parse: {}", e))?;
    Ok(prettyplease::unparse(&f))
}

/// Attributes that cannot affect any of the twenty properties (lint control, hints); removed before comparing sections.
const INERT_ATTRS: &[&str] = &["must_use", "allow", "warn", "inline", "cold"];

fn strip_inert(attrs: &mut Vec<syn::Attribute>) {
    attrs.retain(|a| !INERT_ATTRS.iter().any(|n| a.path().is_ident(n)));
}

struct StripInert;
impl syn::visit_mut::VisitMut for StripInert {
    fn visit_item_struct_mut(&mut self, i: &mut syn::ItemStruct) {
        strip_inert(&mut i.attrs);
        syn::visit_mut::visit_item_struct_mut(self, i);
    }
    fn visit_item_enum_mut(&mut self, i: &mut syn::ItemEnum) {
        strip_inert(&mut i.attrs);
        syn::visit_mut::visit_item_enum_mut(self, i);
    }
    fn visit_item_fn_mut(&mut self, i: &mut syn::ItemFn) {
        strip_inert(&mut i.attrs);
        syn::visit_mut::visit_item_fn_mut(self, i);
    }
    fn visit_item_impl_mut(&mut self, i: &mut syn::ItemImpl) {
        strip_inert(&mut i.attrs);
        syn::visit_mut::visit_item_impl_mut(self, i);
    }
    fn visit_impl_item_fn_mut(&mut self, i: &mut syn::ImplItemFn) {
        strip_inert(&mut i.attrs);
        syn::visit_mut::visit_impl_item_fn_mut(self, i);
    }
    fn visit_field_mut(&mut self, i: &mut syn::Field) {
        strip_inert(&mut i.attrs);
        syn::visit_mut::visit_field_mut(self, i);
    }
}

fn print_items(items: Vec<syn::Item>) -> String {
    prettyplease::unparse(&syn::File { shebang: None, attrs: vec![], items })
}

/// The file cut into sections, one per top-level item, keyed by what the item IS (`struct Pet`, `impl IntoFuture for
/// FluentRequest<'a, GetPetRequest>`, `fn default_http_client`, ...): item order inside a file is not observable by any
/// property, `use` lines and `mod` declarations are compared as sorted sets, inert attributes are dropped. The whole
/// file (exact order, every attribute) is the extra section `*`, which only the compile property looks at.
pub fn canon_sections(text: &str) -> Result<Vec<(String, String)>, String> {
    use quote::ToTokens;
    use syn::visit_mut::VisitMut;
    let ts: TokenStream = text.parse().map_err(|e| format!("lex: {:?}", e))?;
    let ts = canon_tokens(ts);
    let f: syn::File = syn::parse2(ts).map_err(|e| format!("parse: {}", e))?;
    let mut out: Vec<(String, String)> = vec![("*".to_string(), prettyplease::unparse(&f))];
    let mut f = f;
    StripInert.visit_file_mut(&mut f);
    let mut inner = f.attrs.clone();
    inner.retain(|a| !INERT_ATTRS.iter().any(|n| a.path().is_ident(n)));
    if !inner.is_empty() {
        out.push(("attrs".into(), prettyplease::unparse(&syn::File { shebang: None, attrs: inner, items: vec![] })));
    }
    let squash = |t: String| t.split_whitespace().collect::<Vec<_>>().join(" ");
    let mut uses: Vec<String> = vec![];
    let mut mods: Vec<String> = vec![];
    let mut counts: std::collections::BTreeMap<String, usize> = Default::default();
    for it in f.items {
        let key = match &it {
            syn::Item::Use(_) => {
                uses.push(print_items(vec![it.clone()]));
                continue;
            }
            syn::Item::Mod(m) if m.content.is_none() => {
                mods.push(print_items(vec![it.clone()]));
                continue;
            }
            syn::Item::Struct(x) => format!("struct {}", x.ident),
            syn::Item::Enum(x) => format!("enum {}", x.ident),
            syn::Item::Type(x) => format!("type {}", x.ident),
            syn::Item::Fn(x) => format!("fn {}", x.sig.ident),
            syn::Item::Mod(x) => format!("mod {}", x.ident),
            syn::Item::Const(x) => format!("const {}", x.ident),
            syn::Item::Static(x) => format!("static {}", x.ident),
            syn::Item::Trait(x) => format!("trait {}", x.ident),
            syn::Item::Impl(x) => match &x.trait_ {
                Some((_, path, _)) => format!("impl {} for {}", squash(path.to_token_stream().to_string()), squash(x.self_ty.to_token_stream().to_string())),
                None => format!("impl {}", squash(x.self_ty.to_token_stream().to_string())),
            },
            _ => "other".to_string(),
        };
        let n = counts.entry(key.clone()).or_insert(0);
        *n += 1;
        let key = if *n > 1 { format!("{} #{}", key, n) } else { key };
        out.push((key, print_items(vec![it])));
    }
    if !uses.is_empty() {
        uses.sort();
        out.push(("use".into(), uses.concat()));
    }
    if !mods.is_empty() {
        mods.sort();
        out.push(("mod".into(), mods.concat()));
    }
    Ok(out)
}

/// the `F` lines for one file: one per section, path and section joined by `#`
pub fn section_lines(id: &str, path: &str, text: &str) -> Vec<String> {
    match canon_sections(text) {
        Ok(secs) => secs.into_iter().map(|(k, t)| format!("{} F {} {}", id, hex(format!("{}#{}", path, k).as_bytes()), hex(t.as_bytes()))).collect(),
        Err(e) => vec![format!("{} F {} UNPARSEABLE:{}", id, hex(format!("{}#*", path).as_bytes()), hex(e.as_bytes()))],
    }
}

pub struct Cfg {
    pub name: String,
    pub derives: Vec<String>,
    pub examples: bool,
}

pub fn cfg_sexp(c: &Cfg) -> String {
    format!(
        "(cfg #{} ({}) {})",
        hex(c.name.as_bytes()),
        c.derives.iter().map(|d| format!("#{}", hex(d.as_bytes()))).collect::<Vec<_>>().join(" "),
        if c.examples { "t" } else { "f" }
    )
}

const DERIVES: &[&str] = &[
    "PartialEq", "Eq", "Hash", "fake::Dummy", "  PartialEq  ", "a::b::C", "PartialEq", ")", "Foo(", "serde::Serialize)", "\"abc", "ormlite::Model",
    "strum::Display ", "[x", "Foo<T>)", " fake::Dummy",
];
const SERVICE_NAMES: &[&str] = &["Petstore", "PetStore", "pet store", "acme", "My API 2", "OpenWeatherMap", "x"];

/// service names whose package name is a Rust keyword (open finding C01-service-name-keyword): wild profile only
const KEYWORD_SERVICE_NAMES: &[&str] = &["Type", "match", "Async"];

pub fn gen_cfg(rng: &mut Rng, hard: bool, wild: bool) -> Cfg {
    let name = if wild && rng.chance(1, 12) {
        KEYWORD_SERVICE_NAMES[rng.below(KEYWORD_SERVICE_NAMES.len())]
    } else if hard {
        SERVICE_NAMES[rng.below(SERVICE_NAMES.len())]
    } else {
        "Petstore"
    };
    let mut derives = vec![];
    if hard && rng.chance(1, 2) {
        for _ in 0..rng.below(5) {
            derives.push(DERIVES[rng.below(DERIVES.len())].to_string());
        }
    }
    Cfg { name: name.to_string(), derives, examples: rng.chance(2, 3) }
}

fn classify_cli(stderr: &str, signal: Option<i32>) -> String {
    if stderr.contains("LNVERIF-TIMEOUT") {
        return "hang:timeout".into();
    }
    if let Some(s) = signal {
        if stderr.contains("overflowed its stack") {
            return "abort:stack_overflow".into();
        }
        return format!("signal:{}", s);
    }
    // panic message is on the line after "thread 'main' panicked at <file>:<l>:<c>:"
    let mut lines = stderr.lines();
    while let Some(l) = lines.next() {
        if l.contains("panicked at") {
            let file = l.split("panicked at ").nth(1).unwrap_or("").split(':').next().unwrap_or("").to_string();
            let msg = lines.next().unwrap_or("").to_string();
            return format!("panic:{}", classify(&msg, &file));
        }
    }
    "fail:other".into()
}

pub fn gen_cfg_pub(rng: &mut Rng, hard: bool) -> Cfg {
    gen_cfg(rng, hard, false)
}
pub fn cfg_sexp_pub(c: &Cfg) -> String {
    cfg_sexp(c)
}

pub fn cmd_emit(args: &[String]) {
    let seed: u64 = arg_val(args, "--seed").and_then(|s| s.parse().ok()).unwrap_or(1);
    let n: usize = arg_val(args, "--n").and_then(|s| s.parse().ok()).unwrap_or(50);
    let out = arg_val(args, "--out").unwrap();
    let shard: usize = arg_val(args, "--shard").and_then(|s| s.parse().ok()).unwrap_or(0);
    let profile = arg_val(args, "--profile").unwrap_or("rich".into());
    let mut rng = Rng::new(seed.wrapping_mul(104729).wrapping_add(shard as u64));
    let prof = match profile.as_str() {
        "safe" => Profile::safe(),
        "wild" => Profile::wild(),
        "tame" => Profile::tame(),
        _ => Profile::rich(),
    };
    // --prior K: every K-th generated case is generated over the tree that a previous generation of ANOTHER document
    // (a function of seed and case id, same configuration) left in the same directory; the expected tree is unchanged
    let prior_every: usize = arg_val(args, "--prior").and_then(|s| s.parse().ok()).unwrap_or(0);
    let mut ctx = Ctx::new(&format!("emit{}", shard));
    let mut cases = std::io::BufWriter::new(std::fs::File::create(format!("{}/ecases_{}.txt", out, shard)).unwrap());
    let mut imp = std::io::BufWriter::new(std::fs::File::create(format!("{}/eimpl_{}.obs", out, shard)).unwrap());
    let mut orc = std::io::BufWriter::new(std::fs::File::create(format!("{}/eoracle_{}.txt", out, shard)).unwrap());
    let mut feat = std::io::BufWriter::new(std::fs::File::create(format!("{}/efeatures_{}.txt", out, shard)).unwrap());
    let mut specs: Vec<(usize, Spec, Cfg)> = vec![];
    if shard == 0 {
        for (i, s) in crate::corpus::hir_corpus().into_iter().enumerate() {
            specs.push((900000 + i, s, Cfg { name: "Petstore".into(), derives: vec![], examples: true }));
        }
        for (i, s) in crate::corpus::compile_corpus().into_iter().enumerate() {
            specs.push((910000 + i, s, Cfg { name: "Petstore".into(), derives: vec![], examples: true }));
        }
    }
    for i in 0..n {
        let s = gen_spec(&mut rng, &prof);
        let c = gen_cfg(&mut rng, prof.hard_names, prof.wild);
        specs.push((shard * 100000 + i, s, c));
    }
    for (id, spec, cfg) in &specs {
        if skip_case(*id) {
            continue;
        }
        writeln!(cases, "{} {} {}", id, cfg_sexp(cfg), spec_sexp(spec)).unwrap();
        let sp = ctx.spec_file(spec);
        let d = ctx.fresh_dir();
        let mut over_previous = false;
        if prior_every > 0 && *id < 900000 && id % prior_every == 0 {
            let mut prng = Rng::new(seed.wrapping_mul(31).wrapping_add(*id as u64).wrapping_add(77));
            let prior = gen_spec(&mut prng, &Profile::tame());
            let psp = ctx.spec_file(&prior);
            let po = run_cli(&psp, &cfg.name, &d, cfg.examples, &cfg.derives, &[], None);
            let _ = std::fs::remove_file(&psp);
            if po.code == Some(0) {
                over_previous = true;
            } else {
                let _ = std::fs::remove_dir_all(&d);
                std::fs::create_dir_all(&d).unwrap();
            }
        }
        let o = run_cli(&sp, &cfg.name, &d, cfg.examples, &cfg.derives, &[], None);
        if o.code == Some(0) {
            writeln!(imp, "{} R ok", id).unwrap();
            // direct oracles on the real files
            let tree = read_tree(&d);
            if let Ok(oa) = catch(|| crate::hirobs::parse_openapi(spec)) {
                if let Ok(Ok(h)) = catch(|| libninja::extractor::extract_spec(&oa)) {
                    for fd in crate::eoracle::judge_files(spec, cfg, &h, &tree) {
                        let note = if over_previous { " [generated over the tree of a previous generation of another document in the same directory]" } else { "" };
                        writeln!(orc, "{}\t{}\t{}\t{}{}", id, fd.prop, fd.class, fd.msg.replace('\n', "\\n"), note).unwrap();
                    }
                }
            }
            for (p, c) in tree {
                let text = String::from_utf8_lossy(&c).to_string();
                for l in section_lines(&id.to_string(), &p, &text) {
                    writeln!(imp, "{}", l).unwrap();
                }
            }
        } else {
            let k = classify_cli(&o.stderr, o.signal);
            writeln!(imp, "{} R {}", id, k).unwrap();
            writeln!(orc, "{}\tC01\t{}\tgeneration failed: {} | {}", id, k.replace(':', "_"), k, o.stderr.lines().rev().take(3).collect::<Vec<_>>().join(" | ").replace('\t', " ")).unwrap();
        }
        let mut fs = crate::hirobs::features(spec);
        if !cfg.derives.is_empty() {
            fs.push("derives");
        }
        if cfg.examples {
            fs.push("examples");
        }
        if over_previous {
            fs.push("over_previous_generation");
        }
        writeln!(feat, "{}\t{}", id, fs.join(",")).unwrap();
        let _ = std::fs::remove_dir_all(&d);
        let _ = std::fs::remove_file(&sp);
    }
}

/// canonicalise the model's predicted files: lines "<id> F <hexpath> <hexraw>" (other lines are copied)
pub fn cmd_emit_canon(args: &[String]) {
    let inp = arg_val(args, "--in").unwrap();
    let out = arg_val(args, "--out").unwrap();
    let lines: Vec<String> = std::io::BufReader::new(std::fs::File::open(inp).unwrap()).lines().map(|l| l.unwrap()).collect();
    let res = par_map(&lines, |l| {
        let p: Vec<&str> = l.split(' ').collect();
        if p.len() == 4 && p[1] == "F" {
            let raw = String::from_utf8_lossy(&unhex(p[3])).to_string();
            let path = String::from_utf8_lossy(&unhex(p[2])).to_string();
            section_lines(p[0], &path, &raw).join("\n")
        } else {
            l.clone()
        }
    });
    let mut f = std::io::BufWriter::new(std::fs::File::create(out).unwrap());
    for r in &res {
        writeln!(f, "{}", r).unwrap();
    }
}

/// `emit-crates --out <dir> --n N --seed S --shard K --profile P`: generate N crates with the real CLI into
/// <dir>/c<id>/ (src/, examples/) with a Cargo.toml against the stand-in crates, for the compile/execute layer.
pub fn cmd_emit_crates(args: &[String]) {
    let seed: u64 = arg_val(args, "--seed").and_then(|s| s.parse().ok()).unwrap_or(1);
    let n: usize = arg_val(args, "--n").and_then(|s| s.parse().ok()).unwrap_or(8);
    let out = arg_val(args, "--out").unwrap();
    let shard: usize = arg_val(args, "--shard").and_then(|s| s.parse().ok()).unwrap_or(0);
    let profile = arg_val(args, "--profile").unwrap_or("rich".into());
    // --as-emit: the same sequence of (spec, configuration) pairs as `emit` with this seed/shard/profile, so that a case on
    // which the model and the implementation disagree there can be compiled here (--ids a,b,c: only these cases)
    let as_emit = args.iter().any(|a| a == "--as-emit");
    let only_ids: Option<Vec<usize>> = arg_val(args, "--ids").map(|s| s.split(',').filter_map(|x| x.parse().ok()).collect());
    let mut rng = Rng::new(seed.wrapping_mul(if as_emit { 104729 } else { 15485863 }).wrapping_add(shard as u64));
    let prof = match profile.as_str() {
        "safe" => Profile::safe(),
        "wild" => Profile::wild(),
        "tame" => Profile::tame(),
        _ => Profile::rich(),
    };
    let mut ctx = Ctx::new(&format!("crates{}", shard));
    let mut index = std::io::BufWriter::new(std::fs::File::create(format!("{}/index_{}.txt", out, shard)).unwrap());
    let mut known = std::io::BufWriter::new(std::fs::File::create(format!("{}/known_{}.txt", out, shard)).unwrap());
    // --drivers: also write programs that call every eligible client method with sentinel arguments (execution layer)
    let with_drivers = args.iter().any(|a| a == "--drivers");
    let mut drivers = std::io::BufWriter::new(std::fs::File::create(format!("{}/drivers_{}.txt", out, shard)).unwrap());
    let mut expect = std::io::BufWriter::new(std::fs::File::create(format!("{}/expect_{}.txt", out, shard)).unwrap());
    let mut serde_cases = std::io::BufWriter::new(std::fs::File::create(format!("{}/serde_{}.txt", out, shard)).unwrap());
    let mut specs: Vec<(usize, Spec, Cfg)> = vec![];
    if shard == 0 && !as_emit {
        for (i, s) in crate::corpus::compile_corpus().into_iter().enumerate() {
            specs.push((900000 + i, s, Cfg { name: "Petstore".into(), derives: vec![], examples: true }));
        }
    }
    for i in 0..n {
        let s = gen_spec(&mut rng, &prof);
        let mut c = gen_cfg(&mut rng, prof.hard_names, as_emit && prof.wild);
        // derive paths would need their crates; the compile layer keeps to derives available everywhere
        c.derives.retain(|d| ["PartialEq", "  PartialEq  "].contains(&d.as_str()));
        c.derives.truncate(1);
        c.examples = true;
        specs.push((shard * 100000 + i, s, c));
    }
    for (id, spec, cfg) in &specs {
        if skip_case(*id) || only_ids.as_ref().map(|l| !l.contains(id)).unwrap_or(false) {
            continue;
        }
        let sp = ctx.spec_file(spec);
        let d = std::path::PathBuf::from(format!("{}/c{}", out, id));
        let _ = std::fs::remove_dir_all(&d);
        std::fs::create_dir_all(&d).unwrap();
        let o = run_cli(&sp, &cfg.name, &d, true, &cfg.derives, &[], None);
        let pkg = convert_case::Casing::to_case(&crate::eoracle::cfg_name(cfg), convert_case::Case::Snake);
        if o.code == Some(0) {
            let st = "/verif/standins";
            let toml = format!(
                "[package]\nname = \"c{id}\"\nversion = \"0.0.0\"\nedition = \"2021\"\n\n[lib]\nname = \"{pkg}\"\npath = \"src/lib.rs\"\n\n[dependencies]\nhttpclient = {{ path = \"{st}/httpclient\" }}\nhttpclient_oauth2 = {{ path = \"{st}/httpclient_oauth2\" }}\nfutures = {{ path = \"{st}/futures\" }}\nrust_decimal = {{ path = \"{st}/rust_decimal\" }}\nrust_decimal_macros = {{ path = \"{st}/rust_decimal_macros\" }}\nbase64 = {{ path = \"{st}/base64\" }}\nserde = {{ version = \"1\", features = [\"derive\"] }}\nserde_json = \"1\"\nchrono = {{ version = \"0.4.38\", features = [\"serde\"] }}\ntokio = {{ version = \"1.35\", features = [\"full\"] }}\n"
            );
            std::fs::write(d.join("Cargo.toml"), toml).unwrap();
            if let Ok(oa) = catch(|| crate::hirobs::parse_openapi(spec)) {
                if let Ok(Ok(h)) = catch(|| libninja::extractor::extract_spec(&oa)) {
                    for (file, class, msg) in crate::coracle::expected_rejections(&h) {
                        writeln!(known, "{}\t{}\t{}\t{}", id, file, class, msg).unwrap();
                    }
                    if with_drivers {
                        let hx = |s: &str| format!("#{}", hex(s.as_bytes()));
                        for dr in crate::execgen::drivers_for(&h, cfg, &pkg) {
                            let name = format!("lnv_{}_{}", id, &dr.name[4..]);
                            std::fs::write(d.join("examples").join(format!("{}.rs", name)), &dr.source).unwrap();
                            writeln!(drivers, "{}\t{}\tcall\t{}\t{}", id, name, hx(&dr.op), crate::execgen::args_sexp(&dr.args)).unwrap();
                        }
                        // libninja's own examples under crate-unique names, so that they can be run as well
                        let mut ops = serde_json::Map::new();
                        for o in &h.operations {
                            let doc_op = spec.paths.iter().find(|pi| pi.path == o.path).and_then(|pi| pi.ops.iter().find(|x| x.method == o.method));
                            let body = doc_op.and_then(|d| crate::execgen::declared_body_props(spec, d));
                            ops.insert(hx(&o.name), serde_json::json!([o.method, o.path, body]));
                            let src = d.join("examples").join(format!("{}.rs", o.file_name()));
                            if let Ok(text) = std::fs::read_to_string(&src) {
                                let name = format!("lnvx_{}_{}", id, o.file_name());
                                std::fs::write(d.join("examples").join(format!("{}.rs", name)), text).unwrap();
                                writeln!(drivers, "{}\t{}\texample\t{}\t()", id, name, hx(&o.name)).unwrap();
                            }
                        }
                        // C04: instances synthesised from the schemas, pushed through serde on the compiled types
                        let insts = crate::serdegen::instances(spec, &h);
                        if !insts.is_empty() {
                            std::fs::write(d.join("examples").join(format!("lnv_serde_{}.rs", id)), crate::serdegen::driver_source(&h, spec, &pkg)).unwrap();
                            for (k, i) in insts.iter().enumerate() {
                                writeln!(serde_cases, "{}\t{}\t{}\t{}\t{}|{}|{}\t{}", id, k, i.ty, hx(&i.schema), i.kind.replace(['\t', '|'], " "), i.flags.join(","), crate::serdegen::json_sexp(&i.json), i.json).unwrap();
                            }
                        }
                        let mut ex = crate::execgen::crate_expectations(spec, cfg);
                        ex["ops"] = serde_json::Value::Object(ops);
                        writeln!(expect, "{}\t{}", id, ex).unwrap();
                    }
                }
            }
            writeln!(index, "{}\tok\t{}\t{} {}", id, pkg, cfg_sexp(cfg), spec_sexp(spec)).unwrap();
        } else {
            writeln!(index, "{}\t{}\t{}\t{} {}", id, classify_cli(&o.stderr, o.signal), pkg, cfg_sexp(cfg), spec_sexp(spec)).unwrap();
            let _ = std::fs::remove_dir_all(&d);
        }
        let _ = std::fs::remove_file(&sp);
    }
}
