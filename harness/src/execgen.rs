//! Execution layer (C03, C14, C15, C16): driver programs that call the generated client methods with sentinel
//! arguments, for several subsets of the optional inputs, against the recording stand-in for httpclient.
//! The driver source is written from the operation's declared inputs (names through the public identifier helpers, as a
//! user of the generated crate would read them off the docs); what each run SHOULD send is decided elsewhere
//! (Coq: Sem/Request.v run_plan on the same arguments; document-level expectations for server and credentials).
use crate::emitrun::Cfg;
use crate::spec::*;
use hir::{HirSpec, Location, Operation, Parameter};
use mir::Ty;
use mir_rust::ToRustIdent;

#[derive(Clone, Debug)]
pub enum ArgVal {
    Scalar(String),
    List(Vec<String>),
}

pub struct Driver {
    pub name: String,
    pub op: String,
    pub source: String,
    /// by OpenAPI name; None = optional input whose setter is not called
    pub args: Vec<(String, Option<ArgVal>)>,
}

fn simple(t: &Ty) -> bool {
    matches!(t, Ty::String | Ty::Integer { ser: mir::IntegerSerialization::Simple } | Ty::Float | Ty::Boolean)
}
fn eligible(t: &Ty) -> bool {
    match t {
        Ty::Array(i) => simple(i),
        t => simple(t),
    }
}

/// (Rust expression in reference form, Rust expression in owned/setter form, what is sent)
fn sentinel(t: &Ty, i: usize) -> (String, String, ArgVal) {
    let one = |t: &Ty, j: usize| -> (String, String) {
        match t {
            Ty::String => (format!("\"s{}x\"", j), format!("s{}x", j)),
            Ty::Integer { .. } => (format!("{}", 1000 + j), format!("{}", 1000 + j)),
            Ty::Float => (format!("{}.5", 2000 + j), format!("{}.5", 2000 + j)),
            Ty::Boolean => ((j % 2 == 0).to_string(), (j % 2 == 0).to_string()),
            _ => unreachable!(),
        }
    };
    match t {
        Ty::Array(inner) => {
            let (e1, v1) = one(inner, 10 * i + 1);
            let (e2, v2) = one(inner, 10 * i + 2);
            let sent = ArgVal::List(vec![v1, v2]);
            if matches!(**inner, Ty::String) {
                (format!("&[{}, {}]", e1, e2), format!("[{}, {}]", e1, e2), sent)
            } else {
                (format!("vec![{}, {}]", e1, e2), format!("vec![{}, {}]", e1, e2), sent)
            }
        }
        t => {
            let (e, v) = one(t, i);
            (e.clone(), e, ArgVal::Scalar(v))
        }
    }
}

fn subset(k: usize, idx: usize) -> bool {
    match k {
        0 => true,
        1 => false,
        _ => idx % 2 == 0,
    }
}

pub fn drivers_for(h: &HirSpec, cfg: &Cfg, pkg: &str) -> Vec<Driver> {
    let svc = crate::eoracle::cfg_name(cfg);
    let client = format!("{}Client", svc).as_str().to_rust_struct().0;
    let mut out = vec![];
    {
        let mut files = std::collections::BTreeSet::new();
        if !h.operations.iter().all(|o| files.insert(o.file_name())) {
            return out; // two operations share a module (open finding): the crate does not build, nothing to execute
        }
    }
    for (oi, o) in h.operations.iter().enumerate() {
        if !o.parameters.iter().all(|p| eligible(&p.ty)) {
            continue;
        }
        // path parameters must be scalars (they are formatted into the URL)
        if o.parameters.iter().any(|p| p.location == Location::Path && (p.optional || !simple(&p.ty))) {
            continue;
        }
        let n_opt = o.parameters.iter().filter(|p| p.optional).count();
        let ks: Vec<usize> = if n_opt == 0 { vec![0] } else if n_opt == 1 { vec![0, 1] } else { vec![0, 1, 2] };
        for k in ks {
            out.push(driver(o, oi, k, pkg, &client));
        }
    }
    out
}

fn driver(o: &Operation, oi: usize, k: usize, pkg: &str, client: &str) -> Driver {
    let method = o.name.to_rust_ident().0;
    let mut args: Vec<(String, Option<ArgVal>)> = vec![];
    let mut required: Vec<(&Parameter, String)> = vec![];
    let mut setters = String::new();
    let mut opt_idx = 0;
    for (i, p) in o.parameters.iter().enumerate() {
        let (ref_e, own_e, sent) = sentinel(&p.ty, i + 1);
        if p.optional {
            if subset(k, opt_idx) {
                setters.push_str(&format!(".{}({})", p.name.to_rust_ident().0, own_e));
                args.push((p.name.clone(), Some(sent)));
            } else {
                args.push((p.name.clone(), None));
            }
            opt_idx += 1;
        } else {
            required.push((p, ref_e));
            args.push((p.name.clone(), Some(sent)));
        }
    }
    let crowded = required.len() > 3;
    let mut uses = format!("use {}::{};\n", pkg, client);
    let call_args = if crowded {
        let sname = o.required_struct_name().as_str().to_rust_struct().0;
        uses.push_str(&format!("use {}::request::{}::{};\n", pkg, o.file_name(), sname));
        format!(
            "{} {{ {} }}",
            sname,
            required.iter().map(|(p, e)| format!("{}: {}", p.name.to_rust_ident().0, e)).collect::<Vec<_>>().join(", ")
        )
    } else {
        required.iter().map(|(_, e)| e.clone()).collect::<Vec<_>>().join(", ")
    };
    let source = format!(
        "#![allow(unused_imports)]\n{}#[tokio::main]\nasync fn main() {{\n    let client = {}::from_env();\n    let _ = client.{}({}){}.await;\n}}\n",
        uses, client, method, call_args, setters
    );
    Driver { name: format!("lnv_{}_{}", oi, k), op: o.name.clone(), source, args }
}

pub fn args_sexp(args: &[(String, Option<ArgVal>)]) -> String {
    let h = |s: &str| format!("#{}", crate::util::hex(s.as_bytes()));
    let items: Vec<String> = args
        .iter()
        .map(|(n, v)| match v {
            None => format!("({} none)", h(n)),
            Some(ArgVal::Scalar(s)) => format!("({} (s {}))", h(n), h(s)),
            Some(ArgVal::List(l)) => format!("({} (l {}))", h(n), l.iter().map(|x| h(x)).collect::<Vec<_>>().join(" ")),
        })
        .collect();
    format!("({})", items.join(" "))
}

/// document-level expectations for one crate: base URL source (C15) and where the first declared security requirement
/// puts its credential (C14), as JSON for the python side
pub fn crate_expectations(spec: &Spec, cfg: &Cfg) -> serde_json::Value {
    use convert_case::{Case, Casing};
    let svc = crate::eoracle::cfg_name(cfg);
    let env = |name: &str| format!("{} {}", svc, name).to_case(Case::ScreamingSnake);
    let server = match spec.servers.len() {
        0 => serde_json::json!({"env": env("base url")}),
        1 => serde_json::json!({"url": spec.servers[0].url}),
        _ => serde_json::json!({"env": env("env")}),
    };
    // the first security requirement; libninja's reading of it: its first scheme, the credential named after the apiKey's
    // own name (header / query / cookie key) or, for http schemes, after the scheme
    let mut creds = vec![];
    let mut auth_kind = "none".to_string();
    if let Some(first) = spec.security.first() {
        if first.is_empty() {
            auth_kind = "anonymous".into();
        }
        if let Some(sname) = first.first() {
            if let Some((_, sch)) = spec.schemes.iter().find(|(n, _)| n == sname) {
                auth_kind = "token".into();
                match sch {
                    Scheme::ApiKey { loc, name: key } => {
                        let place = match loc {
                            Loc::Header => "header",
                            Loc::Query => "query",
                            Loc::Cookie => "cookie",
                            _ => "?",
                        };
                        creds.push(serde_json::json!({"scheme": sname, "place": place, "key": key, "env": env(key)}));
                    }
                    Scheme::HttpBearer => creds.push(serde_json::json!({"scheme": sname, "place": "bearer", "env": env(sname)})),
                    Scheme::HttpBasic => creds.push(serde_json::json!({"scheme": sname, "place": "basic", "env": env(sname)})),
                    Scheme::OAuth2 { .. } => {
                        auth_kind = "oauth2".into();
                    }
                }
            }
        }
    }
    serde_json::json!({"server": server, "auth": auth_kind, "credentials": creds, "n_servers": spec.servers.len()})
}

/// the property names the document declares for an operation's JSON body (None: the body is not an object with
/// properties — an array, a free-form object, no body)
pub fn declared_body_props(spec: &Spec, op: &Op) -> Option<Vec<String>> {
    fn walk(spec: &Spec, r: &SRef, depth: usize, out: &mut Vec<String>) -> bool {
        if depth == 0 {
            return false;
        }
        let s = match r {
            SRef::Ref(n) => match spec.components.iter().find(|(k, _)| k == n) {
                Some((_, s)) => s,
                None => return false,
            },
            SRef::Inl(s) => s,
        };
        match &s.kind {
            Kind::Object { props, .. } if !props.is_empty() => {
                out.extend(props.iter().map(|(k, _)| k.clone()));
                true
            }
            Kind::AllOf(l) => {
                let mut any = false;
                for m in l {
                    any |= walk(spec, m, depth - 1, out);
                }
                any
            }
            _ => false,
        }
    }
    let mut out = vec![];
    match &op.body {
        Some(r) if walk(spec, r, 8, &mut out) => Some(out),
        _ => None,
    }
}
