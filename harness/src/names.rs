//! C13 name level: generators, implementation observations, direct oracle.
use crate::util::*;
use mir_rust::{is_restricted, sanitize_filename, ToRustIdent};
use std::collections::BTreeSet;
use std::io::{BufRead, Write};

pub const SEPS: &[u8] = b"_.- /:@'+";

pub fn alphabet_full() -> Vec<u8> {
    let mut v: Vec<u8> = Vec::new();
    v.extend(b'a'..=b'z');
    v.extend(b'A'..=b'Z');
    v.extend(b'0'..=b'9');
    v.extend_from_slice(SEPS);
    v
}

pub const KEYWORDS: &[&str] = &[
    "as", "break", "const", "continue", "crate", "else", "enum", "extern", "false", "fn", "for", "if", "impl", "in",
    "let", "loop", "match", "mod", "move", "mut", "pub", "ref", "return", "self", "Self", "static", "struct", "super",
    "trait", "true", "type", "unsafe", "use", "where", "while", "async", "await", "dyn", "abstract", "become", "box",
    "do", "final", "macro", "override", "priv", "typeof", "unsized", "virtual", "yield", "try", "gen",
    // weak keywords
    "union", "macro_rules", "raw", "safe", "static", "default", "auto",
];

const DICT: &[&str] = &[
    "id", "name", "user", "userId", "user_id", "UserID", "HTTPRequest", "createdAt", "created-at", "page size",
    "X-Api-Key", "item2Id", "v2", "2fa", "3DSecure", "oauth2", "address.line1", "SdAddress.contractor1099", "a.b.c",
    "foo/bar", "foo:bar", "@type", "it's", "+1", "-1", "C++", "is_1099", "iso8601", "IPv4Address", "eTag", "ABC", "aB",
    "Ab", "A1b", "a1B", "1a", "1A", "A", "z", "0", "x_1", "x__1", "a_1_2", "ab_12_c", "type_", "_type", "self", "Self",
    "SELF", "selfStruct", "crate", "super", "Type", "Use", "Match", "final", "Final", "r#type", "a b", "a  b",
];

fn has_alnum(s: &[u8]) -> bool {
    s.iter().any(|c| c.is_ascii_alphanumeric())
}

fn enum_upto(alpha: &[u8], maxlen: usize, out: &mut Vec<Vec<u8>>) {
    let mut cur: Vec<Vec<u8>> = vec![vec![]];
    for _ in 0..maxlen {
        let mut next = Vec::with_capacity(cur.len() * alpha.len());
        for p in &cur {
            for &c in alpha {
                let mut q = p.clone();
                q.push(c);
                next.push(q);
            }
        }
        for s in &next {
            if has_alnum(s) {
                out.push(s.clone());
            }
        }
        cur = next;
    }
}

fn casings(w: &str) -> Vec<String> {
    let lower = w.to_lowercase();
    let upper = w.to_uppercase();
    let mut pascal = lower.clone();
    if let Some(f) = pascal.get_mut(0..1) {
        f.make_ascii_uppercase();
    }
    vec![w.to_string(), lower, pascal, upper]
}

fn harvest_yaml(v: &serde_yaml::Value, out: &mut BTreeSet<Vec<u8>>) {
    match v {
        serde_yaml::Value::Mapping(m) => {
            for (k, v) in m {
                if let Some(s) = k.as_str() {
                    out.insert(s.as_bytes().to_vec());
                }
                harvest_yaml(v, out);
            }
        }
        serde_yaml::Value::Sequence(s) => {
            for v in s {
                harvest_yaml(v, out);
            }
        }
        serde_yaml::Value::String(s) => {
            if s.len() <= 48 {
                out.insert(s.as_bytes().to_vec());
            }
        }
        _ => {}
    }
}

fn in_dom(s: &[u8]) -> bool {
    !s.is_empty() && has_alnum(s) && s.iter().all(|c| c.is_ascii_alphanumeric() || SEPS.contains(c))
}

/// part: (index, count) shard of the length-4 sweep in the thorough tier
pub fn gen(tier: &str, seed: u64, shard: Option<(usize, usize)>) -> Vec<Vec<u8>> {
    let mut set: BTreeSet<Vec<u8>> = BTreeSet::new();
    let mut out: Vec<Vec<u8>> = Vec::new();
    // 1. keywords x casings x prefix/suffix
    for k in KEYWORDS {
        for c in casings(k) {
            set.insert(c.as_bytes().to_vec());
            for &s in SEPS.iter().chain(b"019aZ".iter()) {
                let mut a = vec![s];
                a.extend_from_slice(c.as_bytes());
                set.insert(a);
                let mut b = c.as_bytes().to_vec();
                b.push(s);
                set.insert(b);
            }
        }
    }
    // 2. dictionary, with separators/digits prefixed and suffixed
    for w in DICT {
        set.insert(w.as_bytes().to_vec());
        for &s in SEPS.iter().chain(b"0123456789".iter()) {
            let mut a = vec![s];
            a.extend_from_slice(w.as_bytes());
            set.insert(a);
            let mut b = w.as_bytes().to_vec();
            b.push(s);
            set.insert(b);
        }
    }
    // 3. harvested from bundled specs
    for dir in ["/repo/test_specs", "/repo/libninja/tests", "/repo/libninja/src/extractor/test_spec"] {
        let mut stack = vec![std::path::PathBuf::from(dir)];
        while let Some(p) = stack.pop() {
            if p.is_dir() {
                if let Ok(rd) = std::fs::read_dir(&p) {
                    for e in rd.flatten() {
                        stack.push(e.path());
                    }
                }
            } else if p.extension().map(|e| e == "yaml" || e == "yml").unwrap_or(false) {
                if let Ok(txt) = std::fs::read_to_string(&p) {
                    if let Ok(v) = serde_yaml::from_str::<serde_yaml::Value>(&txt) {
                        harvest_yaml(&v, &mut set);
                    }
                }
            }
        }
    }
    // 4. random longer names from one PRNG stream
    let mut rng = Rng::new(seed);
    let alpha = alphabet_full();
    let pieces: Vec<&[u8]> = vec![b"type", b"Self", b"in", b"HTTP", b"Id", b"v2", b"2", b"_", b".", b"-", b" ", b"/", b":", b"x", b"A"];
    for _ in 0..20000 {
        let n = 1 + rng.below(5);
        let mut s = Vec::new();
        for _ in 0..n {
            if rng.chance(1, 2) {
                let p: &[u8] = pieces[rng.below(pieces.len())]; s.extend_from_slice(p);
            } else {
                s.push(*rng.pick(&alpha));
            }
        }
        set.insert(s);
    }
    out.extend(set.into_iter().filter(|s| in_dom(s)));
    // 5. exhaustive sweeps
    match shard {
        None => {
            enum_upto(&alpha, 3, &mut out);
            if tier == "thorough" {
                // representative-alphabet sweep to length 5
                let rep: Vec<u8> = b"azAZ09".iter().chain(SEPS.iter()).cloned().collect();
                enum_upto(&rep, 5, &mut out);
            }
        }
        Some((i, n)) => {
            // length-4 over the full alphabet, sharded by first two characters
            out.clear();
            let mut idx = 0usize;
            for &a in &alpha {
                for &b in &alpha {
                    if idx % n == i {
                        for &c in &alpha {
                            for &d in &alpha {
                                let s = vec![a, b, c, d];
                                if has_alnum(&s) {
                                    out.push(s);
                                }
                            }
                        }
                    }
                    idx += 1;
                }
            }
        }
    }
    out
}

fn obs_one(s: &[u8]) -> String {
    let name = String::from_utf8_lossy(s).to_string();
    let f = catch(|| name.as_str().to_rust_ident().0);
    let t = catch(|| name.as_str().to_rust_struct().0);
    let m = catch(|| sanitize_filename(&name));
    let r = is_restricted(&name);
    // operation module name: hir::Operation::file_name of the operation name extraction gives this id
    let o = catch(|| {
        use convert_case::{Case, Casing};
        let op = hir::Operation { name: name.replace('.', "_").to_case(Case::Pascal), ..Default::default() };
        op.file_name()
    });
    let show = |r: &Result<String, String>| match r {
        Ok(s) => format!("ok:{}", hex(s.as_bytes())),
        Err(k) => format!("err:{}", k),
    };
    let judge = |r: &Result<String, String>| match r {
        Ok(o) => {
            let syn_ok = syn::parse_str::<syn::Ident>(o).is_ok();
            let pm_ok = catch(|| proc_macro2::Ident::new(o, proc_macro2::Span::call_site())).is_ok();
            syn_ok && pm_ok
        }
        Err(_) => false,
    };
    // sanitize_filename must coincide with the field form (it is the module name of the schema)
    let mfield = if m == f { String::new() } else { format!(" M={}", show(&m)) };
    format!(
        "{} F={} T={} O={} R={} OKF={} OKT={} OKO={}{}",
        hex(s),
        show(&f),
        show(&t),
        show(&o),
        if r { 1 } else { 0 },
        if judge(&f) { 1 } else { 0 },
        if judge(&t) { 1 } else { 0 },
        if judge(&o) { 1 } else { 0 },
        mfield
    )
}

pub fn cmd_gen(args: &[String]) {
    let tier = arg_val(args, "--tier").unwrap_or("quick".into());
    let seed: u64 = arg_val(args, "--seed").and_then(|s| s.parse().ok()).unwrap_or(1);
    let shard = arg_val(args, "--shard").map(|s| {
        let (a, b) = s.split_once('/').unwrap();
        (a.parse().unwrap(), b.parse().unwrap())
    });
    let out = arg_val(args, "--out").unwrap();
    let cases = gen(&tier, seed, shard);
    let mut f = std::io::BufWriter::new(std::fs::File::create(out).unwrap());
    for c in &cases {
        writeln!(f, "{}", hex(c)).unwrap();
    }
}

pub fn cmd_impl(args: &[String]) {
    let inp = arg_val(args, "--in").unwrap();
    let out = arg_val(args, "--out").unwrap();
    let cases: Vec<Vec<u8>> = std::io::BufReader::new(std::fs::File::open(inp).unwrap())
        .lines()
        .map(|l| unhex(l.unwrap().trim()))
        .collect();
    let obs = par_map(&cases, |c| {
        // determinism: same input, same output, twice
        let a = obs_one(c);
        let b = obs_one(c);
        if a != b {
            format!("{} NONDET", a)
        } else {
            a
        }
    });
    // "a deterministic function of the name alone": the same names once more, in the opposite order and on fresh threads
    // (so that nothing remembered from the first pass is there); a name whose forms depend on what was sanitised before
    // it differs between the passes
    let idx: Vec<usize> = (0..cases.len()).collect();
    let chunks: Vec<Vec<usize>> = idx.chunks(512).map(|c| c.iter().rev().cloned().collect()).collect();
    let second: Vec<Vec<(usize, String)>> = par_map(&chunks, |ch| {
        let ch = ch.clone();
        let cs: Vec<Vec<u8>> = ch.iter().map(|&i| cases[i].clone()).collect();
        std::thread::spawn(move || ch.into_iter().zip(cs.iter().map(|c| obs_one(c))).collect::<Vec<_>>()).join().unwrap_or_default()
    });
    let mut obs = obs;
    for (i, o2) in second.into_iter().flatten() {
        if obs[i] != o2 && !obs[i].ends_with(" NONDET") {
            obs[i] = format!("{} NONDET", obs[i]);
        }
    }
    let mut f = std::io::BufWriter::new(std::fs::File::create(out).unwrap());
    for o in &obs {
        writeln!(f, "{}", o).unwrap();
    }
}
