(* NormP.v — every name-mangling step preserves the case-folded alphanumeric skeleton of a name,
   so names that differ in that skeleton stay different (C06). *)
From LN Require Import Model.Extractor Proofs.CharsP Proofs.CaseP Proofs.NamesP.
Local Open Scope nat_scope.

Definition norm (s : str) : str := map to_lower (filter is_alnum s).

Lemma lower_upper c : to_lower (to_upper c) = to_lower c.  Proof. case_ascii c. Qed.
Lemma lower_lower c : to_lower (to_lower c) = to_lower c.  Proof. case_ascii c. Qed.
Lemma alnum_upper c : is_alnum (to_upper c) = is_alnum c.  Proof. case_ascii c. Qed.
Lemma alnum_lower c : is_alnum (to_lower c) = is_alnum c.  Proof. case_ascii c. Qed.
Lemma us_not_alnum : is_alnum "_"%char = false.  Proof. reflexivity. Qed.

Lemma norm_app a b : norm (a ++ b) = norm a ++ norm b.
Proof. unfold norm. rewrite filter_app, map_app. reflexivity. Qed.

Lemma norm_concat l : norm (concat l) = concat (map norm l).
Proof. induction l; cbn [concat map]; [reflexivity|]. rewrite norm_app, IHl. reflexivity. Qed.

Lemma norm_lower_s w : norm (lower_s w) = norm w.
Proof.
  unfold norm, lower_s. induction w as [|c w IH]; cbn; [reflexivity|].
  rewrite alnum_lower. destruct (is_alnum c); cbn; rewrite ?lower_lower, IH; reflexivity.
Qed.

Lemma norm_upper_s w : norm (upper_s w) = norm w.
Proof.
  unfold norm, upper_s. induction w as [|c w IH]; cbn; [reflexivity|].
  rewrite alnum_upper. destruct (is_alnum c); cbn; rewrite ?lower_upper, IH; reflexivity.
Qed.

Lemma norm_capital w : norm (capital w) = norm w.
Proof.
  destruct w as [|c t]; [reflexivity|]. cbn [capital].
  change (to_upper c :: lower_s t) with ([to_upper c] ++ lower_s t). change (c :: t) with ([c] ++ t).
  rewrite !norm_app, norm_lower_s. f_equal. unfold norm. cbn. rewrite alnum_upper.
  destruct (is_alnum c); cbn; rewrite ?lower_upper; reflexivity.
Qed.

Lemma norm_filter_nd s : norm (filter nd s) = norm s.
Proof.
  unfold norm. f_equal. induction s as [|c s IH]; cbn; [reflexivity|].
  destruct (nd c) eqn:En; cbn; rewrite IH; [reflexivity|].
  destruct (is_alnum c) eqn:Ea; [|reflexivity]. rewrite (alnum_nd c Ea) in En. discriminate.
Qed.

Lemma norm_words s : concat (map norm (split_words s)) = norm s.
Proof. rewrite <- norm_concat, split_words_concat. apply norm_filter_nd. Qed.

Theorem norm_pascal s : norm (pascal s) = norm s.
Proof.
  unfold pascal. rewrite norm_concat, map_map. rewrite <- (norm_words s). f_equal.
  apply map_ext. intros w. apply norm_capital.
Qed.

Lemma norm_join_us (l : list str) : norm (join (lit "_") l) = concat (map norm l).
Proof.
  induction l as [|x l IH]; [reflexivity|]. destruct l as [|y l'].
  - cbn. rewrite app_nil_r. reflexivity.
  - change (join (lit "_") (x :: y :: l')) with (x ++ lit "_" ++ join (lit "_") (y :: l')).
    rewrite !norm_app, IH. reflexivity.
Qed.

Theorem norm_snake s : norm (snake s) = norm s.
Proof.
  unfold snake. rewrite norm_join_us, map_map. rewrite <- (norm_words s). f_equal.
  apply map_ext. intros w. apply norm_lower_s.
Qed.

Theorem norm_screaming_snake s : norm (screaming_snake s) = norm s.
Proof.
  unfold screaming_snake. rewrite norm_join_us, map_map. rewrite <- (norm_words s). f_equal.
  apply map_ext. intros w. apply norm_upper_s.
Qed.

Lemma norm_replace_dot s : norm (replace_char "."%char (lit "_") s) = norm s.
Proof.
  induction s as [|c s IH]; [reflexivity|]. cbn [replace_char].
  rewrite norm_app, IH. change (c :: s) with ([c] ++ s). rewrite (norm_app [c] s). f_equal.
  destruct (ceqb c "."%char) eqn:E; [|reflexivity]. apply ceqb_eq in E. subst c. reflexivity.
Qed.

Lemma norm_us_suffix s : norm (s ++ lit "_") = norm s.
Proof. rewrite norm_app. cbn. apply app_nil_r. Qed.
Lemma norm_us_prefix s : norm ("_"%char :: s) = norm s.
Proof. reflexivity. Qed.

(* operation name, module/file name of an operation that has an operationId *)
Theorem norm_op_name id : norm (op_name_of_id id) = norm id.
Proof. unfold op_name_of_id. rewrite norm_pascal. apply norm_replace_dot. Qed.

Lemma norm_digit_prefix s2 n : norm s2 = norm n ->
  norm (match s2 with c :: _ => if is_digit c then "_"%char :: s2 else s2 | [] => s2 end) = norm n.
Proof.
  intros H. destruct s2 as [|c t]; [exact H|]. destruct (is_digit c); [rewrite norm_us_prefix|]; exact H.
Qed.

Theorem norm_op_file_name n : norm (op_file_name n) = norm n.
Proof.
  change (op_file_name n) with
    (match (if is_restricted (snake n) then snake n ++ lit "_" else snake n) with
     | c :: _ => if is_digit c then "_"%char :: (if is_restricted (snake n) then snake n ++ lit "_" else snake n)
                 else (if is_restricted (snake n) then snake n ++ lit "_" else snake n)
     | [] => (if is_restricted (snake n) then snake n ++ lit "_" else snake n)
     end).
  apply norm_digit_prefix.
  destruct (is_restricted (snake n)); [rewrite norm_us_suffix|]; apply norm_snake.
Qed.

(* distinct skeletons give distinct operation names, module names and request-struct names *)
Theorem op_names_distinct id1 id2 : norm id1 <> norm id2 ->
  op_name_of_id id1 <> op_name_of_id id2 /\
  op_file_name (op_name_of_id id1) <> op_file_name (op_name_of_id id2) /\
  request_struct_name (op_name_of_id id1) <> request_struct_name (op_name_of_id id2).
Proof.
  intros Hn. repeat split; intros E; apply Hn.
  - rewrite <- (norm_op_name id1), <- (norm_op_name id2), E. reflexivity.
  - rewrite <- (norm_op_name id1), <- (norm_op_name id2).
    rewrite <- (norm_op_file_name (op_name_of_id id1)), <- (norm_op_file_name (op_name_of_id id2)), E. reflexivity.
  - unfold request_struct_name in E. apply app_inv_tail in E.
    rewrite <- (norm_op_name id1), <- (norm_op_name id2), E. reflexivity.
Qed.
