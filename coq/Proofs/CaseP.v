(* CaseP.v — the word splitter of convert_case: the words are exactly the non-delimiter characters. *)
From LN Require Import Model.Case Proofs.CharsP.

Definition nd (c : ascii) : bool := negb (is_delim c).

Lemma split_go_concat s : forall prev,
  fst (split_go prev s) ++ concat (snd (split_go prev s)) = filter nd s.
Proof.
  induction s as [|c t IH]; intros prev; cbn [split_go]; [reflexivity|].
  specialize (IH (Some c)). destruct (split_go (Some c) t) as [w ws]. cbn [fst snd] in IH.
  cbn [filter]. unfold nd at 1. destruct (is_delim c); cbn [negb].
  - cbn. exact IH.
  - destruct (boundary prev c (hd_opt t)); cbn; rewrite <- IH; reflexivity.
Qed.

Lemma concat_filter_nonempty (l : list str) : concat (filter nonempty l) = concat l.
Proof. induction l as [|[|x w] l IH]; cbn; [reflexivity|exact IH|rewrite IH; reflexivity]. Qed.

Lemma split_words_concat s : concat (split_words s) = filter nd s.
Proof.
  unfold split_words. pose proof (split_go_concat s None) as H.
  destruct (split_go None s) as [w ws]. cbn [fst snd] in H.
  rewrite concat_filter_nonempty. cbn. exact H.
Qed.

Lemma split_words_nonempty s w : In w (split_words s) -> nonempty w = true.
Proof.
  unfold split_words. destruct (split_go None s) as [w0 ws]. intros H.
  apply filter_In in H. tauto.
Qed.

Lemma split_words_chars s w c : In w (split_words s) -> In c w -> In c s /\ is_delim c = false.
Proof.
  intros Hw Hc. assert (H : In c (concat (split_words s))) by (apply in_concat; eauto).
  rewrite split_words_concat in H. apply filter_In in H as [H1 H2]. split; [exact H1|].
  unfold nd in H2. destruct (is_delim c); [discriminate|reflexivity].
Qed.

Lemma split_words_not_nil s : existsb nd s = true -> split_words s <> [].
Proof.
  intros H E. apply existsb_exists in H as [x [Hx Hn]].
  assert (In x (filter nd s)) as Hf by (apply filter_In; auto).
  rewrite <- split_words_concat, E in Hf. exact Hf.
Qed.

(* every word is non-empty and all its characters satisfy P, when the non-delimiters of s do *)
Lemma words_forall (P : ascii -> bool) s :
  forallb (fun c => is_delim c || P c) s = true ->
  forallb (fun w => nonempty w && forallb P w) (split_words s) = true.
Proof.
  intros H. apply forallb_forall. intros w Hw. apply andb_true_iff. split.
  - eapply split_words_nonempty; eauto.
  - apply forallb_forall. intros c Hc. destruct (split_words_chars _ _ _ Hw Hc) as [Hs Hd].
    rewrite forallb_forall in H. specialize (H c Hs). rewrite Hd in H. exact H.
Qed.

Lemma nonempty_map (f : ascii -> ascii) (w : str) : nonempty (map f w) = nonempty w.
Proof. destruct w; reflexivity. Qed.
