(* SerdeP.v — C04 at the level of one generated struct / enum. *)
From LN Require Import Sem.Serde Proofs.CharsP Proofs.CaseP Proofs.NamesP.
Local Open Scope nat_scope.

(* ---- exact names ---- *)
Theorem wire_key_exact name f d : field_desc name f = Ok d ->
  wire_key d = Some name \/ (wire_key d = None /\ f_flatten f = true).
Proof.
  unfold field_desc. intros H. apply bind_ok in H as [rid [Hr H]]. apply bind_ok in H as [r [_ H]].
  apply Ok_inj in H. subst d. unfold wire_key. cbn [fd_wire fd_ident].
  destruct (str_eqb rid name) eqn:E.
  - apply str_eqb_eq in E. subst. auto.
  - destruct (f_flatten f); auto.
Qed.

(* allOf $ref members (flatten = true, named after a component, hence with an upper-case first letter) ARE flattened *)
Lemma sanitize_first_not_upper name r : sanitize name = Ok r -> match r with c :: _ => is_upper c = false | [] => True end.
Proof.
  rewrite sanitize_unfold. cbv zeta. set (s1 := fix_digit_sep (snake (rewrite_names name))).
  set (s2 := if is_restricted s1 then s1 ++ lit "_" else s1).
  destruct s2 as [|c t] eqn:E2; cbn [first_is_digit bind]; [discriminate|].
  destruct (is_digit c) eqn:Ed.
  - intros H. apply bind_ok in H as [u [Hu H]]. apply Ok_inj in H. subst r. reflexivity.
  - intros H. apply bind_ok in H as [u [Hv H]]. apply Ok_inj in H. subst r.
    (* c is the first character of a snake-cased string: lower case, digit or underscore *)
    assert (Hlow : forallb (fun x => negb (is_upper x)) (snake (rewrite_names name)) = true).
    { unfold snake. generalize (split_words (rewrite_names name)). intros W.
      induction W as [|w W IH]; [reflexivity|]. destruct W as [|w2 W'].
      - cbn. unfold lower_s. rewrite forallb_map. apply forallb_forall. intros x _. case_ascii x.
      - change (join (lit "_") (map lower_s (w :: w2 :: W'))) with (lower_s w ++ lit "_" ++ join (lit "_") (map lower_s (w2 :: W'))).
        rewrite !forallb_app. rewrite IH. cbn. rewrite andb_true_r. unfold lower_s. rewrite forallb_map. apply forallb_forall. intros x _. case_ascii x. }
    assert (H1 : forallb (fun x => negb (is_upper x)) s1 = true).
    { unfold s1. apply (fds_forallb _ (length (snake (rewrite_names name)))); [apply le_n|exact Hlow]. }
    assert (H2 : forallb (fun x => negb (is_upper x)) s2 = true).
    { unfold s2. destruct (is_restricted s1); [rewrite forallb_app, H1; reflexivity|exact H1]. }
    rewrite E2 in H2. cbn in H2. apply andb_prop in H2 as [H2 _]. destruct (is_upper c); [discriminate|reflexivity].
Qed.

Theorem component_member_flattened name f d c0 rest :
  name = c0 :: rest -> is_upper c0 = true -> f_flatten f = true -> field_desc name f = Ok d -> fd_wire d = WFlatten.
Proof.
  intros En Hu Hf H. unfold field_desc in H. apply bind_ok in H as [rid [Hr H]]. apply bind_ok in H as [r [_ H]].
  apply Ok_inj in H. subst d. cbn [fd_wire]. rewrite Hf.
  destruct (str_eqb rid name) eqn:E; [|reflexivity]. apply str_eqb_eq in E. subst rid.
  pose proof (sanitize_first_not_upper _ _ Hr) as Hn. rewrite En in Hn. rewrite Hu in Hn. discriminate.
Qed.

(* ---- a required, non-nullable string / number / boolean / object member: absent => rejected ---- *)
Definition plain_required (f : hfield) : bool :=
  negb (f_optional f) && match f_ty f with
                         | TString | TFloat | TBoolean | TInteger ISimple | TModel _ | TDateTime | TDate DIso => true
                         | _ => false
                         end.

Theorem required_member_desc name f d : plain_required f = true -> field_desc name f = Ok d ->
  fd_default_skip d = None /\ fd_option d = false.
Proof.
  unfold plain_required, field_desc. intros Hp H. apply bind_ok in H as [rid [_ H]]. apply bind_ok in H as [r [_ H]].
  apply Ok_inj in H. subst d. cbn [fd_default_skip fd_option]. apply andb_prop in Hp as [Ho Ht].
  destruct (f_optional f); [discriminate|]. destruct (f_ty f) as [| [| |] | | | | | | |[|]| | |]; try discriminate; cbn; auto.
Qed.

Theorem missing_required_rejected ds d obj k :
  In d ds -> wire_key d = Some k -> fd_default_skip d = None -> fd_option d = false ->
  assoc obj k = None -> de_struct ds obj = None.
Proof.
  intros Hin Hk Hd Ho Ha. induction ds as [|x ds IH]; [destruct Hin|].
  cbn [de_struct]. destruct Hin as [->|Hin].
  - unfold de_field. rewrite Hk, Ha. unfold missing_value. rewrite Hd, Ho. reflexivity.
  - rewrite (IH Hin). destruct (de_field x obj); reflexivity.
Qed.

(* ---- round trip of one struct ---- *)
Lemma missing_is_skipped d v : missing_value d = Some v -> fd_with d = None -> skipped d v = true \/ fd_default_skip d = None.
Proof.
  unfold missing_value, skipped. destruct (fd_default_skip d) as [[| |]|]; intros H _.
  - inversion H; subst. auto. - inversion H; subst. auto. - inversion H; subst. auto. - auto.
Qed.

Theorem struct_roundtrip ds : forall obj vs,
  (forall d, In d ds -> fd_with d = None) ->
  (forall d k, In d ds -> wire_key d = Some k -> fd_default_skip d = None -> fd_option d = true -> assoc obj k <> None) ->
  de_struct ds obj = Some vs -> ser_struct ds vs = normalize ds obj.
Proof.
  induction ds as [|d ds IH]; intros obj vs Hw Hp H; cbn [de_struct] in H.
  - inversion H. reflexivity.
  - destruct (de_field d obj) as [v|] eqn:Ev; [|discriminate]. destruct (de_struct ds obj) as [vs'|] eqn:Es; [|discriminate].
    inversion H; subst vs. cbn [ser_struct normalize flat_map].
    rewrite (IH obj vs' (fun x Hx => Hw x (or_intror Hx)) (fun x k Hx => Hp x k (or_intror Hx)) Es).
    f_equal. unfold ser_field, de_field in *. destruct (wire_key d) as [k|] eqn:Ek; [|reflexivity].
    destruct (assoc obj k) as [j|] eqn:Ea.
    + inversion Ev; subst. reflexivity.
    + pose proof (Hw d (or_introl eq_refl)) as Hwith.
      destruct (missing_is_skipped d v Ev Hwith) as [Hs|Hn]; [rewrite Hs; reflexivity|].
      (* no default: the value came from an implicit None of an Option field, which the hypothesis excludes when absent *)
      unfold missing_value in Ev. rewrite Hn in Ev. destruct (fd_option d) eqn:Eo; [|discriminate].
      exfalso. exact (Hp d k (or_introl eq_refl) Ek Hn Eo Ea).
Qed.

(* ---- enums: values travel as their exact strings; distinct values stay distinct ---- *)
Theorem variant_wire_exact idn value : variant_wire idn value = value.
Proof. unfold variant_wire. destruct (str_eqb idn value) eqn:E; [apply str_eqb_eq in E; auto|reflexivity]. Qed.

Theorem variant_wire_injective i1 v1 i2 v2 : v1 <> v2 -> variant_wire i1 v1 <> variant_wire i2 v2.
Proof. rewrite !variant_wire_exact. auto. Qed.
