(* StrP.v — substring search on byte lists: first occurrence, prefixes, separators. *)
From LN Require Import Model.Chars Proofs.CharsP.
From Coq Require Import Lia.
Local Open Scope nat_scope.

Lemma starts_with_refl_app m r : starts_with m (m ++ r) = true.
Proof. induction m as [|x m IH]; cbn; [reflexivity|]. rewrite ceqb_refl, IH. reflexivity. Qed.

Lemma starts_with_split m s : starts_with m s = true -> s = m ++ skipn (length m) s.
Proof.
  revert s; induction m as [|x m IH]; intros s H; cbn in *; [reflexivity|].
  destruct s as [|y s]; [discriminate|]. apply andb_prop in H as [H1 H2].
  apply ceqb_eq in H1. subst y. f_equal. apply IH, H2.
Qed.

(* whether m is a prefix depends only on the first |m| bytes *)
Lemma starts_with_app_indep m : forall a r1 r2, length m <= length a ->
  starts_with m (a ++ r1) = starts_with m (a ++ r2).
Proof.
  induction m as [|x m IH]; intros a r1 r2 Hl; cbn; [reflexivity|].
  destruct a as [|y a]; [cbn in Hl; lia|]. cbn. f_equal. apply IH. cbn in Hl. lia.
Qed.

Lemma find_sub_here m s : starts_with m s = true -> find_sub m s = Some 0.
Proof. intros H. destruct s; cbn; rewrite H; reflexivity. Qed.

Lemma find_sub_cons m x s :
  find_sub m (x :: s) = if starts_with m (x :: s) then Some 0
                        else match find_sub m s with Some i => Some (S i) | None => None end.
Proof. reflexivity. Qed.

Lemma find_sub_nil m : find_sub m [] = if starts_with m [] then Some 0 else None.
Proof. reflexivity. Qed.

(* the position of the first occurrence is determined by what precedes and includes it *)
Lemma find_first_indep m pre : forall r1 r2,
  find_sub m (pre ++ m ++ r1) = Some (length pre) -> find_sub m (pre ++ m ++ r2) = Some (length pre).
Proof.
  induction pre as [|x pre IH]; intros r1 r2 H.
  - cbn [app length]. apply find_sub_here. apply starts_with_refl_app.
  - cbn [app length] in *. rewrite find_sub_cons in *.
    replace (x :: pre ++ m ++ r2) with ((x :: pre ++ m) ++ r2) by (cbn; rewrite <- app_assoc; reflexivity).
    replace (x :: pre ++ m ++ r1) with ((x :: pre ++ m) ++ r1) in H by (cbn; rewrite <- app_assoc; reflexivity).
    rewrite (starts_with_app_indep m (x :: pre ++ m) r2 r1) by (cbn; rewrite app_length; lia).
    destruct (starts_with m ((x :: pre ++ m) ++ r1)); [discriminate|].
    destruct (find_sub m (pre ++ m ++ r1)) as [i|] eqn:E; [|discriminate].
    inversion H; subst i. rewrite (IH r1 r2 E). reflexivity.
Qed.

Lemma find_sub_decomp m : forall s i, find_sub m s = Some i ->
  s = firstn i s ++ m ++ skipn (i + length m) s.
Proof.
  induction s as [|x s IH]; intros i H.
  - rewrite find_sub_nil in H. destruct (starts_with m []) eqn:E; [|discriminate].
    inversion H; subst i. cbn. apply (starts_with_split m []) in E. exact E.
  - rewrite find_sub_cons in H. destruct (starts_with m (x :: s)) eqn:E.
    + inversion H; subst i. cbn [firstn app plus]. apply starts_with_split. exact E.
    + destruct (find_sub m s) as [j|] eqn:Ej; [|discriminate]. inversion H; subst i.
      cbn [firstn plus skipn app]. f_equal. apply IH. reflexivity.
Qed.

Lemma find_sub_bound m : forall s i, find_sub m s = Some i -> i + length m <= length s.
Proof.
  intros s i H. pose proof (find_sub_decomp m s i H) as E.
  apply (f_equal (@length ascii)) in E. rewrite !app_length in E.
  assert (length (firstn i s) = i).
  { apply firstn_length_le. clear E. revert i H. induction s as [|x s IH]; intros i H.
    - rewrite find_sub_nil in H. destruct (starts_with m []); inversion H; lia.
    - rewrite find_sub_cons in H. destruct (starts_with m (x :: s)); [inversion H; cbn; lia|].
      destruct (find_sub m s) as [j|] eqn:Ej; [|discriminate]. inversion H; subst. specialize (IH j eq_refl). cbn. lia. }
  lia.
Qed.

Lemma firstn_app_exact {A} (a b : list A) : firstn (length a) (a ++ b) = a.
Proof. induction a; cbn; [destruct b; reflexivity|]. rewrite IHa. reflexivity. Qed.

(* ---- occurrence as a proposition ---- *)
Definition occurs (m s : str) : Prop := exists a b, s = a ++ m ++ b.

Lemma contains_occurs m s : contains m s = true <-> occurs m s.
Proof.
  unfold contains. split.
  - destruct (find_sub m s) as [i|] eqn:E; [|discriminate]. intros _.
    exists (firstn i s), (skipn (i + length m) s). apply find_sub_decomp. exact E.
  - intros [a [b ->]]. assert (H : exists i, find_sub m (a ++ m ++ b) = Some i).
    { induction a as [|x a IH]; cbn [app].
      - exists 0. apply find_sub_here, starts_with_refl_app.
      - rewrite find_sub_cons. destruct (starts_with m (x :: a ++ m ++ b)); [eauto|].
        destruct IH as [i ->]. eauto. }
    destruct H as [i ->]. reflexivity.
Qed.

Lemma contains_false_occurs m s : contains m s = false <-> ~ occurs m s.
Proof.
  rewrite <- contains_occurs. destruct (contains m s); split; intro H; try reflexivity; try discriminate; try tauto.
Qed.

(* a prefix of a marker-free string is marker-free *)
Lemma occurs_firstn m n s : occurs m (firstn n s) -> occurs m s.
Proof.
  intros [a [b E]]. exists a, (b ++ skipn n s).
  rewrite <- (firstn_skipn n s) at 1. rewrite E, <- !app_assoc. reflexivity.
Qed.

Lemma contains_firstn_false m n s : contains m s = false -> contains m (firstn n s) = false.
Proof. rewrite !contains_false_occurs. intros H O. apply H. eapply occurs_firstn; eauto. Qed.

Lemma occurs_app_l m a b : occurs m a -> occurs m (a ++ b).
Proof. intros [x [y ->]]. exists x, (y ++ b). rewrite <- !app_assoc. reflexivity. Qed.
Lemma occurs_app_r m a b : occurs m b -> occurs m (a ++ b).
Proof. intros [x [y ->]]. exists (a ++ x), y. rewrite <- !app_assoc. reflexivity. Qed.

(* a separator byte that does not occur in m cannot be straddled by an occurrence of m *)
Lemma occurs_sep m c a b : ~ In c m -> occurs m (a ++ c :: b) -> occurs m a \/ occurs m b.
Proof.
  intros Hc [x [y E]].
  apply app_eq_app in E as [l [[E1 E2]|[E1 E2]]].
  - (* a = x ++ l, m ++ y = l ++ c :: b *)
    apply app_eq_app in E2 as [l' [[E3 E4]|[E3 E4]]].
    + (* m = l ++ l', c :: b = l' ++ y *)
      destruct l' as [|z l'].
      * left. exists x, []. rewrite E1, E3, !app_nil_r. reflexivity.
      * cbn in E4. inversion E4; subst z. exfalso. apply Hc. rewrite E3. apply in_or_app. right. left. reflexivity.
    + (* l = m ++ l', y = l' ++ c :: b *)
      left. exists x, l'. rewrite E1, E3. reflexivity.
  - (* x = a ++ l, c :: b = l ++ m ++ y *)
    destruct l as [|z l].
    + cbn in E2. destruct m as [|z m].
      * right. exists [], b. reflexivity.
      * cbn in E2. inversion E2; subst z. exfalso. apply Hc. left. reflexivity.
    + cbn in E2. inversion E2; subst z. right. exists l, y. first [assumption|reflexivity|congruence].
Qed.

Lemma contains_sep_false m c a b :
  ~ In c m -> contains m a = false -> contains m b = false -> contains m (a ++ c :: b) = false.
Proof.
  rewrite !contains_false_occurs. intros Hc Ha Hb O. destruct (occurs_sep m c a b Hc O); tauto.
Qed.
