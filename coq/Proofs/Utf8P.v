(* Utf8P.v — concatenation and ASCII-boundary facts about UTF-8 validity. *)
From LN Require Import Model.Utf8 Proofs.CharsP.
From Coq Require Import Lia.

Definition ascii7 (c : ascii) : bool := code c <=? 127.

Lemma urun_app st a : forall b, urun st a = true -> urun st (a ++ b) = urun UB b.
Proof.
  revert st. induction a as [|x a IH]; intros st b H; cbn in *.
  - destruct st; [reflexivity|discriminate].
  - destruct st as [|k lo hi].
    + destruct (lead x) as [st'|]; [|discriminate]. apply IH. exact H.
    + destruct (in_range lo hi x); [|discriminate]. apply IH. exact H.
Qed.

Lemma valid_app a b : utf8_valid a = true -> utf8_valid (a ++ b) = utf8_valid b.
Proof. apply urun_app. Qed.

Lemma valid_app_both a b : utf8_valid a = true -> utf8_valid b = true -> utf8_valid (a ++ b) = true.
Proof. intros Ha Hb. rewrite valid_app by assumption. exact Hb. Qed.

Lemma ascii7_lead c : ascii7 c = true -> lead c = Some UB.
Proof. unfold ascii7, lead. intros ->. reflexivity. Qed.

Lemma ascii7_not_in_range lo hi c : ascii7 c = true -> in_range lo hi c = false.
Proof.
  unfold ascii7, in_range. intros H. apply N.leb_le in H.
  destruct (128 <=? code c) eqn:E; [apply N.leb_le in E; lia|]. rewrite andb_false_r. reflexivity.
Qed.

(* an ASCII byte is always a whole character: validity splits around it *)
Lemma urun_split_ascii st a c b : ascii7 c = true ->
  urun st (a ++ c :: b) = true -> urun st (a ++ [c]) = true /\ urun UB b = true.
Proof.
  intros Hc. revert st. induction a as [|x a IH]; intros st H; cbn in *.
  - destruct st as [|k lo hi].
    + rewrite (ascii7_lead c Hc) in *. split; [reflexivity|exact H].
    + rewrite (ascii7_not_in_range lo hi c Hc) in H. discriminate.
  - destruct st as [|k lo hi].
    + destruct (lead x) as [st'|]; [|discriminate]. apply IH. exact H.
    + destruct (in_range lo hi x); [|discriminate]. apply IH. exact H.
Qed.

Lemma valid_prefix_ascii a m : forall b, m <> [] -> forallb ascii7 m = true ->
  utf8_valid (a ++ m ++ b) = true -> utf8_valid (a ++ m) = true.
Proof.
  revert a. induction m as [|c m IH]; intros a b Hne Hm H; [congruence|].
  cbn in Hm. apply andb_prop in Hm as [Hc Hm]. destruct m as [|c' m'].
  - cbn [app] in *. apply (urun_split_ascii UB a c b Hc H).
  - replace (a ++ c :: c' :: m') with ((a ++ [c]) ++ c' :: m') by (rewrite <- app_assoc; reflexivity).
    apply (IH (a ++ [c]) b); [discriminate|exact Hm|].
    rewrite <- app_assoc. exact H.
Qed.

Lemma valid_firstn_decode_nil : utf8_valid [] = true.
Proof. reflexivity. Qed.
