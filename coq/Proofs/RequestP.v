(* RequestP.v — C03: running the emitted assignments yields exactly the expected request parts. *)
From LN Require Import Spec.Request Proofs.CharsP.
Local Open Scope nat_scope.

Lemma add_pair_other loc k v r :
  r_verb (add_pair loc k v r) = r_verb r /\ r_url (add_pair loc k v r) = r_url r /\ r_body (add_pair loc k v r) = r_body r.
Proof. destruct loc; cbn; auto. Qed.

(* the effect of one assignment on each part of the request *)
Definition q_of (loc : hloc) (r : http) : list (str * str) :=
  match loc with LQuery => r_query r | LHeader => r_headers r | LCookie => r_cookies r | _ => [] end.

Lemma fold_add_pair loc k l : forall r loc',
  q_of loc' (fold_left (fun r i => add_pair loc k i r) l r) =
  q_of loc' r ++ (if match loc, loc' with LQuery, LQuery | LHeader, LHeader | LCookie, LCookie => true | _, _ => false end
                  then map (fun i => (k, i)) l else []).
Proof.
  induction l as [|i l IH]; intros r loc'; cbn [fold_left map].
  - destruct loc, loc'; cbn; rewrite ?app_nil_r; reflexivity.
  - rewrite IH. destruct loc, loc'; cbn; rewrite <- ?app_assoc; reflexivity.
Qed.

Lemma fold_add_pair_body loc k l : forall r, r_body (fold_left (fun r i => add_pair loc k i r) l r) = r_body r.
Proof. induction l as [|i l IH]; intros r; cbn; [reflexivity|]. rewrite IH. destruct loc; reflexivity. Qed.

Lemma exec_assign_q p ar r loc' : is_path p = false -> shape_ok ar p ->
  q_of loc' (exec_assign (assign_of p) (arg_of ar (p_name p)) r) = q_of loc' r ++
    match loc' with LQuery | LHeader | LCookie => contrib loc' ar p | _ => [] end.
Proof.
  intros Hnp Hs. unfold exec_assign, shape_ok, contrib in *. cbn [a_name assign_of a_loc a_key a_each].
  destruct (arg_of ar (p_name p)) as [v|] eqn:Ev.
  - destruct (p_loc p) eqn:El; [unfold is_path in Hnp; rewrite El in Hnp; discriminate| | | |].
    + (* body *) destruct loc'; cbn; rewrite ?app_nil_r; reflexivity.
    + (* query *) rewrite fold_add_pair. unfold key_of. rewrite El. destruct v as [s|l].
      * rewrite Hs. cbn. destruct loc'; cbn; rewrite ?app_nil_r; reflexivity.
      * rewrite Hs. cbn. destruct loc'; cbn; rewrite ?app_nil_r; reflexivity.
    + (* header *) rewrite fold_add_pair. unfold key_of. rewrite El. destruct v as [s|l].
      * rewrite Hs. cbn. destruct loc'; cbn; rewrite ?app_nil_r; reflexivity.
      * rewrite Hs. cbn. destruct loc'; cbn; rewrite ?app_nil_r; reflexivity.
    + (* cookie *) rewrite fold_add_pair. unfold key_of. rewrite El. destruct v as [s|l].
      * rewrite Hs. cbn. destruct loc'; cbn; rewrite ?app_nil_r; reflexivity.
      * rewrite Hs. cbn. destruct loc'; cbn; rewrite ?app_nil_r; reflexivity.
  - destruct (p_loc p), loc'; cbn; rewrite ?app_nil_r; reflexivity.
Qed.

Lemma exec_assign_body p ar r : is_path p = false ->
  r_body (exec_assign (assign_of p) (arg_of ar (p_name p)) r) = r_body r ++ body_contrib ar p.
Proof.
  intros Hnp. unfold exec_assign, body_contrib. cbn [a_name assign_of a_loc a_key a_each].
  destruct (arg_of ar (p_name p)) as [v|].
  - destruct (p_loc p) eqn:El; [unfold is_path in Hnp; rewrite El in Hnp; discriminate| | | |]; try (rewrite fold_add_pair_body, app_nil_r; reflexivity).
    cbn. unfold key_of. rewrite El. reflexivity.
  - destruct (p_loc p); rewrite app_nil_r; reflexivity.
Qed.

Lemma fold_add_pair_verb_url loc k l : forall r,
  r_verb (fold_left (fun r i => add_pair loc k i r) l r) = r_verb r /\ r_url (fold_left (fun r i => add_pair loc k i r) l r) = r_url r.
Proof.
  induction l as [|i l IH]; intros r; cbn [fold_left]; [auto|].
  destruct (IH (add_pair loc k i r)) as [-> ->]. destruct loc; cbn; auto.
Qed.

Lemma exec_assign_verb_url a v r : r_verb (exec_assign a v r) = r_verb r /\ r_url (exec_assign a v r) = r_url r.
Proof.
  unfold exec_assign. destruct v as [x|]; [|auto].
  destruct (a_loc a); try apply fold_add_pair_verb_url; cbn; auto.
Qed.

Definition np (ps : list hparam) := filter (fun p => negb (is_path p)) ps.

Lemma run_assigns_parts ps ar : forall r,
  (forall p, In p ps -> is_path p = false /\ shape_ok ar p) ->
  r_query (run_assigns (map assign_of ps) ar r) = r_query r ++ flat_map (contrib LQuery ar) ps /\
  r_headers (run_assigns (map assign_of ps) ar r) = r_headers r ++ flat_map (contrib LHeader ar) ps /\
  r_cookies (run_assigns (map assign_of ps) ar r) = r_cookies r ++ flat_map (contrib LCookie ar) ps /\
  r_body (run_assigns (map assign_of ps) ar r) = r_body r ++ flat_map (body_contrib ar) ps /\
  r_verb (run_assigns (map assign_of ps) ar r) = r_verb r /\ r_url (run_assigns (map assign_of ps) ar r) = r_url r.
Proof.
  induction ps as [|p ps IH]; intros r H.
  - cbn. rewrite !app_nil_r. repeat split; reflexivity.
  - destruct (H p (or_introl eq_refl)) as [Hnp Hs].
    change (run_assigns (map assign_of (p :: ps)) ar r)
      with (run_assigns (map assign_of ps) ar (exec_assign (assign_of p) (arg_of ar (p_name p)) r)).
    destruct (IH (exec_assign (assign_of p) (arg_of ar (p_name p)) r) (fun q Hq => H q (or_intror Hq))) as [Q [Hd [C [B [V U]]]]].
    pose proof (exec_assign_q p ar r LQuery Hnp Hs) as Eq. pose proof (exec_assign_q p ar r LHeader Hnp Hs) as Eh.
    pose proof (exec_assign_q p ar r LCookie Hnp Hs) as Ec. cbn [q_of] in Eq, Eh, Ec.
    destruct (exec_assign_verb_url (assign_of p) (arg_of ar (p_name p)) r) as [Ev Eu].
    rewrite Q, Hd, C, B, V, U, Eq, Eh, Ec, (exec_assign_body p ar r Hnp), Ev, Eu. cbn [flat_map]. rewrite <- !app_assoc. repeat split; reflexivity.
Qed.

Lemma filter_contrib loc ar ps : flat_map (contrib loc ar) (np ps) = flat_map (contrib loc ar) ps.
Proof.
  unfold np. induction ps as [|p ps IH]; cbn; [reflexivity|]. destruct (is_path p) eqn:E; cbn; rewrite IH; [|reflexivity].
  unfold contrib, is_path in *. destruct (p_loc p); try discriminate. destruct loc; reflexivity.
Qed.

Lemma filter_body_contrib ar ps : flat_map (body_contrib ar) (np ps) = flat_map (body_contrib ar) ps.
Proof.
  unfold np. induction ps as [|p ps IH]; cbn; [reflexivity|]. destruct (is_path p) eqn:E; cbn; rewrite IH; [|reflexivity].
  unfold body_contrib, is_path in *. destruct (p_loc p); try discriminate. reflexivity.
Qed.

(* C03 for every operation that does not take the all-query shortcut *)
Theorem request_parts ps ar verb url l :
  request_plan ps = PAssigns l -> (forall p, In p ps -> shape_ok ar p) ->
  exists r', run_plan ps ar (start verb url) = Ok r' /\
    r_verb r' = verb /\ r_url r' = url /\
    r_query r' = expected_query ps ar /\ r_headers r' = expected_headers ps ar /\
    r_cookies r' = expected_cookies ps ar /\ r_body r' = expected_body ps ar.
Proof.
  intros Hp Hs. unfold run_plan. rewrite Hp. eexists. split; [reflexivity|].
  unfold request_plan in Hp. destruct (forallb is_query _); [discriminate|]. injection Hp as <-.
  fold (np ps).
  destruct (run_assigns_parts (np ps) ar (start verb url)) as [Q [Hd [C [B [V U]]]]].
  { intros p Hin. unfold np in Hin. apply filter_In in Hin as [Hin Hn]. split; [destruct (is_path p); [discriminate|reflexivity]|auto]. }
  rewrite Q, Hd, C, B, V, U. cbn [start r_query r_headers r_cookies r_body r_verb r_url app].
  unfold expected_query, expected_headers, expected_cookies, expected_body.
  rewrite !filter_contrib, filter_body_contrib. repeat split; reflexivity.
Qed.

(* the shortcut breaks the property: keys become Rust identifiers and path parameters leak into the query *)
Theorem shortcut_refuted :
  exists ps ar r', request_plan ps = PSetQuery /\ (forall p, In p ps -> shape_ok ar p) /\
    run_plan ps ar (start (lit "get") (lit "/x")) = Ok r' /\ r_query r' <> expected_query ps ar.
Proof.
  exists [ {| p_name := lit "pageSize"; p_ty := TInteger ISimple; p_loc := LQuery; p_optional := false; p_doc := None |};
           {| p_name := lit "id"; p_ty := TString; p_loc := LPath; p_optional := false; p_doc := None |} ],
         [ (lit "pageSize", Some (AScalar (lit "10"))); (lit "id", Some (AScalar (lit "7"))) ].
  eexists. split; [reflexivity|]. split.
  - intros p [<-|[<-|[]]]; reflexivity.
  - split; [vm_compute; reflexivity|]. vm_compute. discriminate.
Qed.
