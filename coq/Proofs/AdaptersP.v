(* AdaptersP.v — the adapters are mutually inverse on their value space and never turn a malformed wire
   value into another present value. *)
From LN Require Import Model.Adapters Proofs.CharsP.
From Coq Require Import ZArith Lia.
Open Scope Z_scope.

(* ---------- decimal digits ---------- *)
Definition value (l : list Z) : Z := fold_left (fun a d => a * 10 + d) l 0.
Definition dig (d : Z) : Prop := 0 <= d < 10.

Lemma fold_value_app l d acc :
  fold_left (fun a d => a * 10 + d) (l ++ [d]) acc = fold_left (fun a d => a * 10 + d) l acc * 10 + d.
Proof. rewrite fold_left_app. reflexivity. Qed.

Lemma digs_spec : forall fuel n, 0 <= n < 10 ^ Z.of_nat fuel -> (0 < fuel)%nat ->
  value (digs fuel n) = n /\ Forall dig (digs fuel n) /\ digs fuel n <> [].
Proof.
  induction fuel as [|f IH]; intros n Hn Hf; [exfalso; clear Hn; lia|].
  cbn [digs]. destruct (n <? 10) eqn:E.
  - apply Z.ltb_lt in E. split; [|split]; [unfold value; cbn [fold_left]; lia|constructor; [unfold dig; lia|constructor]|discriminate].
  - apply Z.ltb_ge in E.
    assert (Hq : 0 <= n / 10 < 10 ^ Z.of_nat f).
    { rewrite Nat2Z.inj_succ, Z.pow_succ_r in Hn by lia. split; [apply Z.div_pos; lia|].
      apply Z.div_lt_upper_bound; lia. }
    assert (Hf' : (0 < f)%nat).
    { destruct f; [|lia]. cbn in Hq. assert (n / 10 >= 1) by (apply Z.le_ge, Z.div_le_lower_bound; lia). lia. }
    destruct (IH (n / 10) Hq Hf') as [Hv [Hd Hne]]. split; [|split].
    + unfold value in *. rewrite fold_value_app, Hv. pose proof (Z.div_mod n 10). lia.
    + apply Forall_app. split; [exact Hd|]. constructor; [|constructor]. unfold dig.
      pose proof (Z.mod_pos_bound n 10). lia.
    + intros H. apply app_eq_nil in H as [_ H]. discriminate.
Qed.

Lemma char_digit_char d : dig d -> char_digit (digit_char d) = Some d.
Proof.
  unfold dig. intros H.
  assert (d = 0 \/ d = 1 \/ d = 2 \/ d = 3 \/ d = 4 \/ d = 5 \/ d = 6 \/ d = 7 \/ d = 8 \/ d = 9) by lia.
  intuition subst; reflexivity.
Qed.

Lemma parse_digits_print l : Forall dig l -> forall acc,
  parse_digits (map digit_char l) acc = Some (fold_left (fun a d => a * 10 + d) l acc).
Proof.
  induction 1 as [|d l Hd Hl IH]; intros acc; cbn; [reflexivity|].
  rewrite (char_digit_char d Hd). apply IH.
Qed.

Lemma digit_char_not_sign d : dig d -> ceqb (digit_char d) "-"%char = false /\ ceqb (digit_char d) "+"%char = false.
Proof.
  unfold dig. intros H.
  assert (d = 0 \/ d = 1 \/ d = 2 \/ d = 3 \/ d = 4 \/ d = 5 \/ d = 6 \/ d = 7 \/ d = 8 \/ d = 9) by lia.
  intuition subst; split; reflexivity.
Qed.

Lemma print_nat_spec n : 0 <= n < 10 ^ 20 ->
  exists l, print_nat n = map digit_char l /\ Forall dig l /\ l <> [] /\ value l = n.
Proof.
  intros H. assert (H20 : (0 < 20)%nat) by lia. destruct (digs_spec 20 n H H20) as [Hv [Hd Hne]].
  exists (digs 20 n). unfold print_nat. auto.
Qed.

Lemma i64_bounds z : is_i64 z = true <-> - 2 ^ 63 <= z <= 2 ^ 63 - 1.
Proof. unfold is_i64, I64_MIN, I64_MAX. rewrite andb_true_iff, !Z.leb_le. tauto. Qed.

Theorem parse_print_i64 z : is_i64 z = true -> parse_i64 (print_int z) = Some z.
Proof.
  intros Hi. pose proof Hi as Hb. apply i64_bounds in Hb. unfold print_int.
  destruct (z <? 0) eqn:En.
  - apply Z.ltb_lt in En.
    destruct (print_nat_spec (- z)) as [l [Hp [Hd [Hne Hv]]]]; [change (10 ^ 20) with 100000000000000000000; change (2^63) with 9223372036854775808 in Hb; lia|].
    rewrite Hp. unfold parse_i64. cbn [ceqb]. change (ceqb "-" "-") with true. cbv iota.
    destruct l as [|d l]; [congruence|]. cbn [map].
    rewrite <- (map_cons digit_char d l). rewrite parse_digits_print by assumption. fold (value (d :: l)). rewrite Hv.
    rewrite Z.opp_involutive, Hi. reflexivity.
  - apply Z.ltb_ge in En.
    destruct (print_nat_spec z) as [l [Hp [Hd [Hne Hv]]]]; [change (10 ^ 20) with 100000000000000000000; change (2^63) with 9223372036854775808 in Hb; lia|].
    rewrite Hp. unfold parse_i64. destruct l as [|d l]; [congruence|]. cbn [map].
    pose proof (Forall_inv Hd) as Hd1. destruct (digit_char_not_sign d Hd1) as [E1 E2]. rewrite E1, E2.
    rewrite <- (map_cons digit_char d l). rewrite parse_digits_print by assumption. fold (value (d :: l)). rewrite Hv.
    rewrite Hi. reflexivity.
Qed.

Lemma print_int_nonempty z : is_i64 z = true -> print_int z <> [].
Proof.
  intros Hi E. pose proof (parse_print_i64 z Hi) as H. rewrite E in H. discriminate.
Qed.

(* ---------- option_i64_str ---------- *)
Theorem str_roundtrip z : is_i64 z = true -> de_str (ser_str (Some z)) = DOk (Some z).
Proof.
  intros Hi. unfold ser_str, de_str. pose proof (print_int_nonempty z Hi) as Hne.
  destruct (print_int z) as [|c t] eqn:E; [congruence|]. rewrite <- E, (parse_print_i64 z Hi). reflexivity.
Qed.

Theorem str_roundtrip_none : de_str (ser_str None) = DOk None.
Proof. reflexivity. Qed.

(* what a string denotes: optional sign, then one or more ASCII digits, read in base ten *)
Definition denotes_int (s : str) (z : Z) : Prop :=
  exists body l, (s = body \/ s = "+"%char :: body \/ (s = "-"%char :: body)) /\
    body = map digit_char l /\ Forall dig l /\ l <> [] /\
    (z = value l \/ (s = "-"%char :: body /\ z = - value l)).

Lemma digit_of_char_b : forall c,
  (if is_digit c then ceqb c (digit_char (Z.of_N (code c) - 48)) && (0 <=? Z.of_N (code c) - 48) && (Z.of_N (code c) - 48 <? 10)
   else true) = true.
Proof. apply forall_ascii. vm_compute. reflexivity. Qed.

Lemma digit_of_char c d : char_digit c = Some d -> c = digit_char d /\ dig d.
Proof.
  unfold char_digit. pose proof (digit_of_char_b c) as H. destruct (is_digit c); [|discriminate].
  intros E. inversion E; subst d. clear E.
  apply andb_prop in H as [H H3]. apply andb_prop in H as [H1 H2].
  apply ceqb_eq in H1. apply Z.leb_le in H2. apply Z.ltb_lt in H3. split; [exact H1|unfold dig; lia].
Qed.

Lemma parse_digits_sound s : forall acc r, parse_digits s acc = Some r ->
  exists l, s = map digit_char l /\ Forall dig l /\ r = fold_left (fun a d => a * 10 + d) l acc.
Proof.
  induction s as [|c t IH]; intros acc r H; cbn in H.
  - inversion H. exists []. repeat split; constructor.
  - destruct (char_digit c) as [d|] eqn:E; [|discriminate].
    destruct (digit_of_char c d E) as [-> Hd]. destruct (IH _ _ H) as [l [-> [Hl ->]]].
    exists (d :: l). repeat split; [constructor; assumption].
Qed.

Theorem parse_i64_sound s z : parse_i64 s = Some z -> denotes_int s z /\ is_i64 z = true.
Proof.
  unfold parse_i64. destruct s as [|c t]; [discriminate|].
  assert (Hbody : forall (neg : bool) (b : str),
    match b with [] => None | _ => match parse_digits b 0 with
      | Some n => let z := if neg then - n else n in if is_i64 z then Some z else None | None => None end end = Some z ->
    exists l, b = map digit_char l /\ Forall dig l /\ l <> [] /\ z = (if neg then - value l else value l) /\ is_i64 z = true).
  { intros neg b H. destruct b as [|c' t']; [discriminate|].
    destruct (parse_digits (c' :: t') 0) as [n|] eqn:E; [|discriminate].
    destruct (parse_digits_sound _ _ _ E) as [l [El [Hl Hn]]]. cbv zeta in H.
    destruct (is_i64 (if neg then - n else n)) eqn:Ei; [|discriminate]. inversion H; subst z.
    exists l. repeat split; try assumption.
    - intros ->. discriminate.
    - rewrite Hn. reflexivity. }
  destruct (ceqb c "-"%char) eqn:E1; [|destruct (ceqb c "+"%char) eqn:E2].
  - apply ceqb_eq in E1. subst c. intros H. destruct (Hbody true t H) as [l [Hb [Hl [Hne [Hz Hi]]]]].
    split; [|exact Hi]. exists t, l. repeat split; auto.
  - apply ceqb_eq in E2. subst c. intros H. destruct (Hbody false t H) as [l [Hb [Hl [Hne [Hz Hi]]]]].
    split; [|exact Hi]. exists t, l. repeat split; auto.
  - intros H. destruct (Hbody false (c :: t) H) as [l [Hb [Hl [Hne [Hz Hi]]]]].
    split; [|exact Hi]. exists (c :: t), l. repeat split; auto.
Qed.

Theorem str_malformed w z : de_str w = DOk (Some z) ->
  exists s, w = WStr s /\ denotes_int s z /\ is_i64 z = true.
Proof.
  unfold de_str. destruct w as [| | | |s|]; try discriminate.
  destruct s as [|c t]; [discriminate|]. destruct (parse_i64 (c :: t)) as [v|] eqn:E; [|discriminate].
  intros H. inversion H; subst v. exists (c :: t). split; [reflexivity|]. apply parse_i64_sound. exact E.
Qed.

(* ---------- option_i64_null_as_zero ---------- *)
Theorem nz_roundtrip z : is_i64 z = true ->
  de_nz (ser_nz (Some z)) = DOk (if z =? 0 then None else Some z).
Proof.
  intros Hi. apply i64_bounds in Hi. unfold ser_nz, de_nz. destruct (z =? 0); [reflexivity|].
  destruct (0 <? z); [|reflexivity]. unfold I64_MAX.
  destruct (z <=? 2 ^ 63 - 1) eqn:E; [reflexivity|]. apply Z.leb_gt in E. lia.
Qed.

Theorem nz_roundtrip_none : de_nz (ser_nz None) = DOk None.
Proof. reflexivity. Qed.

Theorem nz_malformed w v : de_nz w = DOk (Some v) -> w = WInt v /\ v <> 0 /\ v <= I64_MAX.
Proof.
  unfold de_nz. destruct w as [| |z| | |]; try discriminate.
  destruct (z =? 0) eqn:E0; [discriminate|]. apply Z.eqb_neq in E0.
  destruct (0 <? z) eqn:Ep.
  - destruct (z <=? I64_MAX) eqn:El; [|discriminate]. intros H. inversion H; subst. apply Z.leb_le in El. auto.
  - intros H. inversion H; subst. apply Z.ltb_ge in Ep. unfold I64_MAX. repeat split; auto. lia.
Qed.

(* ---------- option_chrono_naive_date_as_int ---------- *)
Lemma wrap32_small z : - 2 ^ 31 <= z < 2 ^ 31 -> wrap32 z = z.
Proof.
  intros H. unfold wrap32, wrap. change (2 ^ 32) with 4294967296. change (2 ^ (32 - 1)) with 2147483648.
  change (2 ^ 31) with 2147483648 in H.
  destruct (Z_lt_le_dec z 0).
  - assert (z mod 4294967296 = z + 4294967296).
    { symmetry. apply (Z.mod_unique _ _ (-1)); lia. }
    rewrite H0. destruct (z + 4294967296 <? 2147483648) eqn:E; [apply Z.ltb_lt in E; lia|lia].
  - rewrite Z.mod_small by lia. destruct (z <? 2147483648) eqn:E; [reflexivity|apply Z.ltb_ge in E; lia].
Qed.

Lemma days_in_month_le y m : days_in_month y m <= 31.
Proof.
  unfold days_in_month. repeat match goal with |- context [if ?c then _ else _] => destruct c end; lia.
Qed.

Lemma valid_date_bounds y m d : valid_date y m d = true ->
  CHRONO_MIN_YEAR <= y <= CHRONO_MAX_YEAR /\ 1 <= m <= 12 /\ 1 <= d <= 31.
Proof.
  unfold valid_date. rewrite !andb_true_iff, !Z.leb_le. pose proof (days_in_month_le y m). lia.
Qed.

Theorem date_roundtrip y m d : 1 <= y <= 9999 -> valid_date y m d = true ->
  de_date (ser_date (Some (y, m, d))) = DOk (Some (y, m, d)).
Proof.
  intros Hy Hv. destruct (valid_date_bounds _ _ _ Hv) as [_ [Hm Hd]].
  unfold ser_date. change (2 ^ 31) with 2147483648 in *.
  rewrite (wrap32_small (y * 10000)) by (change (2 ^ 31) with 2147483648; lia).
  rewrite (wrap32_small (m * 100)) by (change (2 ^ 31) with 2147483648; lia).
  rewrite (wrap32_small (y * 10000 + m * 100)) by (change (2 ^ 31) with 2147483648; lia).
  rewrite (wrap32_small (y * 10000 + m * 100 + d)) by (change (2 ^ 31) with 2147483648; lia).
  set (z := y * 10000 + m * 100 + d). unfold de_date.
  assert (Hz : 0 < z) by (unfold z; lia).
  destruct (z <? 0) eqn:E1; [apply Z.ltb_lt in E1; lia|].
  destruct (z =? 0) eqn:E2; [apply Z.eqb_eq in E2; lia|].
  assert (Ed : z mod 100 = d).
  { symmetry. apply (Z.mod_unique _ _ (y * 100 + m)); unfold z; lia. }
  assert (Eq : z / 100 = y * 100 + m).
  { symmetry. apply (Z.div_unique _ _ _ d); unfold z; lia. }
  assert (Em : (z / 100) mod 100 = m).
  { rewrite Eq. symmetry. apply (Z.mod_unique _ _ y); lia. }
  assert (Ey : z / 10000 = y).
  { symmetry. apply (Z.div_unique _ _ _ (m * 100 + d)); unfold z; lia. }
  rewrite Ed, Em, Ey, Hv.
  assert (y <=? 2 ^ 31 - 1 = true) as -> by (apply Z.leb_le; change (2 ^ 31) with 2147483648; lia).
  reflexivity.
Qed.

Theorem date_roundtrip_none : de_date (ser_date None) = DOk None.
Proof. reflexivity. Qed.

Theorem date_malformed w y m d : de_date w = DOk (Some (y, m, d)) ->
  exists z, w = WInt z /\ z = y * 10000 + m * 100 + d /\ valid_date y m d = true.
Proof.
  unfold de_date. destruct w as [| |z| | |]; try discriminate.
  destruct (z <? 0) eqn:E1; [discriminate|]. destruct (z =? 0); [discriminate|].
  destruct ((z / 10000 <=? 2 ^ 31 - 1) && valid_date (z / 10000) ((z / 100) mod 100) (z mod 100)) eqn:Ev; [|discriminate].
  intros H. inversion H; subst. apply andb_prop in Ev as [_ Ev]. exists z. repeat split; [|exact Ev].
  apply Z.ltb_ge in E1.
  pose proof (Z.div_mod z 100 ltac:(lia)). pose proof (Z.div_mod (z / 100) 100 ltac:(lia)).
  assert (z / 10000 = z / 100 / 100) by (rewrite Z.div_div by lia; reflexivity). lia.
Qed.
