(* EmitP.v — structural facts about the emitted code: derive lists (C18), documentation placement (C17),
   adapter emission (C19), environment-variable names of server selection (C15). *)
From LN Require Import Model.Emit Proofs.CharsP Proofs.CaseP Proofs.NamesP.
Local Open Scope nat_scope.

(* ================= C18: derives ================= *)
Definition with_derives (cfg : config) (ds : list str) : config :=
  {| c_name := c_name cfg; c_derives := ds; c_examples := c_examples cfg |}.

Lemma user_derives_app cfg a b :
  user_derives (with_derives cfg (a ++ b)) = user_derives (with_derives cfg a) ++ user_derives (with_derives cfg b).
Proof. unfold user_derives. cbn. rewrite map_app, filter_app. reflexivity. Qed.

(* order and multiplicity are those of the given list; a string that does not tokenise contributes nothing
   and leaves every other derive where it was *)
Theorem user_derives_insert cfg a d b :
  user_derives (with_derives cfg (a ++ d :: b)) =
  user_derives (with_derives cfg a) ++ (if tokenizable (trim d) then [trim d] else []) ++ user_derives (with_derives cfg b).
Proof.
  unfold user_derives. cbn [c_derives with_derives]. rewrite map_app, filter_app. cbn [map filter].
  destruct (tokenizable (trim d)); reflexivity.
Qed.

Theorem untokenizable_ignored cfg a d b : tokenizable (trim d) = false ->
  derives_code (with_derives cfg (a ++ d :: b)) = derives_code (with_derives cfg (a ++ b)).
Proof.
  intros H. unfold derives_code. rewrite user_derives_insert, H, user_derives_app. reflexivity.
Qed.

(* the four generators put exactly [derive_attr builtins _ cfg] on the type they emit *)
Theorem class_derive fuel h cfg name fields docs c :
  make_class fuel h cfg name fields docs = Ok c ->
  exists dflt post, c = doc_attr docs ++ derive_attr "Debug, Clone, Serialize, Deserialize" dflt cfg ++ post.
Proof.
  unfold make_class. intros H. apply bind_ok in H as [dflt [_ H]]. apply bind_ok in H as [nm [_ H]].
  apply bind_ok in H as [fs [_ H]]. apply bind_ok in H as [deref [_ H]]. injection H as <-.
  exists dflt. eexists. reflexivity.
Qed.

Theorem newtype_derive fuel h cfg name fields c :
  make_newtype fuel h cfg name fields = Ok c ->
  exists dflt post, c = derive_attr "Debug, Clone, Serialize, Deserialize" dflt cfg ++ post.
Proof.
  unfold make_newtype. intros H. apply bind_ok in H as [nm [_ H]]. apply bind_ok in H as [tys [_ H]].
  apply bind_ok in H as [dflt [_ H]]. injection H as <-. exists dflt. eexists. reflexivity.
Qed.

Theorem enum_derive cfg name variants doc c :
  make_enum cfg name variants doc = Ok c ->
  exists post, c = doc_attr doc ++ derive_attr "Debug, Serialize, Deserialize, Clone" false cfg ++ post.
Proof.
  unfold make_enum. intros H. apply bind_ok in H as [names [_ H]]. apply bind_ok in H as [vs [_ H]].
  apply bind_ok in H as [nm [_ H]]. injection H as <-. eexists. reflexivity.
Qed.

Theorem request_struct_derive cfg o c :
  request_struct cfg o = Ok c ->
  exists doc post, c = doc_attr (Some doc) ++ derive_attr "Debug, Clone, Serialize, Deserialize" false cfg ++ post.
Proof.
  unfold request_struct. intros H. apply bind_ok in H as [fields [_ H]]. apply bind_ok in H as [fn_name [_ H]].
  apply bind_ok in H as [resp [_ H]]. apply bind_ok in H as [nm [_ H]]. injection H as <-.
  eexists. eexists. reflexivity.
Qed.

(* the derive attribute: built-ins first and never lost, then the user's derives, in order *)
Theorem derive_attr_shape builtins dflt cfg :
  derive_attr builtins dflt cfg =
  t "#[derive(" ++ t builtins ++ (if dflt then t ", Default" else []) ++
  concat (map (fun d => t "," ++ ts d) (filter tokenizable (map trim (c_derives cfg)))) ++ t ")]".
Proof. reflexivity. Qed.

(* ================= C17: documentation ================= *)
(* operation documentation: non-empty summary, then non-empty description unless equal to the summary, then the link *)
Definition nonempty_opt (o : option str) : list str := match o with Some (c :: r) => [c :: r] | _ => [] end.

Definition method_doc_spec (o : operation) : option str :=
  let s := nonempty_opt (op_summary o) in
  let d := match nonempty_opt (op_description o), s with
           | [d], [s0] => if str_eqb d s0 then [] else [d]
           | l, _ => l
           end in
  let e := match op_ext_docs o with Some u => [lit "See endpoint docs at <" ++ u ++ lit ">."] | None => [] end in
  match s ++ d ++ e with [] => None | l => Some (join NLNL l) end.

Theorem extract_doc_spec o : extract_doc o = method_doc_spec o.
Proof.
  unfold extract_doc, method_doc_spec, nonempty_opt.
  destruct (op_summary o) as [[|c s]|]; destruct (op_description o) as [[|c' d]|]; destruct (op_ext_docs o) as [u|];
    lazy beta iota zeta; try reflexivity;
    (destruct (str_eqb (c' :: d) (c :: s)); lazy beta iota zeta; reflexivity).
Qed.

(* the client method starts with the operation's doc attribute and nothing else carries it *)
Theorem client_method_doc o c : client_method o = Ok c -> exists rest, c = doc_attr (o_doc o) ++ t "pub fn" ++ rest.
Proof.
  unfold client_method. intros H. apply bind_ok in H as [fn_args [_ H]]. apply bind_ok in H as [values [_ H]].
  apply bind_ok in H as [rs [_ H]]. apply bind_ok in H as [name [_ H]]. injection H as <-.
  eexists. reflexivity.
Qed.

Theorem class_field_doc name f c : class_field name f = Ok c -> exists rest, c = doc_attr (f_doc f) ++ rest.
Proof.
  unfold class_field. intros H. apply bind_ok in H as [d [_ H]]. apply bind_ok in H as [id [_ H]].
  apply Ok_inj in H. subst c. eexists. reflexivity.
Qed.

(* the literal of a doc attribute is the documentation text itself, trimmed *)
Theorem doc_attr_value d : doc_attr (Some d) = t "#[doc =" ++ [Lit (trim d)] ++ t "]".
Proof. reflexivity. Qed.

(* ================= C19: adapters are emitted exactly when a retained field needs them ================= *)
Definition adapter_ty (x : ty) : bool :=
  match x with TInteger IString | TInteger INullAsZero | TDate DInteger => true | _ => false end.

Theorem needs_serde_iff h :
  needs_serde (calculate_extras h) = existsb (fun f => adapter_ty (f_ty f)) (all_fields h).
Proof.
  unfold needs_serde, calculate_extras. cbn [x_null_as_zero x_int_date x_option_i64_str].
  induction (all_fields h) as [|f l IH]; [reflexivity|]. cbn [existsb]. rewrite <- IH.
  destruct (f_ty f) as [| [| |] | | | | | | |[|]| | |]; cbn; try reflexivity;
    repeat match goal with |- context [existsb ?p l] => destruct (existsb p l) end; reflexivity.
Qed.

Theorem serde_file_iff h tp : (exists c, serde_file h tp = Some c) <-> needs_serde (calculate_extras h) = true.
Proof. unfold serde_file. destruct (needs_serde (calculate_extras h)); split; intros H; eauto; try discriminate. destruct H; discriminate. Qed.

(* a field that carries `with = "crate::serde::option_i64_str"` has its module in serde.rs *)
Theorem with_str_backed h tp k r f :
  In (k, r) (h_schemas h) -> In f (record_fields r) -> f_ty f = TInteger IString ->
  exists c, serde_file h tp = Some c /\ In (Txt (tp_int_as_str tp)) c.
Proof.
  intros Hin Hf Hty.
  assert (Hx : x_option_i64_str (calculate_extras h) = true).
  { unfold calculate_extras. cbn [x_option_i64_str]. apply existsb_exists. exists f. split; [|rewrite Hty; reflexivity].
    unfold all_fields. apply in_flat_map. exists (k, r). auto. }
  unfold serde_file. cbv zeta. unfold needs_serde. rewrite !Hx. rewrite ?orb_true_r. cbn [orb]. eexists. split; [reflexivity|].
  repeat rewrite in_app_iff. cbn [ts In]. intuition.
Qed.

Theorem with_naz_backed h tp k r f :
  In (k, r) (h_schemas h) -> In f (record_fields r) -> f_ty f = TInteger INullAsZero ->
  exists c, serde_file h tp = Some c /\ In (Txt (tp_null_as_zero tp)) c.
Proof.
  intros Hin Hf Hty.
  assert (Hx : x_null_as_zero (calculate_extras h) = true).
  { unfold calculate_extras. cbn [x_null_as_zero]. apply existsb_exists. exists f. split; [|rewrite Hty; reflexivity].
    unfold all_fields. apply in_flat_map. exists (k, r). auto. }
  unfold serde_file. cbv zeta. unfold needs_serde. rewrite !Hx. rewrite ?orb_true_r. cbn [orb]. eexists. split; [reflexivity|].
  repeat rewrite in_app_iff. cbn [ts In]. intuition.
Qed.

Theorem with_date_backed h tp k r f :
  In (k, r) (h_schemas h) -> In f (record_fields r) -> f_ty f = TDate DInteger ->
  exists c, serde_file h tp = Some c /\ In (Txt (tp_date_as_int tp)) c.
Proof.
  intros Hin Hf Hty.
  assert (Hx : x_int_date (calculate_extras h) = true).
  { unfold calculate_extras. cbn [x_int_date]. apply existsb_exists. exists f. split; [|rewrite Hty; reflexivity].
    unfold all_fields. apply in_flat_map. exists (k, r). auto. }
  unfold serde_file. cbv zeta. unfold needs_serde. rewrite !Hx. rewrite ?orb_true_r. cbn [orb]. eexists. split; [reflexivity|].
  repeat rewrite in_app_iff. cbn [ts In]. intuition.
Qed.

(* ================= C15: server selection ================= *)
Theorem one_server sp url d : servers sp = [(url, d)] -> extract_servers sp = [(lit "default", url)].
Proof. unfold extract_servers. intros ->. reflexivity. Qed.

Theorem no_server sp : servers sp = [] -> extract_servers sp = [].
Proof. unfold extract_servers. intros ->. reflexivity. Qed.

Theorem strategy_of_table h :
  server_strategy_of h = match h_servers h with [] => SSBaseUrl | [(_, u)] => SSSingle u | _ => SSEnv end.
Proof. reflexivity. Qed.

(* words of "<a> <b>" are the words of a followed by the words of b *)
Lemma boundary_space_next p c : boundary p c (Some " "%char) = boundary p c None.
Proof. destruct p as [q|]; [|reflexivity]. cbn. unfold three. rewrite andb_false_r. reflexivity. Qed.

Lemma boundary_space_prev c x : boundary (Some " "%char) c x = false.
Proof. cbn. destruct x; reflexivity. Qed.

Lemma split_go_space_prev s : split_go (Some " "%char) s = split_go None s.
Proof.
  destruct s as [|c r]; [reflexivity|]. cbn [split_go]. rewrite boundary_space_prev. reflexivity.
Qed.

Lemma split_go_app a b : forall prev,
  fst (split_go prev (a ++ " "%char :: b)) = fst (split_go prev a) /\
  snd (split_go prev (a ++ " "%char :: b)) = snd (split_go prev a) ++ fst (split_go None b) :: snd (split_go None b).
Proof.
  induction a as [|c r IH]; intros prev.
  - cbn [app split_go]. rewrite split_go_space_prev. destruct (split_go None b) as [w ws]. cbn. auto.
  - cbn [app split_go]. specialize (IH (Some c)).
    destruct (split_go (Some c) (r ++ " "%char :: b)) as [w ws]. destruct (split_go (Some c) r) as [w' ws'].
    cbn [fst snd] in IH. destruct IH as [-> ->].
    assert (Hn : hd_opt (r ++ " "%char :: b) = hd_opt r \/ (r = [] /\ hd_opt (r ++ " "%char :: b) = Some " "%char)).
    { destruct r; [right; auto|left; reflexivity]. }
    assert (Hb : boundary prev c (hd_opt (r ++ " "%char :: b)) = boundary prev c (hd_opt r)).
    { destruct Hn as [->|[-> ->]]; [reflexivity|]. cbn [hd_opt]. apply boundary_space_next. }
    rewrite Hb. destruct (is_delim c); [cbn; auto|]. destruct (boundary prev c (hd_opt r)); cbn; auto.
Qed.

Theorem split_words_space a b : split_words (a ++ " "%char :: b) = split_words a ++ split_words b.
Proof.
  unfold split_words. destruct (split_go_app a b None) as [H1 H2].
  destruct (split_go None (a ++ " "%char :: b)) as [w ws]. destruct (split_go None a) as [w1 ws1].
  destruct (split_go None b) as [w2 ws2]. cbn [fst snd] in *. subst.
  change (w1 :: ws1 ++ w2 :: ws2) with ((w1 :: ws1) ++ (w2 :: ws2)). apply filter_app.
Qed.

Lemma join_app_nonempty (sep : str) a b : a <> [] -> b <> [] -> join sep (a ++ b) = join sep a ++ sep ++ join sep b.
Proof.
  induction a as [|x a IH]; intros Ha Hb; [congruence|]. destruct a as [|y a'].
  - cbn [app]. destruct b as [|z b']; [congruence|]. reflexivity.
  - change (join sep ((x :: y :: a') ++ b)) with (x ++ sep ++ join sep ((y :: a') ++ b)).
    rewrite IH by (congruence || assumption).
    change (join sep (x :: y :: a')) with (x ++ sep ++ join sep (y :: a')). rewrite <- !app_assoc. reflexivity.
Qed.

(* <SERVICE>_<NAME>: the qualified variable name is the service part, an underscore, the variable part *)
Theorem qualified_env_var_split svc v : split_words svc <> [] -> split_words v <> [] ->
  qualified_env_var svc v = screaming_snake svc ++ lit "_" ++ screaming_snake v.
Proof.
  intros Hs Hv. unfold qualified_env_var, screaming_snake.
  change (svc ++ lit " " ++ v) with (svc ++ " "%char :: v). rewrite split_words_space, map_app.
  apply join_app_nonempty; [destruct (split_words svc); [congruence|discriminate]|destruct (split_words v); [congruence|discriminate]].
Qed.

(* the variable the generated client reads is the one hir::ServerStrategy::env_var_for_strategy documents *)
Theorem base_url_var_agrees svc : split_words svc <> [] ->
  Some (qualified_env_var svc (lit "base_url")) = env_var_for_strategy SSBaseUrl svc.
Proof.
  intros H. cbn [env_var_for_strategy]. f_equal. rewrite qualified_env_var_split by (assumption || discriminate). reflexivity.
Qed.

Theorem env_var_agrees svc : split_words svc <> [] ->
  Some (qualified_env_var svc (lit "env")) = env_var_for_strategy SSEnv svc.
Proof.
  intros H. cbn [env_var_for_strategy]. f_equal. rewrite qualified_env_var_split by (assumption || discriminate). reflexivity.
Qed.

(* ================= C14: credentials ================= *)
(* every request module calls `authenticate` exactly when the document declares security *)
Theorem request_calls_authenticate h cfg o c : request_file h cfg o = Ok c ->
  exists pre post sname output url assigns,
    c = pre ++ into_future_impl (has_security h) sname output url (ts (o_method o)) assigns ++ post /\
    make_url o = Ok url /\ print_plan (request_plan (o_params o)) = Ok assigns.
Proof.
  unfold request_file. intros H.
  apply bind_ok in H as [imports [_ H]]. apply bind_ok in H as [imports2 [_ H]]. apply bind_ok in H as [rstruct [_ H]].
  apply bind_ok in H as [reqd [_ H]]. apply bind_ok in H as [sname [_ H]].
  apply bind_ok in H as [method [Hm H]]. apply bind_ok in H as [url [Hu H]]. apply bind_ok in H as [builders [_ H]].
  apply bind_ok in H as [assigns [Ha H]]. apply bind_ok in H as [output [_ H]]. apply bind_ok in H as [cm [_ H]]. apply bind_ok in H as [cid [_ H]].
  apply bind_ok in H as [model_import [_ H]].
  assert (Em : method = ts (o_method o)).
  { unfold ident in Hm. destruct (ident_new_ok (o_method o)); [|discriminate]. apply Ok_inj in Hm. auto. }
  subst method.
  match type of H with
  | Ok (?a ++ ?b ++ ?c0 ++ ?d ++ ?e ++ ?f ++ ?g ++ ?h0 ++ ?i ++ into_future_impl ?au ?sn ?ou ?ur ?me ?asg ++ ?post) = _ =>
      exists (a ++ b ++ c0 ++ d ++ e ++ f ++ g ++ h0 ++ i), post, sn, ou, ur, asg
  end.
  apply Ok_inj in H. subst c. split; [rewrite <- !app_assoc; reflexivity|]. split; [exact Hu|exact Ha].
Qed.

(* with security the request is passed through `authenticate` right before it is sent; without, nothing is inserted *)
Theorem into_future_with_auth sname output url method assigns :
  exists pre, into_future_impl true sname output url method assigns =
    pre ++ assigns ++ t "r = self.client.authenticate(r);" ++ t "let res = r.await?; res.json().map_err(Into::into) }) } }".
Proof. eexists. unfold into_future_impl. rewrite !app_assoc. reflexivity. Qed.

Theorem into_future_without_auth sname output url method assigns :
  exists pre, into_future_impl false sname output url method assigns =
    pre ++ assigns ++ t "let res = r.await?; res.json().map_err(Into::into) }) } }".
Proof. eexists. unfold into_future_impl. cbn [app]. rewrite !app_assoc. reflexivity. Qed.

(* where each kind of credential is put by the generated `authenticate` *)
Theorem placement_header k f : auth_set_value f (AHeader k) = t "r = r.header(" ++ [Lit k] ++ t "," ++ f ++ t ");".
Proof. reflexivity. Qed.
Theorem placement_query k f : auth_set_value f (AQuery k) = t "r = r.query(" ++ [Lit k] ++ t "," ++ f ++ t ");".
Proof. reflexivity. Qed.
Theorem placement_cookie k f : auth_set_value f (ACookie k) = t "r = r.cookie(" ++ [Lit k] ++ t "," ++ f ++ t ");".
Proof. reflexivity. Qed.
Theorem placement_bearer f : auth_set_value f ABearer = t "r = r.bearer_auth(" ++ f ++ t ");".
Proof. reflexivity. Qed.
Theorem placement_basic f : auth_set_value f ABasic = t "r = r.basic_auth(" ++ f ++ t ");".
Proof. reflexivity. Qed.

(* what the extractor makes of each scheme kind *)
Theorem scheme_locations key : extract_key_location PQuery key = AQuery key /\ extract_key_location PCookie key = ACookie key
  /\ (mem_str (snake key) [lit "bearer_auth"; lit "bearer"] = false -> extract_key_location PHeader key = AHeader key).
Proof. repeat split. unfold extract_key_location. intros ->. reflexivity. Qed.

(* the enum definition, the match arm and from_env all use the same identifiers for a token strategy *)
Theorem auth_idents_agree h cfg name fields rest :
  h_security h = AuthToken name fields :: rest ->
  forall e a fe aid, auth_enum h cfg = Ok e -> authenticate_variant aid (AuthToken name fields) = Ok a -> auth_from_env h cfg = Ok fe ->
  exists v fs, struct_ident name = Ok v /\ mapM (fun fl => field_ident (fst fl)) fields = Ok fs.
Proof.
  intros Hs e a fe aid _ Ha _. unfold authenticate_variant in Ha.
  apply bind_ok in Ha as [v [Hv Ha]]. apply bind_ok in Ha as [fs [Hfs _]]. eauto.
Qed.

(* from_env builds the variant of the FIRST declared strategy, reading each credential from <SERVICE>_<NAME> *)
Theorem from_env_first h cfg name fields rest c : h_security h = AuthToken name fields :: rest ->
  auth_from_env h cfg = Ok c ->
  exists v fs, struct_ident name = Ok v /\ mapM (from_env_field cfg) fields = Ok fs /\
    c = t "pub fn from_env() -> Self { Self ::" ++ v ++ t "{" ++ sep_by (t ",") fs ++ t "} }".
Proof.
  intros Hs H. unfold auth_from_env in H. rewrite Hs in H. apply bind_ok in H as [fs [Hfs H]]. apply bind_ok in H as [v [Hv H]].
  apply Ok_inj in H. subst c. eauto.
Qed.

Theorem from_env_field_var cfg fname loc s : from_env_field cfg (fname, loc) = Ok s ->
  exists fid tail, field_ident fname = Ok fid /\
    (s = fid ++ t ": std::env::var(" ++ [Lit (qualified_env_var (c_name cfg) fname)] ++ tail \/
     s = fid ++ t ": { let value = std::env::var(" ++ [Lit (qualified_env_var (c_name cfg) fname)] ++ tail).
Proof.
  unfold from_env_field. intros H. apply bind_ok in H as [fid [Hf H]]. apply Ok_inj in H. subst s.
  exists fid. destruct loc; eexists; (split; [exact Hf|]); try (left; reflexivity); right; reflexivity.
Qed.

(* ================= C16: examples ================= *)
(* the example declares one `let` per required input, passes them (positionally or as the fields of the
   required-arguments struct), chains one setter per optional input, and calls the operation's method once *)
Theorem example_shape fuel h cfg o c : example_file fuel h cfg o = Ok c ->
  exists decls fn_args optionals cid opid imp3,
    mapM (fun p => do id <- field_ident (p_name p); do v <- example_value fuel h (p_ty p) (p_name p) true;
                   Ok (t "let" ++ id ++ t "=" ++ v ++ t ";")) (required_params o) = Ok decls /\
    mapM (fun p => do id <- field_ident (p_name p); do v <- example_value fuel h (p_ty p) (p_name p) true;
                   Ok (t "." ++ id ++ t "(" ++ v ++ t ")")) (optional_params o) = Ok optionals /\
    field_ident (o_name o) = Ok opid /\
    c = t "#![allow(unused_imports)] use" ++ ts (package_name (c_name cfg)) ++ t ":: model :: * ; use" ++ ts (package_name (c_name cfg)) ++ t ":: {" ++ cid ++ t "};" ++ imp3 ++
        t "#[tokio::main] async fn main() { let client =" ++ cid ++ t "::from_env();" ++ concat decls ++
        t "let response = client ." ++ opid ++ t "(" ++ fn_args ++ t ")" ++ concat optionals ++
        t ".await.unwrap(); println!(" ++ sl (lit "{:#?}") ++ t ", response); }".
Proof.
  unfold example_file. intros H. apply bind_ok in H as [decls [Hd H]]. apply bind_ok in H as [fn_args [_ H]].
  apply bind_ok in H as [optionals [Ho H]]. apply bind_ok in H as [u [_ H]]. apply bind_ok in H as [cid [_ H]].
  apply bind_ok in H as [imp3 [_ H]]. apply bind_ok in H as [opid [Hop H]]. apply Ok_inj in H. subst c.
  exists decls, fn_args, optionals, cid, opid, imp3. repeat split; assumption.
Qed.

(* the recursion has no visited set: on a schema that contains itself through a plain member the synthesis never
   returns, whatever the fuel — this is the stack overflow of the real process (open finding) *)
Definition node_hir : hirspec :=
  {| h_ops := [];
     h_schemas := [(lit "Node", RStruct (lit "Node") false
                      [(lit "child", {| f_ty := TModel (lit "Node"); f_optional := false; f_doc := None; f_flatten := false |})] None)];
     h_servers := []; h_security := []; h_docs_url := None |}.

Theorem example_diverges_on_cycle : forall fuel name b, example_value fuel node_hir (TModel (lit "Node")) name b = Err EDiverge.
Proof.
  induction fuel as [|f IH]; intros name b; [reflexivity|].
  cbn [example_value]. change (assoc (h_schemas node_hir) (lit "Node")) with
    (Some (RStruct (lit "Node") false [(lit "child", {| f_ty := TModel (lit "Node"); f_optional := false; f_doc := None; f_flatten := false |})] None)).
  cbn [mapM f_ty f_optional]. rewrite IH. reflexivity.
Qed.

Theorem implements_default_diverges_on_cycle : forall fuel, ty_implements_default fuel node_hir (TModel (lit "Node")) = Err EDiverge.
Proof.
  induction fuel as [|f IH]; [reflexivity|].
  cbn [ty_implements_default]. change (assoc (h_schemas node_hir) (lit "Node")) with
    (Some (RStruct (lit "Node") false [(lit "child", {| f_ty := TModel (lit "Node"); f_optional := false; f_doc := None; f_flatten := false |})] None)).
  cbn [record_fields map snd f_ty]. rewrite IH. reflexivity.
Qed.
