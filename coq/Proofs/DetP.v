(* DetP.v — the generated tree as a function of (document, configuration) only (C09): the crate model of Crate.v feeds
   the directory-tree machine of Fs.v; its plan never writes a path twice, so the file-system theorems apply to it. *)
From LN Require Import Model.Crate Model.Fs Proofs.CharsP Proofs.FsP Proofs.NormP Proofs.CrateP Proofs.ShakeP.
Local Open Scope nat_scope.

Section Plan.
(* syn + prettyplease + the header comment: any function of the token text *)
Variable fmt : str -> str.

Definition plan_of (files : list (str * src)) (lib_alt : option src) : list wr :=
  map (fun pc => {| w_path := fst pc; w_code := fmt (render (snd pc));
                    w_alt := if str_eqb (fst pc) (lit "src/lib.rs")
                             then match lib_alt with Some c => Some (fmt (render c)) | None => None end
                             else None |}) files.

Lemma plan_of_paths files alt : paths (plan_of files alt) = map fst files.
Proof. unfold paths, plan_of. rewrite map_map. reflexivity. Qed.

(* what one run of `libninja gen` intends to write: every file of the crate, lib.rs in its two variants *)
Definition crate_plan (fuel : nat) (h : hirspec) (cfg : config) (tp : templates) : result (list wr) :=
  do files <- emit_crate fuel h cfg tp;
  do alt <- lib_file h cfg false;
  Ok (plan_of files (Some alt)).

Theorem crate_plan_wf fuel h cfg tp plan : schemas_distinct h -> ops_distinct h ->
  crate_plan fuel h cfg tp = Ok plan -> plan_wf plan.
Proof.
  intros Hs Ho H. unfold crate_plan in H. apply bind_ok in H as [files [Hf H]]. apply bind_ok in H as [alt [_ H]].
  apply Ok_inj in H. subst plan. unfold plan_wf. rewrite plan_of_paths. eapply crate_paths_nodup; eauto.
Qed.

(* generating again over the result of a generation — from an empty directory or from any earlier tree — changes nothing *)
Theorem regenerate_in_place fuel h cfg tp plan t p : schemas_distinct h -> ops_distinct h ->
  crate_plan fuel h cfg tp = Ok plan -> markers_free plan -> wf t ->
  lookup (gen plan (gen plan t)) p = lookup (gen plan t) p.
Proof.
  intros Hs Ho H Hm Hw. apply gen_idempotent; [eapply crate_plan_wf; eauto|exact Hw|exact Hm].
Qed.

Corollary fresh_then_again fuel h cfg tp plan p : schemas_distinct h -> ops_distinct h ->
  crate_plan fuel h cfg tp = Ok plan -> markers_free plan ->
  lookup (gen plan (gen plan [])) p = lookup (gen plan []) p.
Proof. intros. eapply regenerate_in_place; eauto. constructor. Qed.
End Plan.

(* ---------- the file-system theorems instantiated with the plan of the generated crate ---------- *)
Section CratePlan.
Variable fmt : str -> str.

(* C10 for the real plan: whatever the document and configuration (under D's name distinctness), a file marked static is
   byte-identical after the generation *)
Theorem crate_static_untouched fuel h cfg tp plan t p c : schemas_distinct h -> ops_distinct h ->
  crate_plan fmt fuel h cfg tp = Ok plan -> wf t ->
  lookup t p = Some c -> has_static (decode c) = true -> lookup (gen plan t) p = Some c.
Proof.
  intros Hs Ho Hp Hw Hl Hst. eapply static_untouched; eauto. eapply crate_plan_wf; eauto.
Qed.

(* C12 for the real plan: what is in scope afterwards is exactly what the crate consists of (plus static files) *)
Theorem crate_cleanup_exact fuel h cfg tp plan t p : schemas_distinct h -> ops_distinct h ->
  crate_plan fmt fuel h cfg tp = Ok plan -> wf t -> in_scope p = true ->
  (lookup (gen plan t) p <> None <->
   planned plan p = true \/ exists c, lookup t p = Some c /\ has_static (decode c) = true).
Proof.
  intros Hs Ho Hp Hw Hin. apply cleanup_exact; [eapply crate_plan_wf; eauto|exact Hw|exact Hin].
Qed.
End CratePlan.
