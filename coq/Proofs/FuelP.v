(* FuelP.v — the fuel of the model is irrelevant to its answers: whenever a fuel-indexed function of the model returns
   a value, every larger fuel returns the same value. The driver's choice of fuel (200) therefore cannot influence what
   the implementation is compared with, and `Err EDiverge` is the only answer that may change with more fuel. *)
From Coq Require Import Lia.
From LN Require Import Model.Crate Proofs.CharsP Proofs.TypingP.
Local Open Scope nat_scope.

(* r2 answers whatever r1 answers *)
Definition le_res {A} (r1 r2 : result A) : Prop := forall a, r1 = Ok a -> r2 = Ok a.

Lemma le_res_refl {A} (r : result A) : le_res r r.
Proof. intros a H. exact H. Qed.

Lemma le_res_bind {A B} (r1 r2 : result A) (k1 k2 : A -> result B) :
  le_res r1 r2 -> (forall a, le_res (k1 a) (k2 a)) -> le_res (bind r1 k1) (bind r2 k2).
Proof.
  intros Hr Hk b H. apply bind_ok in H as [a [Ha Hb]]. rewrite (Hr _ Ha). cbn [bind]. apply Hk. exact Hb.
Qed.

Lemma le_res_mapM {A B} (f g : A -> result B) l : (forall x, le_res (f x) (g x)) -> le_res (mapM f l) (mapM g l).
Proof.
  intros H. induction l as [|x l IH]; [apply le_res_refl|]. cbn [mapM].
  apply le_res_bind; [apply H|]. intros y. apply le_res_bind; [exact IH|]. intros ys. apply le_res_refl.
Qed.

Lemma le_res_fold {A B} (f g : A -> B -> result A) (l : list B) :
  (forall a b, le_res (f a b) (g a b)) ->
  forall r1 r2, le_res r1 r2 ->
  le_res (fold_left (fun acc b => do a <- acc; f a b) l r1) (fold_left (fun acc b => do a <- acc; g a b) l r2).
Proof.
  intros H. induction l as [|b l IH]; intros r1 r2 Hr; cbn [fold_left]; [exact Hr|].
  apply IH. apply le_res_bind; [exact Hr|]. intros a. apply H.
Qed.

Ltac lr_step := first
  [ apply le_res_refl
  | apply le_res_bind; [|intros ?]
  | apply le_res_mapM; intros ? ].

Section Extract.
Variable sp : spec.

Lemma is_primitive_mono : forall f s g, f <= g -> le_res (is_primitive f sp s) (is_primitive g sp s).
Proof.
  induction f as [|f IH]; intros s g Hle b H; [discriminate H|]. destruct g as [|g]; [lia|].
  cbn [is_primitive] in *. destruct (s_kind s) as [fmt en| | | |props req addl|items|l|l|l| |]; try exact H.
  - destruct items as [inner|]; [|exact H]. revert b H. apply le_res_bind; [apply le_res_refl|]. intros s'. apply IH. lia.
  - destruct l as [|x [|y l]]; try exact H. revert b H. apply le_res_bind; [apply le_res_refl|]. intros s'. apply IH. lia.
Qed.

Lemma schema_to_ty_mono : forall f s g, f <= g -> le_res (schema_to_ty f sp s) (schema_to_ty g sp s).
Proof.
  induction f as [|f IH]; intros s g Hle t H; [discriminate H|]. destruct g as [|g]; [lia|].
  assert (R : forall r, le_res (do s' <- resolve sp r; do p <- is_primitive f sp s';
                                 if p then schema_to_ty f sp s' else match r with Ref n => ty_model n | Inl s'' => schema_to_ty f sp s'' end)
                                (do s' <- resolve sp r; do p <- is_primitive g sp s';
                                 if p then schema_to_ty g sp s' else match r with Ref n => ty_model n | Inl s'' => schema_to_ty g sp s'' end)).
  { intros r. apply le_res_bind; [apply le_res_refl|]. intros s'. apply le_res_bind; [apply is_primitive_mono; lia|].
    intros p. destruct p; [apply IH; lia|]. destruct r; [apply le_res_refl|apply IH; lia]. }
  cbn [schema_to_ty] in *. destruct (s_kind s) as [fmt en| | | |props req addl|items|l|l|l| |]; try exact H.
  - destruct items as [item|]; [|exact H]. revert t H. apply le_res_bind; [apply R|]. intros t0. apply le_res_refl.
  - destruct l as [|x [|y l]]; try exact H. revert t H. apply R.
Qed.

Lemma schema_ref_to_ty2_mono f g r s : f <= g -> le_res (schema_ref_to_ty2 f sp r s) (schema_ref_to_ty2 g sp r s).
Proof.
  intros Hle. unfold schema_ref_to_ty2. apply le_res_bind; [apply is_primitive_mono; exact Hle|].
  intros p. destruct p; [apply schema_to_ty_mono; exact Hle|]. destruct r; [apply le_res_refl|apply schema_to_ty_mono; exact Hle].
Qed.

Lemma schema_ref_to_ty_mono f g r : f <= g -> le_res (schema_ref_to_ty f sp r) (schema_ref_to_ty g sp r).
Proof. intros Hle. unfold schema_ref_to_ty. apply le_res_bind; [apply le_res_refl|]. intros s. apply schema_ref_to_ty2_mono. exact Hle. Qed.

Lemma extract_fields_mono f g props parent : f <= g -> le_res (extract_fields f sp props parent) (extract_fields g sp props parent).
Proof.
  intros Hle. unfold extract_fields. apply le_res_bind; [|intros l; apply le_res_refl].
  apply le_res_mapM. intros [name r]. apply le_res_bind; [apply le_res_refl|]. intros s.
  apply le_res_bind; [apply schema_ref_to_ty2_mono; exact Hle|]. intros t. apply le_res_refl.
Qed.

Lemma create_field_mono f g r : f <= g -> le_res (create_field f sp r) (create_field g sp r).
Proof.
  intros Hle. unfold create_field. apply le_res_bind; [apply le_res_refl|]. intros s.
  apply le_res_bind; [apply schema_ref_to_ty2_mono; exact Hle|]. intros t. apply le_res_refl.
Qed.

Lemma all_of_props_mono f g req ps : f <= g -> forall acc, le_res (all_of_props f sp req ps acc) (all_of_props g sp req ps acc).
Proof.
  intros Hle. induction ps as [|[pn pr] ps IH]; intros acc; cbn [all_of_props]; [apply le_res_refl|].
  apply le_res_bind; [apply create_field_mono; exact Hle|]. intros fl. apply IH.
Qed.

Lemma all_of_fields_mono f g l : f <= g -> forall acc, le_res (all_of_fields f sp l acc) (all_of_fields g sp l acc).
Proof.
  intros Hle. induction l as [|r l IH]; intros acc; cbn [all_of_fields]; [apply le_res_refl|].
  destruct r as [n|item].
  - apply le_res_bind; [apply create_field_mono; exact Hle|]. intros fl. apply IH.
  - destruct (get_properties item) as [props|]; [|apply IH].
    apply le_res_bind; [apply all_of_props_mono; exact Hle|]. intros acc'. apply IH.
Qed.

Lemma extract_all_of_mono f g name all_of data schemas : f <= g ->
  le_res (extract_all_of f sp name all_of data schemas) (extract_all_of g sp name all_of data schemas).
Proof.
  intros Hle. unfold extract_all_of. destruct (Nat.eqb (effective_length all_of) 1).
  - destruct all_of as [|x l]; [apply le_res_refl|]. apply le_res_bind; [apply schema_ref_to_ty_mono; exact Hle|]. intros t. apply le_res_refl.
  - apply le_res_bind; [apply all_of_fields_mono; exact Hle|]. intros fs. apply le_res_refl.
Qed.

Lemma extract_newtype_mono f g name s schemas : f <= g ->
  le_res (extract_newtype f sp name s schemas) (extract_newtype g sp name s schemas).
Proof. intros Hle. unfold extract_newtype. apply le_res_bind; [apply schema_to_ty_mono; exact Hle|]. intros t. apply le_res_refl. Qed.

Lemma extract_schema_mono : forall f name s schemas g, f <= g ->
  le_res (extract_schema f sp name s schemas) (extract_schema g sp name s schemas).
Proof.
  induction f as [|f IH]; intros name s schemas g Hle m H; [discriminate H|]. destruct g as [|g]; [lia|].
  cbn [extract_schema] in *. revert m H.
  destruct (s_kind s) as [fmt en| | | |props req addl|items|l|l|l| |];
    try (apply extract_newtype_mono; exact Hle).
  - destruct en; [apply extract_newtype_mono; exact Hle|apply le_res_refl].
  - destruct props as [|p ps]; [destruct addl as [a|]|].
    + apply le_res_bind; [|intros t; apply le_res_refl]. destruct a; [apply le_res_refl|].
      apply le_res_bind; [apply le_res_refl|]. intros s'. apply schema_ref_to_ty2_mono. exact Hle.
    + apply le_res_bind; [apply extract_fields_mono; exact Hle|]. intros fs. apply le_res_refl.
    + apply le_res_bind; [apply extract_fields_mono; exact Hle|]. intros fs. apply le_res_refl.
  - destruct items as [[n|item]|]; try (apply extract_newtype_mono; exact Hle).
    destruct (create_unique_name (map fst schemas) name name) as [n|]; [apply IH; lia|apply extract_newtype_mono; exact Hle].
  - apply extract_all_of_mono. exact Hle.
Qed.

Lemma extract_param_mono f g p : f <= g -> le_res (extract_param f sp p) (extract_param g sp p).
Proof.
  intros Hle. unfold extract_param. apply le_res_bind; [apply le_res_refl|]. intros s.
  apply le_res_bind; [apply schema_ref_to_ty2_mono; exact Hle|]. intros t. apply le_res_refl.
Qed.

Lemma properties_iter_mono : forall f s g, f <= g -> le_res (properties_iter f sp s) (properties_iter g sp s).
Proof.
  induction f as [|f IH]; intros s g Hle l H; [discriminate H|]. destruct g as [|g]; [lia|].
  cbn [properties_iter] in *. destruct (s_kind s) as [fmt en| | | |props req addl|items|l0|l0|l0| |]; try exact H.
  revert l H. apply le_res_bind; [|intros ls; apply le_res_refl]. apply le_res_mapM. intros r.
  apply le_res_bind; [apply le_res_refl|]. intros s'. apply IH. lia.
Qed.

Lemma body_requires_mono : forall f body name g, f <= g -> le_res (body_requires f sp body name) (body_requires g sp body name).
Proof.
  induction f as [|f IH]; intros body name g Hle b H; [discriminate H|]. destruct g as [|g]; [lia|].
  cbn [body_requires] in *. destruct (s_kind body) as [fmt en| | | |props req addl|items|l|l|l| |]; try exact H.
  revert b H. induction l as [|r l IHl]; [apply le_res_refl|].
  apply le_res_bind; [apply le_res_refl|]. intros m.
  apply le_res_bind; [apply properties_iter_mono; lia|]. intros props.
  apply le_res_bind; [destruct (existsb _ props); [apply IH; lia|apply le_res_refl]|].
  intros here. destruct here; [apply le_res_refl|exact IHl].
Qed.

Lemma extract_parameters_mono f g o item : f <= g -> le_res (extract_parameters f sp o item) (extract_parameters g sp o item).
Proof.
  intros Hle. unfold extract_parameters.
  apply le_res_bind; [apply le_res_mapM; intros p; apply extract_param_mono; exact Hle|]. intros inputs.
  apply le_res_bind; [apply le_res_mapM; intros p; apply extract_param_mono; exact Hle|]. intros args.
  destruct (op_body o) as [br|]; [|apply le_res_refl].
  apply le_res_bind; [apply le_res_refl|]. intros body.
  destruct (s_kind body) as [fmt en| | | |props req addl|items|l|l|l| |];
    try (apply le_res_bind; [apply properties_iter_mono; exact Hle|]; intros props0; destruct props0 as [|pr prs]; [apply le_res_refl|];
         apply le_res_bind; [|intros bargs; apply le_res_refl]; apply le_res_mapM; intros [name r];
         apply le_res_bind; [apply schema_ref_to_ty_mono; exact Hle|]; intros t; apply le_res_bind; [apply le_res_refl|]; intros ps;
         apply le_res_bind; [apply body_requires_mono; exact Hle|]; intros rq; apply le_res_refl).
  apply le_res_bind; [|intros t; apply le_res_refl]. destruct items as [i|]; [apply schema_ref_to_ty_mono; exact Hle|apply le_res_refl].
Qed.

Lemma extract_operation_mono f g item o h : f <= g -> le_res (extract_operation f sp item o h) (extract_operation g sp item o h).
Proof.
  intros Hle. unfold extract_operation. apply le_res_bind; [apply le_res_refl|]. intros name.
  apply le_res_bind; [apply extract_parameters_mono; exact Hle|]. intros params.
  apply le_res_bind; [apply le_res_refl|]. intros res.
  apply le_res_bind; [|intros [ret schemas']; apply le_res_refl].
  destruct res as [[n|r]|]; [| |apply le_res_refl].
  - apply le_res_bind; [apply schema_ref_to_ty_mono; exact Hle|]. intros t. apply le_res_refl.
  - apply le_res_bind; [apply extract_schema_mono; exact Hle|]. intros schemas'.
    apply le_res_bind; [apply is_primitive_mono; exact Hle|]. intros prim.
    destruct (prim || is_array_schema r); [|apply le_res_refl].
    apply le_res_bind; [apply schema_to_ty_mono; exact Hle|]. intros t. apply le_res_refl.
Qed.

Theorem extract_spec_mono f g : f <= g -> le_res (extract_spec f sp) (extract_spec g sp).
Proof.
  intros Hle. unfold extract_spec. apply le_res_bind; [|intros h; apply le_res_refl].
  unfold extract_without_treeshake.
  apply le_res_bind.
  - apply (le_res_fold (fun m ns => extract_schema f sp (fst ns) (snd ns) m) (fun m ns => extract_schema g sp (fst ns) (snd ns) m)); [|apply le_res_refl].
    intros m ns. apply extract_schema_mono. exact Hle.
  - intros schemas. apply le_res_bind; [|intros h1; apply le_res_refl].
    apply (le_res_fold (fun h io => extract_operation f sp (fst io) (snd io) h) (fun h io => extract_operation g sp (fst io) (snd io) h)); [|apply le_res_refl].
    intros h io. apply extract_operation_mono. exact Hle.
Qed.
End Extract.

(* ---------- emission ---------- *)
Section Emit.
Variable h : hirspec.

Lemma all_default_mono f g l : f <= g -> le_res (all_default f h l) (all_default g h l).
Proof. intros Hle b H. eapply all_default_mono_le; eauto. Qed.

Lemma example_value_mono : forall f x name b g, f <= g -> le_res (example_value f h x name b) (example_value g h x name b).
Proof.
  induction f as [|f IH]; intros x name b g Hle c H; [discriminate H|]. destruct g as [|g]; [lia|].
  assert (Hfg : f <= g) by lia.
  destruct x as [|s| | |i|i|m| |s| | |]; try exact H.
  - (* array *) cbn [example_value] in *. revert c H. apply le_res_bind; [apply IH; exact Hfg|]. intros v. apply le_res_refl.
  - (* model *) cbn [example_value] in *. destruct (assoc (h_schemas h) m) as [r|]; [|exact H].
    revert c H. destruct r as [rn nl fields dc|nname fields dc|aname fl|ename variants dc].
    + apply le_res_bind; [|intros fs; apply le_res_refl]. apply le_res_mapM. intros [fname fl].
      apply le_res_bind; [apply IH; exact Hfg|]. intros v. apply le_res_refl.
    + apply le_res_bind; [|intros fs; apply le_res_refl]. apply le_res_mapM. intros fl. apply IH. exact Hfg.
    + apply le_res_bind; [apply IH; exact Hfg|]. intros v. apply le_res_refl.
    + apply le_res_refl.
Qed.

Lemma make_item_mono cfg f g r : f <= g -> le_res (make_item f h cfg r) (make_item g h cfg r).
Proof.
  intros Hle. destruct r as [n nl fs d|n fs d|n fl|n vs d]; cbn [make_item]; try apply le_res_refl.
  - unfold make_class. apply le_res_bind; [apply all_default_mono; exact Hle|]. intros dflt. apply le_res_refl.
  - unfold make_newtype. apply le_res_bind; [apply le_res_refl|]. intros nm. apply le_res_bind; [apply le_res_refl|]. intros tys.
    apply le_res_bind; [apply all_default_mono; exact Hle|]. intros dflt. apply le_res_refl.
Qed.

Lemma model_file_mono cfg f g r : f <= g -> le_res (model_file f h cfg r) (model_file g h cfg r).
Proof.
  intros Hle. unfold model_file. apply le_res_bind; [apply le_res_refl|]. intros names.
  apply le_res_bind; [apply le_res_refl|]. intros si. apply le_res_bind; [apply make_item_mono; exact Hle|]. intros item. apply le_res_refl.
Qed.

Lemma example_file_mono cfg f g o : f <= g -> le_res (example_file f h cfg o) (example_file g h cfg o).
Proof.
  intros Hle. unfold example_file.
  apply le_res_bind; [apply le_res_mapM; intros p; apply le_res_bind; [apply le_res_refl|]; intros id;
                      apply le_res_bind; [apply example_value_mono; exact Hle|]; intros v; apply le_res_refl|]. intros decls.
  apply le_res_bind; [apply le_res_refl|]. intros fn_args.
  apply le_res_bind; [apply le_res_mapM; intros p; apply le_res_bind; [apply le_res_refl|]; intros id;
                      apply le_res_bind; [apply example_value_mono; exact Hle|]; intros v; apply le_res_refl|]. intros optionals.
  apply le_res_refl.
Qed.

Theorem emit_crate_mono cfg tp f g : f <= g -> le_res (emit_crate f h cfg tp) (emit_crate g h cfg tp).
Proof.
  intros Hle. unfold emit_crate. apply le_res_bind; [apply le_res_refl|]. intros mm.
  apply le_res_bind.
  { unfold model_entries. apply le_res_mapM. intros kr. apply le_res_bind; [apply le_res_refl|]. intros fname.
    apply le_res_bind; [apply model_file_mono; exact Hle|]. intros c. apply le_res_refl. }
  intros ms. apply le_res_bind; [apply le_res_refl|]. intros rs. apply le_res_bind; [apply le_res_refl|]. intros rm.
  apply le_res_bind; [apply le_res_refl|]. intros lib.
  apply le_res_bind; [|intros exs; apply le_res_refl].
  unfold example_entries. destruct (c_examples cfg); [|apply le_res_refl].
  apply le_res_mapM. intros o. apply le_res_bind; [apply example_file_mono; exact Hle|]. intros c. apply le_res_refl.
Qed.
End Emit.

(* the whole pipeline: once it answers, every larger fuel gives the same answer *)
Theorem generate_fuel_irrelevant sp cfg tp f g files : f <= g ->
  generate f sp cfg tp = Ok files -> generate g sp cfg tp = Ok files.
Proof.
  intros Hle. revert files. change (le_res (generate f sp cfg tp) (generate g sp cfg tp)). unfold generate.
  apply le_res_bind; [apply extract_spec_mono; exact Hle|]. intros h. apply emit_crate_mono. exact Hle.
Qed.

(* consequently two fuels that both answer agree *)
Corollary generate_deterministic_in_fuel sp cfg tp f g x y :
  generate f sp cfg tp = Ok x -> generate g sp cfg tp = Ok y -> x = y.
Proof.
  intros Hx Hy. destruct (Nat.le_ge_cases f g) as [L|L].
  - pose proof (generate_fuel_irrelevant _ _ _ _ _ _ L Hx) as E. rewrite E in Hy. injection Hy as <-. reflexivity.
  - pose proof (generate_fuel_irrelevant _ _ _ _ _ _ L Hy) as E. rewrite E in Hx. injection Hx as <-. reflexivity.
Qed.
