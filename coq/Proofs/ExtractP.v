(* ExtractP.v — the table produced by extraction is closed: every model name mentioned by an operation or a
   record denotes a schema of the table — provided no component is an array with inline items (finding P5). *)
From LN Require Import Model.Shake Proofs.CharsP Proofs.ShakeP.
Local Open Scope nat_scope.

Section Extract.
Variable sp : spec.

Definition cnames : list str := map fst (components sp).

Lemma assoc_names {A} (l : list (str * A)) k v : assoc l k = Some v -> In k (map fst l).
Proof. intros H. apply assoc_in in H. apply in_map_iff. exists (k, v). auto. Qed.

Lemma resolve_ref_name n s : resolve sp (Ref n) = Ok s -> In n cnames.
Proof.
  cbn. destruct (assoc (components sp) n) eqn:E; [|discriminate]. intros _. eapply assoc_names; eauto.
Qed.

Lemma ty_model_ok n t : ty_model n = Ok t -> t = TModel n.
Proof. unfold ty_model. destruct (contains_char _ n); [discriminate|]. intros H. inversion H. reflexivity. Qed.

Definition models_ok (t : ty) : Prop := forall n, inner_model t = Some n -> In n cnames.

Lemma models_ok_prim t : inner_model t = None -> models_ok t.
Proof. intros H n E. congruence. Qed.

(* ---------- every Ty::Model comes from a $ref that resolved ---------- *)
Lemma schema_to_ty_models : forall fuel s t, schema_to_ty fuel sp s = Ok t -> models_ok t.
Proof.
  induction fuel as [|f IH]; intros s t H; [discriminate|].
  cbn [schema_to_ty] in H.
  assert (Href : forall r t', (do s' <- resolve sp r;
                               do p <- is_primitive f sp s';
                               if p then schema_to_ty f sp s'
                               else match r with Ref n => ty_model n | Inl s'' => schema_to_ty f sp s'' end) = Ok t' ->
                              models_ok t').
  { intros r t' Hr. apply bind_ok in Hr as [s' [Hres Hr]]. apply bind_ok in Hr as [p [_ Hr]].
    destruct p; [eapply IH; eauto|]. destruct r as [n|s''].
    - apply ty_model_ok in Hr. subst t'. intros m E. cbn in E. inversion E; subst. eapply resolve_ref_name; eauto.
    - eapply IH; eauto. }
  destruct (s_kind s) as [fmt en| | | |props req ad|items|l|l|l| |].
  - inversion H; subst. apply models_ok_prim. unfold string_format_ty.
    repeat match goal with |- context [if ?c then _ else _] => destruct c end; reflexivity.
  - inversion H; subst. apply models_ok_prim. destruct (s_naz s), (s_xdate s); reflexivity.
  - inversion H; subst. apply models_ok_prim. reflexivity.
  - inversion H; subst. apply models_ok_prim. reflexivity.
  - inversion H; subst. apply models_ok_prim. reflexivity.
  - destruct items as [item|].
    + apply bind_ok in H as [t' [Ht' H]]. inversion H; subst. intros n E. cbn in E. eapply Href; eauto.
    + inversion H; subst. apply models_ok_prim. reflexivity.
  - destruct l as [|x [|y l']].
    + inversion H; subst. apply models_ok_prim. reflexivity.
    + eapply Href; eauto.
    + inversion H; subst. apply models_ok_prim. reflexivity.
  - inversion H; subst. apply models_ok_prim. reflexivity.
  - inversion H; subst. apply models_ok_prim. reflexivity.
  - inversion H; subst. apply models_ok_prim. reflexivity.
  - inversion H; subst. apply models_ok_prim. reflexivity.
Qed.

Lemma schema_ref_to_ty2_models fuel r s t :
  resolve sp r = Ok s -> schema_ref_to_ty2 fuel sp r s = Ok t -> models_ok t.
Proof.
  intros Hres H. unfold schema_ref_to_ty2 in H. apply bind_ok in H as [p [_ H]].
  destruct p; [eapply schema_to_ty_models; eauto|]. destruct r as [n|s''].
  - apply ty_model_ok in H. subst t. intros m E. cbn in E. inversion E; subst. eapply resolve_ref_name; eauto.
  - eapply schema_to_ty_models; eauto.
Qed.

Lemma schema_ref_to_ty_models fuel r t : schema_ref_to_ty fuel sp r = Ok t -> models_ok t.
Proof.
  unfold schema_ref_to_ty. intros H. apply bind_ok in H as [s [Hs H]]. eapply schema_ref_to_ty2_models; eauto.
Qed.

(* ---------- sorted maps ---------- *)
Lemma bt_insert_in {V} (m : list (str * V)) k v k' v' :
  In (k', v') (bt_insert m k v) -> (k' = k /\ v' = v) \/ In (k', v') m.
Proof.
  induction m as [|[q w] m IH]; cbn.
  - intros [E|[]]. inversion E. auto.
  - destruct (str_eqb q k); [|destruct (str_ltb k q)]; cbn; intros [E|H]; try (inversion E; subst; auto; fail); auto.
    destruct (IH H) as [?|?]; auto.
Qed.

Lemma bt_insert_keys {V} (m : list (str * V)) k v x :
  In x (map fst (bt_insert m k v)) <-> x = k \/ In x (map fst m).
Proof.
  induction m as [|[q w] m IH]; cbn; [intuition|].
  destruct (str_eqb q k) eqn:E; [|destruct (str_ltb k q)]; cbn.
  - apply str_eqb_eq in E. subst. intuition.
  - intuition.
  - rewrite IH. intuition.
Qed.

Lemma bt_of_list_in {V} (l : list (str * V)) k v : In (k, v) (bt_of_list l) -> In (k, v) l.
Proof.
  unfold bt_of_list. assert (G : forall acc, In (k, v) (fold_left (fun m kv => bt_insert m (fst kv) (snd kv)) l acc) ->
                                  In (k, v) acc \/ In (k, v) l).
  { induction l as [|[q w] l IH]; intros acc H; cbn in *; [auto|].
    destruct (IH _ H) as [H1|H1]; [|auto]. destruct (bt_insert_in _ _ _ _ _ H1) as [[-> ->]|H2]; auto. }
  intros H. destruct (G [] H) as [[]|H1]. exact H1.
Qed.

(* ---------- records only mention component names ---------- *)
Definition record_ok (r : record) : Prop := forall n, record_mentions r n -> In n cnames.
Definition table_ok (m : list (str * record)) : Prop := forall k r, In (k, r) m -> record_ok r.

Lemma insert_schema_spec m r m' : insert_schema m r = Ok m' ->
  (forall x, In x (map fst m') <-> x = record_name r \/ In x (map fst m)) /\
  (forall k r', In (k, r') m' -> r' = r \/ In (k, r') m).
Proof.
  unfold insert_schema. destruct (record_name r) as [|c t] eqn:En; [discriminate|].
  destruct (is_lower c); [discriminate|]. intros H. inversion H; subst. split.
  - intros x. apply bt_insert_keys.
  - intros k r' Hin. destruct (bt_insert_in _ _ _ _ _ Hin) as [[_ ->]|?]; auto.
Qed.

Lemma insert_schema_ok m r m' : table_ok m -> record_ok r -> insert_schema m r = Ok m' -> table_ok m'.
Proof.
  intros Hm Hr H. destruct (insert_schema_spec _ _ _ H) as [_ Hin]. intros k r' Hk.
  destruct (Hin _ _ Hk) as [->|H0]; [assumption|eapply Hm; eauto].
Qed.

Lemma field_ok_of t o d fl : models_ok t -> forall n, inner_model (f_ty (mk_field t o d fl)) = Some n -> In n cnames.
Proof. intros H n E. apply H. exact E. Qed.

Lemma extract_fields_ok fuel props parent fs :
  extract_fields fuel sp props parent = Ok fs ->
  forall k f, In (k, f) fs -> models_ok (f_ty f).
Proof.
  unfold extract_fields. intros H. apply bind_ok in H as [l [Hl H]]. inversion H; subst. clear H.
  intros k f Hin. apply bt_of_list_in in Hin.
  destruct (Forall2_in_r _ _ _ _ (mapM_ok _ _ _ Hl) Hin) as [[name r] [_ Hr]].
  apply bind_ok in Hr as [s [Hs Hr]]. apply bind_ok in Hr as [t [Ht Hr]]. inversion Hr; subst. cbn.
  eapply schema_ref_to_ty2_models; eauto.
Qed.

Lemma create_field_ok fuel r f : create_field fuel sp r = Ok f -> models_ok (f_ty f).
Proof.
  unfold create_field. intros H. apply bind_ok in H as [s [Hs H]]. apply bind_ok in H as [t [Ht H]].
  inversion H; subst. cbn. eapply schema_ref_to_ty2_models; eauto.
Qed.

Definition fields_ok (fs : list (str * hfield)) : Prop := forall k f, In (k, f) fs -> models_ok (f_ty f).

Lemma struct_ok name nl fs d : fields_ok fs -> record_ok (RStruct name nl fs d).
Proof.
  intros H n [f [Hin Hm]]. cbn [record_fields] in Hin. apply in_map_iff in Hin as [[k f'] [E Hin]]. cbn in E. subst f'.
  eapply H; eauto.
Qed.

Lemma fields_ok_insert fs k f : fields_ok fs -> models_ok (f_ty f) -> fields_ok (bt_insert fs k f).
Proof.
  intros H Hf k' f' Hin. destruct (bt_insert_in _ _ _ _ _ Hin) as [[_ ->]|H0]; [assumption|eapply H; eauto].
Qed.

Lemma all_of_props_ok fuel req ps : forall acc fs,
  all_of_props fuel sp req ps acc = Ok fs -> fields_ok acc -> fields_ok fs.
Proof.
  induction ps as [|[pn pr] ps IH]; intros acc fs H Hacc; cbn [all_of_props] in H.
  - inversion H; subst. assumption.
  - apply bind_ok in H as [f [Hf H]]. eapply IH; [exact H|].
    apply fields_ok_insert; [assumption|]. cbn. eapply create_field_ok; eauto.
Qed.

Lemma all_of_fields_ok fuel l : forall acc fs,
  all_of_fields fuel sp l acc = Ok fs -> fields_ok acc -> fields_ok fs.
Proof.
  induction l as [|[n|item] l IH]; intros acc fs H Hacc; cbn [all_of_fields] in H.
  - inversion H; subst. assumption.
  - apply bind_ok in H as [f [Hf H]]. eapply IH; [exact H|].
    apply fields_ok_insert; [assumption|]. cbn. eapply create_field_ok; eauto.
  - destruct (get_properties item) as [props|]; [|eapply IH; eauto].
    apply bind_ok in H as [acc' [Ha H]]. eapply IH; [exact H|]. eapply all_of_props_ok; eauto.
Qed.

(* what the extraction of one named schema does to the table:
   records stay well-formed, keys only grow, and [name] itself becomes a key *)
Definition grows (m m' : list (str * record)) : Prop := forall x, In x (map fst m) -> In x (map fst m').

Lemma insert_step m r m' : table_ok m -> record_ok r -> insert_schema m r = Ok m' ->
  table_ok m' /\ grows m m' /\ In (record_name r) (map fst m').
Proof.
  intros Hm Hr H. destruct (insert_schema_spec _ _ _ H) as [Hk _]. repeat split.
  - eapply insert_schema_ok; eauto.
  - intros x Hx. apply Hk. auto.
  - apply Hk. auto.
Qed.

Lemma extract_all_of_ok fuel name all_of data m m' :
  extract_all_of fuel sp name all_of data m = Ok m' -> table_ok m ->
  table_ok m' /\ grows m m' /\ In name (map fst m').
Proof.
  unfold extract_all_of. intros H Hm. destruct (Nat.eqb (effective_length all_of) 1).
  - destruct all_of as [|x rest]; [discriminate|]. apply bind_ok in H as [t [Ht H]].
    apply (insert_step _ _ _ Hm) in H; [exact H|].
    intros n [f [Hf Hmn]]. cbn [record_fields] in Hf. destruct Hf as [<-|[]].
    cbn in Hmn. eapply schema_ref_to_ty_models; eauto.
  - apply bind_ok in H as [fields [Hf H]].
    apply (insert_step _ _ _ Hm) in H; [exact H|]. apply struct_ok.
    eapply all_of_fields_ok; [exact Hf|]. intros k f [].
Qed.

Lemma extract_newtype_ok fuel name s m m' :
  extract_newtype fuel sp name s m = Ok m' -> table_ok m ->
  table_ok m' /\ grows m m' /\ In name (map fst m').
Proof.
  unfold extract_newtype. intros H Hm. apply bind_ok in H as [t [Ht H]].
  apply (insert_step _ _ _ Hm) in H; [exact H|].
  intros n [f [Hf Hmn]]. cbn [record_fields] in Hf. destruct Hf as [<-|[]]. cbn in Hmn.
  eapply schema_to_ty_models; eauto.
Qed.

(* array-typed schema with inline items: the one shape that is registered under an invented name only *)
Definition array_inline (s : schema) : bool :=
  match s_kind s with KArray (Some (Inl _)) => true | _ => false end.

Lemma extract_schema_ok : forall fuel name s m m',
  extract_schema fuel sp name s m = Ok m' -> table_ok m ->
  table_ok m' /\ grows m m' /\ (array_inline s = false -> In name (map fst m')).
Proof.
  induction fuel as [|f IH]; intros name s m m' H Hm; [discriminate|].
  cbn [extract_schema] in H. unfold array_inline.
  destruct (s_kind s) as [fmt en| | | |props req ad|items|l|l|l| |] eqn:Ek.
  - destruct en as [|v vs].
    + destruct (extract_newtype_ok _ _ _ _ _ H Hm) as [A [B C]]. auto.
    + apply (insert_step _ _ _ Hm) in H; [destruct H as [A [B C]]; auto|]. intros n [fl [[] _]].
  - destruct (extract_newtype_ok _ _ _ _ _ H Hm) as [A [B C]]. auto.
  - destruct (extract_newtype_ok _ _ _ _ _ H Hm) as [A [B C]]. auto.
  - destruct (extract_newtype_ok _ _ _ _ _ H Hm) as [A [B C]]. auto.
  - assert (Hstruct : forall fields, extract_fields (S f) sp props s = Ok fields ->
              record_ok (RStruct name (s_nullable s) fields (match s_descr s with Some d => Some (trim d) | None => None end))).
    { intros fields Hf. apply struct_ok. intros k fl Hin. eapply extract_fields_ok; eauto. }
    destruct props as [|p0 props'].
    + destruct ad as [a|].
      * apply bind_ok in H as [t [Ht H]]. apply (insert_step _ _ _ Hm) in H; [destruct H as [A [B C]]; auto|].
        intros n [fl [Hf Hmn]]. cbn [record_fields] in Hf. destruct Hf as [<-|[]]. cbn in Hmn.
        destruct a as [b|r].
        -- inversion Ht; subst. discriminate.
        -- apply bind_ok in Ht as [s' [Hs' Ht]]. eapply schema_ref_to_ty2_models; eauto.
      * apply bind_ok in H as [fields [Hf H]]. apply (insert_step _ _ _ Hm) in H; [destruct H as [A [B C]]; auto|]. auto.
    + apply bind_ok in H as [fields [Hf H]]. apply (insert_step _ _ _ Hm) in H; [destruct H as [A [B C]]; auto|]. auto.
  - destruct items as [[n|item]|].
    + destruct (extract_newtype_ok _ _ _ _ _ H Hm) as [A [B C]]. auto.
    + destruct (create_unique_name (map fst m) name name) as [n'|].
      * destruct (IH _ _ _ _ H Hm) as [A [B _]]. repeat split; auto. discriminate.
      * destruct (extract_newtype_ok _ _ _ _ _ H Hm) as [A [B C]]. repeat split; auto.
    + destruct (extract_newtype_ok _ _ _ _ _ H Hm) as [A [B C]]. auto.
  - destruct (extract_all_of_ok _ _ _ _ _ _ H Hm) as [A [B C]]. auto.
  - destruct (extract_newtype_ok _ _ _ _ _ H Hm) as [A [B C]]. auto.
  - destruct (extract_newtype_ok _ _ _ _ _ H Hm) as [A [B C]]. auto.
  - destruct (extract_newtype_ok _ _ _ _ _ H Hm) as [A [B C]]. auto.
  - destruct (extract_newtype_ok _ _ _ _ _ H Hm) as [A [B C]]. auto.
Qed.

(* ---------- operations ---------- *)
Definition params_ok (ps : list hparam) : Prop := forall p, In p ps -> models_ok (p_ty p).

Lemma extract_param_ok fuel p hp : extract_param fuel sp p = Ok hp -> models_ok (p_ty hp).
Proof.
  unfold extract_param. intros H. apply bind_ok in H as [s [Hs H]]. apply bind_ok in H as [t [Ht H]].
  inversion H; subst. cbn. eapply schema_ref_to_ty2_models; eauto.
Qed.

Lemma mapM_params_ok fuel l ps : mapM (extract_param fuel sp) l = Ok ps -> params_ok ps.
Proof.
  intros H p Hin. destruct (Forall2_in_r _ _ _ _ (mapM_ok _ _ _ H) Hin) as [a [_ Ha]].
  eapply extract_param_ok; eauto.
Qed.

Lemma push_new_in l ps p : In p (push_new l ps) -> In p l \/ In p ps.
Proof.
  unfold push_new. revert l. induction ps as [|q ps IH]; intros l H; cbn in H; [auto|].
  destruct (IH _ H) as [H1|H1]; [|right; right; exact H1].
  destruct (has_param l (p_name q)); [left; exact H1|].
  apply in_app_or in H1 as [H2|[<-|[]]]; [left; exact H2|right; left; reflexivity].
Qed.

Lemma push_new_ok l ps : params_ok l -> params_ok ps -> params_ok (push_new l ps).
Proof. intros Hl Hp p Hin. destruct (push_new_in _ _ _ Hin); auto. Qed.

Lemma params_ok_app l ps : params_ok l -> params_ok ps -> params_ok (l ++ ps).
Proof. intros Hl Hp p Hin. apply in_app_or in Hin as [?|?]; auto. Qed.

Lemma extract_parameters_ok fuel o item ps : extract_parameters fuel sp o item = Ok ps -> params_ok ps.
Proof.
  unfold extract_parameters. intros H. apply bind_ok in H as [inputs [Hi H]]. apply bind_ok in H as [args [Ha H]].
  pose proof (push_new_ok _ _ (mapM_params_ok _ _ _ Hi) (mapM_params_ok _ _ _ Ha)) as Hin.
  destruct (op_body o) as [br|]; [|inversion H; subst; assumption].
  apply bind_ok in H as [body [Hb H]].
  assert (Harr : forall items t, match items with Some i => schema_ref_to_ty fuel sp i | None => Ok TAny end = Ok t ->
                 params_ok (push_new inputs args ++ [body_param (TArray t)])).
  { intros items t Ht. apply params_ok_app; [assumption|]. intros p [<-|[]]. cbn. intros n E. cbn in E.
    destruct items as [i|]; [eapply schema_ref_to_ty_models; eauto|inversion Ht; subst; discriminate]. }
  assert (Hobj : (do props <- properties_iter fuel sp body;
          match props with
          | [] => Ok (push_new inputs args ++ [body_param TAny])
          | _ => do bargs <- mapM (fun pr => let '(name, r) := pr in
                            do t <- schema_ref_to_ty fuel sp r;
                            do ps0 <- resolve sp r;
                            do req <- body_requires fuel sp body name;
                            Ok {| p_name := name; p_ty := t; p_loc := LBody;
                                  p_optional := s_nullable ps0 || negb req; p_doc := None |}) props;
                 Ok (push_new (push_new inputs args) bargs)
          end) = Ok ps -> params_ok ps).
  { intros H0. apply bind_ok in H0 as [props [Hp H0]]. destruct props as [|pr props].
    - inversion H0; subst. apply params_ok_app; [assumption|]. intros p [<-|[]]. cbn. intros n E. discriminate.
    - apply bind_ok in H0 as [bargs [Hb0 H0]]. inversion H0; subst. apply push_new_ok; [assumption|].
      intros p Hp0. destruct (Forall2_in_r _ _ _ _ (mapM_ok _ _ _ Hb0) Hp0) as [[name r] [_ Hr]].
      apply bind_ok in Hr as [t [Ht Hr]]. apply bind_ok in Hr as [ps0 [_ Hr]]. apply bind_ok in Hr as [req [_ Hr]].
      inversion Hr; subst. cbn. eapply schema_ref_to_ty_models; eauto. }
  destruct (s_kind body); try (apply Hobj; exact H).
  apply bind_ok in H as [t [Ht H]]. inversion H; subst. eapply Harr; eauto.
Qed.

Lemma insert_by_name_in p l q : In q (insert_by_name p l) <-> q = p \/ In q l.
Proof.
  induction l as [|x l IH]; cbn; [intuition|]. destruct (str_ltb (p_name p) (p_name x)); cbn; [intuition|].
  rewrite IH. intuition.
Qed.

Lemma sort_params_in l q : In q (sort_params l) <-> In q l.
Proof.
  unfold sort_params. assert (G : forall acc, In q (fold_left (fun acc p => insert_by_name p acc) l acc) <-> In q acc \/ In q l).
  { induction l as [|x l IH]; intros acc; cbn; [intuition|]. rewrite IH, insert_by_name_in. intuition. }
  rewrite G. cbn. intuition.
Qed.

(* invariant carried through the extraction *)
Definition ops_ok (h : hirspec) : Prop :=
  forall o n, In o (h_ops h) -> op_mentions o n -> In n cnames \/ In n (names h).

Definition inv (h : hirspec) : Prop := table_ok (h_schemas h) /\ ops_ok h.

Lemma is_array_not_inline s : is_array_schema s = false -> array_inline s = false.
Proof. unfold is_array_schema, array_inline. destruct (s_kind s); try reflexivity. discriminate. Qed.

Lemma extract_operation_ok fuel item o h h' :
  extract_operation fuel sp item o h = Ok h' -> inv h ->
  inv h' /\ grows (h_schemas h) (h_schemas h') /\ length (h_ops h') = S (length (h_ops h)).
Proof.
  unfold extract_operation. intros H [Ht Ho]. apply bind_ok in H as [name [_ H]].
  apply bind_ok in H as [params [Hp H]]. apply bind_ok in H as [res [_ H]]. apply bind_ok in H as [[ret schemas'] [Hrs H]].
  inversion H; subst h'. clear H. cbn [h_ops h_schemas].
  assert (Hparams : params_ok (sort_params params)).
  { intros p Hin. rewrite sort_params_in in Hin. exact (extract_parameters_ok _ _ _ _ Hp p Hin). }
  assert (Hres : table_ok schemas' /\ grows (h_schemas h) schemas' /\
                 (forall n, inner_model ret = Some n -> In n cnames \/ In n (map fst schemas'))).
  { destruct res as [[n|r]|].
    - apply bind_ok in Hrs as [t [Ht' Hrs]]. inversion Hrs; subst. repeat split; [assumption|intros x Hx; exact Hx|].
      intros m E. left. eapply schema_ref_to_ty_models; eauto.
    - apply bind_ok in Hrs as [s1 [Hs1 Hrs]]. apply bind_ok in Hrs as [prim [_ Hrs]].
      destruct (extract_schema_ok _ _ _ _ _ Hs1 Ht) as [A [B C]].
      destruct (prim || is_array_schema r) eqn:Epa.
      + apply bind_ok in Hrs as [t [Ht' Hrs]]. inversion Hrs; subst. repeat split; [assumption|assumption|].
        intros m E. left. eapply schema_to_ty_models; eauto.
      + inversion Hrs; subst. repeat split; [assumption|assumption|].
        intros m E. cbn in E. inversion E; subst. right. apply C. apply is_array_not_inline.
        apply orb_false_iff in Epa. tauto.
    - inversion Hrs; subst. repeat split; [assumption|intros x Hx; exact Hx|]. intros m E. discriminate. }
  destruct Hres as [A [B C]]. repeat split.
  - exact A.
  - intros o0 n Hin Hm. unfold names. cbn [h_schemas h_ops] in *. apply in_app_or in Hin as [Hin|[<-|[]]].
    + destruct (Ho _ _ Hin Hm) as [?|Hk]; [auto|right; apply B; exact Hk].
    + destruct Hm as [Hm|[p [Hp0 Hm]]]; cbn in *; [apply C; exact Hm|]. left. eapply Hparams; eauto.
  - exact B.
  - rewrite app_length. cbn. rewrite PeanoNat.Nat.add_1_r. reflexivity.
Qed.

Lemma fold_operations_ok fuel ios : forall h h',
  fold_left (fun acc io => do h <- acc; extract_operation fuel sp (fst io) (snd io) h) ios (Ok h) = Ok h' ->
  inv h -> inv h' /\ grows (h_schemas h) (h_schemas h') /\ length (h_ops h') = length (h_ops h) + length ios.
Proof.
  induction ios as [|io ios IH]; intros h h' H Hi; cbn [fold_left] in H.
  - inversion H; subst. repeat split; try apply Hi; [intros x Hx; exact Hx|cbn; rewrite PeanoNat.Nat.add_0_r; reflexivity].
  - cbn [bind] in H. destruct (extract_operation fuel sp (fst io) (snd io) h) as [h1|e] eqn:E.
    + destruct (extract_operation_ok _ _ _ _ _ E Hi) as [Hi1 [G1 L1]].
      destruct (IH _ _ H Hi1) as [Hi' [G' L']]. repeat split; try apply Hi'.
      * intros x Hx. apply G', G1, Hx.
      * rewrite L', L1. cbn. rewrite <- plus_n_Sm. reflexivity.
    + exfalso. clear -H. induction ios as [|io' ios IHi]; cbn in H; [discriminate|]. apply IHi. exact H.
Qed.

Lemma fold_components_ok fuel cs : forall m m',
  fold_left (fun acc ns => do m <- acc; extract_schema fuel sp (fst ns) (snd ns) m) cs (Ok m) = Ok m' ->
  table_ok m -> (forall c s, In (c, s) cs -> array_inline s = false) ->
  table_ok m' /\ grows m m' /\ (forall c, In c (map fst cs) -> In c (map fst m')).
Proof.
  induction cs as [|[c s] cs IH]; intros m m' H Hm Hna; cbn [fold_left] in H.
  - inversion H; subst. repeat split; [assumption|intros x Hx; exact Hx|intros c []].
  - cbn [bind fst snd] in H. destruct (extract_schema fuel sp c s m) as [m1|e] eqn:E.
    + destruct (extract_schema_ok _ _ _ _ _ E Hm) as [A [B C]].
      destruct (IH _ _ H A) as [A' [B' C']]; [intros c0 s0 Hin; eapply Hna; right; exact Hin|].
      repeat split; [assumption|intros x Hx; apply B', B, Hx|].
      intros c0 [<-|Hin]; [apply B', C; eapply Hna; left; reflexivity|apply C'; exact Hin].
    + exfalso. clear -H. induction cs as [|x cs IHc]; cbn in H; [discriminate|]. apply IHc. exact H.
Qed.

(* ---------- the table after extraction is closed ---------- *)
Theorem extract_closed fuel h :
  (forall c s, In (c, s) (components sp) -> array_inline s = false) ->
  extract_without_treeshake fuel sp = Ok h -> closed h.
Proof.
  intros Hna H. unfold extract_without_treeshake in H.
  apply bind_ok in H as [schemas [Hs H]]. apply bind_ok in H as [h1 [Ho H]]. apply bind_ok in H as [sec [_ H]].
  inversion H; subst h. clear H.
  destruct (fold_components_ok _ _ _ _ Hs (fun k r (Hin : In (k, r) []) => match Hin with end) Hna) as [A [_ C]].
  assert (Hi0 : inv {| h_ops := []; h_schemas := schemas; h_servers := []; h_security := []; h_docs_url := None |}).
  { split; [exact A|intros o n []]. }
  destruct (fold_operations_ok _ _ _ _ Ho Hi0) as [[A1 O1] [G1 _]]. cbn [h_schemas] in G1.
  intros n Hm. unfold names. cbn [h_schemas].
  assert (Hc : In n cnames -> In n (map fst (h_schemas h1))) by (intros Hn; apply G1, C; exact Hn).
  destruct Hm as [[o [Hin Hm]]|[k [r [Hin Hm]]]]; cbn [h_ops h_schemas] in Hin.
  - destruct (O1 _ _ Hin Hm) as [?|?]; [auto|assumption].
  - apply Hc. eapply A1; eauto.
Qed.

(* one operation of the HIR per operation of the document, in document order *)
Theorem extract_op_count fuel h :
  extract_without_treeshake fuel sp = Ok h -> length (h_ops h) = length (all_operations sp).
Proof.
  intros H. unfold extract_without_treeshake in H.
  apply bind_ok in H as [schemas [Hs H]]. apply bind_ok in H as [h1 [Ho H]]. apply bind_ok in H as [sec [_ H]].
  inversion H; subst h. clear H. cbn [h_ops].
  (* the counting part of the fold does not need the invariant *)
  assert (G : forall ios h0 h', fold_left (fun acc io => do h <- acc; extract_operation fuel sp (fst io) (snd io) h) ios (Ok h0) = Ok h' ->
               length (h_ops h') = length (h_ops h0) + length ios).
  { induction ios as [|io ios IH]; intros h0 h' H; cbn [fold_left] in H.
    - inversion H; subst. cbn. rewrite PeanoNat.Nat.add_0_r. reflexivity.
    - cbn [bind] in H. destruct (extract_operation fuel sp (fst io) (snd io) h0) as [h2|e] eqn:E.
      + rewrite (IH _ _ H). cbn [length]. rewrite <- plus_n_Sm. f_equal.
        unfold extract_operation in E. apply bind_ok in E as [name [_ E]]. apply bind_ok in E as [params [_ E]].
        apply bind_ok in E as [res [_ E]]. apply bind_ok in E as [[ret schemas'] [_ E]]. inversion E; subst. cbn [h_ops].
        rewrite app_length. cbn. rewrite PeanoNat.Nat.add_1_r. reflexivity.
      + exfalso. clear -H. induction ios as [|io' ios IHi]; cbn in H; [discriminate|]. apply IHi. exact H. }
  rewrite (G _ _ _ Ho). reflexivity.
Qed.

End Extract.

(* closure survives pruning: the table handed to the code generator is closed *)
Theorem extract_spec_closed fuel sp h :
  (forall c s, In (c, s) (components sp) -> array_inline s = false) ->
  extract_spec fuel sp = Ok h -> closed h.
Proof.
  intros Hna H. unfold extract_spec in H. apply bind_ok in H as [h0 [H0 H]].
  eapply treeshake_closed; [apply ListSet_ok| |exact H]. eapply extract_closed; eauto.
Qed.

(* ---------- operation names carry no dot, whether given or synthesised from the path ---------- *)
Lemma replace_char_absent c (r s : str) : ~ In c r -> ~ In c (replace_char c r s).
Proof.
  intros Hr. rewrite replace_char_flat_map. intros H. apply in_flat_map in H as [x [_ Hx]].
  destruct (ceqb x c) eqn:E; [exact (Hr Hx)|]. destruct Hx as [Hx|[]]. subst x. rewrite ceqb_refl in E. discriminate.
Qed.

Theorem make_name_no_dot opid m p n : make_name opid m p = Ok n -> ~ In "."%char n.
Proof.
  unfold make_name. destruct opid as [id|].
  - intros H. apply Ok_inj in H. subst n. apply replace_char_absent. cbn. intros [H|[]]. discriminate H.
  - intros H. apply bind_ok in H as [lg [_ H]]. apply Ok_inj in H. subst n. apply replace_char_absent. cbn. intros [H|[]]. discriminate H.
Qed.
