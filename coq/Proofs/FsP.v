(* FsP.v — the generation is a refinement of a pointwise specification [gen_spec]; C10/C11/C12 follow. *)
From LN Require Import Model.Fs Proofs.CharsP Proofs.StrP Proofs.Utf8P.
From Coq Require Import Lia.
Local Open Scope nat_scope.

(* ---------- the abstract, pointwise specification ---------- *)
Definition find_wr (plan : list wr) (p : path) : option wr :=
  find (fun w => str_eqb (w_path w) p) plan.

Definition gen_spec (plan : list wr) (t : tree) (p : path) : option bytes :=
  match find_wr plan p with
  | Some w => match wwc (read t p) (pick_code w (read t p)) with
              | Some c => Some c
              | None => lookup t p            (* static: not written, and never cleaned up *)
              end
  | None => match lookup t p with
            | Some c => if in_scope p && negb (has_static (decode c)) then None else Some c
            | None => None
            end
  end.

Definition keys (t : tree) : list path := map fst t.
Definition paths (plan : list wr) : list path := map w_path plan.
Definition wf (t : tree) : Prop := NoDup (keys t).
Definition plan_wf (plan : list wr) : Prop := NoDup (paths plan).

(* ---------- assoc-list facts ---------- *)
Lemma str_eqb_false a b : str_eqb a b = false <-> a <> b.
Proof. rewrite <- str_eqb_eq. destruct (str_eqb a b); split; congruence. Qed.

Lemma lookup_update_same t p c : lookup (update t p c) p = Some c.
Proof.
  induction t as [|[q d] t IH]; cbn; [rewrite str_eqb_refl; reflexivity|].
  destruct (str_eqb q p) eqn:E; cbn; rewrite E; auto.
Qed.

Lemma lookup_update_other t p c q : p <> q -> lookup (update t p c) q = lookup t q.
Proof.
  intros N. induction t as [|[r d] t IH]; cbn.
  - apply str_eqb_false in N. rewrite N. reflexivity.
  - destruct (str_eqb r p) eqn:E; cbn.
    + apply str_eqb_eq in E. subst r. apply str_eqb_false in N. rewrite N. reflexivity.
    + destruct (str_eqb r q); auto.
Qed.

Lemma lookup_None_notin t p : lookup t p = None <-> ~ In p (keys t).
Proof.
  unfold keys. induction t as [|[q d] t IH]; cbn; [tauto|].
  destruct (str_eqb q p) eqn:E.
  - apply str_eqb_eq in E. split; [discriminate|]. intros H. exfalso. apply H. auto.
  - apply str_eqb_false in E. rewrite IH. intuition congruence.
Qed.

Lemma keys_update t p c : forall q, In q (keys (update t p c)) <-> q = p \/ In q (keys t).
Proof.
  unfold keys. induction t as [|[r d] t IH]; intros q; cbn; [intuition congruence|].
  destruct (str_eqb r p) eqn:E; cbn.
  - apply str_eqb_eq in E. subst r. intuition congruence.
  - rewrite IH. intuition congruence.
Qed.

Lemma wf_update t p c : wf t -> wf (update t p c).
Proof.
  unfold wf. induction t as [|[r d] t IH]; cbn; intros H.
  - constructor; [tauto|constructor].
  - inversion H as [|? ? Hn Hd]; subst. destruct (str_eqb r p) eqn:E; cbn.
    + constructor; assumption.
    + constructor; [|apply IH; assumption]. fold (keys (update t p c)). rewrite keys_update.
      apply str_eqb_false in E. intros [->|?]; [congruence|tauto].
Qed.

Lemma keys_filter (f : path * bytes -> bool) t q : In q (keys (filter f t)) -> In q (keys t).
Proof.
  unfold keys. rewrite !in_map_iff. intros [x [E H]]. apply filter_In in H as [H _]. eauto.
Qed.

Lemma wf_filter (f : path * bytes -> bool) t : wf t -> wf (filter f t).
Proof.
  unfold wf. induction t as [|[r d] t IH]; cbn; intros H; [constructor|].
  inversion H as [|? ? Hn Hd]; subst. destruct (f (r, d)); cbn; [|auto].
  constructor; [|auto]. intros Hin. apply Hn. eapply keys_filter; eauto.
Qed.

Lemma lookup_filter (f : path * bytes -> bool) t p : wf t ->
  lookup (filter f t) p = match lookup t p with
                          | Some c => if f (p, c) then Some c else None
                          | None => None
                          end.
Proof.
  unfold wf. induction t as [|[r d] t IH]; cbn; intros H; [reflexivity|].
  inversion H as [|? ? Hn Hd]; subst. destruct (str_eqb r p) eqn:E.
  - apply str_eqb_eq in E. subst r. destruct (f (p, d)) eqn:Ef; cbn.
    + rewrite str_eqb_refl. reflexivity.
    + rewrite IH by assumption. apply lookup_None_notin in Hn. rewrite Hn. reflexivity.
  - destruct (f (r, d)); cbn; [rewrite E|]; apply IH; assumption.
Qed.

(* ---------- writes ---------- *)
Lemma read_update_same t p c : read (update t p c) p = decode c.
Proof. unfold read. rewrite lookup_update_same. reflexivity. Qed.

Lemma write1_other t w q : w_path w <> q -> lookup (write1 t w) q = lookup t q.
Proof.
  intros N. unfold write1. destruct (wwc _ _); [apply lookup_update_other; assumption|reflexivity].
Qed.

Lemma write1_cut_other b t w q : w_path w <> q -> lookup (write1_cut b t w) q = lookup t q.
Proof.
  intros N. unfold write1_cut. destruct (wwc _ _); [apply lookup_update_other; assumption|reflexivity].
Qed.

Lemma wf_write1 t w : wf t -> wf (write1 t w).
Proof. unfold write1. destruct (wwc _ _); [apply wf_update|auto]. Qed.

Lemma wf_write1_cut b t w : wf t -> wf (write1_cut b t w).
Proof. unfold write1_cut. destruct (wwc _ _); [apply wf_update|auto]. Qed.

Lemma wf_write_all plan : forall t, wf t -> wf (write_all plan t).
Proof. induction plan as [|w plan IH]; intros t H; cbn; [assumption|]. apply IH, wf_write1, H. Qed.

Lemma write_all_other plan : forall t q, ~ In q (paths plan) -> lookup (write_all plan t) q = lookup t q.
Proof.
  induction plan as [|w plan IH]; intros t q H; cbn; [reflexivity|].
  cbn in H. rewrite IH by tauto. apply write1_other. tauto.
Qed.

(* what one write leaves at its own path *)
Definition written (t : tree) (w : wr) : option bytes :=
  match wwc (read t (w_path w)) (pick_code w (read t (w_path w))) with
  | Some c => Some c
  | None => lookup t (w_path w)
  end.

Lemma write1_same t w : lookup (write1 t w) (w_path w) = written t w.
Proof.
  unfold write1, written. destruct (wwc _ _); [apply lookup_update_same|reflexivity].
Qed.

Lemma read_other t t' p : lookup t' p = lookup t p -> read t' p = read t p.
Proof. unfold read. intros ->. reflexivity. Qed.

Lemma written_ext t t' w : lookup t' (w_path w) = lookup t (w_path w) -> written t' w = written t w.
Proof. intros H. unfold written. rewrite (read_other _ _ _ H), H. reflexivity. Qed.

Lemma write_all_planned plan : forall t w, plan_wf plan -> In w plan ->
  lookup (write_all plan t) (w_path w) = written t w.
Proof.
  unfold plan_wf. induction plan as [|w0 plan IH]; intros t w Hn Hin; [destruct Hin|].
  cbn in Hn. inversion Hn as [|? ? Hnot Hnd]; subst. cbn [write_all fold_left].
  destruct Hin as [->|Hin].
  - fold (write_all plan (write1 t w)). rewrite write_all_other by assumption. apply write1_same.
  - fold (write_all plan (write1 t w0)). rewrite (IH _ _ Hnd Hin).
    apply written_ext. apply write1_other. intros E. apply Hnot. rewrite E.
    unfold paths. apply in_map. assumption.
Qed.

Lemma find_wr_some plan p w : find_wr plan p = Some w -> In w plan /\ w_path w = p.
Proof.
  unfold find_wr. intros H. apply find_some in H as [H1 H2]. apply str_eqb_eq in H2. auto.
Qed.

Lemma find_wr_none plan p : find_wr plan p = None -> ~ In p (paths plan).
Proof.
  unfold find_wr, paths. intros H Hin. apply in_map_iff in Hin as [w [E Hw]].
  pose proof (find_none _ _ H w Hw) as N. cbn in N. rewrite E, str_eqb_refl in N. discriminate.
Qed.

Lemma planned_find plan p : planned plan p = match find_wr plan p with Some _ => true | None => false end.
Proof.
  unfold planned, find_wr. induction plan as [|w plan IH]; cbn; [reflexivity|].
  destruct (str_eqb (w_path w) p); cbn; [reflexivity|exact IH].
Qed.

(* ---------- the refinement theorem ---------- *)
Theorem gen_refines plan t p : plan_wf plan -> wf t -> lookup (gen plan t) p = gen_spec plan t p.
Proof.
  intros Hp Ht. unfold gen, cleanup, gen_spec.
  rewrite lookup_filter by (apply wf_write_all; assumption).
  destruct (find_wr plan p) as [w|] eqn:Ef.
  - destruct (find_wr_some _ _ _ Ef) as [Hin Hpath]. subst p.
    rewrite (write_all_planned _ _ _ Hp Hin). unfold written.
    assert (Hpl : planned plan (w_path w) = true) by (rewrite planned_find, Ef; reflexivity).
    unfold doomed. cbn [fst snd]. rewrite Hpl. cbn [negb andb]. rewrite !andb_false_r. cbn [negb].
    destruct (wwc _ _); [reflexivity|]. destruct (lookup t (w_path w)); reflexivity.
  - rewrite write_all_other by (apply find_wr_none; assumption).
    destruct (lookup t p) as [c|]; [|reflexivity].
    unfold doomed. cbn [fst snd]. rewrite planned_find, Ef. cbn [negb]. rewrite andb_true_r.
    destruct (in_scope p && negb (has_static (decode c))); reflexivity.
Qed.

Lemma wf_gen plan t : wf t -> wf (gen plan t).
Proof. intros H. unfold gen, cleanup. apply wf_filter, wf_write_all, H. Qed.

(* ---------- C10: static-marked files are untouched ---------- *)
Lemma wwc_static content code : has_static content = true -> wwc content code = None.
Proof. unfold wwc. intros ->. reflexivity. Qed.

Theorem static_untouched plan t p c : plan_wf plan -> wf t ->
  lookup t p = Some c -> has_static (decode c) = true -> lookup (gen plan t) p = Some c.
Proof.
  intros Hp Ht Hl Hs. rewrite gen_refines by assumption. unfold gen_spec.
  destruct (find_wr plan p) as [w|].
  - unfold read. rewrite Hl. rewrite wwc_static by assumption. reflexivity.
  - rewrite Hl, Hs. rewrite andb_false_r. reflexivity.
Qed.

Fixpoint gens (plans : list (list wr)) (t : tree) : tree :=
  match plans with [] => t | pl :: rest => gens rest (gen pl t) end.

Theorem static_untouched_many plans : forall t p c, Forall plan_wf plans -> wf t ->
  lookup t p = Some c -> has_static (decode c) = true -> lookup (gens plans t) p = Some c.
Proof.
  induction plans as [|pl plans IH]; intros t p c Hf Ht Hl Hs; cbn; [assumption|].
  inversion Hf; subst. apply IH; try assumption; [apply wf_gen; assumption|].
  apply static_untouched; assumption.
Qed.

(* ---------- C11: text up to the first `libninja: after` is kept, the rest is the fresh code ---------- *)
Definition NL : str := lit (String "010" EmptyString).

Lemma prefix_incl_split pre rest :
  find_sub MARK_AFTER (pre ++ MARK_AFTER ++ rest) = Some (length pre) ->
  prefix_incl (pre ++ MARK_AFTER ++ rest) = pre ++ MARK_AFTER /\
  prefix_excl (pre ++ MARK_AFTER ++ rest) = pre /\
  has_after (pre ++ MARK_AFTER ++ rest) = true.
Proof.
  intros H. unfold prefix_incl, prefix_excl, has_after, contains. rewrite H. repeat split.
  - rewrite app_assoc. rewrite <- (app_length pre MARK_AFTER). apply firstn_app_exact.
  - apply firstn_app_exact.
Qed.

Theorem after_kept plan t p w pre rest : plan_wf plan -> wf t ->
  find_wr plan p = Some w ->
  lookup t p = Some (pre ++ MARK_AFTER ++ rest) ->
  utf8_valid (pre ++ MARK_AFTER ++ rest) = true ->
  has_static (pre ++ MARK_AFTER ++ rest) = false ->
  find_sub MARK_AFTER (pre ++ MARK_AFTER ++ rest) = Some (length pre) ->
  lookup (gen plan t) p =
    Some (pre ++ MARK_AFTER ++ NL ++
          match w_alt w with
          | Some alt => if contains DHC pre then alt else w_code w
          | None => w_code w
          end).
Proof.
  intros Hp Ht Hf Hl Hv Hs Hfirst. rewrite gen_refines by assumption. unfold gen_spec. rewrite Hf.
  unfold read. rewrite Hl. unfold decode. rewrite Hv. destruct (prefix_incl_split pre rest Hfirst) as [Hi [He Ha]].
  unfold wwc. rewrite Hs, Ha, Hi. unfold pick_code. rewrite Ha, He. cbn [andb].
  rewrite <- app_assoc. reflexivity.
Qed.

(* the result again has its first directive at the same place (and is not static if the code is not),
   so [after_kept] applies to it on the next generation *)
Lemma not_in_static_NL : ~ In "010"%char MARK_STATIC.
Proof. vm_compute. intuition discriminate. Qed.
Lemma not_in_after_NL : ~ In "010"%char MARK_AFTER.
Proof. vm_compute. intuition discriminate. Qed.

Lemma ascii7_MARK_AFTER : forallb ascii7 MARK_AFTER = true.  Proof. vm_compute. reflexivity. Qed.
Lemma MARK_AFTER_nonnil : MARK_AFTER <> [].  Proof. discriminate. Qed.

Lemma decode_valid c : utf8_valid (decode c) = true.
Proof. unfold decode. destruct (utf8_valid c) eqn:E; [exact E|reflexivity]. Qed.
Lemma decode_id c : utf8_valid c = true -> decode c = c.
Proof. unfold decode. intros ->. reflexivity. Qed.
Lemma read_valid t p : utf8_valid (read t p) = true.
Proof. unfold read. destruct (lookup t p); [apply decode_valid|reflexivity]. Qed.

Theorem after_again pre rest code :
  utf8_valid (pre ++ MARK_AFTER ++ rest) = true ->
  has_static (pre ++ MARK_AFTER ++ rest) = false ->
  find_sub MARK_AFTER (pre ++ MARK_AFTER ++ rest) = Some (length pre) ->
  has_static code = false -> utf8_valid code = true ->
  find_sub MARK_AFTER (pre ++ MARK_AFTER ++ NL ++ code) = Some (length pre) /\
  has_static (pre ++ MARK_AFTER ++ NL ++ code) = false /\
  utf8_valid (pre ++ MARK_AFTER ++ NL ++ code) = true.
Proof.
  intros Hv Hs Hfirst Hc Hvc. split; [|split].
  - eapply find_first_indep. exact Hfirst.
  - unfold has_static in *.
    replace (pre ++ MARK_AFTER ++ NL ++ code) with ((pre ++ MARK_AFTER) ++ "010"%char :: code)
      by (rewrite <- app_assoc; reflexivity).
    apply contains_sep_false; [apply not_in_static_NL| |assumption].
    replace (pre ++ MARK_AFTER) with (firstn (length pre + length MARK_AFTER) (pre ++ MARK_AFTER ++ rest)).
    + apply contains_firstn_false. assumption.
    + rewrite app_assoc, <- app_length. apply firstn_app_exact.
  - rewrite app_assoc. apply valid_app_both.
    + apply (valid_prefix_ascii pre MARK_AFTER rest MARK_AFTER_nonnil ascii7_MARK_AFTER Hv).
    + change (NL ++ code) with ("010"%char :: code). exact Hvc.
Qed.

(* ---------- C12: cleanup exact and confined ---------- *)
Lemma wwc_nonstatic content code : has_static content = false -> exists c, wwc content code = Some c.
Proof. unfold wwc. intros ->. destruct (has_after content); eauto. Qed.

Lemma read_missing_not_static t p : lookup t p = None -> has_static (read t p) = false.
Proof. unfold read. intros ->. reflexivity. Qed.

Theorem cleanup_exact plan t p : plan_wf plan -> wf t -> in_scope p = true ->
  (lookup (gen plan t) p <> None <->
   planned plan p = true \/ exists c, lookup t p = Some c /\ has_static (decode c) = true).
Proof.
  intros Hp Ht Hs. rewrite gen_refines by assumption. unfold gen_spec. rewrite planned_find.
  destruct (find_wr plan p) as [w|].
  - split; [auto|]. intros _. destruct (lookup t p) as [c|] eqn:El.
    + destruct (wwc _ _); congruence.
    + destruct (wwc_nonstatic (read t p) (pick_code w (read t p)) (read_missing_not_static _ _ El)) as [c ->].
      congruence.
  - destruct (lookup t p) as [c|]; [|split; [congruence|intros [?|[c [? _]]]; congruence]].
    rewrite Hs. cbn [andb]. destruct (has_static (decode c)) eqn:E; cbn [negb].
    + split; [eauto|congruence].
    + split; [congruence|]. intros [?|[c' [E1 E2]]]; [congruence|]. inversion E1; subst. congruence.
Qed.

Theorem cleanup_confined plan t p : plan_wf plan -> wf t ->
  in_scope p = false -> planned plan p = false -> lookup (gen plan t) p = lookup t p.
Proof.
  intros Hp Ht Hs Hn. rewrite gen_refines by assumption. unfold gen_spec.
  rewrite planned_find in Hn. destruct (find_wr plan p); [discriminate|].
  rewrite Hs. cbn [andb]. destruct (lookup t p); reflexivity.
Qed.

(* ---------- C12: idempotence ---------- *)
(* generated text: valid UTF-8 (it is a Rust String) and free of both directives *)
Definition code_clean (c : bytes) : Prop :=
  has_static c = false /\ has_after c = false /\ utf8_valid c = true.
Definition markers_free (plan : list wr) : Prop :=
  forall w, In w plan -> code_clean (w_code w) /\ (forall a, w_alt w = Some a -> code_clean a).

Lemma has_after_find c : has_after c = true -> exists i, find_sub MARK_AFTER c = Some i.
Proof. unfold has_after, contains. destruct (find_sub MARK_AFTER c); [eauto|discriminate]. Qed.

(* writing the same code over the result of a write changes nothing *)
Lemma wwc_absorb w content c :
  code_clean (w_code w) -> (forall a, w_alt w = Some a -> code_clean a) ->
  utf8_valid content = true ->
  wwc content (pick_code w content) = Some c ->
  utf8_valid c = true /\ wwc c (pick_code w c) = Some c.
Proof.
  intros Hc Ha Hvalid H. unfold wwc in H.
  destruct (has_static content) eqn:Es; [discriminate|].
  assert (Hpc : forall x, code_clean (pick_code w x)).
  { intros x. unfold pick_code. destruct (w_alt w) as [a|]; [|assumption].
    destruct (_ && _); [apply Ha; reflexivity|assumption]. }
  destruct (has_after content) eqn:Eaf.
  - destruct (has_after_find _ Eaf) as [i Ei].
    pose proof (find_sub_decomp _ _ _ Ei) as Ed.
    set (pre := firstn i content) in *. set (rest := skipn (i + length MARK_AFTER) content) in *.
    assert (Hlen : length pre = i).
    { unfold pre. apply firstn_length_le. pose proof (find_sub_bound _ _ _ Ei). lia. }
    assert (Hfirst : find_sub MARK_AFTER (pre ++ MARK_AFTER ++ rest) = Some (length pre)).
    { rewrite <- Ed, Hlen. exact Ei. }
    rewrite Ed in Es, Hvalid.
    destruct (prefix_incl_split pre rest Hfirst) as [Hi [He _]].
    assert (Ec : c = pre ++ MARK_AFTER ++ NL ++ pick_code w (pre ++ MARK_AFTER ++ rest)).
    { rewrite Ed, Hi in H. injection H as H. rewrite <- H. rewrite <- app_assoc. reflexivity. }
    clear H. subst c.
    destruct (Hpc (pre ++ MARK_AFTER ++ rest)) as [Hcs [Hca Hcv]].
    destruct (after_again pre rest _ Hvalid Es Hfirst Hcs Hcv) as [Hf2 [Hs2 Hv2]].
    remember (pick_code w (pre ++ MARK_AFTER ++ rest)) as code eqn:Ecode.
    destruct (prefix_incl_split pre (NL ++ code) Hf2) as [Hi2 [He2 Ha2]].
    assert (Hsame : pick_code w (pre ++ MARK_AFTER ++ NL ++ code) = code).
    { rewrite Ecode at 2. unfold pick_code. destruct (w_alt w); [|reflexivity].
      rewrite Ha2, He2. destruct (prefix_incl_split pre rest Hfirst) as [_ [He' Ha']].
      rewrite Ha', He'. reflexivity. }
    split; [exact Hv2|].
    unfold wwc. rewrite Hs2, Ha2, Hi2, Hsame. rewrite <- app_assoc. reflexivity.
  - injection H as H. subst c. destruct (Hpc content) as [Hcs [Hca Hcv]]. split; [exact Hcv|].
    unfold wwc. rewrite Hcs, Hca.
    assert (pick_code w (pick_code w content) = pick_code w content) as ->; [|reflexivity].
    unfold pick_code at 1 3. destruct (w_alt w); [|reflexivity].
    rewrite Hca, Eaf. reflexivity.
Qed.

(* after a write (or a skipped write) of w, the generation's view of that path is settled *)
Lemma resettle t t' w :
  code_clean (w_code w) -> (forall a, w_alt w = Some a -> code_clean a) ->
  lookup t' (w_path w) = written t w ->
  match wwc (read t' (w_path w)) (pick_code w (read t' (w_path w))) with
  | Some c => Some c
  | None => lookup t' (w_path w)
  end = written t w.
Proof.
  intros Hc Halt H. unfold written in *.
  destruct (wwc (read t (w_path w)) (pick_code w (read t (w_path w)))) as [c|] eqn:Ew.
  - destruct (wwc_absorb w _ c Hc Halt (read_valid _ _) Ew) as [Hv Hab].
    assert (Er : read t' (w_path w) = c) by (unfold read; rewrite H; apply decode_id; exact Hv).
    rewrite Er, Hab. reflexivity.
  - rewrite (read_other _ _ _ H). rewrite Ew. exact H.
Qed.

Theorem gen_idempotent plan t p : plan_wf plan -> wf t -> markers_free plan ->
  lookup (gen plan (gen plan t)) p = lookup (gen plan t) p.
Proof.
  intros Hp Ht Hm.
  assert (Hw : wf (gen plan t)) by (apply wf_gen; assumption).
  rewrite (gen_refines plan (gen plan t)) by assumption.
  unfold gen_spec at 1.
  destruct (find_wr plan p) as [w|] eqn:Ef.
  - destruct (find_wr_some _ _ _ Ef) as [Hin Hpath]. subst p. destruct (Hm w Hin) as [Hc Halt].
    assert (El : lookup (gen plan t) (w_path w) = written t w).
    { rewrite gen_refines by assumption. unfold gen_spec. rewrite Ef. reflexivity. }
    rewrite (resettle t _ w Hc Halt El). symmetry. exact El.
  - assert (El : lookup (gen plan t) p = match lookup t p with
            | Some c => if in_scope p && negb (has_static (decode c)) then None else Some c
            | None => None end).
    { rewrite gen_refines by assumption. unfold gen_spec. rewrite Ef. reflexivity. }
    rewrite El. destruct (lookup t p) as [c|]; [|reflexivity].
    destruct (in_scope p && negb (has_static (decode c))) eqn:E; [reflexivity|]. rewrite E. reflexivity.
Qed.

(* ---------- C12: convergence after an interrupted run ---------- *)
Lemma NoDup_app_inv {A} (a b : list A) : NoDup (a ++ b) ->
  NoDup a /\ NoDup b /\ (forall x, In x a -> ~ In x b).
Proof.
  induction a as [|y a IH]; cbn; intros H.
  - repeat split; [constructor|assumption|tauto].
  - inversion H as [|? ? Hn Hd]; subst. destruct (IH Hd) as [Ha [Hb Hab]]. repeat split.
    + constructor; [|assumption]. intros Hi. apply Hn. apply in_or_app. auto.
    + assumption.
    + intros x [->|Hx]; [|auto]. intros Hi. apply Hn. apply in_or_app. auto.
Qed.

Lemma plan_wf_app_inv pre wk post : plan_wf (pre ++ wk :: post) ->
  plan_wf pre /\ ~ In (w_path wk) (paths pre) /\ ~ In (w_path wk) (paths post) /\
  (forall w, In w pre -> ~ In (w_path w) (paths post) /\ w_path w <> w_path wk).
Proof.
  unfold plan_wf, paths. rewrite map_app. cbn [map]. intros H.
  destruct (NoDup_app_inv _ _ H) as [Hpre [Hrest Hdisj]].
  inversion Hrest as [|? ? Hk2 Hpost]; subst. repeat split.
  - exact Hpre.
  - intros Hin. apply (Hdisj _ Hin). left. reflexivity.
  - exact Hk2.
  - intros Hin. apply (Hdisj (w_path w)); [apply in_map; assumption|right; assumption].
  - intros E. apply (Hdisj (w_path w)); [apply in_map; assumption|left; congruence].
Qed.

(* what the next run reads from a file that was cut while fresh code was being written into it *)
Lemma cut_reads_clean b c : code_clean c ->
  has_static (decode (firstn b c)) = false /\ has_after (decode (firstn b c)) = false.
Proof.
  intros [H1 [H2 _]]. unfold decode. destruct (utf8_valid (firstn b c)); [|split; reflexivity].
  split; apply contains_firstn_false; assumption.
Qed.

Lemma pick_code_noafter w content : has_after content = false -> pick_code w content = w_code w.
Proof. intros H. unfold pick_code. destruct (w_alt w); [|reflexivity]. rewrite H. reflexivity. Qed.

Theorem crash_write_converges pre wk post b t p :
  plan_wf (pre ++ wk :: post) -> wf t -> markers_free (pre ++ wk :: post) ->
  has_after (read t (w_path wk)) = false ->
  lookup (gen (pre ++ wk :: post) (write1_cut b (write_all pre t) wk)) p
  = lookup (gen (pre ++ wk :: post) t) p.
Proof.
  set (plan := pre ++ wk :: post). intros Hp Ht Hm Hna.
  destruct (plan_wf_app_inv _ _ _ Hp) as [Hpre [Hk1 [Hk2 Hpre2]]].
  assert (Hwf'' : wf (write1_cut b (write_all pre t) wk)) by (apply wf_write1_cut, wf_write_all, Ht).
  rewrite !gen_refines by assumption. unfold gen_spec.
  destruct (find_wr plan p) as [w|] eqn:Ef.
  - destruct (find_wr_some _ _ _ Ef) as [Hin Hpath]. subst p.
    destruct (Hm w Hin) as [Hc Halt].
    unfold plan in Hin. apply in_app_or in Hin as [Hin|[<-|Hin]].
    + (* already fully written *)
      destruct (Hpre2 w Hin) as [_ Hne].
      assert (El : lookup (write1_cut b (write_all pre t) wk) (w_path w) = written t w).
      { rewrite write1_cut_other by congruence. apply write_all_planned; assumption. }
      rewrite (resettle t _ w Hc Halt El). reflexivity.
    + (* the file being written when the run was cut *)
      assert (E0 : lookup (write_all pre t) (w_path wk) = lookup t (w_path wk)) by (apply write_all_other; assumption).
      unfold write1_cut. rewrite (read_other _ _ _ E0).
      destruct (wwc (read t (w_path wk)) (pick_code wk (read t (w_path wk)))) as [c|] eqn:Ew.
      * unfold read at 1 2. rewrite lookup_update_same.
        assert (Ec : c = w_code wk).
        { unfold wwc in Ew. destruct (has_static (read t (w_path wk))); [discriminate|].
          rewrite Hna in Ew. rewrite pick_code_noafter in Ew by assumption. congruence. }
        subst c. destruct (cut_reads_clean b _ Hc) as [Hs1 Ha1].
        unfold wwc. rewrite Hs1, Ha1. rewrite pick_code_noafter by assumption. reflexivity.
      * unfold read at 1 2. rewrite E0. fold (read t (w_path wk)). rewrite Ew. reflexivity.
    + (* not yet reached *)
      assert (Hne : w_path wk <> w_path w).
      { intros E. apply Hk2. rewrite E. apply in_map. assumption. }
      assert (Hnp : ~ In (w_path w) (paths pre)).
      { intros Hi. unfold paths in Hi. apply in_map_iff in Hi as [w' [E Hw']].
        destruct (Hpre2 w' Hw') as [Hn _]. apply Hn. rewrite E. apply in_map. assumption. }
      assert (El : lookup (write1_cut b (write_all pre t) wk) (w_path w) = lookup t (w_path w)).
      { rewrite write1_cut_other by assumption. apply write_all_other. assumption. }
      rewrite (read_other _ _ _ El), El. reflexivity.
  - pose proof (find_wr_none _ _ Ef) as Hn. unfold plan, paths in Hn. rewrite map_app in Hn. cbn [map] in Hn.
    assert (El : lookup (write1_cut b (write_all pre t) wk) p = lookup t p).
    { rewrite write1_cut_other by (intros E; apply Hn; apply in_or_app; right; left; assumption).
      apply write_all_other. intros Hi. apply Hn. apply in_or_app. auto. }
    rewrite El. reflexivity.
Qed.

Lemma nth_error_decomp {A} (l : list A) : forall k x, nth_error l k = Some x ->
  l = firstn k l ++ x :: skipn (S k) l.
Proof.
  induction l as [|y l IH]; intros [|k] x H; cbn in *; try discriminate.
  - inversion H. reflexivity.
  - f_equal. apply IH. assumption.
Qed.

(* crash during the writes (any k, any byte count b), or after the last write *)
Theorem crash_converges plan k b t p :
  plan_wf plan -> wf t -> markers_free plan ->
  (forall w, nth_error plan k = Some w -> has_after (read t (w_path w)) = false) ->
  lookup (gen plan (crash plan k b t)) p = lookup (gen plan t) p.
Proof.
  intros Hp Ht Hm Hna. unfold crash. destruct (nth_error plan k) as [wk|] eqn:En.
  - pose proof (nth_error_decomp _ _ _ En) as Ed. specialize (Hna wk eq_refl).
    remember (firstn k plan) as pre. remember (skipn (S k) plan) as post.
    rewrite Ed in Hp, Hm |- *. apply crash_write_converges; assumption.
  - (* every write done: this is the state before cleanup; generating again is idempotent on it *)
    apply nth_error_None in En. rewrite firstn_all2 by assumption.
    assert (Hw : wf (write_all plan t)) by (apply wf_write_all; assumption).
    rewrite !gen_refines by assumption. unfold gen_spec.
    destruct (find_wr plan p) as [w|] eqn:Ef.
    + destruct (find_wr_some _ _ _ Ef) as [Hin Hpath]. subst p. destruct (Hm w Hin) as [Hc Halt].
      rewrite (resettle t _ w Hc Halt (write_all_planned _ _ _ Hp Hin)). reflexivity.
    + rewrite write_all_other by (apply find_wr_none; assumption). reflexivity.
Qed.

(* crash during cleanup: some of the doomed files already removed *)
Theorem crash_cleanup_converges plan sel t p :
  plan_wf plan -> wf t -> markers_free plan ->
  lookup (gen plan (crash_cleanup plan sel t)) p = lookup (gen plan t) p.
Proof.
  intros Hp Ht Hm.
  assert (Hw : wf (write_all plan t)) by (apply wf_write_all; assumption).
  assert (Hw2 : wf (crash_cleanup plan sel t)) by (unfold crash_cleanup; apply wf_filter; assumption).
  rewrite !gen_refines by assumption. unfold gen_spec.
  destruct (find_wr plan p) as [w|] eqn:Ef.
  - destruct (find_wr_some _ _ _ Ef) as [Hin Hpath]. subst p. destruct (Hm w Hin) as [Hc Halt].
    assert (El : lookup (crash_cleanup plan sel t) (w_path w) = written t w).
    { unfold crash_cleanup. rewrite lookup_filter by assumption.
      rewrite (write_all_planned _ _ _ Hp Hin). destruct (written t w) as [c|]; [|reflexivity].
      unfold doomed. cbn [fst snd]. rewrite planned_find, Ef. cbn [negb andb].
      rewrite andb_false_r. reflexivity. }
    rewrite (resettle t _ w Hc Halt El). reflexivity.
  - assert (El : lookup (crash_cleanup plan sel t) p =
                 match lookup t p with
                 | Some c => if in_scope p && negb (has_static (decode c)) && sel p then None else Some c
                 | None => None end).
    { unfold crash_cleanup. rewrite lookup_filter by assumption.
      rewrite write_all_other by (apply find_wr_none; assumption).
      destruct (lookup t p) as [c|]; [|reflexivity].
      unfold doomed. cbn [fst snd]. rewrite planned_find, Ef. cbn [negb]. rewrite andb_true_r.
      destruct (in_scope p && negb (has_static (decode c)) && sel p); reflexivity. }
    rewrite El. destruct (lookup t p) as [c|]; [|reflexivity].
    destruct (in_scope p && negb (has_static (decode c))) eqn:E; cbn [andb].
    + destruct (sel p); [reflexivity|]. rewrite E. reflexivity.
    + rewrite E. reflexivity.
Qed.
