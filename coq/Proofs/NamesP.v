(* NamesP.v — the sanitiser yields valid, non-reserved identifiers on the whole name domain. *)
From LN Require Import Model.Names Spec.Ident Proofs.CharsP Proofs.CaseP.
From Coq Require Import Lia.
Local Open Scope nat_scope.

Definition ad (c : ascii) : bool := is_alnum c || is_delim c.
Definition lc (c : ascii) : bool := is_lower c || is_digit c.
Definition lcu (c : ascii) : bool := lc c || ceqb c "_"%char.

(* snake-shaped: starts with a lower-case letter or digit, then [a-z0-9_]* *)
Definition good (s : str) : bool :=
  match s with c :: t => lc c && forallb lcu t | [] => false end.
(* pascal-shaped: starts with an upper-case letter or digit, then alphanumerics *)
Definition goodP (s : str) : bool :=
  match s with c :: t => (is_upper c || is_digit c) && forallb is_alnum t | [] => false end.

(* ---------- per-character facts (finite) ---------- *)
Lemma alnum_nd c : is_alnum c = true -> nd c = true.            Proof. case_ascii c. Qed.
Lemma alnum_lower_lc c : is_alnum c = true -> lc (to_lower c) = true.  Proof. case_ascii c. Qed.
Lemma lc_lcu c : lc c = true -> lcu c = true.                   Proof. case_ascii c. Qed.
Lemma lcu_idcont c : lcu c = true -> id_cont c = true.          Proof. case_ascii c. Qed.
Lemma alnum_idcont c : is_alnum c = true -> id_cont c = true.   Proof. case_ascii c. Qed.
Lemma lc_digit_or_lower c : lc c = true -> is_digit c = false -> is_lower c = true.  Proof. case_ascii c. Qed.
Lemma lower_idstart c : is_lower c = true -> id_start c = true. Proof. case_ascii c. Qed.
Lemma upper_idstart c : is_upper c = true -> id_start c = true. Proof. case_ascii c. Qed.
Lemma lower_not_us c : is_lower c = true -> ceqb c "_"%char = false.  Proof. case_ascii c. Qed.
Lemma upper_not_us c : is_upper c = true -> ceqb c "_"%char = false.  Proof. case_ascii c. Qed.
Lemma lcu_not_paren c : lcu c = true -> ceqb "("%char c = false.  Proof. case_ascii c. Qed.
Lemma lcu_not_dot c : lcu c = true -> ceqb "."%char c = false.    Proof. case_ascii c. Qed.
Lemma idcont_not_paren c : id_cont c = true -> ceqb "("%char c = false.  Proof. case_ascii c. Qed.
Lemma idcont_not_dot c : id_cont c = true -> ceqb "."%char c = false.    Proof. case_ascii c. Qed.
Lemma alnum_upper_ud c : is_alnum c = true -> (is_upper (to_upper c) || is_digit (to_upper c)) = true.  Proof. case_ascii c. Qed.
Lemma alnum_lower_alnum c : is_alnum c = true -> is_alnum (to_lower c) = true.  Proof. case_ascii c. Qed.
Lemma ud_alnum c : (is_upper c || is_digit c) = true -> is_alnum c = true.  Proof. case_ascii c. Qed.
Lemma ud_not_lower c : (is_upper c || is_digit c) = true -> is_lower c = false.  Proof. case_ascii c. Qed.
Lemma ud_nodigit_upper c : (is_upper c || is_digit c) = true -> is_digit c = false -> is_upper c = true.  Proof. case_ascii c. Qed.
Lemma lower_not_S c : is_lower c = true -> ceqb c "S"%char = false.  Proof. case_ascii c. Qed.
Lemma digit_not_idstart_is c : is_digit c = true -> ceqb c "_"%char = false.  Proof. case_ascii c. Qed.

(* ---------- rewrite_names keeps the alphabet [A-Za-z0-9_ -] and keeps an alphanumeric ---------- *)
Definition rw1 (x : ascii) : str :=
  flat_map (fun x0 : ascii =>
    flat_map (fun x1 : ascii =>
      flat_map (fun x2 : ascii => if ceqb x2 "."%char then lit "_" else [x2])
               (if ceqb x1 ":"%char then lit " " else [x1]))
      (if existsb (ceqb x0) ["@"%char; "'"%char; "+"%char] then [] else [x0]))
    (if ceqb x "/"%char then lit "_" else [x]).

Lemma rewrite_general s :
  replace_char "."%char (lit "_") (replace_char ":"%char (lit " ")
    (remove_chars ["@"%char; "'"%char; "+"%char] (replace_char "/"%char (lit "_") s))) = flat_map rw1 s.
Proof.
  rewrite !replace_char_flat_map, remove_chars_flat_map, !flat_map_flat_map. reflexivity.
Qed.

Lemma rw1_dom x : dom_char x = true -> forallb ad (rw1 x) = true.  Proof. case_ascii x. Qed.
Lemma rw1_alnum x : is_alnum x = true -> existsb is_alnum (rw1 x) = true.  Proof. case_ascii x. Qed.

Lemma rewrite_names_ok s :
  name_dom s = true ->
  forallb ad (rewrite_names s) = true /\ existsb is_alnum (rewrite_names s) = true.
Proof.
  unfold name_dom, rewrite_names. intros H. apply andb_prop in H as [Hd He].
  destruct (str_eqb s (lit "+1")); [split; reflexivity|].
  destruct (str_eqb s (lit "-1")); [split; reflexivity|].
  rewrite rewrite_general. split.
  - rewrite forallb_flat_map. eapply forallb_impl; [|exact Hd]. apply rw1_dom.
  - rewrite existsb_flat_map. apply existsb_exists in He as [x [Hx Ha]].
    apply existsb_exists. exists x. split; [exact Hx|apply rw1_alnum; exact Ha].
Qed.

(* ---------- words of an [ad] string with an alphanumeric ---------- *)
Lemma words_of_ad s :
  forallb ad s = true -> existsb is_alnum s = true ->
  split_words s <> [] /\ forallb (fun w => nonempty w && forallb is_alnum w) (split_words s) = true.
Proof.
  intros Ha He. split.
  - apply split_words_not_nil. apply existsb_exists in He as [x [Hx Hal]].
    apply existsb_exists. exists x. split; [exact Hx|apply alnum_nd; exact Hal].
  - apply words_forall. eapply forallb_impl; [|exact Ha]. intros x. unfold ad.
    rewrite orb_comm. auto.
Qed.

(* ---------- snake ---------- *)
Lemma good_lcu s : good s = true -> forallb lcu s = true.
Proof.
  destruct s as [|c t]; cbn; [discriminate|]. intros H. apply andb_prop in H as [H1 H2].
  rewrite (lc_lcu _ H1), H2. reflexivity.
Qed.

Lemma good_join (W : list str) :
  W <> [] -> forallb (fun w => nonempty w && forallb lc w) W = true -> good (join (lit "_") W) = true.
Proof.
  induction W as [|x W IH]; [congruence|]. intros _ H. cbn [forallb] in H.
  apply andb_prop in H as [Hx HW]. apply andb_prop in Hx as [Hne Hlc].
  destruct x as [|c t]; [discriminate|]. cbn [forallb] in Hlc. apply andb_prop in Hlc as [Hc Ht].
  destruct W as [|y W'].
  - cbn. rewrite Hc. cbn. eapply forallb_impl; [|exact Ht]. apply lc_lcu.
  - assert (Hj : good (join (lit "_") (y :: W')) = true) by (apply IH; [congruence|exact HW]).
    change (join (lit "_") ((c :: t) :: y :: W')) with ((c :: t) ++ lit "_" ++ join (lit "_") (y :: W')).
    cbn [app good]. rewrite Hc. cbn [andb]. rewrite !forallb_app. rewrite (good_lcu _ Hj).
    rewrite (forallb_impl lc lcu t lc_lcu Ht). reflexivity.
Qed.

Lemma snake_good s :
  forallb ad s = true -> existsb is_alnum s = true -> good (snake s) = true.
Proof.
  intros Ha He. destruct (words_of_ad s Ha He) as [Hn Hw]. unfold snake.
  apply good_join.
  - destruct (split_words s); [congruence|discriminate].
  - rewrite forallb_map. eapply forallb_impl; [|exact Hw]. intros w H.
    apply andb_prop in H as [H1 H2]. unfold lower_s. rewrite nonempty_map, H1. cbn.
    rewrite forallb_map. eapply forallb_impl; [|exact H2]. apply alnum_lower_lc.
Qed.

(* ---------- the regex pass ---------- *)
Lemma fds_eq3 a u d t : fix_digit_sep (a :: u :: d :: t) =
  if is_lower a && ceqb u "_"%char && is_digit d then a :: d :: fix_digit_sep t
  else a :: fix_digit_sep (u :: d :: t).
Proof. reflexivity. Qed.
Lemma fds_eq2 a u : fix_digit_sep [a; u] = [a; u].  Proof. reflexivity. Qed.
Lemma fds_eq1 a : fix_digit_sep [a] = [a].  Proof. reflexivity. Qed.

Lemma fds_forallb (P : ascii -> bool) : forall n s, length s <= n ->
  forallb P s = true -> forallb P (fix_digit_sep s) = true.
Proof.
  induction n as [|n IH]; intros s Hl H.
  - destruct s; [reflexivity|cbn in Hl; lia].
  - destruct s as [|a [|u [|d t]]]; try exact H.
    rewrite fds_eq3. pose proof H as H0. cbn [forallb] in H.
    apply andb_prop in H as [Ha H]. pose proof H as Hrest.
    apply andb_prop in H as [Hu H]. apply andb_prop in H as [Hd Ht].
    destruct (is_lower a && ceqb u "_"%char && is_digit d).
    + cbn [forallb]. rewrite Ha, Hd. cbn [andb]. apply IH; [cbn in Hl; lia|exact Ht].
    + cbn [forallb]. rewrite Ha. cbn [andb].
      apply (IH (u :: d :: t)); [cbn in Hl |- *; lia|exact Hrest].
Qed.

Lemma fds_head s : hd_opt (fix_digit_sep s) = hd_opt s.
Proof.
  destruct s as [|a [|u [|d t]]]; try reflexivity.
  rewrite fds_eq3. destruct (is_lower a && ceqb u "_"%char && is_digit d); reflexivity.
Qed.

Lemma fds_good s : good s = true -> good (fix_digit_sep s) = true.
Proof.
  intros H. pose proof (good_lcu _ H) as Hl.
  pose proof (fds_forallb lcu (length s) s (le_n _) Hl) as Hf.
  pose proof (fds_head s) as Hh.
  destruct s as [|c t]; [discriminate|]. cbn in H. apply andb_prop in H as [Hc _].
  destruct (fix_digit_sep (c :: t)) as [|c' t']; [discriminate|].
  cbn in Hh. inversion Hh; subst c'. cbn [forallb] in Hf. apply andb_prop in Hf as [_ Hf].
  cbn. rewrite Hc, Hf. reflexivity.
Qed.

(* ---------- the tail of sanitize: restricted suffix, digit prefix, assert_valid_ident ---------- *)
Definition finish (s1 : str) : str :=
  let s2 := if is_restricted s1 then s1 ++ lit "_" else s1 in
  match s2 with c :: _ => if is_digit c then "_"%char :: s2 else s2 | [] => s2 end.

Definition valid_b (s : str) : bool :=
  match assert_valid_ident s with Ok _ => true | Err _ => false end.

Lemma restricted_finish :
  forallb (fun w => ident_ok (finish w) && valid_b (finish w) && nonempty w) restricted_words = true.
Proof. vm_compute. reflexivity. Qed.

Lemma reserved_sub :
  forallb (fun w => mem_str w restricted_words || str_eqb w (lit "Self")) reserved = true.
Proof. vm_compute. reflexivity. Qed.

Lemma reserved_no_us_head :
  forallb (fun w => match w with c :: _ => negb (ceqb c "_"%char) | [] => true end) reserved = true.
Proof. vm_compute. reflexivity. Qed.

Lemma reserved_upper_is_Self :
  forallb (fun w => match w with c :: _ => negb (is_upper c) || str_eqb w (lit "Self") | [] => true end) reserved = true.
Proof. vm_compute. reflexivity. Qed.

Lemma restricted_lower_head :
  forallb (fun w => match w with c :: _ => is_lower c | [] => false end) restricted_words = true.
Proof. vm_compute. reflexivity. Qed.

Lemma us_not_reserved t : mem_str ("_"%char :: t) reserved = false.
Proof.
  destruct (mem_str ("_"%char :: t) reserved) eqn:E; [|reflexivity].
  pose proof (mem_str_forallb _ _ _ reserved_no_us_head E) as H. cbn in H. discriminate.
Qed.

Lemma forallb_not_contains (P : ascii -> bool) c s :
  forallb P s = true -> P c = false -> contains_char c s = false.
Proof.
  intros H Hc. unfold contains_char. destruct (existsb (ceqb c) s) eqn:E; [|reflexivity].
  apply existsb_exists in E as [x [Hx He]]. apply ceqb_eq in He. subst x.
  rewrite forallb_forall in H. rewrite (H _ Hx) in Hc. discriminate.
Qed.

Lemma valid_of_idcont c t :
  is_digit c = false -> forallb id_cont (c :: t) = true -> assert_valid_ident (c :: t) = Ok tt.
Proof.
  intros Hd Hf. unfold assert_valid_ident.
  rewrite (forallb_not_contains id_cont "("%char _ Hf) by reflexivity.
  rewrite Hd. rewrite (forallb_not_contains id_cont "."%char _ Hf) by reflexivity. reflexivity.
Qed.

Lemma finish_ok s1 : good s1 = true ->
  ident_ok (finish s1) = true /\ assert_valid_ident (finish s1) = Ok tt.
Proof.
  intros Hg. destruct (is_restricted s1) eqn:Er.
  - pose proof (mem_str_forallb _ _ _ restricted_finish Er) as H. cbn beta in H.
    apply andb_prop in H as [H _]. apply andb_prop in H as [H1 H2]. split; [exact H1|].
    unfold valid_b in H2. destruct (assert_valid_ident (finish s1)) as [[]|]; [reflexivity|discriminate].
  - unfold finish. rewrite Er. destruct s1 as [|c t]; [discriminate|].
    cbn in Hg. apply andb_prop in Hg as [Hc Ht].
    assert (Hic : forallb id_cont (c :: t) = true).
    { cbn. rewrite (lcu_idcont c (lc_lcu c Hc)). cbn. eapply forallb_impl; [|exact Ht]. apply lcu_idcont. }
    destruct (is_digit c) eqn:Ed.
    + split.
      * unfold ident_ok. cbn [id_start is_alpha]. rewrite Hic.
        rewrite us_not_reserved. cbn. reflexivity.
      * apply valid_of_idcont; [reflexivity|].
        change (forallb id_cont ("_"%char :: c :: t)) with (id_cont "_"%char && forallb id_cont (c :: t)).
        rewrite Hic. reflexivity.
    + pose proof (lc_digit_or_lower c Hc Ed) as Hl. split.
      * unfold ident_ok. rewrite (lower_idstart c Hl). cbn [forallb] in Hic.
        apply andb_prop in Hic as [_ Hic]. rewrite Hic. cbn [andb].
        assert (E1 : str_eqb (c :: t) (lit "_") = false).
        { cbn. rewrite (lower_not_us c Hl). reflexivity. }
        rewrite E1. cbn [negb andb].
        destruct (mem_str (c :: t) reserved) eqn:Em; [|reflexivity].
        pose proof (mem_str_forallb _ _ _ reserved_sub Em) as H. cbn beta in H.
        unfold is_restricted in Er. rewrite Er in H. cbn in H.
        rewrite (lower_not_S c Hl) in H. discriminate.
      * apply valid_of_idcont; [exact Ed|exact Hic].
Qed.

Lemma sanitize_unfold s :
  sanitize s = let s1 := fix_digit_sep (snake (rewrite_names s)) in
               let s2 := if is_restricted s1 then s1 ++ lit "_" else s1 in
               do d <- first_is_digit s2;
               let s3 := if d then "_"%char :: s2 else s2 in
               do _ <- assert_valid_ident s3; Ok s3.
Proof. reflexivity. Qed.

Lemma finish_nonempty s1 : good s1 = true -> exists c t, (if is_restricted s1 then s1 ++ lit "_" else s1) = c :: t.
Proof. destruct s1 as [|c t]; [discriminate|]. intros _. destruct (is_restricted (c :: t)); cbn; eauto. Qed.

Theorem sanitize_ident_ok s :
  name_dom s = true -> exists r, sanitize s = Ok r /\ ident_ok r = true.
Proof.
  intros Hd. destruct (rewrite_names_ok s Hd) as [Ha He].
  pose proof (fds_good _ (snake_good _ Ha He)) as Hg.
  destruct (finish_ok _ Hg) as [Hi Hv].
  rewrite sanitize_unfold. cbv zeta. unfold finish in Hi, Hv.
  set (s1 := fix_digit_sep (snake (rewrite_names s))) in *.
  destruct (finish_nonempty s1 Hg) as [c [t E]]. rewrite E in *.
  cbn [first_is_digit bind]. destruct (is_digit c); rewrite Hv; cbn [bind]; eexists; split; try reflexivity; exact Hi.
Qed.

(* ---------- pascal ---------- *)
Lemma goodP_alnum s : goodP s = true -> forallb is_alnum s = true.
Proof.
  destruct s as [|c t]; cbn; [discriminate|]. intros H. apply andb_prop in H as [H1 H2].
  rewrite (ud_alnum _ H1), H2. reflexivity.
Qed.

Lemma capital_goodP w : nonempty w = true -> forallb is_alnum w = true -> goodP (capital w) = true.
Proof.
  destruct w as [|c t]; [discriminate|]. intros _ H. cbn in H. apply andb_prop in H as [Hc Ht].
  cbn. rewrite (alnum_upper_ud c Hc). cbn. unfold lower_s. rewrite forallb_map.
  eapply forallb_impl; [|exact Ht]. apply alnum_lower_alnum.
Qed.

Lemma goodP_concat (W : list str) :
  W <> [] -> forallb goodP W = true -> goodP (concat W) = true.
Proof.
  destruct W as [|x W]; [congruence|]. intros _ H. cbn [forallb] in H. apply andb_prop in H as [Hx HW].
  cbn [concat]. destruct x as [|c t]; [discriminate|]. cbn in Hx. apply andb_prop in Hx as [Hc Ht].
  cbn. rewrite Hc. cbn. rewrite forallb_app, Ht. cbn. rewrite forallb_concat.
  eapply forallb_impl; [|exact HW]. apply goodP_alnum.
Qed.

Lemma pascal_goodP s :
  forallb ad s = true -> existsb is_alnum s = true -> goodP (pascal s) = true.
Proof.
  intros Ha He. destruct (words_of_ad s Ha He) as [Hn Hw]. unfold pascal.
  apply goodP_concat.
  - destruct (split_words s); [congruence|discriminate].
  - rewrite forallb_map. eapply forallb_impl; [|exact Hw]. intros w H.
    apply andb_prop in H as [H1 H2]. apply capital_goodP; assumption.
Qed.

Definition finishP (p : str) : str :=
  let p2 := if is_restricted p then p ++ lit "Struct" else p in
  let p3 := if str_eqb p2 (lit "Self") then p2 ++ lit "_" else p2 in
  match p3 with c :: _ => if is_digit c then "_"%char :: p3 else p3 | [] => p3 end.

Lemma goodP_not_restricted p : goodP p = true -> is_restricted p = false.
Proof.
  intros Hg. destruct (is_restricted p) eqn:E; [|reflexivity].
  pose proof (mem_str_forallb _ _ _ restricted_lower_head E) as H. cbn beta in H.
  destruct p as [|c t]; [discriminate|]. cbn in Hg. apply andb_prop in Hg as [Hc _].
  rewrite (ud_not_lower c Hc) in H. discriminate.
Qed.

Lemma finishP_ok p : goodP p = true ->
  ident_ok (finishP p) = true /\ assert_valid_ident (finishP p) = Ok tt.
Proof.
  intros Hg. unfold finishP. rewrite (goodP_not_restricted p Hg).
  destruct (str_eqb p (lit "Self")) eqn:ES.
  - apply str_eqb_eq in ES. subst p. split; vm_compute; reflexivity.
  - destruct p as [|c t]; [discriminate|]. pose proof (goodP_alnum _ Hg) as Hal.
    cbn in Hg. apply andb_prop in Hg as [Hc Ht].
    assert (Hic : forallb id_cont (c :: t) = true) by (eapply forallb_impl; [|exact Hal]; apply alnum_idcont).
    pose proof (ud_nodigit_upper c Hc) as Hup.
    destruct (is_digit c) eqn:Ed.
    + split.
      * unfold ident_ok. cbn [id_start is_alpha]. rewrite Hic. rewrite us_not_reserved. cbn. reflexivity.
      * apply valid_of_idcont; [reflexivity|].
        change (forallb id_cont ("_"%char :: c :: t)) with (id_cont "_"%char && forallb id_cont (c :: t)).
        rewrite Hic. reflexivity.
    + pose proof (Hup eq_refl) as Hu. split.
      * unfold ident_ok. rewrite (upper_idstart c Hu). cbn [forallb] in Hic.
        apply andb_prop in Hic as [_ Hic]. rewrite Hic. cbn [andb].
        assert (E1 : str_eqb (c :: t) (lit "_") = false).
        { cbn. rewrite (upper_not_us c Hu). reflexivity. }
        rewrite E1. cbn [negb andb].
        destruct (mem_str (c :: t) reserved) eqn:Em; [|reflexivity].
        pose proof (mem_str_forallb _ _ _ reserved_upper_is_Self Em) as H. cbn beta iota in H.
        rewrite Hu, ES in H. discriminate.
      * apply valid_of_idcont; [exact Ed|exact Hic].
Qed.

Lemma sanitize_struct_unfold s :
  sanitize_struct s = let p := pascal (rewrite_names s) in
               let p2 := if is_restricted p then p ++ lit "Struct" else p in
               let p3 := if str_eqb p2 (lit "Self") then p2 ++ lit "_" else p2 in
               do d <- first_is_digit p3;
               let p4 := if d then "_"%char :: p3 else p3 in
               do _ <- assert_valid_ident p4; Ok p4.
Proof. reflexivity. Qed.

Theorem sanitize_struct_ident_ok s :
  name_dom s = true -> exists r, sanitize_struct s = Ok r /\ ident_ok r = true.
Proof.
  intros Hd. destruct (rewrite_names_ok s Hd) as [Ha He].
  pose proof (pascal_goodP _ Ha He) as Hg.
  destruct (finishP_ok _ Hg) as [Hi Hv].
  rewrite sanitize_struct_unfold. cbv zeta. unfold finishP in Hi, Hv.
  set (p := pascal (rewrite_names s)) in *.
  rewrite (goodP_not_restricted p Hg) in *.
  destruct p as [|c t] eqn:Ep; [discriminate|].
  destruct (str_eqb (c :: t) (lit "Self")) eqn:ES.
  - apply str_eqb_eq in ES. rewrite ES. exists (lit "Self_"). split; reflexivity.
  - cbn [first_is_digit bind]. destruct (is_digit c); rewrite Hv; cbn [bind]; eexists; split; try reflexivity; exact Hi.
Qed.

(* ---------- operation module names ---------- *)
Lemma opid_dot x : opid_char x = true ->
  forallb ad (if ceqb x "."%char then lit "_" else [x]) = true.   Proof. case_ascii x. Qed.
Lemma opid_dot_alnum x : is_alnum x = true ->
  existsb is_alnum (if ceqb x "."%char then lit "_" else [x]) = true.   Proof. case_ascii x. Qed.

Lemma alnum_ad c : is_alnum c = true -> ad c = true.
Proof. unfold ad. intros ->. reflexivity. Qed.

Theorem op_module_ident_ok id :
  opid_dom id = true -> ident_ok (op_file_name (op_name_of_id id)) = true.
Proof.
  unfold opid_dom. intros H. apply andb_prop in H as [Hd He].
  unfold op_name_of_id. rewrite replace_char_flat_map.
  set (r := flat_map _ id).
  assert (Ha : forallb ad r = true).
  { unfold r. rewrite forallb_flat_map. eapply forallb_impl; [|exact Hd]. apply opid_dot. }
  assert (He' : existsb is_alnum r = true).
  { unfold r. rewrite existsb_flat_map. apply existsb_exists in He as [x [Hx Hal]].
    apply existsb_exists. exists x. split; [exact Hx|apply opid_dot_alnum; exact Hal]. }
  pose proof (pascal_goodP r Ha He') as Hg. pose proof (goodP_alnum _ Hg) as Hal.
  assert (Hg2 : good (snake (pascal r)) = true).
  { apply snake_good.
    - eapply forallb_impl; [|exact Hal]. apply alnum_ad.
    - destruct (pascal r) as [|c t]; [discriminate|]. cbn in Hal |- *.
      apply andb_prop in Hal as [-> _]. reflexivity. }
  destruct (finish_ok _ Hg2) as [Hi _]. exact Hi.
Qed.

(* ---------- the crate (package) name that the examples import ---------- *)
Lemma lc_nodigit_alpha c : lc c = true -> is_digit c = false -> is_alpha c = true.  Proof. case_ascii c. Qed.
Lemma lcu_ident_char c : lcu c = true -> ident_char c = true.  Proof. case_ascii c. Qed.
Lemma lc_digit_not_start c : lc c = true -> is_digit c = true -> (is_alpha c || ceqb c "_"%char) = false.
Proof. case_ascii c. Qed.

(* For every service name over [A-Za-z0-9_ -] with a letter or digit, the package name is non-empty, made of [a-z0-9_],
   starts with a letter or digit, and is accepted as an identifier in `use <pkg>::...` exactly when it does not start
   with a digit (libninja does not repair that case: the examples of such a crate do not parse). *)
Theorem package_name_shape svc :
  forallb ad svc = true -> existsb is_alnum svc = true ->
  good (package_name svc) = true /\
  ident_new_ok (package_name svc) = negb (match package_name svc with c :: _ => is_digit c | [] => false end).
Proof.
  intros Ha He. pose proof (snake_good svc Ha He) as Hg. split; [exact Hg|].
  unfold package_name in *. destruct (snake svc) as [|c t]; [discriminate|].
  cbn [good] in Hg. apply andb_prop in Hg as [Hc Ht]. cbn [ident_new_ok].
  rewrite (forallb_impl lcu ident_char t lcu_ident_char Ht), andb_true_r.
  destruct (is_digit c) eqn:Hd.
  - rewrite (lc_digit_not_start c Hc Hd). reflexivity.
  - rewrite (lc_nodigit_alpha c Hc Hd). reflexivity.
Qed.

(* ---------- environment variable names ---------- *)
Definition ucu (c : ascii) : bool := is_upper c || is_digit c || ceqb c "_"%char.
Lemma alnum_upper_ucu c : is_alnum c = true -> ucu (to_upper c) = true.  Proof. case_ascii c. Qed.
Lemma ucu_not_eq c : ucu c = true -> ceqb c "="%char = false.  Proof. case_ascii c. Qed.
Lemma ucu_not_nul c : ucu c = true -> ceqb c "000"%char = false.  Proof. case_ascii c. Qed.

Lemma forallb_join (P : ascii -> bool) sep (W : list str) :
  forallb P sep = true -> forallb (forallb P) W = true -> forallb P (join sep W) = true.
Proof.
  intros Hs. induction W as [|x W IH]; [reflexivity|]. intros H. cbn [forallb] in H.
  apply andb_prop in H as [Hx HW]. destruct W as [|y W']; [exact Hx|].
  change (join sep (x :: y :: W')) with (x ++ sep ++ join sep (y :: W')).
  rewrite !forallb_app, Hx, Hs, (IH HW). reflexivity.
Qed.

Lemma join_nonempty sep (W : list str) :
  W <> [] -> forallb nonempty W = true -> nonempty (join sep W) = true.
Proof.
  destruct W as [|x W]; [congruence|]. intros _ H. cbn [forallb] in H. apply andb_prop in H as [Hx _].
  destruct x as [|c t]; [discriminate|]. destruct W; reflexivity.
Qed.

(* The name passed to std::env::var is non-empty and made of [A-Z0-9_] only (so it holds neither '=' nor NUL, the two
   characters the operating system refuses in a variable name), for every text over [A-Za-z0-9_ -] with a letter or
   digit. *)
Theorem screaming_snake_shape s :
  forallb ad s = true -> existsb is_alnum s = true ->
  nonempty (screaming_snake s) = true /\ forallb ucu (screaming_snake s) = true.
Proof.
  intros Ha He. destruct (words_of_ad s Ha He) as [Hn Hw]. unfold screaming_snake. split.
  - apply join_nonempty.
    + destruct (split_words s); [congruence|discriminate].
    + rewrite forallb_map. eapply forallb_impl; [|exact Hw]. intros w H.
      apply andb_prop in H as [H1 _]. unfold upper_s. rewrite nonempty_map. exact H1.
  - apply forallb_join; [reflexivity|]. rewrite forallb_map. eapply forallb_impl; [|exact Hw]. intros w H.
    apply andb_prop in H as [_ H2]. unfold upper_s. rewrite forallb_map.
    eapply forallb_impl; [|exact H2]. apply alnum_upper_ucu.
Qed.

Theorem qualified_env_var_shape svc v :
  forallb ad svc = true -> forallb ad v = true -> existsb is_alnum svc = true ->
  nonempty (qualified_env_var svc v) = true /\ forallb ucu (qualified_env_var svc v) = true /\
  contains_char "="%char (qualified_env_var svc v) = false /\ contains_char "000"%char (qualified_env_var svc v) = false.
Proof.
  intros Hs Hv He. unfold qualified_env_var.
  assert (Ha : forallb ad (svc ++ lit " " ++ v) = true) by (rewrite !forallb_app, Hs, Hv; reflexivity).
  assert (He' : existsb is_alnum (svc ++ lit " " ++ v) = true) by (rewrite existsb_app, He; reflexivity).
  destruct (screaming_snake_shape _ Ha He') as [Hn Hu]. repeat split; [exact Hn|exact Hu| |].
  - apply (forallb_not_contains ucu); [exact Hu|reflexivity].
  - apply (forallb_not_contains ucu); [exact Hu|reflexivity].
Qed.

(* ---------- the two struct names of an operation ---------- *)
Lemma request_struct_name_inj a b : request_struct_name a = request_struct_name b -> a = b.
Proof. unfold request_struct_name. apply app_inv_tail. Qed.
Lemma required_struct_name_inj a b : required_struct_name a = required_struct_name b -> a = b.
Proof. unfold required_struct_name. apply app_inv_tail. Qed.
Lemma request_required_disjoint a b : request_struct_name a <> required_struct_name b.
Proof.
  unfold request_struct_name, required_struct_name. intros E. apply (f_equal (@rev ascii)) in E.
  rewrite !rev_app_distr in E. cbn in E. discriminate.
Qed.
