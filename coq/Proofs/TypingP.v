(* TypingP.v — the derive/trait bounds and lifetimes the emitted crate relies on (C02). *)
From Coq Require Import Lia.
From LN Require Import Sem.Traits Proofs.CharsP Proofs.CaseP Proofs.NamesP Proofs.EmitP.
Local Open Scope nat_scope.

(* ---------- implements_default ---------- *)
(* the inline loop of ty_implements_default is all_default one level down *)
Lemma tid_model_unfold f h n :
  ty_implements_default (S f) h (TModel n) =
  match assoc (h_schemas h) n with
  | None => Err EModelNotFound
  | Some (REnum _ _ _) => Ok false
  | Some r => all_default f h (record_fields r)
  end.
Proof.
  cbn [ty_implements_default]. destruct (assoc (h_schemas h) n) as [r|]; [|reflexivity].
  assert (G : forall l, (fix all (l : list hfield) : result bool :=
               match l with
               | [] => Ok true
               | fl :: rest => do b <- ty_implements_default f h (f_ty fl); if b then all rest else Ok false
               end) l = all_default f h l).
  { induction l as [|fl l IH]; [reflexivity|]. cbn [all_default]. rewrite <- IH. reflexivity. }
  destruct r; try reflexivity; apply G.
Qed.

Lemma all_default_mono f g h l b :
  (forall x b, ty_implements_default f h x = Ok b -> ty_implements_default g h x = Ok b) ->
  all_default f h l = Ok b -> all_default g h l = Ok b.
Proof.
  intros Hm. induction l as [|fl l IH]; intros H; cbn [all_default] in *; [exact H|].
  apply bind_ok in H as [b1 [Hb1 H]]. rewrite (Hm _ _ Hb1). cbn [bind]. destruct b1; [apply IH; exact H|exact H].
Qed.

Lemma tid_mono h : forall f x b, ty_implements_default f h x = Ok b -> forall g, f <= g -> ty_implements_default g h x = Ok b.
Proof.
  induction f as [|f IH]; intros x b H g Hg; [discriminate H|].
  destruct g as [|g]; [lia|].
  destruct x as [|s| | |i|i|name| |s| | |]; try exact H.
  rewrite tid_model_unfold in *. destruct (assoc (h_schemas h) name) as [r|]; [|exact H].
  assert (M : forall l, all_default f h l = Ok b -> all_default g h l = Ok b).
  { intros l. apply all_default_mono. intros x b0 Hx. apply (IH _ _ Hx). lia. }
  destruct r; try exact H; apply M; exact H.
Qed.

Lemma all_default_mono_le h f g l b : f <= g -> all_default f h l = Ok b -> all_default g h l = Ok b.
Proof. intros Hle. apply all_default_mono. intros x b0 Hx. apply (tid_mono _ _ _ _ Hx). exact Hle. Qed.

Lemma all_default_true_in f h l : all_default f h l = Ok true -> forall fl, In fl l -> ty_implements_default f h (f_ty fl) = Ok true.
Proof.
  induction l as [|a l IH]; intros H fl Hin; [destruct Hin|]. cbn [all_default] in H.
  apply bind_ok in H as [b [Hb H]]. destruct b; [|discriminate H].
  destruct Hin as [<-|Hin]; [exact Hb|apply IH; assumption].
Qed.

(* what the generator takes for `implements Default` is sound for Rust's rule, in a crate whose every item was emitted at
   fuel F: if it says yes for x, the Rust type of x has Default given what the OTHER generated items derive *)
Theorem implements_default_sound h F : forall f x, f <= F ->
  ty_implements_default f h x = Ok true -> rust_default F f h x = true.
Proof.
  induction f as [|f IH]; intros x Hle H; [discriminate H|].
  destruct x as [|s| | |i|i|name| |s| | |]; try reflexivity.
  rewrite tid_model_unfold in H. cbn [rust_default].
  destruct (assoc (h_schemas h) name) as [r|]; [|discriminate H].
  destruct r as [n nl fs d|n fs d|n fl|n vs d]; cbn [record_fields] in H.
  - rewrite (all_default_mono_le h f F _ _ (ltac:(lia)) H). reflexivity.
  - rewrite (all_default_mono_le h f F _ _ (ltac:(lia)) H). reflexivity.
  - cbn [all_default] in H. apply bind_ok in H as [b [Hb H]]. destruct b; [|discriminate H].
    rewrite (IH _ (ltac:(lia)) Hb). apply Bool.orb_true_r.
  - discriminate H.
Qed.

(* every field of a generated struct / tuple struct that derives Default has a Default type *)
Theorem default_bound_met h F fields : all_default F h fields = Ok true ->
  forall fl, In fl fields -> rust_default F F h (f_ty fl) = true.
Proof.
  intros H fl Hin. apply implements_default_sound; [lia|]. eapply all_default_true_in; eauto.
Qed.

(* ---------- lifetimes ---------- *)
Lemma to_rust_type_no_ref : forall x r, to_rust_type x = Ok r -> rty_has_ref r = false.
Proof.
  induction x; intros r H; cbn [to_rust_type] in H; try (apply Ok_inj in H; subst r; reflexivity).
  - apply bind_ok in H as [i [Hi H]]. apply Ok_inj in H. subst r. cbn. eauto.
  - apply bind_ok in H as [i [Hi H]]. apply Ok_inj in H. subst r. cbn. eauto.
  - apply bind_ok in H as [i [Hi H]]. apply Ok_inj in H. subst r. reflexivity.
Qed.

Lemma to_reference_type_ref : forall x r, to_reference_type x = Ok r -> rty_has_ref r = is_reference_type x.
Proof.
  induction x; intros r H; cbn [to_reference_type is_reference_type] in *;
    try (apply (to_rust_type_no_ref _ _ H)); try (apply Ok_inj in H; subst r; reflexivity).
  destruct (is_reference_type x) eqn:E.
  - apply bind_ok in H as [i [Hi H]]. apply Ok_inj in H. subst r. reflexivity.
  - apply (to_rust_type_no_ref (TArray x) _ H).
Qed.

Lemma existsb_filter {A} (p q : A -> bool) l : existsb (fun x => p x && q x) l = existsb q (filter p l).
Proof.
  induction l as [|a l IH]; [reflexivity|]. cbn [existsb filter]. destruct (p a); cbn [andb existsb]; rewrite IH; reflexivity.
Qed.

(* the required-arguments struct declares `<'a>` exactly when one of its fields is printed with a reference type *)
Theorem required_struct_lifetime o c : crowded_args o = true -> required_struct o = Ok c ->
  exists nm fields,
    c = t "pub struct" ++ nm ++
        (if existsb (fun p => is_reference_type (p_ty p)) (required_params o) then t "< 'a >" else []) ++
        t "{" ++ concat fields ++ t "}" /\
    Forall2 (fun p fc => exists tyc id r, to_reference_type (p_ty p) = Ok r /\ tyc = rty_code_lt (t "'a") r /\
                           rty_has_ref r = is_reference_type (p_ty p) /\
                           fc = t "pub" ++ id ++ t ":" ++ tyc ++ t ",") (required_params o) fields.
Proof.
  unfold required_struct. intros Hc H. rewrite Hc in H.
  apply bind_ok in H as [nm [_ H]]. apply bind_ok in H as [fields [Hf H]]. apply Ok_inj in H.
  exists nm, fields. split.
  - rewrite (existsb_filter (fun p => negb (p_optional p)) (fun p => is_reference_type (p_ty p))) in H. symmetry. exact H.
  - apply mapM_ok in Hf. clear H.
    assert (Hreq : Forall (fun p => p_optional p = false) (required_params o)).
    { apply Forall_forall. intros p Hp. unfold required_params in Hp. apply filter_In in Hp as [_ Hp].
      destruct (p_optional p); [discriminate Hp|reflexivity]. }
    induction Hf as [|p fc ps fcs Hp Hf IH]; [constructor|]. inversion Hreq as [|x xs Hx Hxs]; subst.
    constructor; [|apply IH; exact Hxs].
    apply bind_ok in Hp as [c0 [Hc0 Hp]]. apply Ok_inj in Hp. subst fc.
    unfold struct_field in Hc0. apply bind_ok in Hc0 as [tyc [Ht Hc0]]. apply bind_ok in Hc0 as [id [_ Hc0]].
    apply Ok_inj in Hc0. subst c0. rewrite Hx. unfold ref_ty_code in Ht. apply bind_ok in Ht as [r [Hr Ht]]. apply Ok_inj in Ht.
    exists tyc, id, r. repeat split; auto; [apply to_reference_type_ref; exact Hr|].
    rewrite <- !app_assoc. reflexivity.
Qed.

(* ---------- Display ---------- *)
Theorem to_string_receivers_display fuel h o : inputs_displayable fuel h o = true ->
  forall p x, In p (o_params o) -> to_string_receiver (request_plan (o_params o)) p = Some x -> rust_display fuel h x = true.
Proof.
  unfold inputs_displayable. intros H p x Hin Hx. rewrite forallb_forall in H. specialize (H p Hin). rewrite Hx in H. exact H.
Qed.

(* D does not make it so: a header input that is a list of lists of integers is rendered item by item with to_string(),
   and `Vec<i64>` has no Display — while the generator happily emits the request module *)
Definition nested_param : hparam :=
  {| p_name := lit "ids"; p_ty := TArray (TArray (TInteger ISimple)); p_loc := LHeader; p_optional := false; p_doc := None |}.
Definition nested_op : hop :=
  {| o_name := lit "ListPets"; o_doc := None; o_params := [nested_param]; o_ret := TUnit; o_path := lit "/pets"; o_method := lit "get" |}.
Definition nested_hir : hirspec :=
  {| h_ops := [nested_op]; h_schemas := []; h_servers := []; h_security := []; h_docs_url := None |}.

Theorem display_refuted :
  (exists c, request_file nested_hir {| c_name := lit "Petstore"; c_derives := []; c_examples := false |} nested_op = Ok c) /\
  to_string_receiver (request_plan (o_params nested_op)) nested_param = Some (TArray (TInteger ISimple)) /\
  forall fuel, rust_display fuel nested_hir (TArray (TInteger ISimple)) = false.
Proof.
  split; [|split].
  - eexists. vm_compute. reflexivity.
  - reflexivity.
  - intros [|f]; reflexivity.
Qed.

(* the struct generator: `, Default` is in the derive list exactly when all_default says so, and then every field type,
   as Rust sees it, has Default *)
Theorem class_default_bound fuel h cfg name fields docs c : make_class fuel h cfg name fields docs = Ok c ->
  exists dflt post, all_default fuel h (map snd fields) = Ok dflt /\
    c = doc_attr docs ++ derive_attr "Debug, Clone, Serialize, Deserialize" dflt cfg ++ post /\
    (dflt = true -> forall kf, In kf fields -> rust_default fuel fuel h (f_ty (snd kf)) = true).
Proof.
  unfold make_class. intros H. apply bind_ok in H as [dflt [Hd H]]. apply bind_ok in H as [nm [_ H]].
  apply bind_ok in H as [fs [_ H]]. apply bind_ok in H as [deref [_ H]]. apply Ok_inj in H. subst c.
  exists dflt. eexists. split; [exact Hd|]. split; [reflexivity|].
  intros -> kf Hin. eapply default_bound_met; [exact Hd|]. apply in_map. exact Hin.
Qed.

Theorem newtype_default_bound fuel h cfg name fields c : make_newtype fuel h cfg name fields = Ok c ->
  exists dflt post, all_default fuel h fields = Ok dflt /\
    c = derive_attr "Debug, Clone, Serialize, Deserialize" dflt cfg ++ post /\
    (dflt = true -> forall fl, In fl fields -> rust_default fuel fuel h (f_ty fl) = true).
Proof.
  unfold make_newtype. intros H. apply bind_ok in H as [nm [_ H]]. apply bind_ok in H as [tys [_ H]].
  apply bind_ok in H as [dflt [Hd H]]. apply Ok_inj in H. subst c.
  exists dflt. eexists. split; [exact Hd|]. split; [reflexivity|].
  intros -> fl Hin. eapply default_bound_met; eauto.
Qed.
