(* InputsP.v — C05: the extracted parameters are exactly the declared inputs: none dropped, none duplicated,
   requiredness preserved; sorting by name only permutes them. *)
From LN Require Import Model.Extractor Spec.Inputs Proofs.CharsP.
From Coq Require Import Permutation.
Local Open Scope nat_scope.

Lemma has_param_erase l n : has_param l n = existsb (fun x => str_eqb (d_name x) n) (map erase l).
Proof. unfold has_param. induction l as [|p l IH]; cbn; [reflexivity|]. rewrite IH. reflexivity. Qed.

Lemma push_new_erase ps : forall l, map erase (push_new l ps) = add_new (map erase l) (map erase ps).
Proof.
  unfold push_new, add_new. induction ps as [|p ps IH]; intros l; cbn [fold_left map]; [reflexivity|].
  rewrite IH. f_equal. rewrite has_param_erase. cbn [d_name erase fst].
  destruct (existsb _ (map erase l)); [reflexivity|]. rewrite map_app. reflexivity.
Qed.

Lemma mapM_erase_params fuel sp l ps : mapM (extract_param fuel sp) l = Ok ps -> map erase ps = map declared_param l.
Proof.
  revert ps. induction l as [|p l IH]; intros ps H; cbn in H.
  - inversion H. reflexivity.
  - apply bind_ok in H as [hp [Hp H]]. apply bind_ok in H as [hps [Hps H]]. inversion H; subst. cbn [map]. rewrite (IH _ Hps). f_equal.
    unfold extract_param in Hp. apply bind_ok in Hp as [s [_ Hp]]. apply bind_ok in Hp as [t [_ Hp]]. inversion Hp; subst.
    unfold erase, declared_param. cbn. rewrite negb_involutive. reflexivity.
Qed.

Theorem extract_parameters_declared fuel sp o item ps :
  extract_parameters fuel sp o item = Ok ps -> declared fuel sp o item = Ok (map erase ps).
Proof.
  unfold extract_parameters, declared. intros H.
  apply bind_ok in H as [inputs [Hi H]]. apply bind_ok in H as [args [Ha H]].
  rewrite <- (mapM_erase_params _ _ _ _ Hi), <- (mapM_erase_params _ _ _ _ Ha), <- push_new_erase.
  destruct (op_body o) as [br|]; [|inversion H; reflexivity].
  destruct (resolve sp br) as [body|e]; [|discriminate]. cbn [bind] in *.
  assert (Hobj : (do props <- properties_iter fuel sp body;
          match props with
          | [] => Ok (push_new inputs args ++ [body_param TAny])
          | _ => do bargs <- mapM (fun pr => let '(name, r) := pr in
                            do t <- schema_ref_to_ty fuel sp r;
                            do ps0 <- resolve sp r;
                            do req <- body_requires fuel sp body name;
                            Ok {| p_name := name; p_ty := t; p_loc := LBody;
                                  p_optional := s_nullable ps0 || negb req; p_doc := None |}) props;
                 Ok (push_new (push_new inputs args) bargs)
          end) = Ok ps ->
     (do props <- properties_iter fuel sp body;
          match props with
          | [] => Ok (map erase (push_new inputs args) ++ [body_input])
          | _ => do ds <- mapM (fun pr => let '(name, r) := pr in
                        do ps0 <- resolve sp r;
                        do req <- body_requires fuel sp body name;
                        Ok (name, LBody, req && negb (s_nullable ps0))) props;
                 Ok (add_new (map erase (push_new inputs args)) ds)
          end) = Ok (map erase ps)).
  { intros H0. apply bind_ok in H0 as [props [Hp H0]]. rewrite Hp. cbn [bind]. destruct props as [|pr props].
    - inversion H0; subst. rewrite map_app. reflexivity.
    - apply bind_ok in H0 as [bargs [Hb H0]]. inversion H0; subst. rewrite push_new_erase.
      assert (Hm : mapM (fun pr0 => let '(name, r) := pr0 in
                        do ps0 <- resolve sp r;
                        do req <- body_requires fuel sp body name;
                        Ok (name, LBody, req && negb (s_nullable ps0))) (pr :: props) = Ok (map erase bargs)).
      { clear H0 H. revert bargs Hb. generalize (pr :: props). intros l. induction l as [|[name r] l IH]; intros bargs Hb; cbn in Hb.
        - inversion Hb. reflexivity.
        - apply bind_ok in Hb as [hp [Hhp Hb]]. apply bind_ok in Hb as [hps [Hhps Hb]]. inversion Hb; subst.
          apply bind_ok in Hhp as [t [_ Hhp]]. apply bind_ok in Hhp as [ps0 [Hps0 Hhp]]. apply bind_ok in Hhp as [req [Hreq Hhp]].
          inversion Hhp; subst. cbn [mapM]. rewrite Hps0. cbn [bind]. rewrite Hreq. cbn [bind]. rewrite (IH _ Hhps). cbn [bind map].
          unfold erase at 1. cbn [p_name p_loc p_optional]. f_equal. f_equal. destruct (s_nullable ps0), req; reflexivity. }
      rewrite Hm. cbn [bind]. rewrite !push_new_erase. reflexivity. }
  destruct (s_kind body); try (apply Hobj; exact H).
  apply bind_ok in H as [t [_ H]]. inversion H; subst. rewrite map_app. reflexivity.
Qed.

(* sorting by name is a permutation *)
Lemma insert_by_name_perm p l : Permutation (insert_by_name p l) (p :: l).
Proof.
  induction l as [|q l IH]; cbn; [apply Permutation_refl|]. destruct (str_ltb (p_name p) (p_name q)); [apply Permutation_refl|].
  eapply perm_trans; [apply perm_skip; exact IH|apply perm_swap].
Qed.

Theorem sort_params_perm l : Permutation (sort_params l) l.
Proof.
  unfold sort_params. assert (G : forall acc, Permutation (fold_left (fun acc p => insert_by_name p acc) l acc) (acc ++ l)).
  { induction l as [|p l IH]; intros acc; cbn; [rewrite app_nil_r; apply Permutation_refl|].
    eapply perm_trans; [apply IH|]. eapply perm_trans; [apply Permutation_app_tail; apply insert_by_name_perm|].
    cbn. apply Permutation_middle. }
  apply (G []).
Qed.

(* no input is duplicated when the declared names are distinct: add_new drops nothing *)
Lemma add_new_nodup ds : forall l,
  NoDup (map d_name (l ++ ds)) -> add_new l ds = l ++ ds.
Proof.
  unfold add_new. induction ds as [|d ds IH]; intros l H; cbn [fold_left]; [rewrite app_nil_r; reflexivity|].
  assert (Hn : existsb (fun x => str_eqb (d_name x) (d_name d)) l = false).
  { destruct (existsb _ l) eqn:E; [|reflexivity]. exfalso. apply existsb_exists in E as [x [Hx Hx2]]. apply str_eqb_eq in Hx2.
    rewrite map_app in H. cbn in H. apply NoDup_remove_2 in H. apply H. apply in_or_app. left. rewrite <- Hx2. apply in_map. exact Hx. }
  rewrite Hn. rewrite IH; [rewrite <- app_assoc; reflexivity|]. rewrite <- app_assoc. exact H.
Qed.
