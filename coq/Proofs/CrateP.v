(* CrateP.v — the generated tree as a whole: which paths are written (C01 "complete crate", C02 "every module it
   declares has a file", "nothing is defined twice"), and name-skeleton preservation of the file-name sanitiser. *)
From Coq Require Import Lia.
From LN Require Import Model.Crate Proofs.CharsP Proofs.CaseP Proofs.NamesP Proofs.NormP.
Local Open Scope nat_scope.

(* ---------- skeleton preservation of `sanitize` (schema file / module names) ---------- *)
Lemma norm_cons_non_alnum c s : is_alnum c = false -> norm (c :: s) = norm s.
Proof. intros H. unfold norm. cbn [filter]. rewrite H. reflexivity. Qed.

Lemma norm_replace_char c (r : str) s : is_alnum c = false -> forallb (fun x => negb (is_alnum x)) r = true ->
  norm (replace_char c r s) = norm s.
Proof.
  intros Hc Hr. induction s as [|x s IH]; [reflexivity|]. cbn [replace_char].
  rewrite norm_app, IH. change (x :: s) with ([x] ++ s). rewrite (norm_app [x] s). f_equal.
  destruct (ceqb x c) eqn:E; [|reflexivity]. apply ceqb_eq in E. subst x.
  rewrite (norm_cons_non_alnum c [] Hc). clear IH. induction r as [|y r IHr]; [reflexivity|].
  cbn [forallb] in Hr. apply andb_prop in Hr as [Hy Hr]. rewrite norm_cons_non_alnum; [auto|].
  destruct (is_alnum y); [discriminate|reflexivity].
Qed.

Lemma norm_remove_chars cs s : forallb (fun x => negb (is_alnum x)) cs = true -> norm (remove_chars cs s) = norm s.
Proof.
  intros Hcs. rewrite remove_chars_flat_map. induction s as [|x s IH]; [reflexivity|]. cbn [flat_map].
  rewrite norm_app, IH. change (x :: s) with ([x] ++ s). rewrite (norm_app [x] s). f_equal.
  destruct (existsb (ceqb x) cs) eqn:E; [|reflexivity].
  apply existsb_exists in E as [y [Hin Hy]]. apply ceqb_eq in Hy. subst y.
  rewrite forallb_forall in Hcs. specialize (Hcs _ Hin). rewrite norm_cons_non_alnum; [reflexivity|].
  destruct (is_alnum x); [discriminate|reflexivity].
Qed.

Lemma norm_rewrite_names s : s <> lit "+1" -> s <> lit "-1" -> norm (rewrite_names s) = norm s.
Proof.
  intros H1 H2. unfold rewrite_names.
  destruct (str_eqb s (lit "+1")) eqn:E1; [apply str_eqb_eq in E1; contradiction|].
  destruct (str_eqb s (lit "-1")) eqn:E2; [apply str_eqb_eq in E2; contradiction|].
  rewrite norm_replace_dot, norm_replace_char, norm_remove_chars, norm_replace_char; reflexivity.
Qed.

Lemma norm_fix_digit_sep : forall n s, length s <= n -> norm (fix_digit_sep s) = norm s.
Proof.
  induction n as [|n IH]; intros s Hl.
  - destruct s; [reflexivity|cbn in Hl; lia].
  - destruct s as [|a [|u [|d t]]]; try reflexivity.
    + rewrite fds_eq3. destruct (is_lower a && ceqb u "_"%char && is_digit d) eqn:E.
      * apply andb_prop in E as [E Hd]. apply andb_prop in E as [Ha Hu]. apply ceqb_eq in Hu. subst u.
        change (a :: d :: fix_digit_sep t) with ([a; d] ++ fix_digit_sep t).
        change (a :: "_"%char :: d :: t) with ([a] ++ "_"%char :: ([d] ++ t)).
        rewrite !norm_app, norm_us_prefix, norm_app. rewrite IH; [|cbn in Hl; lia].
        change [a; d] with ([a] ++ [d]). rewrite norm_app, <- app_assoc. reflexivity.
      * change (a :: fix_digit_sep (u :: d :: t)) with ([a] ++ fix_digit_sep (u :: d :: t)).
        change (a :: u :: d :: t) with ([a] ++ u :: d :: t). rewrite !norm_app. rewrite IH; [reflexivity|cbn in Hl |- *; lia].
Qed.

Theorem norm_sanitize s r : s <> lit "+1" -> s <> lit "-1" -> sanitize s = Ok r -> norm r = norm s.
Proof.
  intros H1 H2 H. rewrite sanitize_unfold in H. cbv zeta in H.
  set (s1 := fix_digit_sep (snake (rewrite_names s))) in *.
  assert (N1 : norm s1 = norm s).
  { unfold s1. rewrite (norm_fix_digit_sep _ _ (le_n _)), norm_snake. apply norm_rewrite_names; assumption. }
  set (s2 := if is_restricted s1 then s1 ++ lit "_" else s1) in *.
  assert (N2 : norm s2 = norm s). { unfold s2. destruct (is_restricted s1); [rewrite norm_us_suffix|]; exact N1. }
  apply bind_ok in H as [d [Hd H]]. apply bind_ok in H as [u [_ H]]. apply Ok_inj in H. subst r.
  destruct d; [rewrite norm_us_prefix|]; exact N2.
Qed.

(* ---------- mapM helpers ---------- *)
Lemma mapM_ext {A B} (f g : A -> result B) l : (forall x, In x l -> f x = g x) -> mapM f l = mapM g l.
Proof.
  induction l as [|a l IH]; intros H; [reflexivity|]. cbn [mapM]. rewrite (H a (or_introl eq_refl)).
  rewrite IH; [reflexivity|]. intros x Hx. apply H. right. exact Hx.
Qed.

Lemma mapM_map_fst {A B C} (f : A -> result (B * C)) (g : A -> result B) l out :
  (forall a bc, f a = Ok bc -> g a = Ok (fst bc)) ->
  mapM f l = Ok out -> mapM g l = Ok (map fst out).
Proof.
  intros Hfg. revert out. induction l as [|a l IH]; intros out H; cbn [mapM] in *.
  - apply Ok_inj in H. subst out. reflexivity.
  - apply bind_ok in H as [bc [Hbc H]]. apply bind_ok in H as [rest [Hrest H]]. apply Ok_inj in H. subst out.
    rewrite (Hfg _ _ Hbc). cbn [bind]. rewrite (IH _ Hrest). reflexivity.
Qed.

Lemma mapM_total_map {A B} (f : A -> B) l : mapM (fun a => Ok (f a)) l = Ok (map f l).
Proof. induction l as [|a l IH]; [reflexivity|]. cbn [mapM bind map]. rewrite IH. reflexivity. Qed.

Lemma mapM_Ok_map {A B} (f : A -> B) l l' : mapM (fun a => Ok (f a)) l = Ok l' -> l' = map f l.
Proof. rewrite mapM_total_map. intros H. apply Ok_inj in H. auto. Qed.

Lemma Forall2_weaken {A B} (P Q : A -> B -> Prop) l l' : (forall a b, P a b -> Q a b) -> Forall2 P l l' -> Forall2 Q l l'.
Proof. intros HPQ H. induction H; constructor; auto. Qed.

(* ---------- which paths the crate consists of ---------- *)
Definition schema_file_names (h : hirspec) : result (list str) := mapM (fun kr => sanitize (fst kr)) (h_schemas h).

Lemma model_entries_paths fuel h cfg ms : model_entries fuel h cfg = Ok ms ->
  exists fnames, schema_file_names h = Ok fnames /\ map fst ms = map model_path fnames.
Proof.
  unfold model_entries, schema_file_names. generalize (h_schemas h). intros l. revert ms.
  induction l as [|kr l IH]; intros ms H; cbn [mapM] in *.
  - apply Ok_inj in H. subst ms. exists []. split; reflexivity.
  - apply bind_ok in H as [e [He H]]. apply bind_ok in H as [rest [Hrest H]]. apply Ok_inj in H. subst ms.
    apply bind_ok in He as [fname [Hf He]]. apply bind_ok in He as [c [_ He]]. apply Ok_inj in He. subst e.
    destruct (IH _ Hrest) as [fnames [Hfn Hmap]]. exists (fname :: fnames). rewrite Hf. cbn [bind]. rewrite Hfn. cbn [bind].
    split; [reflexivity|]. cbn [map fst]. rewrite Hmap. reflexivity.
Qed.

Lemma entries_paths {A} (f : A -> result src) (path : A -> str) l out :
  mapM (fun o => do c <- f o; Ok (path o, c)) l = Ok out -> map fst out = map path l.
Proof.
  revert out. induction l as [|a l IH]; intros out H; cbn [mapM] in *.
  - apply Ok_inj in H. subst out. reflexivity.
  - apply bind_ok in H as [e [He H]]. apply bind_ok in H as [rest [Hrest H]]. apply Ok_inj in H. subst out.
    apply bind_ok in He as [c [_ He]]. apply Ok_inj in He. subst e. cbn [map fst]. rewrite (IH _ Hrest). reflexivity.
Qed.

Theorem crate_paths fuel h cfg tp files : emit_crate fuel h cfg tp = Ok files ->
  exists fnames, schema_file_names h = Ok fnames /\
    map fst files = lit "src/model/mod.rs" :: map model_path fnames ++ map request_path (h_ops h) ++
                    [lit "src/request/mod.rs"; lit "src/lib.rs"] ++ map fst (serde_entries h tp) ++
                    (if c_examples cfg then map example_path (h_ops h) else []).
Proof.
  unfold emit_crate. intros H.
  apply bind_ok in H as [mm [_ H]]. apply bind_ok in H as [ms [Hms H]]. apply bind_ok in H as [rs [Hrs H]].
  apply bind_ok in H as [rm [_ H]]. apply bind_ok in H as [lib [_ H]]. apply bind_ok in H as [exs [Hexs H]].
  apply Ok_inj in H. subst files.
  destruct (model_entries_paths _ _ _ _ Hms) as [fnames [Hfn Hmap]]. exists fnames. split; [exact Hfn|].
  cbn [map fst]. rewrite !map_app. cbn [map fst]. rewrite Hmap.
  unfold request_entries in Hrs. rewrite (entries_paths _ _ _ _ Hrs).
  unfold example_entries in Hexs. destruct (c_examples cfg).
  - rewrite (entries_paths _ _ _ _ Hexs). reflexivity.
  - apply Ok_inj in Hexs. subst exs. reflexivity.
Qed.

(* the modules model/mod.rs declares are exactly the schema files; those request/mod.rs declares, the request files *)
Theorem model_mod_declares h c : model_mod_file h = Ok c ->
  exists fnames ids, schema_file_names h = Ok fnames /\ mapM ident fnames = Ok ids /\
    c = concat (map (fun i => t "pub use" ++ i ++ t "::{*};") ids) ++ concat (map (fun i => t "mod" ++ i ++ t ";") ids) /\
    ids = map ts fnames.
Proof.
  unfold model_mod_file. intros H. apply bind_ok in H as [fnames [Hf H]]. apply bind_ok in H as [ids [Hi H]].
  apply Ok_inj in H. exists fnames, ids. repeat split; auto.
  clear - Hi. revert ids Hi. induction fnames as [|f fs IH]; intros ids Hi; cbn [mapM] in Hi.
  - apply Ok_inj in Hi. subst ids. reflexivity.
  - apply bind_ok in Hi as [i [Hi1 Hi]]. apply bind_ok in Hi as [rest [Hrest Hi]]. apply Ok_inj in Hi. subst ids.
    unfold ident in Hi1. destruct (ident_new_ok f); [|discriminate]. apply Ok_inj in Hi1. subst i.
    cbn [map]. rewrite (IH _ Hrest). reflexivity.
Qed.

Theorem request_mod_declares h c : request_mod_file h = Ok c ->
  exists l, c = concat l /\
    Forall2 (fun o item => exists s, struct_ident (request_struct_name (o_name o)) = Ok s /\
               item = t "pub mod" ++ ts (op_file_name (o_name o)) ++ t "; pub use" ++ ts (op_file_name (o_name o)) ++ t "::" ++ s ++ t ";")
            (h_ops h) l.
Proof.
  unfold request_mod_file. intros H. apply bind_ok in H as [l [Hl H]]. apply Ok_inj in H. exists l. split; [auto|].
  apply mapM_ok in Hl. eapply Forall2_weaken; [|exact Hl]. cbn beta. intros o item Ho.
  apply bind_ok in Ho as [m [Hm Ho]]. apply bind_ok in Ho as [s [Hs Ho]]. apply Ok_inj in Ho.
  unfold ident in Hm. destruct (ident_new_ok (op_file_name (o_name o))); [|discriminate]. apply Ok_inj in Hm. subst m.
  exists s. split; [exact Hs|auto].
Qed.

Theorem modules_have_files fuel h cfg tp files : emit_crate fuel h cfg tp = Ok files ->
  exists fnames, schema_file_names h = Ok fnames /\
    (forall f, In f fnames -> In (model_path f) (map fst files)) /\
    (forall o, In o (h_ops h) -> In (request_path o) (map fst files)) /\
    In (lit "src/model/mod.rs") (map fst files) /\ In (lit "src/request/mod.rs") (map fst files) /\
    In (lit "src/lib.rs") (map fst files) /\
    (c_examples cfg = true -> forall o, In o (h_ops h) -> In (example_path o) (map fst files)).
Proof.
  intros H. destruct (crate_paths _ _ _ _ _ H) as [fnames [Hfn Hp]]. exists fnames. split; [exact Hfn|]. rewrite Hp.
  repeat split.
  - intros f Hf. right. apply in_or_app. left. apply in_map. exact Hf.
  - intros o Ho. right. apply in_or_app. right. apply in_or_app. left. apply in_map. exact Ho.
  - left. reflexivity.
  - right. apply in_or_app. right. apply in_or_app. right. left. reflexivity.
  - right. apply in_or_app. right. apply in_or_app. right. right. left. reflexivity.
  - intros He o Ho. rewrite He. right. do 2 (apply in_or_app; right). cbn [app]. right. right.
    apply in_or_app. right. apply in_map. exact Ho.
Qed.

(* ---------- nothing is written twice ---------- *)
Definition pascal_name (s : str) : bool :=
  match s with c :: r => is_upper c && forallb is_alnum r | [] => false end.

Lemma pascal_name_not_special s : pascal_name s = true -> s <> lit "+1" /\ s <> lit "-1".
Proof. intros H. split; intros E; subst s; discriminate H. Qed.

Lemma NoDup_map_back {A B} (f : A -> B) l : NoDup (map f l) -> NoDup l.
Proof.
  induction l as [|a l IH]; intros H; [constructor|]. cbn [map] in H. inversion H as [|x xs Hn Hr]; subst.
  constructor; [|auto]. intros Hin. apply Hn. apply in_map. exact Hin.
Qed.

Lemma NoDup_map_inj_on {A B} (f : A -> B) l : (forall x y, In x l -> In y l -> f x = f y -> x = y) -> NoDup l -> NoDup (map f l).
Proof.
  intros Hinj H. induction H as [|a l Hn H IH]; [constructor|]. cbn [map]. constructor.
  - intros Hin. apply in_map_iff in Hin as [y [Hy Hin]]. apply Hn.
    assert (y = a) by (apply Hinj; [right; exact Hin|left; reflexivity|exact Hy]). subst y. exact Hin.
  - apply IH. intros x y Hx Hy. apply Hinj; right; assumption.
Qed.

Lemma NoDup_app_intro {A} (a b : list A) : NoDup a -> NoDup b -> (forall x, In x a -> ~ In x b) -> NoDup (a ++ b).
Proof.
  intros Ha Hb Hd. induction Ha as [|x a Hn Ha IH]; [exact Hb|]. cbn [app]. constructor.
  - intros Hin. apply in_app_or in Hin as [Hin|Hin]; [contradiction|]. apply (Hd x); [left; reflexivity|exact Hin].
  - apply IH. intros y Hy. apply Hd. right. exact Hy.
Qed.

Lemma sanitized_norm keys fnames : Forall (fun k => pascal_name k = true) keys ->
  mapM sanitize keys = Ok fnames -> map norm fnames = map norm keys.
Proof.
  intros Hp. revert fnames. induction Hp as [|k keys Hk Hp IH]; intros fnames H; cbn [mapM] in H.
  - apply Ok_inj in H. subst fnames. reflexivity.
  - apply bind_ok in H as [f [Hf H]]. apply bind_ok in H as [fs [Hfs H]]. apply Ok_inj in H. subst fnames.
    cbn [map]. rewrite (IH _ Hfs). destruct (pascal_name_not_special _ Hk) as [N1 N2].
    rewrite (norm_sanitize _ _ N1 N2 Hf). reflexivity.
Qed.

Lemma last_app_single {A} (l : list A) x d : last (l ++ [x]) d = x.
Proof.
  induction l as [|a l IH]; [reflexivity|]. cbn [app].
  destruct (l ++ [x]) as [|b m] eqn:E; [destruct l; discriminate E|]. exact IH.
Qed.

Lemma not_mod_suffix s : s ++ lit "_" <> lit "mod".
Proof.
  intros E. apply (f_equal (fun l => last l " "%char)) in E. change (lit "_") with ["_"%char] in E.
  rewrite last_app_single in E. discriminate E.
Qed.

Lemma sanitize_not_mod s r : sanitize s = Ok r -> r <> lit "mod".
Proof.
  intros H. rewrite sanitize_unfold in H. cbv zeta in H.
  set (s1 := fix_digit_sep (snake (rewrite_names s))) in *.
  apply bind_ok in H as [d [Hd H]]. apply bind_ok in H as [u [_ H]]. apply Ok_inj in H. subst r.
  destruct d; [discriminate|].
  destruct (is_restricted s1) eqn:R; [apply not_mod_suffix|].
  intros E. rewrite E in R. discriminate R.
Qed.

Lemma op_file_name_not_mod n : op_file_name n <> lit "mod".
Proof.
  unfold op_file_name. set (s2 := if is_restricted (snake n) then snake n ++ lit "_" else snake n).
  assert (N : s2 <> lit "mod").
  { unfold s2. destruct (is_restricted (snake n)) eqn:R; [apply not_mod_suffix|]. intros E. rewrite E in R. discriminate R. }
  destruct s2 as [|c r]; [discriminate|]. destruct (is_digit c); [discriminate|exact N].
Qed.

Lemma model_path_inj a b : model_path a = model_path b -> a = b.
Proof. unfold model_path. intros E. apply app_inv_head in E. apply app_inv_tail in E. exact E. Qed.
Lemma request_path_name a b : request_path a = request_path b -> op_file_name (o_name a) = op_file_name (o_name b).
Proof. unfold request_path. intros E. apply app_inv_head in E. apply app_inv_tail in E. exact E. Qed.
Lemma example_path_name a b : example_path a = example_path b -> op_file_name (o_name a) = op_file_name (o_name b).
Proof. unfold example_path. intros E. apply app_inv_head in E. apply app_inv_tail in E. exact E. Qed.

Definition ops_distinct (h : hirspec) : Prop := NoDup (map (fun o => norm (o_name o)) (h_ops h)).
Definition schemas_distinct (h : hirspec) : Prop :=
  Forall (fun k => pascal_name k = true) (map fst (h_schemas h)) /\ NoDup (map norm (map fst (h_schemas h))).

Lemma op_paths_nodup (path : hop -> str) ops :
  (forall a b, path a = path b -> op_file_name (o_name a) = op_file_name (o_name b)) ->
  NoDup (map (fun o => norm (o_name o)) ops) -> NoDup (map path ops).
Proof.
  intros Hp H. induction ops as [|o ops IH]; [constructor|]. cbn [map] in *. inversion H as [|x xs Hn Hr]; subst.
  constructor; [|auto]. intros Hin. apply in_map_iff in Hin as [o' [E Hin]]. apply Hn.
  apply in_map_iff. exists o'. split; [|exact Hin]. apply Hp in E.
  rewrite <- (norm_op_file_name (o_name o')), <- (norm_op_file_name (o_name o)), E. reflexivity.
Qed.

Ltac path_neq := let E := fresh in intros E; cbn in E; discriminate E.

Theorem crate_paths_nodup fuel h cfg tp files : schemas_distinct h -> ops_distinct h ->
  emit_crate fuel h cfg tp = Ok files -> NoDup (map fst files).
Proof.
  intros [Hpas Hsd] Hod H. destruct (crate_paths _ _ _ _ _ H) as [fnames [Hfn Hp]]. rewrite Hp. clear Hp H.
  unfold schema_file_names in Hfn.
  assert (Hfn' : mapM sanitize (map fst (h_schemas h)) = Ok fnames).
  { clear - Hfn. revert fnames Hfn. generalize (h_schemas h). intros l. induction l as [|kr l IH]; intros fn H; cbn [mapM map] in *; [exact H|].
    apply bind_ok in H as [f [Hf H]]. apply bind_ok in H as [fs [Hfs H]]. rewrite Hf. cbn [bind]. rewrite (IH _ Hfs). exact H. }
  assert (Hnd : NoDup fnames).
  { apply (NoDup_map_back norm). rewrite (sanitized_norm _ _ Hpas Hfn'). exact Hsd. }
  assert (Hnm : forall f, In f fnames -> f <> lit "mod").
  { intros f Hf. apply mapM_ok in Hfn'. destruct (Forall2_in_r _ _ _ _ Hfn' Hf) as [k [_ Hk]]. eapply sanitize_not_mod; eauto. }
  assert (Hser : forall x, In x (map fst (serde_entries h tp)) -> x = lit "src/serde.rs").
  { unfold serde_entries. destruct (serde_file h tp); cbn; intros x Hx; [destruct Hx as [<-|[]]; reflexivity|destruct Hx]. }
  assert (Hsnd : NoDup (map fst (serde_entries h tp))).
  { unfold serde_entries. destruct (serde_file h tp); cbn; repeat constructor; intros []. }
  assert (Hex : NoDup (if c_examples cfg then map example_path (h_ops h) else [])).
  { destruct (c_examples cfg); [|constructor]. apply op_paths_nodup; [apply example_path_name|exact Hod]. }
  assert (Hexin : forall x, In x (if c_examples cfg then map example_path (h_ops h) else []) -> exists o, x = example_path o).
  { destruct (c_examples cfg); [|intros x []]. intros x Hx. apply in_map_iff in Hx as [o [<- _]]. eauto. }
  constructor.
  - (* model/mod.rs is none of the others *)
    intros Hin. apply in_app_or in Hin as [Hin|Hin].
    + apply in_map_iff in Hin as [f [E Hf]]. apply (Hnm f Hf). unfold model_path in E.
      change (lit "src/model/mod.rs") with (lit "src/model/" ++ lit "mod" ++ lit ".rs") in E.
      apply app_inv_head in E. apply app_inv_tail in E. exact E.
    + apply in_app_or in Hin as [Hin|Hin]; [apply in_map_iff in Hin as [o [E _]]; revert E; unfold request_path; path_neq|].
      apply in_app_or in Hin as [Hin|Hin]; [destruct Hin as [E|[E|[]]]; discriminate E|].
      apply in_app_or in Hin as [Hin|Hin]; [apply Hser in Hin; discriminate Hin|].
      apply Hexin in Hin as [o E]. revert E. unfold example_path. path_neq.
  - apply NoDup_app_intro.
    + apply NoDup_map_inj_on; [|exact Hnd]. intros x y _ _. apply model_path_inj.
    + apply NoDup_app_intro.
      * apply op_paths_nodup; [apply request_path_name|exact Hod].
      * apply NoDup_app_intro.
        -- repeat constructor; cbn; [intros [E|[]]; discriminate E|intros []].
        -- apply NoDup_app_intro; [exact Hsnd|exact Hex|].
           intros x Hx Hx2. apply Hser in Hx. subst x. apply Hexin in Hx2 as [o E]. revert E. unfold example_path. path_neq.
        -- intros x Hx Hin. apply in_app_or in Hin as [Hin|Hin].
           ++ apply Hser in Hin. subst x. destruct Hx as [E|[E|[]]]; discriminate E.
           ++ apply Hexin in Hin as [o E]. subst x. destruct Hx as [E|[E|[]]]; revert E; unfold example_path; path_neq.
      * intros x Hx Hin. apply in_map_iff in Hx as [o [<- Ho]].
        apply in_app_or in Hin as [Hin|Hin].
        -- destruct Hin as [E|[E|[]]].
           ++ apply (op_file_name_not_mod (o_name o)). unfold request_path in E.
              change (lit "src/request/mod.rs") with (lit "src/request/" ++ lit "mod" ++ lit ".rs") in E.
              apply app_inv_head in E. apply app_inv_tail in E. symmetry. exact E.
           ++ revert E. unfold request_path. path_neq.
        -- apply in_app_or in Hin as [Hin|Hin]; [apply Hser in Hin; revert Hin; unfold request_path; path_neq|].
           apply Hexin in Hin as [o2 E]. revert E. unfold request_path, example_path. path_neq.
    + intros x Hx Hin. apply in_map_iff in Hx as [f [<- Hf]].
      apply in_app_or in Hin as [Hin|Hin]; [apply in_map_iff in Hin as [o [E _]]; revert E; unfold model_path, request_path; path_neq|].
      apply in_app_or in Hin as [Hin|Hin]; [destruct Hin as [E|[E|[]]]; revert E; unfold model_path; path_neq|].
      apply in_app_or in Hin as [Hin|Hin]; [apply Hser in Hin; revert Hin; unfold model_path; path_neq|].
      apply Hexin in Hin as [o E]. revert E. unfold model_path, example_path. path_neq.
Qed.
