(* Proofs/UrlP.v — the URL of a request, for EVERY path template.
   A template is a sequence of literal pieces and placeholders {name}; literal pieces and names contain no brace.
   (A) make_url's rewriting turns exactly each placeholder {name} into {sanitize name} — the identifier under which the
       value is passed to format! as a named argument — and leaves every literal piece alone;
   (B) the URL semantics (Sem/Request.v subst_url: what the recording client must see) of the same template is the
       literal pieces with each placeholder replaced by the value given for the parameter of that name. *)
From Coq Require Import Lia.
From LN Require Import Model.Emit Sem.Request Proofs.CharsP.
Local Open Scope nat_scope.

Inductive part := PLit (s : str) | PHole (n : str).

Definition brace_free (s : str) : bool := forallb wordc s.
Definition part_ok (p : part) : bool :=
  match p with PLit s => brace_free s | PHole n => brace_free n && nonempty n end.

Fixpoint render_tpl (t : list part) : str :=
  match t with
  | [] => []
  | PLit s :: r => s ++ render_tpl r
  | PHole n :: r => "{"%char :: n ++ "}"%char :: render_tpl r
  end.

Definition san (n : str) : str := match sanitize n with Ok i => i | Err _ => [] end.
Definition rename_part (p : part) : part := match p with PLit s => PLit s | PHole n => PHole (san n) end.

Lemma wordc_not_open c : wordc c = true -> ceqb c "{"%char = false.
Proof. unfold wordc. destruct (ceqb c "{"%char); [discriminate|reflexivity]. Qed.

Lemma take_word_app n x : brace_free n = true -> take_word (n ++ "}"%char :: x) = (n, "}"%char :: x).
Proof.
  induction n as [|c n IH]; cbn [app take_word brace_free forallb]; intros H.
  - reflexivity.
  - apply andb_prop in H as [Hc Hn]. rewrite Hc, (IH Hn). reflexivity.
Qed.

(* (A) *)
Theorem fix_placeholders_template : forall t fuel,
  forallb part_ok t = true ->
  (forall n, In (PHole n) t -> exists i, sanitize n = Ok i) ->
  length (render_tpl t) <= fuel ->
  fix_placeholders fuel (render_tpl t) = Ok (render_tpl (map rename_part t)).
Proof.
  induction t as [|p t IH]; intros fuel Hok Hsan Hlen.
  - destruct fuel; reflexivity.
  - cbn [forallb] in Hok. apply andb_prop in Hok as [Hp Hok].
    assert (Hsan' : forall n, In (PHole n) t -> exists i, sanitize n = Ok i) by (intros n Hin; apply Hsan; right; exact Hin).
    destruct p as [s|n]; cbn [render_tpl map rename_part part_ok] in *.
    + (* a literal piece is copied character by character *)
      clear Hsan. revert fuel Hlen. induction s as [|c s IHs]; intros fuel Hlen; cbn [app] in *.
      * apply IH; assumption.
      * cbn [brace_free forallb] in Hp. apply andb_prop in Hp as [Hc Hs].
        destruct fuel as [|f]; [cbn [length] in Hlen; lia|]. cbn [fix_placeholders].
        rewrite (wordc_not_open c Hc). rewrite (IHs Hs f); [reflexivity|cbn [length] in Hlen; lia].
    + apply andb_prop in Hp as [Hbf Hne].
      destruct fuel as [|f]; [cbn [length] in Hlen; lia|]. cbn [fix_placeholders].
      change (ceqb "{"%char "{"%char) with true. cbv iota.
      rewrite (take_word_app n (render_tpl t) Hbf).
      destruct n as [|c0 n']; [discriminate Hne|].
      change (ceqb "}"%char "}"%char) with true. cbv iota.
      destruct (Hsan (c0 :: n') (or_introl eq_refl)) as [i Hi]. unfold san. rewrite Hi. cbn [bind].
      rewrite (IH f Hok Hsan'); [reflexivity|].
      cbn [length] in Hlen. rewrite app_length in Hlen. cbn [length] in Hlen. lia.
Qed.

(* (B) *)
Definition value_of (ar : args) (p : part) : str :=
  match p with
  | PLit s => s
  | PHole n => match arg_of ar n with Some (AScalar v) => v | _ => [] end
  end.

Theorem subst_url_template : forall t ar fuel,
  forallb part_ok t = true ->
  (forall n, In (PHole n) t -> exists v, arg_of ar n = Some (AScalar v)) ->
  length (render_tpl t) <= fuel ->
  subst_url fuel (render_tpl t) ar = concat (map (value_of ar) t).
Proof.
  induction t as [|p t IH]; intros ar fuel Hok Harg Hlen.
  - destruct fuel; reflexivity.
  - cbn [forallb] in Hok. apply andb_prop in Hok as [Hp Hok].
    assert (Harg' : forall n, In (PHole n) t -> exists v, arg_of ar n = Some (AScalar v)) by (intros n Hin; apply Harg; right; exact Hin).
    destruct p as [s|n]; cbn [render_tpl map concat value_of part_ok] in *.
    + clear Harg. revert fuel Hlen. induction s as [|c s IHs]; intros fuel Hlen; cbn [app] in *.
      * apply IH; assumption.
      * cbn [brace_free forallb] in Hp. apply andb_prop in Hp as [Hc Hs].
        destruct fuel as [|f]; [cbn [length] in Hlen; lia|]. cbn [subst_url].
        rewrite (wordc_not_open c Hc). rewrite (IHs Hs f); [reflexivity|cbn [length] in Hlen; lia].
    + apply andb_prop in Hp as [Hbf Hne].
      destruct fuel as [|f]; [cbn [length] in Hlen; lia|]. cbn [subst_url].
      change (ceqb "{"%char "{"%char) with true. cbv iota.
      rewrite (take_word_app n (render_tpl t) Hbf).
      destruct n as [|c0 n']; [discriminate Hne|].
      change (ceqb "}"%char "}"%char) with true. cbv iota.
      destruct (Harg (c0 :: n') (or_introl eq_refl)) as [v Hv]. rewrite Hv.
      rewrite (IH ar f Hok Harg'); [reflexivity|].
      cbn [length] in Hlen. rewrite app_length in Hlen. cbn [length] in Hlen. lia.
Qed.

(* make_url on a templated path: the format string is the template with every placeholder renamed to the identifier
   of the named argument that carries its value *)
Theorem make_url_template : forall o t args,
  o_path o = render_tpl t -> forallb part_ok t = true ->
  (forall n, In (PHole n) t -> exists i, sanitize n = Ok i) ->
  filter is_path (o_params o) <> [] ->
  mapM (fun p => do id <- field_ident (p_name p); Ok (id ++ Emit.t "= self.params ." ++ id)) (filter is_path (o_params o)) = Ok args ->
  make_url o = Ok (Emit.t "& format!(" ++ sl (render_tpl (map rename_part t)) ++ Emit.t "," ++ sep_by (Emit.t ",") args ++ Emit.t ")").
Proof.
  intros o t args Hp Hok Hsan Hne Hargs. unfold make_url.
  destruct (filter is_path (o_params o)) as [|p0 ps] eqn:E; [contradiction Hne; reflexivity|].
  rewrite Hargs. cbn [bind]. rewrite Hp.
  rewrite (fix_placeholders_template t (length (render_tpl t)) Hok Hsan (le_n _)). reflexivity.
Qed.
