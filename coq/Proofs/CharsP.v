(* CharsP.v — lemmas about Chars.v: exhaustive reasoning over the 256 ascii codes, string equality, lists. *)
From LN Require Import Model.Chars.
From Coq Require Import Lia.

(* ---- all 256 characters, so per-character facts are finite checks lifted by a lemma ---- *)
Definition all_bools := [true; false].
Definition all_ascii : list ascii :=
  flat_map (fun b0 => flat_map (fun b1 => flat_map (fun b2 => flat_map (fun b3 =>
  flat_map (fun b4 => flat_map (fun b5 => flat_map (fun b6 => map (fun b7 =>
    Ascii b0 b1 b2 b3 b4 b5 b6 b7) all_bools) all_bools) all_bools) all_bools) all_bools)
    all_bools) all_bools) all_bools.

Lemma all_ascii_complete : forall c, In c all_ascii.
Proof.
  intros c. assert (H : existsb (ceqb c) all_ascii = true).
  { destruct c as [[] [] [] [] [] [] [] []]; vm_compute; reflexivity. }
  apply existsb_exists in H as [x [Hx Heq]]. apply Ascii.eqb_eq in Heq. subst. exact Hx.
Qed.

Lemma forall_ascii (P : ascii -> bool) : forallb P all_ascii = true -> forall c, P c = true.
Proof.
  intros H c. rewrite forallb_forall in H. apply H, all_ascii_complete.
Qed.


(* ---- character equality ---- *)
Lemma ceqb_eq a b : ceqb a b = true <-> a = b.
Proof. unfold ceqb. apply Ascii.eqb_eq. Qed.
Lemma ceqb_refl a : ceqb a a = true.
Proof. apply ceqb_eq; reflexivity. Qed.
Lemma ceqb_neq a b : ceqb a b = false <-> a <> b.
Proof. unfold ceqb. apply Ascii.eqb_neq. Qed.

Lemma str_eqb_eq a b : str_eqb a b = true <-> a = b.
Proof.
  revert b; induction a as [|x a IH]; intros [|y b]; cbn; split; intro H; try reflexivity; try discriminate.
  - apply andb_prop in H as [H1 H2]. apply ceqb_eq in H1. apply IH in H2. congruence.
  - inversion H; subst. rewrite ceqb_refl. cbn. apply IH; reflexivity.
Qed.
Lemma str_eqb_refl a : str_eqb a a = true.
Proof. apply str_eqb_eq; reflexivity. Qed.

Lemma mem_str_In x l : mem_str x l = true <-> In x l.
Proof.
  induction l as [|y l IH]; cbn; [split; [discriminate|tauto]|].
  rewrite orb_true_iff, IH, str_eqb_eq. split; intros [H|H]; auto.
Qed.

Lemma mem_str_forallb (P : str -> bool) l x :
  forallb P l = true -> mem_str x l = true -> P x = true.
Proof. intros H M. apply mem_str_In in M. rewrite forallb_forall in H. auto. Qed.

(* ---- character classes: finite case analysis on the 8 bits ---- *)
Ltac case_ascii c :=
  destruct c as [[] [] [] [] [] [] [] []]; vm_compute; intros;
  first [reflexivity | discriminate | assumption | congruence].

Lemma lower_is_idcont c : is_lower c = true -> is_alnum c = true.
Proof. case_ascii c. Qed.
Lemma digit_is_alnum c : is_digit c = true -> is_alnum c = true.
Proof. case_ascii c. Qed.

(* ---- generic list facts ---- *)
Lemma forallb_app {A} (P : A -> bool) l1 l2 : forallb P (l1 ++ l2) = forallb P l1 && forallb P l2.
Proof. induction l1; cbn; [reflexivity|]. rewrite IHl1, andb_assoc. reflexivity. Qed.

Lemma forallb_impl {A} (P Q : A -> bool) l :
  (forall x, P x = true -> Q x = true) -> forallb P l = true -> forallb Q l = true.
Proof. intros H. induction l; cbn; [auto|]. rewrite !andb_true_iff. intros [? ?]; split; auto. Qed.

Lemma forallb_concat {A} (P : A -> bool) ls :
  forallb P (concat ls) = forallb (forallb P) ls.
Proof. induction ls; cbn; [reflexivity|]. rewrite forallb_app, IHls. reflexivity. Qed.

Lemma forallb_map {A B} (f : A -> B) (P : B -> bool) l :
  forallb P (map f l) = forallb (fun x => P (f x)) l.
Proof. induction l; cbn; [reflexivity|]. rewrite IHl. reflexivity. Qed.

Lemma existsb_app' {A} (P : A -> bool) l1 l2 : existsb P (l1 ++ l2) = existsb P l1 || existsb P l2.
Proof. apply existsb_app. Qed.

Lemma flat_map_flat_map {A B C} (f : A -> list B) (g : B -> list C) l :
  flat_map g (flat_map f l) = flat_map (fun x => flat_map g (f x)) l.
Proof. induction l; cbn; [reflexivity|]. rewrite flat_map_app, IHl. reflexivity. Qed.

Lemma forallb_flat_map {A B} (f : A -> list B) (P : B -> bool) l :
  forallb P (flat_map f l) = forallb (fun x => forallb P (f x)) l.
Proof. induction l; cbn; [reflexivity|]. rewrite forallb_app, IHl. reflexivity. Qed.

Lemma existsb_flat_map {A B} (f : A -> list B) (P : B -> bool) l :
  existsb P (flat_map f l) = existsb (fun x => existsb P (f x)) l.
Proof. induction l; cbn; [reflexivity|]. rewrite existsb_app, IHl. reflexivity. Qed.

Lemma replace_char_flat_map c r s :
  replace_char c r s = flat_map (fun x => if ceqb x c then r else [x]) s.
Proof. induction s; cbn; [reflexivity|]. rewrite IHs. reflexivity. Qed.

Lemma remove_chars_flat_map cs s :
  remove_chars cs s = flat_map (fun x => if existsb (ceqb x) cs then [] else [x]) s.
Proof. induction s as [|x s IH]; cbn; [reflexivity|]. rewrite IH. destruct (existsb (ceqb x) cs); reflexivity. Qed.

(* ---- result monad ---- *)
Lemma bind_ok {A B} (r : result A) (f : A -> result B) b :
  bind r f = Ok b -> exists a, r = Ok a /\ f a = Ok b.
Proof. destruct r; cbn; [eauto|discriminate]. Qed.

Lemma mapM_ok {A B} (f : A -> result B) l : forall l',
  mapM f l = Ok l' -> Forall2 (fun a b => f a = Ok b) l l'.
Proof.
  induction l as [|a l IH]; intros l' H; cbn in H.
  - inversion H. constructor.
  - apply bind_ok in H as [b [Hb H]]. apply bind_ok in H as [bs [Hbs H]]. inversion H; subst.
    constructor; [assumption|apply IH; assumption].
Qed.

Lemma Forall2_in_r {A B} (R : A -> B -> Prop) l l' b :
  Forall2 R l l' -> In b l' -> exists a, In a l /\ R a b.
Proof.
  induction 1 as [|x y l l' Hxy H IH]; cbn; [tauto|]. intros [<-|Hin]; [eauto|].
  destruct (IH Hin) as [a [Ha Hr]]. eauto.
Qed.

Lemma Forall2_in_l {A B} (R : A -> B -> Prop) l l' a :
  Forall2 R l l' -> In a l -> exists b, In b l' /\ R a b.
Proof.
  induction 1 as [|x y l l' Hxy H IH]; cbn; [tauto|]. intros [<-|Hin]; [eauto|].
  destruct (IH Hin) as [b [Hb Hr]]. eauto.
Qed.

Lemma Ok_inj {A} (a b : A) : Ok a = Ok b -> a = b.
Proof. intros H. inversion H. reflexivity. Qed.
