(* Proofs/ServersP.v — several servers: when every description carries a recognised keyword and the keywords are
   pairwise distinct, every declared server is in the table under its keyword and the client selects through
   <SERVICE>_ENV. Together with C15_several_refuted this is the exact boundary of the open finding. *)
From Coq Require Import Lia.
From LN Require Import Model.Emit Proofs.CharsP Proofs.ExtractP Proofs.EmitP.
Local Open Scope nat_scope.

Definition kw_of (d : option str) : option str :=
  match d with
  | Some d => find (fun k => contains k (lower_s d)) server_keywords
  | None => None
  end.

(* the loop of extract_servers, named *)
Fixpoint servers_go (l : list (str * option str)) (acc : list (str * str)) : list (str * str) :=
  match l with
  | [] => acc
  | (url, descr) :: rest =>
      match kw_of descr with
      | Some k => servers_go rest (bt_insert acc k url)
      | None => []
      end
  end.

Lemma extract_servers_go sp : extract_servers sp =
  match servers sp with [(url, _)] => [(lit "default", url)] | l => servers_go l [] end.
Proof.
  unfold extract_servers.
  assert (G : forall l acc,
    (fix go (l : list (str * option str)) (acc : list (str * str)) : list (str * str) :=
         match l with
         | [] => acc
         | (url, descr) :: rest =>
             match descr with
             | Some d =>
                 match find (fun k => contains k (lower_s d)) server_keywords with
                 | Some k => go rest (bt_insert acc k url)
                 | None => []
                 end
             | None => []
             end
         end) l acc = servers_go l acc).
  { induction l as [|[u d] l IH]; intros acc; [reflexivity|]. destruct d as [d|]; cbn [servers_go kw_of]; [|reflexivity].
    destruct (find _ server_keywords); [apply IH|reflexivity]. }
  destruct (servers sp) as [|[u d] [|x l]]; try reflexivity; rewrite <- G; reflexivity.
Qed.

Lemma bt_insert_length_new {V} (m : list (str * V)) k v : ~ In k (map fst m) -> length (bt_insert m k v) = S (length m).
Proof.
  induction m as [|[q w] m IH]; cbn [bt_insert map fst In length]; intros H; [reflexivity|].
  destruct (str_eqb q k) eqn:E; [apply str_eqb_eq in E; exfalso; apply H; left; exact E|].
  destruct (str_ltb k q); cbn [length]; [reflexivity|]. rewrite IH; [reflexivity|]. intros Hin. apply H. right. exact Hin.
Qed.

Lemma bt_insert_keeps {V} (m : list (str * V)) k v k' v' : k' <> k -> In (k', v') m -> In (k', v') (bt_insert m k v).
Proof.
  intros Hne. induction m as [|[q w] m IH]; cbn [bt_insert In]; [tauto|].
  destruct (str_eqb q k) eqn:E.
  - apply str_eqb_eq in E. subst q. intros [H|H]; [injection H as -> _; contradiction|right; exact H].
  - destruct (str_ltb k q); cbn [In]; [tauto|]. intros [H|H]; [left; exact H|right; apply IH; exact H].
Qed.

Lemma bt_insert_has {V} (m : list (str * V)) k v : In (k, v) (bt_insert m k v).
Proof.
  induction m as [|[q w] m IH]; cbn [bt_insert In]; [auto|].
  destruct (str_eqb q k); [left; reflexivity|]. destruct (str_ltb k q); cbn [In]; auto.
Qed.

Lemma servers_go_all l : forall acc,
  (forall ud, In ud l -> kw_of (snd ud) <> None) ->
  NoDup (map (fun ud => kw_of (snd ud)) l) ->
  (forall ud, In ud l -> forall k, kw_of (snd ud) = Some k -> ~ In k (map fst acc)) ->
  length (servers_go l acc) = length l + length acc /\
  (forall k u, In (k, u) acc -> In (k, u) (servers_go l acc)) /\
  (forall u d k, In (u, d) l -> kw_of d = Some k -> In (k, u) (servers_go l acc)).
Proof.
  induction l as [|[u d] l IH]; intros acc Hkw Hnd Hfresh; cbn [servers_go].
  - split; [reflexivity|]. split; [auto|]. intros u d k [].
  - destruct (kw_of d) as [k|] eqn:E; [|exfalso; apply (Hkw (u, d)); [left; reflexivity|exact E]].
    cbn [map snd] in Hnd. rewrite E in Hnd. apply NoDup_cons_iff in Hnd as [Hnotin Hnd].
    assert (Hk : ~ In k (map fst acc)) by (apply (Hfresh (u, d)); [left; reflexivity|exact E]).
    destruct (IH (bt_insert acc k u)) as [Hlen [Hacc Hall]].
    + intros ud Hin. apply Hkw. right. exact Hin.
    + exact Hnd.
    + intros ud Hin k' E' Hin'. apply bt_insert_keys in Hin' as [->|Hin'].
      * apply Hnotin. rewrite <- E'. apply (in_map (fun ud => kw_of (snd ud))). exact Hin.
      * apply (Hfresh ud (or_intror Hin) k' E'). exact Hin'.
    + split; [|split].
      * rewrite Hlen, bt_insert_length_new by exact Hk. cbn [length]. lia.
      * intros k' u' Hin. apply Hacc. apply bt_insert_keeps; [|exact Hin].
        intros ->. apply Hk. apply (in_map fst) in Hin. exact Hin.
      * intros u' d' k' [Heq|Hin] E'.
        -- injection Heq as <- <-. rewrite E in E'. injection E' as <-. apply Hacc. apply bt_insert_has.
        -- eapply Hall; eauto.
Qed.

(* several servers, each description with its own recognised keyword: all of them in the table, selection through ENV *)
Theorem several_servers_env sp : 2 <= length (servers sp) ->
  (forall ud, In ud (servers sp) -> kw_of (snd ud) <> None) ->
  NoDup (map (fun ud => kw_of (snd ud)) (servers sp)) ->
  length (extract_servers sp) = length (servers sp) /\
  (forall u d k, In (u, d) (servers sp) -> kw_of d = Some k -> In (k, u) (extract_servers sp)) /\
  (forall ops schemas sec docs,
     server_strategy_of {| h_ops := ops; h_schemas := schemas; h_servers := extract_servers sp; h_security := sec; h_docs_url := docs |} = SSEnv).
Proof.
  intros Hlen Hkw Hnd. rewrite extract_servers_go.
  destruct (servers_go_all (servers sp) [] Hkw Hnd) as [Hl [_ Hall]]; [intros ud _ k _ []|].
  assert (E : match servers sp with [(url, _)] => [(lit "default", url)] | l => servers_go l [] end = servers_go (servers sp) []).
  { destruct (servers sp) as [|[u d] [|x l]]; try reflexivity. cbn [length] in Hlen. lia. }
  rewrite E. cbn [length] in Hl. rewrite Nat.add_0_r in Hl. split; [exact Hl|]. split; [exact Hall|].
  intros ops schemas sec docs. unfold server_strategy_of. cbn [h_servers].
  destruct (servers_go (servers sp) []) as [|[k1 u1] [|x l]]; cbn [length] in Hl; try lia. reflexivity.
Qed.
