(* ExtractTotalP.v — extraction is total on documents satisfying Spec/WfSpec.v spec_ok (C01, extraction half). *)
From Coq Require Import Lia.
From LN Require Import Spec.WfSpec Proofs.CharsP Proofs.CaseP Proofs.NamesP Proofs.ExtractP Proofs.TotalP Proofs.FuelP.
Local Open Scope nat_scope.

Ltac done_ok := eexists; reflexivity.

Section WithSpec.
Variable sp : spec.

Lemma ty_model_total n : no_paren n = true -> ty_model n = Ok (TModel n).
Proof. unfold no_paren, ty_model. destruct (contains_char "("%char n); [discriminate|reflexivity]. Qed.

Lemma ty_walk_wr d r : (match resolve sp r with
                        | Ok s' => ty_walk sp d s' && match r with Ref n => no_paren n | Inl _ => true end
                        | Err _ => false end) = true ->
  exists s', resolve sp r = Ok s' /\ ty_walk sp d s' = true /\ (forall n, r = Ref n -> no_paren n = true).
Proof.
  destruct (resolve sp r) as [s'|e]; [|discriminate]. intros H. apply andb_prop in H as [H1 H2].
  exists s'. repeat split; auto. intros n ->. exact H2.
Qed.

Lemma is_primitive_total : forall d s f, ty_walk sp d s = true -> d <= f -> exists b, is_primitive f sp s = Ok b.
Proof.
  induction d as [|d IH]; intros s f H Hle; [discriminate H|]. destruct f as [|f]; [lia|].
  cbn [ty_walk is_primitive] in *. destruct (s_kind s) as [fmt en| | | |props req addl|items|l|l|l| |]; try done_ok.
  - destruct items as [inner|]; [|done_ok]. destruct (ty_walk_wr _ _ H) as [s' [Hr [Hw _]]]. rewrite Hr. cbn [bind]. apply (IH _ _ Hw). lia.
  - destruct l as [|x [|y l]]; try done_ok. destruct (ty_walk_wr _ _ H) as [s' [Hr [Hw _]]]. rewrite Hr. cbn [bind]. apply (IH _ _ Hw). lia.
Qed.

Lemma schema_to_ty_total : forall d s f, ty_walk sp d s = true -> d <= f -> exists t, schema_to_ty f sp s = Ok t.
Proof.
  induction d as [|d IH]; intros s f H Hle; [discriminate H|]. destruct f as [|f]; [lia|].
  assert (R : forall r, (match resolve sp r with
                         | Ok s' => ty_walk sp d s' && match r with Ref n => no_paren n | Inl _ => true end
                         | Err _ => false end) = true ->
              exists t, (do s' <- resolve sp r; do p <- is_primitive f sp s';
                         if p then schema_to_ty f sp s' else match r with Ref n => ty_model n | Inl s'' => schema_to_ty f sp s'' end) = Ok t).
  { intros r Hr. destruct (ty_walk_wr _ _ Hr) as [s' [Hres [Hw Hn]]]. rewrite Hres. cbn [bind].
    destruct (is_primitive_total d s' f Hw ltac:(lia)) as [p Hp]. rewrite Hp. cbn [bind].
    destruct p; [apply (IH _ _ Hw); lia|].
    destruct r as [n|s'']; [rewrite (ty_model_total n (Hn n eq_refl)); done_ok|].
    cbn [resolve] in Hres. apply Ok_inj in Hres. subst s''. apply (IH _ _ Hw). lia. }
  cbn [ty_walk schema_to_ty] in *. destruct (s_kind s) as [fmt en| | | |props req addl|items|l|l|l| |]; try done_ok.
  - destruct items as [item|]; [|done_ok]. destruct (R _ H) as [t Ht]. rewrite Ht. done_ok.
  - destruct l as [|x [|y l]]; try done_ok. apply R. exact H.
Qed.

Lemma schema_ref_to_ty2_total d f r s : ty_walk sp d s = true -> (forall n, r = Ref n -> no_paren n = true) ->
  (forall s', r = Inl s' -> s' = s) -> d <= f -> exists t, schema_ref_to_ty2 f sp r s = Ok t.
Proof.
  intros Hw Hn Hi Hle. unfold schema_ref_to_ty2. destruct (is_primitive_total d s f Hw Hle) as [p Hp]. rewrite Hp. cbn [bind].
  destruct p; [apply (schema_to_ty_total d); assumption|].
  destruct r as [n|s']; [rewrite (ty_model_total n (Hn n eq_refl)); done_ok|].
  rewrite (Hi s' eq_refl). apply (schema_to_ty_total d); assumption.
Qed.

Lemma sref_ok_facts d r : sref_ok sp d r = true ->
  exists s, resolve sp r = Ok s /\ ty_walk sp d s = true /\ (forall n, r = Ref n -> no_paren n = true) /\ (forall s', r = Inl s' -> s' = s).
Proof.
  unfold sref_ok. intros H. destruct (ty_walk_wr d r H) as [s [Hr [Hw Hn]]]. exists s. repeat split; auto.
  intros s' ->. cbn in Hr. apply Ok_inj in Hr. exact Hr.
Qed.

Lemma resolved_ty2_total d f r : sref_ok sp d r = true -> d <= f ->
  exists s t, resolve sp r = Ok s /\ schema_ref_to_ty2 f sp r s = Ok t.
Proof.
  intros H Hle. destruct (sref_ok_facts d r H) as [s [Hr [Hw [Hn Hi]]]].
  destruct (schema_ref_to_ty2_total d f r s Hw Hn Hi Hle) as [t Ht]. eauto.
Qed.

Lemma schema_ref_to_ty_total d f r : sref_ok sp d r = true -> d <= f -> exists t, schema_ref_to_ty f sp r = Ok t.
Proof.
  intros H Hle. destruct (resolved_ty2_total d f r H Hle) as [s [t [Hr Ht]]]. unfold schema_ref_to_ty. rewrite Hr. cbn [bind]. eauto.
Qed.

Lemma extract_fields_total d f props parent : props_ok sp d props = true -> d <= f ->
  exists fs, extract_fields f sp props parent = Ok fs.
Proof.
  intros H Hle. unfold extract_fields. unfold props_ok in H. rewrite forallb_forall in H.
  assert (G : exists l, mapM (fun pr : str * sref => let '(name, r) := pr in
                do s <- resolve sp r; do t <- schema_ref_to_ty2 f sp r s;
                Ok (name, mk_field t (is_optional name s parent) (extract_docs s) false)) props = Ok l).
  { apply mapM_total. intros [name r] Hin. destruct (resolved_ty2_total d f r (H _ Hin) Hle) as [s [t [Hr Ht]]].
    rewrite Hr. cbn [bind]. rewrite Ht. done_ok. }
  destruct G as [l Hl]. rewrite Hl. done_ok.
Qed.

Lemma create_field_total d f r : sref_ok sp d r = true -> d <= f -> exists fl, create_field f sp r = Ok fl.
Proof.
  intros H Hle. unfold create_field. destruct (resolved_ty2_total d f r H Hle) as [s [t [Hr Ht]]].
  rewrite Hr. cbn [bind]. rewrite Ht. done_ok.
Qed.

Lemma all_of_props_total d f req ps : props_ok sp d ps = true -> d <= f -> forall acc, exists fs, all_of_props f sp req ps acc = Ok fs.
Proof.
  intros H Hle. induction ps as [|[pn pr] ps IH]; intros acc; cbn [all_of_props]; [done_ok|].
  unfold props_ok in H. cbn [forallb snd] in H. apply andb_prop in H as [H1 H2].
  destruct (create_field_total d f pr H1 Hle) as [fl Hf]. rewrite Hf. cbn [bind]. apply IH. exact H2.
Qed.

Lemma all_of_fields_total d f l : all_of_ok sp d l = true -> d <= f -> forall acc, exists fs, all_of_fields f sp l acc = Ok fs.
Proof.
  intros H Hle. induction l as [|r l IH]; intros acc; cbn [all_of_fields]; [done_ok|].
  unfold all_of_ok in H. cbn [forallb] in H. apply andb_prop in H as [H1 H2]. destruct r as [n|item].
  - destruct (create_field_total d f (Ref n) H1 Hle) as [fl Hf]. rewrite Hf. cbn [bind]. apply IH. exact H2.
  - destruct (get_properties item) as [props|]; [|apply IH; exact H2].
    destruct (all_of_props_total d f (match get_required item with Some r => r | None => [] end) props H1 Hle acc) as [acc' Ha].
    rewrite Ha. cbn [bind]. apply IH. exact H2.
Qed.

Lemma insert_schema_total m r : name_ok (record_name r) = true -> exists m', insert_schema m r = Ok m'.
Proof.
  unfold name_ok, insert_schema. destruct (record_name r) as [|c t]; [discriminate|]. intros H.
  destruct (is_lower c); [discriminate H|done_ok].
Qed.

Lemma extract_newtype_total d f name s m : name_ok name = true -> ty_walk sp d s = true -> d <= f ->
  exists m', extract_newtype f sp name s m = Ok m'.
Proof.
  intros Hn Hw Hle. unfold extract_newtype. destruct (schema_to_ty_total d s f Hw Hle) as [t Ht]. rewrite Ht. cbn [bind].
  apply insert_schema_total. exact Hn.
Qed.

Lemma extract_schema_flat_total d f name s m : name_ok name = true -> flat_ok sp d s = true -> 1 <= f -> d <= f ->
  exists m', extract_schema f sp name s m = Ok m'.
Proof.
  intros Hn H H1 Hle. destruct f as [|f]; [lia|]. unfold flat_ok in H. apply andb_prop in H as [Hia H].
  cbn [extract_schema]. unfold inline_array in Hia.
  destruct (s_kind s) as [fmt en| | | |props req addl|items|l|l|l| |] eqn:K;
    try (apply (extract_newtype_total d); assumption).
  - destruct en as [|v vs]; [apply (extract_newtype_total d); assumption|]. apply insert_schema_total. exact Hn.
  - destruct props as [|p ps]; [destruct addl as [a|]|].
    + destruct a as [b|r].
      * cbn [bind]. apply insert_schema_total. exact Hn.
      * destruct (resolved_ty2_total d (S f) r H Hle) as [s' [t [Hr Ht]]]. rewrite Hr. cbn [bind]. rewrite Ht. cbn [bind].
        apply insert_schema_total. exact Hn.
    + destruct (extract_fields_total d (S f) [] s H Hle) as [fs Hf]. rewrite Hf. cbn [bind]. apply insert_schema_total. exact Hn.
    + destruct (extract_fields_total d (S f) (p :: ps) s H Hle) as [fs Hf]. rewrite Hf. cbn [bind]. apply insert_schema_total. exact Hn.
  - destruct items as [[n|item]|]; [apply (extract_newtype_total d); assumption|discriminate Hia|apply (extract_newtype_total d); assumption].
  - unfold extract_all_of. destruct (Nat.eqb (effective_length l) 1).
    + destruct l as [|x l']; [discriminate H|]. destruct (schema_ref_to_ty_total d (S f) x H Hle) as [t Ht]. rewrite Ht. cbn [bind].
      apply insert_schema_total. exact Hn.
    + destruct (all_of_fields_total d (S f) l H Hle []) as [fs Hf]. rewrite Hf. cbn [bind]. apply insert_schema_total. exact Hn.
Qed.

Lemma create_unique_name_cand cur name n : create_unique_name cur name name = Some n -> In n (candidates name).
Proof.
  unfold create_unique_name, candidates. cbn [In].
  destruct (is_plural name).
  - destruct (negb (mem_str (pascal (singular name)) cur)); [intros E; injection E as <-; auto|].
    destruct (negb (mem_str (pascal name ++ pascal (singular name)) cur)); [intros E; injection E as <-; auto|].
    destruct (negb (mem_str (pascal name ++ lit "Item") cur)); [intros E; injection E as <-; auto|].
    destruct (negb (mem_str (pascal name ++ pascal name ++ lit "Item") cur)); [intros E; injection E as <-; auto 6|discriminate].
  - destruct (negb (mem_str (pascal name ++ lit "Item") cur)); [intros E; injection E as <-; auto|].
    destruct (negb (mem_str (pascal name ++ pascal name ++ lit "Item") cur)); [intros E; injection E as <-; auto 6|discriminate].
Qed.

(* components: arrays with inline items recurse, one unit of fuel and of depth per level *)
Lemma extract_schema_total : forall d f name s m, schema_ok sp d name s = true -> d <= f ->
  exists m', extract_schema f sp name s m = Ok m'.
Proof.
  induction d as [|d IH]; intros f name s m H Hle; [discriminate H|].
  cbn [schema_ok] in H. apply andb_prop in H as [Hn H].
  destruct (s_kind s) as [fmt en| | | |props req addl|items|l|l|l| |] eqn:K;
    try (apply (extract_schema_flat_total (S d)); [exact Hn|exact H|lia|exact Hle]).
  destruct items as [[n|item]|];
    try (apply (extract_schema_flat_total (S d)); [exact Hn|exact H|lia|exact Hle]).
  apply andb_prop in H as [Hw Hc]. destruct f as [|f]; [lia|]. cbn [extract_schema]. rewrite K.
  destruct (create_unique_name (map fst m) name name) as [n|] eqn:E.
  - apply IH; [|lia]. rewrite forallb_forall in Hc. apply Hc. eapply create_unique_name_cand; eauto.
  - apply (extract_newtype_total (S d)); assumption.
Qed.

(* ---------- operations ---------- *)
Lemma upper_not_lower c : is_lower (to_upper c) = false.  Proof. case_ascii c. Qed.

Lemma pascal_head s c t : pascal s = c :: t -> is_lower c = false.
Proof.
  unfold pascal, split_words. destruct (split_go None s) as [w ws].
  assert (G : forall L, Forall (fun w => nonempty w = true) L -> concat (map capital L) = c :: t -> is_lower c = false).
  { intros L HL. destruct HL as [|w0 L' Hw HL']; cbn [map concat]; [discriminate|].
    destruct w0 as [|c0 w0']; [discriminate Hw|]. cbn [capital app]. intros E. injection E as <- _. apply upper_not_lower. }
  apply G. apply Forall_forall. intros x Hx. apply filter_In in Hx as [_ Hx]. exact Hx.
Qed.

Lemma name_ok_response taken n : name_ok (fresh_name taken (pascal n ++ lit "Response")) = true.
Proof.
  assert (B : forall suffix, name_ok ((pascal n ++ lit "Response") ++ suffix) = true).
  { intros suffix. destruct (pascal n) as [|c t] eqn:E; [reflexivity|]. cbn [app name_ok]. rewrite (pascal_head n c t E). reflexivity. }
  unfold fresh_name. destruct (negb (mem_str (pascal n ++ lit "Response") taken)); [rewrite <- (app_nil_r (pascal n ++ lit "Response")); apply B|].
  generalize 2 at 1. induction (length taken) as [|k IH]; intros m; [apply B|].
  destruct (mem_str _ taken); [apply IH|apply B].
Qed.

Lemma make_name_total opid method path : path_ok path = true -> exists n, make_name opid method path = Ok n.
Proof.
  intros H. unfold make_name. destruct opid as [id|]; [done_ok|].
  set (segs := split_char "/"%char path) in *. unfold path_ok in H. fold segs in H.
  destruct (last_opt (filter (fun s => starts_with (lit "{") s) segs)) as [s|] eqn:E; [|cbn [bind]; done_ok].
  assert (Hs : In s (filter (fun s => starts_with (lit "{") s) segs)).
  { clear - E. induction (filter _ segs) as [|a l IH]; [discriminate E|]. destruct l as [|b l']; [injection E as <-; left; reflexivity|].
    right. apply IH. exact E. }
  apply filter_In in Hs as [Hin Hst]. rewrite forallb_forall in H. specialize (H s Hin). rewrite Hst in H. cbn [negb orb] in H.
  destruct (Nat.ltb (length s) 2) eqn:L; [apply Nat.ltb_lt in L; apply Nat.leb_le in H; lia|].
  repeat match goal with
         | |- context [match ?x with _ => _ end] => destruct x
         end; cbn [bind]; done_ok.
Qed.

Lemma extract_param_total d f p : sref_ok sp d (pa_schema p) = true -> d <= f -> exists hp, extract_param f sp p = Ok hp.
Proof.
  intros H Hle. unfold extract_param. destruct (resolved_ty2_total d f _ H Hle) as [s [t [Hr Ht]]].
  rewrite Hr. cbn [bind]. rewrite Ht. done_ok.
Qed.

Lemma properties_iter_total : forall d s f, piter_ok sp d s = true -> d <= f -> exists l, properties_iter f sp s = Ok l.
Proof.
  induction d as [|d IH]; intros s f H Hle; [discriminate H|]. destruct f as [|f]; [lia|].
  cbn [piter_ok properties_iter] in *. destruct (s_kind s) as [fmt en| | | |props req addl|items|l|l|l| |]; try done_ok.
  rewrite forallb_forall in H.
  assert (G : exists ls, mapM (fun r => do s' <- resolve sp r; properties_iter f sp s') l = Ok ls).
  { apply mapM_total. intros r Hin. specialize (H r Hin). destruct (resolve sp r) as [s'|e]; [|discriminate H]. cbn [bind]. apply (IH _ _ H). lia. }
  destruct G as [ls Hls]. rewrite Hls. done_ok.
Qed.

Lemma body_requires_total : forall d body name f, piter_ok sp d body = true -> d <= f -> exists b, body_requires f sp body name = Ok b.
Proof.
  induction d as [|d IH]; intros body name f H Hle; [discriminate H|]. destruct f as [|f]; [lia|].
  cbn [piter_ok body_requires] in *. destruct (s_kind body) as [fmt en| | | |props req addl|items|l|l|l| |];
    try (destruct (get_required body); done_ok).
  induction l as [|r l IHl]; [done_ok|]. cbn [forallb] in H. apply andb_prop in H as [H1 H2].
  destruct (resolve sp r) as [m|e]; [|discriminate H1]. cbn [bind].
  destruct (properties_iter_total d m f H1 ltac:(lia)) as [props Hp]. rewrite Hp. cbn [bind].
  assert (G : exists here, (if existsb (fun pr : str * sref => str_eqb (fst pr) name) props then body_requires f sp m name else Ok false) = Ok here).
  { destruct (existsb _ props); [apply (IH _ _ _ H1); lia|done_ok]. }
  destruct G as [here Hh]. rewrite Hh. cbn [bind]. destruct here; [done_ok|]. apply IHl. exact H2.
Qed.

Lemma extract_parameters_total d f o item :
  forallb (fun p => sref_ok sp d (pa_schema p)) (op_params o) = true ->
  forallb (fun p => sref_ok sp d (pa_schema p)) (pi_params item) = true ->
  match op_body o with Some br => body_ok sp d br | None => true end = true -> d <= f ->
  exists ps, extract_parameters f sp o item = Ok ps.
Proof.
  intros H1 H2 Hb Hle. unfold extract_parameters. rewrite forallb_forall in H1, H2.
  destruct (mapM_total (extract_param f sp) (op_params o)) as [inputs Hi]; [intros p Hp; apply (extract_param_total d); auto|].
  destruct (mapM_total (extract_param f sp) (pi_params item)) as [args Ha]; [intros p Hp; apply (extract_param_total d); auto|].
  rewrite Hi. cbn [bind]. rewrite Ha. cbn [bind].
  destruct (op_body o) as [br|]; [|done_ok]. unfold body_ok in Hb.
  destruct (resolve sp br) as [body|e]; [|discriminate Hb]. cbn [bind].
  destruct (s_kind body) as [fmt en| | | |props req addl|items|l|l|l| |] eqn:K;
    try (apply andb_prop in Hb as [Hp Hprops];
         destruct (properties_iter d sp body) as [props0|e] eqn:Ed; [|discriminate Hprops];
         rewrite (properties_iter_mono sp d body f Hle props0 Ed); cbn [bind];
         destruct props0 as [|pr prs]; [done_ok|];
         unfold props_ok in Hprops; rewrite forallb_forall in Hprops;
         match goal with |- exists ps, (do bargs <- mapM ?F ?L; _) = Ok ps =>
           destruct (mapM_total F L) as [bargs Hbargs];
           [intros [name r] Hin; destruct (schema_ref_to_ty_total d f r (Hprops _ Hin) Hle) as [t Ht]; rewrite Ht; cbn [bind];
            destruct (sref_ok_facts d r (Hprops _ Hin)) as [ps0 [Hr0 _]]; rewrite Hr0; cbn [bind];
            destruct (body_requires_total d body name f Hp Hle) as [rq Hrq]; rewrite Hrq; done_ok
           | rewrite Hbargs; done_ok]
         end).
  destruct items as [i|]; [destruct (schema_ref_to_ty_total d f i Hb Hle) as [t Ht]; rewrite Ht|]; done_ok.
Qed.

Lemma get_res_ok o : (match get_res o with Err _ => false | Ok _ => true end) = true -> exists res, get_res o = Ok res.
Proof. destruct (get_res o); [eauto|discriminate]. Qed.

Lemma extract_operation_total d f item o h : operation_ok sp d (item, o) = true -> 1 <= f -> d <= f ->
  exists h', extract_operation f sp item o h = Ok h'.
Proof.
  unfold operation_ok. intros H H1 Hle. apply andb_prop in H as [H Hresp]. apply andb_prop in H as [H Hbody].
  apply andb_prop in H as [H Hpi]. apply andb_prop in H as [Hpath Hop].
  unfold extract_operation. destruct (make_name_total (op_id o) (op_method o) (pi_path item) Hpath) as [name Hn]. rewrite Hn. cbn [bind].
  destruct (extract_parameters_total d f o item Hop Hpi Hbody Hle) as [params Hp]. rewrite Hp. cbn [bind].
  unfold response_ok in Hresp. destruct (get_res o) as [res|e]; [|discriminate Hresp]. cbn [bind].
  destruct res as [[n|r]|].
  - destruct (schema_ref_to_ty_total d f (Ref n) Hresp Hle) as [t Ht]. rewrite Ht. cbn [bind]. done_ok.
  - apply andb_prop in Hresp as [Hs Hw].
    destruct (extract_schema_flat_total d f (fresh_name (map fst (h_schemas h)) (pascal name ++ lit "Response")) r (h_schemas h)
                (name_ok_response _ _) Hs H1 Hle) as [m' Hm]. rewrite Hm. cbn [bind].
    destruct (is_primitive_total d r f Hw Hle) as [prim Hprim]. rewrite Hprim. cbn [bind].
    destruct (prim || is_array_schema r); [|cbn [bind]; done_ok].
    destruct (schema_to_ty_total d r f Hw Hle) as [t Ht]. rewrite Ht. cbn [bind]. done_ok.
  - cbn [bind]. done_ok.
Qed.

Lemma fold_total {A B} (F : A -> B -> result A) (l : list B) : (forall a b, In b l -> exists a', F a b = Ok a') ->
  forall a0, exists a', fold_left (fun acc b => do a <- acc; F a b) l (Ok a0) = Ok a'.
Proof.
  induction l as [|b l IH]; intros H a0; cbn [fold_left]; [done_ok|]. cbn [bind].
  destruct (H a0 b (or_introl eq_refl)) as [a1 H1]. rewrite H1. apply IH. intros a b' Hb. apply H. right. exact Hb.
Qed.

Lemma extract_security_total : security_ok sp = true -> exists l, extract_security sp = Ok l.
Proof.
  unfold security_ok, extract_security. intros H. rewrite forallb_forall in H.
  match goal with |- exists l, (do l0 <- mapM ?F ?L; _) = Ok l => destruct (mapM_total F L) as [l0 Hl0] end.
  { intros req Hin. specialize (H req Hin). destruct req as [|n rest]; [done_ok|].
    destruct (assoc (schemes sp) n) as [sc|]; [destruct sc; done_ok|discriminate H]. }
  rewrite Hl0. done_ok.
Qed.

Theorem extract_without_treeshake_total d f : spec_ok d sp = true -> 1 <= f -> d <= f ->
  exists h, extract_without_treeshake f sp = Ok h.
Proof.
  unfold spec_ok. intros H H1 Hle. apply andb_prop in H as [H Hsec]. apply andb_prop in H as [Hcomp Hops].
  rewrite forallb_forall in Hcomp, Hops. unfold extract_without_treeshake.
  destruct (fold_total (fun m (ns : str * schema) => extract_schema f sp (fst ns) (snd ns) m) (components sp)) with (a0 := @nil (str * record)) as [schemas Hs].
  { intros m ns Hin. specialize (Hcomp ns Hin). apply (extract_schema_total d); assumption. }
  rewrite Hs. cbn [bind].
  match goal with |- exists h, (do h1 <- fold_left _ _ (Ok ?h0); _) = Ok h =>
    destruct (fold_total (fun h (io : path_item * operation) => extract_operation f sp (fst io) (snd io) h) (all_operations sp)) with (a0 := h0) as [h1 Hh1] end.
  { intros h [item o] Hin. cbn [fst snd]. apply (extract_operation_total d); auto. }
  rewrite Hh1. cbn [bind]. destruct (extract_security_total Hsec) as [sec Hsc]. rewrite Hsc. cbn [bind]. done_ok.
Qed.

(* ---------- pruning never fails: the only names it turns into types are targets of aliases, and those came through
   ty_model already ---------- *)
Lemma ty_model_no_paren n t m : ty_model n = Ok t -> t = TModel m -> no_paren m = true.
Proof.
  unfold ty_model, no_paren. destruct (contains_char "("%char n) eqn:E; [discriminate|]. intros H ->. apply Ok_inj in H. injection H as <-.
  rewrite E. reflexivity.
Qed.

Lemma schema_to_ty_no_paren : forall f s n, schema_to_ty f sp s = Ok (TModel n) -> no_paren n = true.
Proof.
  induction f as [|f IH]; intros s n H; [discriminate H|].
  assert (R : forall r, (do s' <- resolve sp r; do p <- is_primitive f sp s';
                         if p then schema_to_ty f sp s' else match r with Ref n0 => ty_model n0 | Inl s'' => schema_to_ty f sp s'' end) = Ok (TModel n) ->
              no_paren n = true).
  { intros r Hr. apply bind_ok in Hr as [s' [_ Hr]]. apply bind_ok in Hr as [p [_ Hr]].
    destruct p; [apply (IH _ _ Hr)|]. destruct r as [n0|s'']; [eapply ty_model_no_paren; eauto|apply (IH _ _ Hr)]. }
  cbn [schema_to_ty] in H. destruct (s_kind s) as [fmt en| | | |props req addl|items|l|l|l| |]; try discriminate H.
  - unfold string_format_ty in H. repeat match type of H with context [if ?c then _ else _] => destruct c end; discriminate H.
  - destruct (s_naz s); [discriminate H|]. destruct (s_xdate s); discriminate H.
  - destruct items as [item|]; [|discriminate H]. apply bind_ok in H as [t [_ H]]. discriminate H.
  - destruct l as [|x [|y l]]; try discriminate H. apply (R x). exact H.
Qed.

Lemma schema_ref_to_ty_no_paren f r n : schema_ref_to_ty f sp r = Ok (TModel n) -> no_paren n = true.
Proof.
  unfold schema_ref_to_ty, schema_ref_to_ty2. intros H. apply bind_ok in H as [s [_ H]]. apply bind_ok in H as [p [_ H]].
  destruct p; [apply (schema_to_ty_no_paren _ _ _ H)|].
  destruct r as [n0|s']; [eapply ty_model_no_paren; eauto|apply (schema_to_ty_no_paren _ _ _ H)].
Qed.

Definition alias_ok (m : list (str * record)) : Prop :=
  forall k n fl r, In (k, RAlias n fl) m -> f_ty fl = TModel r -> no_paren r = true.

Lemma alias_ok_insert m r m' : alias_ok m -> insert_schema m r = Ok m' ->
  (forall n fl t, r = RAlias n fl -> f_ty fl = TModel t -> no_paren t = true) -> alias_ok m'.
Proof.
  intros Hm Hi Hr k n fl t Hin Ht. destruct (insert_schema_spec _ _ _ Hi) as [_ Hs].
  destruct (Hs _ _ Hin) as [E|Hold]; [eapply Hr; eauto|eapply Hm; eauto].
Qed.

Lemma extract_schema_alias : forall f name s m m', alias_ok m -> extract_schema f sp name s m = Ok m' -> alias_ok m'.
Proof.
  induction f as [|f IH]; intros name s m m' Hm H; [discriminate H|].
  assert (NT : forall m0, extract_newtype (S f) sp name s m = Ok m0 -> alias_ok m0).
  { intros m0 H0. unfold extract_newtype in H0. apply bind_ok in H0 as [t [_ H0]]. eapply alias_ok_insert; eauto. intros; discriminate. }
  cbn [extract_schema] in H. destruct (s_kind s) as [fmt en| | | |props req addl|items|l|l|l| |]; try (apply NT; exact H).
  - destruct en as [|v vs]; [apply NT; exact H|]. eapply alias_ok_insert; eauto. intros; discriminate.
  - destruct props as [|p ps]; [destruct addl as [a|]|].
    + apply bind_ok in H as [t [_ H]]. eapply alias_ok_insert; eauto. intros n fl t0 E Et. injection E as <- <-. discriminate Et.
    + apply bind_ok in H as [fs [_ H]]. eapply alias_ok_insert; eauto. intros; discriminate.
    + apply bind_ok in H as [fs [_ H]]. eapply alias_ok_insert; eauto. intros; discriminate.
  - destruct items as [[n|item]|]; try (apply NT; exact H).
    destruct (create_unique_name (map fst m) name name) as [n|]; [eapply IH; eauto|apply NT; exact H].
  - unfold extract_all_of in H. destruct (Nat.eqb (effective_length l) 1).
    + destruct l as [|x l']; [discriminate H|]. apply bind_ok in H as [t [Ht H]]. eapply alias_ok_insert; eauto.
      intros n fl t0 E Et. injection E as <- <-. cbn [mk_field f_ty] in Et. subst t. eapply schema_ref_to_ty_no_paren; eauto.
    + apply bind_ok in H as [fs [_ H]]. eapply alias_ok_insert; eauto. intros; discriminate.
Qed.

Lemma extract_operation_alias f item o h h' : alias_ok (h_schemas h) -> extract_operation f sp item o h = Ok h' -> alias_ok (h_schemas h').
Proof.
  intros Hm H. unfold extract_operation in H. apply bind_ok in H as [name [_ H]]. apply bind_ok in H as [params [_ H]].
  apply bind_ok in H as [res [_ H]]. apply bind_ok in H as [[ret schemas'] [Hrs H]]. apply Ok_inj in H. subst h'. cbn [h_schemas].
  destruct res as [[n|r]|].
  - apply bind_ok in Hrs as [t [_ Hrs]]. apply Ok_inj in Hrs. injection Hrs as _ <-. exact Hm.
  - apply bind_ok in Hrs as [m' [Hm' Hrs]]. apply bind_ok in Hrs as [prim [_ Hrs]].
    assert (A : alias_ok m') by (eapply extract_schema_alias; eauto).
    destruct (prim || is_array_schema r); [apply bind_ok in Hrs as [t [_ Hrs]]|]; apply Ok_inj in Hrs; injection Hrs as _ <-; exact A.
  - apply Ok_inj in Hrs. injection Hrs as _ <-. exact Hm.
Qed.

Lemma fold_inv {A B} (P : A -> Prop) (F : A -> B -> result A) (l : list B) :
  (forall a b a', P a -> F a b = Ok a' -> P a') ->
  forall a0 a', P a0 -> fold_left (fun acc b => do a <- acc; F a b) l (Ok a0) = Ok a' -> P a'.
Proof.
  intros HF. induction l as [|b l IH]; intros a0 a' H0 H; cbn [fold_left] in H; [apply Ok_inj in H; subst; exact H0|].
  cbn [bind] in H. destruct (F a0 b) as [a1|e] eqn:E.
  - eapply IH; [eapply HF; eauto|exact H].
  - exfalso. clear - H. induction l as [|b' l IH]; cbn [fold_left bind] in H; [discriminate H|apply IH; exact H].
Qed.

Lemma extract_alias_ok f h : extract_without_treeshake f sp = Ok h -> alias_ok (h_schemas h).
Proof.
  unfold extract_without_treeshake. intros H. apply bind_ok in H as [schemas [Hs H]]. apply bind_ok in H as [h1 [Hh1 H]].
  apply bind_ok in H as [sec [_ H]]. apply Ok_inj in H. subst h. cbn [h_schemas].
  assert (Anil : alias_ok []) by (intros k n fl r Hin; destruct Hin).
  assert (A0 : alias_ok schemas).
  { refine (fold_inv alias_ok (fun m (ns : str * schema) => extract_schema f sp (fst ns) (snd ns) m) (components sp) _ [] schemas Anil Hs).
    intros a b a' Ha E. eapply extract_schema_alias; eauto. }
  refine (fold_inv (fun h => alias_ok (h_schemas h)) (fun h (io : path_item * operation) => extract_operation f sp (fst io) (snd io) h)
            (all_operations sp) _ {| h_ops := []; h_schemas := schemas; h_servers := []; h_security := []; h_docs_url := None |} h1 A0 Hh1).
  intros a b a' Ha E. eapply extract_operation_alias; eauto.
Qed.
End WithSpec.

Lemma short_circuit_target h a target : assoc (short_circuit_map h) a = Some target ->
  exists k fl, In (k, RAlias a fl) (h_schemas h) /\ f_ty fl = TModel target.
Proof.
  intros H. apply assoc_in in H. unfold short_circuit_map in H. apply in_flat_map in H as [[k r] [Hin Hr]]. cbn [snd] in Hr.
  destruct r as [n nl fs d|n fs d|n fl|n vs d]; try contradiction.
  destruct (f_optional fl); [|contradiction]. destruct (f_ty fl) eqn:E; try contradiction.
  destruct Hr as [Hr|Hr]; [|contradiction]. injection Hr as <- <-. exists k, fl. split; [exact Hin|exact E].
Qed.

Lemma treeshake_total I h : alias_ok (h_schemas h) -> exists h', treeshake I h = Ok h'.
Proof.
  intros HA. unfold treeshake.
  assert (RF : forall f, exists f', rewrite_field (short_circuit_map h) f = Ok f').
  { intros f. unfold rewrite_field. destruct (f_ty f); try done_ok.
    destruct (assoc (short_circuit_map h) n) as [target|] eqn:E; [|done_ok].
    destruct (short_circuit_target _ _ _ E) as [k [fl [Hin Ht]]]. rewrite (ty_model_total target (HA _ _ _ _ Hin Ht)). done_ok. }
  assert (RR : forall r, exists r', rewrite_record (short_circuit_map h) r = Ok r').
  { intros r. destruct r as [n nl fs d|n fs d|n fl|n vs d]; cbn [rewrite_record].
    - destruct (mapM_total (fun kf : str * hfield => do f <- rewrite_field (short_circuit_map h) (snd kf); Ok (fst kf, f)) fs) as [fs' Hf].
      { intros kf _. destruct (RF (snd kf)) as [f' Hf']. rewrite Hf'. done_ok. }
      rewrite Hf. done_ok.
    - destruct (mapM_total (rewrite_field (short_circuit_map h)) fs) as [fs' Hf]; [intros f _; apply RF|]. rewrite Hf. done_ok.
    - destruct (RF fl) as [f' Hf']. rewrite Hf'. done_ok.
    - done_ok. }
  destruct (mapM_total (fun kr : str * record => do r <- rewrite_record (short_circuit_map h) (snd kr); Ok (fst kr, r)) (h_schemas h)) as [schemas Hs].
  { intros kr _. destruct (RR (snd kr)) as [r' Hr']. rewrite Hr'. done_ok. }
  rewrite Hs. done_ok.
Qed.

(* extraction and pruning succeed on every document satisfying spec_ok, whenever the fuel covers its reference depth *)
Theorem extract_spec_total d sp f : spec_ok d sp = true -> 1 <= f -> d <= f -> exists h, extract_spec f sp = Ok h.
Proof.
  intros H H1 Hle. unfold extract_spec. destruct (extract_without_treeshake_total sp d f H H1 Hle) as [h Hh]. rewrite Hh. cbn [bind].
  apply treeshake_total. eapply extract_alias_ok; eauto.
Qed.
