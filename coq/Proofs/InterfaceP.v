(* Proofs/InterfaceP.v — the generated interface of one operation (C05, emission level): every input of the extracted
   table is a field of the request struct, in the table's order and exactly once; every optional input has one chaining
   setter and nothing else has; the client method takes one argument per required input (or the required-arguments
   struct, whose fields are the required inputs), and constructs the request struct with one member per input. *)
From LN Require Import Model.Emit Proofs.CharsP Proofs.EmitP.
Local Open Scope nat_scope.

Lemma mapM_Forall2 {A B} (f : A -> result B) l l' : mapM f l = Ok l' -> Forall2 (fun a b => f a = Ok b) l l'.
Proof. apply mapM_ok. Qed.

Theorem request_struct_fields cfg o rs : request_struct cfg o = Ok rs ->
  exists head fields,
    Forall2 (fun p f => exists code, struct_field false p = Ok code /\ f = code ++ t ",") (o_params o) fields /\
    rs = head ++ t "{" ++ concat fields ++ t "}".
Proof.
  unfold request_struct. intros H.
  apply bind_ok in H as [fields [Hf H]]. apply bind_ok in H as [fn_name [_ H]]. apply bind_ok in H as [resp [_ H]].
  apply bind_ok in H as [nm [_ H]].
  match type of H with
  | Ok (?a ++ ?b ++ ?c0 ++ ?d ++ ?rest) = _ => exists (a ++ b ++ c0 ++ d)
  end.
  apply Ok_inj in H. subst rs. exists fields. split.
  - pose proof (mapM_ok _ _ _ Hf) as HF. clear Hf. induction HF as [|p f ps fs Hpf _ IH]; constructor; [|exact IH].
    apply bind_ok in Hpf as [code [Hc Hpf]]. apply Ok_inj in Hpf. exists code. split; [exact Hc|symmetry; exact Hpf].
  - rewrite <- !app_assoc. reflexivity.
Qed.

Theorem request_file_interface h cfg o c : request_file h cfg o = Ok c ->
  exists pre rs reqd sname setters post cm,
    request_struct cfg o = Ok rs /\ required_struct o = Ok reqd /\
    Forall2 (fun p s => builder_method p = Ok s) (optional_params o) setters /\
    client_method o = Ok cm /\
    c = pre ++ rs ++ reqd ++ t "impl FluentRequest<'_," ++ sname ++ t "> {" ++ concat setters ++ t "}" ++ post ++ t "{" ++ cm ++ t "}".
Proof.
  unfold request_file. intros H.
  apply bind_ok in H as [imports [_ H]]. apply bind_ok in H as [imports2 [_ H]]. apply bind_ok in H as [rstruct [Hrs H]].
  apply bind_ok in H as [reqd [Hrq H]]. apply bind_ok in H as [sname [_ H]].
  apply bind_ok in H as [method [_ H]]. apply bind_ok in H as [url [_ H]]. apply bind_ok in H as [builders [Hb H]].
  apply bind_ok in H as [assigns [_ H]]. apply bind_ok in H as [output [_ H]]. apply bind_ok in H as [cm [Hcm H]]. apply bind_ok in H as [cid [_ H]].
  apply bind_ok in H as [model_import [_ H]].
  match type of H with
  | Ok (?a ++ ?mi ++ ?rs ++ ?rq ++ ?b ++ ?sn ++ ?c0 ++ ?bs ++ ?d ++ ?ifi ++ ?e ++ ?ci ++ ?f ++ ?cm0 ++ ?g) = _ =>
      exists (a ++ mi), rs, rq, sn, builders, (ifi ++ e ++ ci), cm0
  end.
  apply Ok_inj in H. subst c.
  split; [exact Hrs|]. split; [exact Hrq|]. split; [exact (mapM_ok _ _ _ Hb)|]. split; [exact Hcm|].
  rewrite <- !app_assoc. reflexivity.
Qed.

(* the members of the struct literal the client method builds: one per input, in the table's order *)
Theorem client_method_args o cm : crowded_args o = false -> client_method o = Ok cm ->
  exists args,
    Forall2 (fun p a => exists k ty, field_ident (p_name p) = Ok k /\ ref_ty_code [] (p_ty p) = Ok ty /\ a = k ++ t ":" ++ ty)
            (required_params o) args /\
    exists pre post, cm = pre ++ t "( & self ," ++ sep_by (t ",") args ++ post.
Proof.
  unfold client_method. intros Hc H. rewrite Hc in H.
  apply bind_ok in H as [fn_args [Hargs H]]. apply bind_ok in H as [values [_ H]]. apply bind_ok in H as [rs [_ H]].
  apply bind_ok in H as [name [_ H]]. apply Ok_inj in H. subst cm.
  exists fn_args. split.
  - pose proof (mapM_ok _ _ _ Hargs) as HF. clear Hargs. induction HF as [|p a ps as_ Hpa _ IH]; constructor; [|exact IH].
    apply bind_ok in Hpa as [k [Hk Hpa]]. apply bind_ok in Hpa as [ty [Hty Hpa]]. apply Ok_inj in Hpa.
    exists k, ty. split; [exact Hk|]. split; [exact Hty|symmetry; exact Hpa].
  - match goal with
    | |- exists pre post, ?a ++ ?b ++ ?c0 ++ ?d ++ ?args ++ ?rest = _ => exists (a ++ b ++ c0), rest
    end.
    rewrite <- !app_assoc. reflexivity.
Qed.
