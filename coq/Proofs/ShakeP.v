(* ShakeP.v — pruning preserves closure of the schema table, keeps everything reachable from the
   operations, and does not depend on the set implementation. *)
From LN Require Import Model.Shake Proofs.CharsP.

(* ---------- what it means for a table to mention a model name ---------- *)
Definition op_mentions (o : hop) (n : str) : Prop :=
  inner_model (o_ret o) = Some n \/ exists p, In p (o_params o) /\ inner_model (p_ty p) = Some n.

Definition record_mentions (r : record) (n : str) : Prop :=
  exists f, In f (record_fields r) /\ inner_model (f_ty f) = Some n.

Definition mentions (h : hirspec) (n : str) : Prop :=
  (exists o, In o (h_ops h) /\ op_mentions o n) \/
  (exists k r, In (k, r) (h_schemas h) /\ record_mentions r n).

Definition names (h : hirspec) : list str := map fst (h_schemas h).
Definition closed (h : hirspec) : Prop := forall n, mentions h n -> In n (names h).

(* ---------- lawful set implementations ---------- *)
Record SetOK (I : SetImpl) : Prop := {
  mem_empty : forall x, set_mem I x (set_empty I) = false;
  mem_add : forall x y s, set_mem I x (set_add I y s) = str_eqb y x || set_mem I x s
}.

Lemma ListSet_ok : SetOK ListSet.
Proof.
  split; intros; cbn; [reflexivity|]. destruct (str_eqb y x) eqn:E.
  - apply str_eqb_eq in E. subst. rewrite str_eqb_refl. reflexivity.
  - destruct (str_eqb x y) eqn:E2; [|reflexivity]. apply str_eqb_eq in E2. subst. rewrite str_eqb_refl in E. discriminate.
Qed.

Section WithSet.
Variable I : SetImpl.
Hypothesis OK : SetOK I.

Lemma mem_add_opt x o s : set_mem I x (add_opt I o s) = true <-> o = Some x \/ set_mem I x s = true.
Proof.
  destruct o as [y|]; cbn.
  - rewrite (mem_add I OK). rewrite orb_true_iff. split; intros [H|H]; auto.
    + apply str_eqb_eq in H. subst. auto.
    + inversion H. subst. left. apply str_eqb_refl.
  - split; [auto|intros [H|H]; [discriminate|assumption]].
Qed.

(* folding add_opt over a list: membership = already there, or contributed by an element *)
Lemma fold_add_mem {A} (g : A -> option str) (l : list A) : forall s x,
  set_mem I x (fold_left (fun s a => add_opt I (g a) s) l s) = true <->
  set_mem I x s = true \/ exists a, In a l /\ g a = Some x.
Proof.
  induction l as [|a l IH]; intros s x; cbn.
  - split; [auto|intros [H|[a [[] _]]]; assumption].
  - rewrite IH, mem_add_opt. split.
    + intros [[H|H]|[b [Hb Hg]]]; eauto.
    + intros [H|[b [[->|Hb] Hg]]]; eauto.
Qed.

Lemma fold_fields_mem (rs : list (str * record)) : forall s x,
  set_mem I x (fold_left (fun s kr => fold_left (fun s f => add_opt I (inner_model (f_ty f)) s)
                                               (record_fields (snd kr)) s) rs s) = true <->
  set_mem I x s = true \/ exists k r, In (k, r) rs /\ record_mentions r x.
Proof.
  induction rs as [|[k r] rs IH]; intros s x; cbn [fold_left snd].
  - split; [auto|intros [H|[k [r [[] _]]]]; assumption].
  - rewrite IH. rewrite (fold_add_mem (fun f => inner_model (f_ty f))). split.
    + intros [[H|[f [Hf Hm]]]|[k' [r' [Hin Hm]]]]; [auto| |].
      * right. exists k, r. split; [left; reflexivity|]. exists f. auto.
      * right. exists k', r'. split; [right; assumption|assumption].
    + intros [H|[k' [r' [[E|Hin] Hm]]]]; [auto| |].
      * inversion E; subst. destruct Hm as [f [Hf Hm]]. left. right. exists f. auto.
      * right. exists k', r'. auto.
Qed.

Lemma fold_ops_mem (os : list hop) : forall s x,
  set_mem I x (fold_left (fun s o =>
       let s := add_opt I (inner_model (o_ret o)) s in
       fold_left (fun s p => add_opt I (inner_model (p_ty p)) s) (o_params o) s) os s) = true <->
  set_mem I x s = true \/ exists o, In o os /\ op_mentions o x.
Proof.
  induction os as [|o os IH]; intros s x; cbn [fold_left].
  - split; [auto|intros [H|[o [[] _]]]; assumption].
  - rewrite IH. rewrite (fold_add_mem (fun p => inner_model (p_ty p))). rewrite mem_add_opt. split.
    + intros [[[H|H]|[p [Hp Hm]]]|[o' [Hin Hm]]].
      * right. exists o. split; [left; reflexivity|left; assumption].
      * auto.
      * right. exists o. split; [left; reflexivity|right; eauto].
      * right. exists o'. split; [right; assumption|assumption].
    + intros [H|[o' [[E|Hin] Hm]]]; [auto| |].
      * subst o'. destruct Hm as [H|[p [Hp Hm]]]; [left; left; left; assumption|left; right; eauto].
      * right. eauto.
Qed.

Theorem used_set_spec h x : set_mem I x (used_set I h) = true <-> mentions h x.
Proof.
  unfold used_set, mentions. rewrite fold_ops_mem, fold_fields_mem, (mem_empty I OK). split.
  - intros [[H|H]|H]; [discriminate|right; assumption|left; assumption].
  - intros [H|H]; [right; assumption|left; right; assumption].
Qed.

Definition keeps (h : hirspec) (k : str) : bool :=
  set_mem I k (used_set I h) || ends_with (lit "Webhook") k.

Lemma remove_unused_schemas h k r :
  In (k, r) (h_schemas (remove_unused I h)) <-> In (k, r) (h_schemas h) /\ keeps h k = true.
Proof. unfold remove_unused. cbn [h_schemas]. rewrite filter_In. reflexivity. Qed.

Lemma remove_unused_ops h : h_ops (remove_unused I h) = h_ops h.
Proof. reflexivity. Qed.

Lemma mentions_remove_unused h n : mentions (remove_unused I h) n -> mentions h n.
Proof.
  intros [[o [Ho Hm]]|[k [r [Hin Hm]]]].
  - left. exists o. rewrite remove_unused_ops in Ho. auto.
  - right. exists k, r. apply remove_unused_schemas in Hin. tauto.
Qed.

Lemma names_remove_unused h k :
  In k (names (remove_unused I h)) <-> exists r, In (k, r) (h_schemas h) /\ keeps h k = true.
Proof.
  unfold names. rewrite in_map_iff. split.
  - intros [[k' r] [E Hin]]. cbn in E. subst k'. apply remove_unused_schemas in Hin. eauto.
  - intros [r [Hin Hk]]. exists (k, r). split; [reflexivity|]. apply remove_unused_schemas. auto.
Qed.

Theorem remove_unused_closed h : closed h -> closed (remove_unused I h).
Proof.
  intros Hc n Hm. pose proof (mentions_remove_unused h n Hm) as Hm0.
  pose proof (Hc n Hm0) as Hin. unfold names in Hin. apply in_map_iff in Hin as [[k r] [E Hin]]. cbn in E. subst k.
  apply names_remove_unused. exists r. split; [assumption|]. unfold keeps.
  apply (used_set_spec h n) in Hm0. rewrite Hm0. reflexivity.
Qed.

(* a mentioned, present schema is never removed *)
Theorem remove_unused_keeps_mentioned h n :
  mentions h n -> In n (names h) -> In n (names (remove_unused I h)).
Proof.
  intros Hm Hin. unfold names in Hin. apply in_map_iff in Hin as [[k r] [E Hin]]. cbn in E. subst k.
  apply names_remove_unused. exists r. split; [assumption|]. unfold keeps.
  apply (used_set_spec h n) in Hm. rewrite Hm. reflexivity.
Qed.

(* ---------- reachability from the operations, in a given table ---------- *)
Inductive reach (h : hirspec) : str -> Prop :=
| reach_op : forall o n, In o (h_ops h) -> op_mentions o n -> reach h n
| reach_rec : forall m r n, reach h m -> In (m, r) (h_schemas h) -> record_mentions r n -> reach h n.

(* everything reachable in h and present in h survives two pruning passes (and any number) *)
Lemma reach_survives_once h n : reach h n -> In n (names h) -> In n (names (remove_unused I h)).
Proof.
  intros Hr Hin. apply remove_unused_keeps_mentioned; [|assumption].
  destruct Hr as [o n Ho Hm|m r n _ Hin2 Hm].
  - left. eauto.
  - right. eauto.
Qed.

(* a record that survives is the same record *)
Lemma survivor_same h k r : In (k, r) (h_schemas (remove_unused I h)) -> In (k, r) (h_schemas h).
Proof. intros H. apply remove_unused_schemas in H. tauto. Qed.

(* reachability is preserved by a pass, for names whose whole chain is present *)
Definition uniq_keys (h : hirspec) : Prop := NoDup (names h).

Lemma in_names_pair h k : In k (names h) -> exists r, In (k, r) (h_schemas h).
Proof. unfold names. rewrite in_map_iff. intros [[k' r] [E H]]. cbn in E. subst. eauto. Qed.

Lemma uniq_same h k r r' : uniq_keys h -> In (k, r) (h_schemas h) -> In (k, r') (h_schemas h) -> r = r'.
Proof.
  unfold uniq_keys, names. induction (h_schemas h) as [|[q x] l IH]; cbn; intros Hn H1 H2; [tauto|].
  inversion Hn as [|? ? Hnot Hd]; subst.
  destruct H1 as [E1|H1]; destruct H2 as [E2|H2].
  - congruence.
  - inversion E1; subst. exfalso. apply Hnot. apply in_map_iff. exists (k, r'). auto.
  - inversion E2; subst. exfalso. apply Hnot. apply in_map_iff. exists (k, r). auto.
  - auto.
Qed.

Lemma reach_pass h n : uniq_keys h -> closed h -> reach h n -> reach (remove_unused I h) n.
Proof.
  intros Hu Hc Hr. induction Hr as [o n Ho Hm|m r n Hr IH Hin Hm].
  - eapply reach_op; [rewrite remove_unused_ops; exact Ho|exact Hm].
  - eapply reach_rec; [exact IH| |exact Hm].
    apply remove_unused_schemas. split; [assumption|].
    (* m is mentioned in h: it is reachable, so either an operation or a record mentions it *)
    unfold keeps. assert (Hmm : mentions h m).
    { destruct Hr as [o m Ho Hm'|m0 r0 m _ Hin0 Hm']; [left; eauto|right; eauto]. }
    apply (used_set_spec h m) in Hmm. rewrite Hmm. reflexivity.
Qed.

End WithSet.

(* ---------- independence of the set implementation (C09) ---------- *)
Theorem remove_unused_set_independent I1 I2 (OK1 : SetOK I1) (OK2 : SetOK I2) h :
  remove_unused I1 h = remove_unused I2 h.
Proof.
  unfold remove_unused. f_equal. apply filter_ext. intros [k r]. cbn [fst].
  f_equal. destruct (set_mem I1 k (used_set I1 h)) eqn:E1; destruct (set_mem I2 k (used_set I2 h)) eqn:E2; try reflexivity.
  - apply (used_set_spec I1 OK1) in E1. apply (used_set_spec I2 OK2) in E1. congruence.
  - apply (used_set_spec I2 OK2) in E2. apply (used_set_spec I1 OK1) in E2. congruence.
Qed.

Theorem treeshake_set_independent I1 I2 (OK1 : SetOK I1) (OK2 : SetOK I2) h :
  treeshake I1 h = treeshake I2 h.
Proof.
  unfold treeshake. destruct (mapM _ (h_schemas h)) as [schemas|e]; cbn [bind]; [|reflexivity].
  rewrite (remove_unused_set_independent I1 I2 OK1 OK2).
  rewrite (remove_unused_set_independent I1 I2 OK1 OK2). reflexivity.
Qed.

(* ---------- the nullable-alias short-circuit keeps the table closed ---------- *)
Lemma assoc_in {A} (l : list (str * A)) k v : assoc l k = Some v -> In (k, v) l.
Proof.
  induction l as [|[q w] l IH]; cbn; [discriminate|]. destruct (str_eqb q k) eqn:E.
  - apply str_eqb_eq in E. subst. intros H. inversion H. auto.
  - auto.
Qed.

Lemma short_circuit_sound h alias target :
  In (alias, target) (short_circuit_map h) ->
  exists k f, In (k, RAlias alias f) (h_schemas h) /\ f_ty f = TModel target.
Proof.
  unfold short_circuit_map. rewrite in_flat_map. intros [[k r] [Hin H]]. cbn [snd] in H.
  destruct r as [| |a f|]; try (destruct H; fail).
  destruct (f_optional f); [|destruct H]. destruct (f_ty f) eqn:Et; try (destruct H; fail).
  destruct H as [E|[]]. inversion E; subst. eauto.
Qed.

Lemma rewrite_field_mentions m f f' n :
  rewrite_field m f = Ok f' -> inner_model (f_ty f') = Some n ->
  inner_model (f_ty f) = Some n \/ exists a, In (a, n) m.
Proof.
  unfold rewrite_field. destruct (f_ty f) eqn:Et; try (intros H; inversion H; subst; rewrite Et; auto; fail).
  destruct (assoc m n0) as [target|] eqn:Ea.
  - unfold ty_model. destruct (contains_char "("%char target); cbn [bind]; [discriminate|].
    intros H. inversion H; subst. cbn. intros E. inversion E; subst. right. exists n0. apply assoc_in. assumption.
  - intros H. inversion H; subst. rewrite Et. auto.
Qed.

Lemma rewrite_record_mentions m r r' n :
  rewrite_record m r = Ok r' -> record_mentions r' n ->
  record_mentions r n \/ exists a, In (a, n) m.
Proof.
  destruct r as [nm nl fs d|nm fs d|nm f|nm v d]; cbn [rewrite_record]; intros H [f' [Hin Hm]].
  - apply bind_ok in H as [fs' [Hfs H]]. inversion H; subst. cbn [record_fields] in Hin.
    apply in_map_iff in Hin as [[k f''] [E Hin]]. cbn in E. subst f''.
    destruct (Forall2_in_r _ _ _ _ (mapM_ok _ _ _ Hfs) Hin) as [[k0 f0] [Hin0 Hr]]. cbn [fst snd] in Hr.
    apply bind_ok in Hr as [f1 [Hf1 Hr]]. inversion Hr; subst.
    destruct (rewrite_field_mentions _ _ _ _ Hf1 Hm) as [H0|H0]; [left|right; assumption].
    exists f0. split; [|assumption]. cbn [record_fields]. apply in_map_iff. exists (k, f0). auto.
  - apply bind_ok in H as [fs' [Hfs H]]. inversion H; subst. cbn [record_fields] in Hin.
    destruct (Forall2_in_r _ _ _ _ (mapM_ok _ _ _ Hfs) Hin) as [f0 [Hin0 Hr]].
    destruct (rewrite_field_mentions _ _ _ _ Hr Hm) as [H0|H0]; [left|right; assumption].
    exists f0. auto.
  - apply bind_ok in H as [f1 [Hf1 H]]. inversion H; subst. cbn [record_fields] in Hin. destruct Hin as [<-|[]].
    destruct (rewrite_field_mentions _ _ _ _ Hf1 Hm) as [H0|H0]; [left|right; assumption].
    exists f. split; [left; reflexivity|assumption].
  - inversion H; subst. destruct Hin.
Qed.

Theorem treeshake_closed I (OK : SetOK I) h h' : closed h -> treeshake I h = Ok h' -> closed h'.
Proof.
  intros Hc H. unfold treeshake in H. apply bind_ok in H as [schemas [Hs H]]. inversion H; subst h'. clear H.
  apply remove_unused_closed; [assumption|]. apply remove_unused_closed; [assumption|].
  pose proof (mapM_ok _ _ _ Hs) as F.
  assert (Hnames : map fst schemas = names h).
  { unfold names. clear Hs Hc. induction F as [|[k r] [k' r'] l l' Hx F IH]; [reflexivity|].
    cbn [fst snd] in Hx. apply bind_ok in Hx as [r1 [_ Hx]]. inversion Hx; subst. cbn. f_equal. exact IH. }
  intros n Hm. unfold names. cbn [h_schemas]. rewrite Hnames. apply Hc.
  destruct Hm as [[o [Ho Hm]]|[k [r' [Hin Hm]]]].
  - left. exists o. auto.
  - cbn [h_schemas] in Hin. destruct (Forall2_in_r _ _ _ _ F Hin) as [[k0 r0] [Hin0 Hr]].
    cbn [fst snd] in Hr. apply bind_ok in Hr as [r1 [Hr1 Hr]]. inversion Hr; subst.
    destruct (rewrite_record_mentions _ _ _ _ Hr1 Hm) as [H0|[a H0]].
    + right. exists k, r0. auto.
    + destruct (short_circuit_sound _ _ _ H0) as [k1 [f [Hin1 Hty]]].
      right. exists k1, (RAlias a f). split; [assumption|]. exists f. split; [left; reflexivity|].
      rewrite Hty. reflexivity.
Qed.
