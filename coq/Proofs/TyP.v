(* TyP.v — C08: the emitted Rust type equals the documented type at any nesting depth; the same schema
   reference gets the same type in every position; the borrowed form is used only for strings and lists of strings. *)
From LN Require Import Model.RustTy Model.Extractor Spec.DocTy Proofs.CharsP Proofs.ExtractP.
Local Open Scope nat_scope.

Lemma bind_assoc {A B C} (r : result A) (f : A -> result B) (g : B -> result C) :
  bind (bind r f) g = bind r (fun a => bind (f a) g).
Proof. destruct r; reflexivity. Qed.

Lemma to_rust_format fmt : to_rust_type (string_format_ty fmt) = Ok (doc_string_format fmt).
Proof.
  unfold string_format_ty, doc_string_format.
  repeat match goal with |- context [if ?c then _ else _] => destruct c end; reflexivity.
Qed.

Lemma ty_model_to_rust n : bind (ty_model n) to_rust_type = (do _ <- ty_model n; do id <- sanitize_struct n; Ok (RNamed id)).
Proof. unfold ty_model. destruct (contains_char _ n); reflexivity. Qed.

Theorem schema_to_ty_doc : forall fuel sp s,
  bind (schema_to_ty fuel sp s) to_rust_type = doc_schema fuel sp s.
Proof.
  induction fuel as [|f IH]; intros sp s; [reflexivity|].
  cbn [schema_to_ty doc_schema].
  assert (Href : forall r,
    bind (do s' <- resolve sp r; do p <- is_primitive f sp s';
          if p then schema_to_ty f sp s'
          else match r with Ref n => ty_model n | Inl s'' => schema_to_ty f sp s'' end) to_rust_type
    = (do s' <- resolve sp r; do p <- is_primitive f sp s';
       if p then doc_schema f sp s'
       else match r with
            | Ref n => do _ <- ty_model n; do id <- sanitize_struct n; Ok (RNamed id)
            | Inl s'' => doc_schema f sp s''
            end)).
  { intros r. rewrite bind_assoc. destruct (resolve sp r) as [s'|e]; [|reflexivity]. cbn [bind].
    rewrite bind_assoc. destruct (is_primitive f sp s') as [p|e]; [|reflexivity]. cbn [bind].
    destruct p; [apply IH|]. destruct r as [n|s'']; [apply ty_model_to_rust|apply IH]. }
  destruct (s_kind s) as [fmt en| | | |props req ad|items|l|l|l| |]; try reflexivity.
  - cbn [bind]. apply to_rust_format.
  - cbn [bind]. destruct (s_naz s), (s_xdate s); reflexivity.
  - destruct items as [item|]; [|reflexivity].
    rewrite <- (Href item). rewrite !bind_assoc.
    match goal with |- bind ?x _ = _ => destruct x as [s'|e] end; [|reflexivity]. cbn [bind]. rewrite !bind_assoc.
    match goal with |- bind ?x _ = _ => destruct x as [p|e] end; [|reflexivity]. cbn [bind].
    match goal with |- bind ?x _ = _ => destruct x as [t|e] end; reflexivity.
  - destruct l as [|x [|y l']]; try reflexivity. apply Href.
Qed.

Theorem schema_ref_to_ty_doc fuel sp r :
  bind (schema_ref_to_ty fuel sp r) to_rust_type = doc_ref fuel sp r.
Proof.
  unfold schema_ref_to_ty, schema_ref_to_ty2, doc_ref. rewrite bind_assoc.
  destruct (resolve sp r) as [s|e]; [|reflexivity]. cbn [bind]. rewrite bind_assoc.
  destruct (is_primitive fuel sp s) as [p|e]; [|reflexivity]. cbn [bind].
  destruct p; [apply schema_to_ty_doc|]. destruct r as [n|s']; [apply ty_model_to_rust|apply schema_to_ty_doc].
Qed.

(* ---------- the same reference gets the same type in every position ---------- *)
Lemma ref2_is_ref fuel sp r s : resolve sp r = Ok s -> schema_ref_to_ty2 fuel sp r s = schema_ref_to_ty fuel sp r.
Proof. intros H. unfold schema_ref_to_ty. rewrite H. reflexivity. Qed.

Theorem field_position fuel sp props parent fs k f :
  extract_fields fuel sp props parent = Ok fs -> In (k, f) fs ->
  exists r, In (k, r) props /\ schema_ref_to_ty fuel sp r = Ok (f_ty f).
Proof.
  unfold extract_fields. intros H Hin. apply bind_ok in H as [l [Hl H]]. inversion H; subst. clear H.
  apply bt_of_list_in in Hin.
  destruct (Forall2_in_r _ _ _ _ (mapM_ok _ _ _ Hl) Hin) as [[name r] [Hpr Hr]].
  apply bind_ok in Hr as [s [Hs Hr]]. apply bind_ok in Hr as [t [Ht Hr]]. inversion Hr; subst.
  exists r. split; [assumption|]. cbn. rewrite <- (ref2_is_ref _ _ _ _ Hs). exact Ht.
Qed.

Theorem param_position fuel sp p hp :
  extract_param fuel sp p = Ok hp -> schema_ref_to_ty fuel sp (pa_schema p) = Ok (p_ty hp).
Proof.
  unfold extract_param. intros H. apply bind_ok in H as [s [Hs H]]. apply bind_ok in H as [t [Ht H]].
  inversion H; subst. cbn. rewrite <- (ref2_is_ref _ _ _ _ Hs). exact Ht.
Qed.

(* ---------- borrowed forms ---------- *)
Fixpoint strings_shape (t : ty) : Prop :=
  match t with TString => True | TArray i => strings_shape i | _ => False end.

Theorem reference_type_shape t : is_reference_type t = true <-> strings_shape t.
Proof. induction t; cbn; try (split; [discriminate|tauto]); try tauto. Qed.

Theorem borrowed_only_for_strings t :
  is_reference_type t = false -> to_reference_type t = to_rust_type t.
Proof. destruct t; cbn; try reflexivity; try discriminate. intros ->. reflexivity. Qed.

Theorem borrowed_differs_on_strings t r o :
  is_reference_type t = true -> to_reference_type t = Ok r -> to_rust_type t = Ok o -> r <> o.
Proof.
  revert r o. induction t; cbn; try discriminate; intros r o Hs Hr Ho.
  - inversion Hr; inversion Ho; subst. discriminate.
  - rewrite Hs in Hr. apply bind_ok in Hr as [r' [_ Hr]]. apply bind_ok in Ho as [o' [_ Ho]].
    inversion Hr; inversion Ho; subst. discriminate.
Qed.

(* ---------- result status preference ---------- *)
Definition pick_resp (resp : list (N * option sref)) (c : N) : list (N * option sref) :=
  match find (fun r0 => N.eqb (fst r0) c) resp with Some r0 => [r0] | None => [] end.

Lemma first_pick resp : forall codes r,
  match flat_map (pick_resp resp) codes with [] => Err ENoSuccess | x :: _ => Ok (snd x) end = Ok r ->
  exists pre c post, codes = pre ++ c :: post /\ In (c, r) resp /\
                     (forall c' r', In c' pre -> ~ In (c', r') resp).
Proof.
  induction codes as [|c0 codes IH]; intros r H; cbn [flat_map] in H; [discriminate|].
  unfold pick_resp at 1 in H. destruct (find (fun r0 => N.eqb (fst r0) c0) resp) as [[c1 x]|] eqn:E.
  - cbn in H. inversion H; subst. apply find_some in E as [E1 E2]. cbn in E2. apply N.eqb_eq in E2. subst c1.
    exists [], c0, codes. repeat split; [assumption|]. intros c' r' [].
  - cbn [app] in H. destruct (IH _ H) as [pre [c [post [Ec [Hin Hpre]]]]].
    exists (c0 :: pre), c, post. repeat split; [rewrite Ec; reflexivity|assumption|].
    intros c' r' [<-|Hc'] Hin'; [|eapply Hpre; eauto].
    pose proof (find_none _ _ E _ Hin') as N0. cbn in N0. rewrite N.eqb_refl in N0. discriminate.
Qed.

(* the result is the response of the FIRST status among 200, 201, 202, 204, 302 that the operation declares *)
Theorem result_status o r : get_res o = Ok r ->
  exists pre c post, success_codes = pre ++ c :: post /\ In (c, r) (op_responses o) /\
                     (forall c' r', In c' pre -> ~ In (c', r') (op_responses o)).
Proof. unfold get_res. apply first_pick. Qed.
