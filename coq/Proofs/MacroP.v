(* MacroP.v — the code-building macros reproduce what was written inside them (C20). *)
From Coq Require Import Lia.
From LN Require Import Model.Macro Proofs.CharsP.
Local Open Scope nat_scope.

(* ================= rfunction! : parse o print = id, hence the rendering is the hand-written fn ================= *)
Record rinv := {
  ri_pub : bool; ri_async : bool; ri_swap : bool;      (* `pub async` or `async pub` *)
  ri_name : text_src;
  ri_args : list (str * list tok);
  ri_ret : list tok;
  ri_body : option (list tok) }.

Definition flag_toks (is_pub is_async swap : bool) : list tok :=
  let p := if is_pub then [TIdent (lit "pub")] else [] in
  let a := if is_async then [TIdent (lit "async")] else [] in
  if swap then a ++ p else p ++ a.
Definition name_toks (n : text_src) : list tok :=
  match n with SText s => [TIdent s] | SVar x => [TPunct "#"%char; TIdent x] end.
Definition rarg_toks (a : str * list tok) : list tok := TIdent (fst a) :: TPunct ":"%char :: snd a.
Definition arrow (r : list tok) : list tok := match r with [] => [] | _ => TPunct "-"%char :: TPunct ">"%char :: r end.
Definition body_toks (b : option (list tok)) : list tok := match b with Some x => [TGroup DBrace x] | None => [] end.

(* the tokens handed to rfunction! *)
Definition print_rinv (i : rinv) : list tok :=
  flag_toks (ri_pub i) (ri_async i) (ri_swap i) ++ name_toks (ri_name i) ++
  TGroup DParen (sep_toks (TPunct ","%char) (map rarg_toks (ri_args i))) :: arrow (ri_ret i) ++ body_toks (ri_body i).

(* the equivalent hand-written item: [pub] [async] fn name(args) [-> ret] { body } *)
Definition direct_fn (vals : list (str * str)) (i : rinv) : result (list tok) :=
  do name <- text_of vals (ri_name i);
  Ok ((if ri_pub i then [TIdent (lit "pub")] else []) ++ (if ri_async i then [TIdent (lit "async")] else []) ++
      [TIdent (lit "fn"); TIdent name; TGroup DParen (sep_toks (TPunct ","%char) (map rarg_toks (ri_args i)))] ++
      arrow (ri_ret i) ++ [TGroup DBrace (match ri_body i with Some b => b | None => [] end)]).

Definition name_ok (n : text_src) : bool :=
  match n with SText s => negb (str_eqb s (lit "async")) && negb (str_eqb s (lit "pub")) | SVar _ => true end.
Definition rarg_ty_ok (ty : list tok) : bool :=
  match ty with
  | [TIdent _] => true
  | [TPunct c; _] => ceqb c "#"%char
  | _ => false
  end.
Definition not_brace (t : tok) : bool := match t with TGroup DBrace _ => false | _ => true end.
Definition rinv_ok (i : rinv) : bool :=
  name_ok (ri_name i) && forallb (fun a => rarg_ty_ok (snd a)) (ri_args i) && forallb not_brace (ri_ret i).

Lemma parse_intro_flags is_pub is_async swap n rest : name_ok n = true ->
  parse_intro (flag_toks is_pub is_async swap ++ name_toks n ++ rest) false false = Ok (n, is_async, is_pub, rest).
Proof.
  intros Hn.
  assert (G : forall a p, parse_intro (name_toks n ++ rest) a p = Ok (n, a, p, rest)).
  { intros a p. destruct n as [s|x]; cbn [name_toks app parse_intro].
    - cbn [name_ok] in Hn. apply andb_prop in Hn as [H1 H2].
      destruct (str_eqb s (lit "async")); [discriminate H1|]. destruct (str_eqb s (lit "pub")); [discriminate H2|]. reflexivity.
    - reflexivity. }
  destruct is_pub, is_async, swap; cbn [flag_toks app]; cbn [parse_intro];
    repeat (change (str_eqb (lit "pub") (lit "async")) with false; change (str_eqb (lit "pub") (lit "pub")) with true;
            change (str_eqb (lit "async") (lit "async")) with true; cbn [parse_intro app]);
    apply G.
Qed.

Lemma sep_toks_cons2 sep (x y : list tok) r : sep_toks sep (x :: y :: r) = x ++ sep :: sep_toks sep (y :: r).
Proof. reflexivity. Qed.

Lemma parse_args2_print : forall args fuel, length args < fuel -> forallb (fun a => rarg_ty_ok (snd a)) args = true ->
  parse_args2 fuel (sep_toks (TPunct ","%char) (map rarg_toks args)) = Ok args.
Proof.
  induction args as [|[name ty] args IH]; intros fuel Hf Hok; (destruct fuel as [|f]; [cbn in Hf; lia|]); [reflexivity|].
  cbn [forallb snd] in Hok. apply andb_prop in Hok as [Hty Hok].
  assert (Hrec : parse_args2 f (sep_toks (TPunct ","%char) (map rarg_toks args)) = Ok args).
  { apply IH; [cbn [length] in Hf; lia|exact Hok]. }
  destruct args as [|a2 args].
  - (* last argument *)
    destruct ty as [|[s|c|l|d b] [|t2 [|t3 ty]]]; try discriminate Hty.
    + reflexivity.
    + cbn [rarg_ty_ok] in Hty.
      cbn [map sep_toks rarg_toks fst snd parse_args2]. change (ceqb ":"%char ":"%char) with true. rewrite Hty. reflexivity.
  - cbn [map]. rewrite sep_toks_cons2.
    change (rarg_toks a2 :: map rarg_toks args) with (map rarg_toks (a2 :: args)).
    set (tl := sep_toks (TPunct ","%char) (map rarg_toks (a2 :: args))) in *.
    destruct ty as [|[s|c|l|d b] [|t2 [|t3 ty]]]; try discriminate Hty.
    + cbn [rarg_toks fst snd app parse_args2]. change (ceqb ":"%char ":"%char) with true. cbn [bind].
      change (ceqb ","%char ","%char) with true. cbn iota. rewrite Hrec. reflexivity.
    + cbn [rarg_ty_ok] in Hty.
      cbn [rarg_toks fst snd app parse_args2]. change (ceqb ":"%char ":"%char) with true. rewrite Hty. cbn [bind].
      change (ceqb ","%char ","%char) with true. cbn iota. rewrite Hrec. reflexivity.
Qed.

Lemma sep_toks_length args : length args <= length (sep_toks (TPunct ","%char) (map rarg_toks args)).
Proof.
  induction args as [|a [|b args] IH]; [cbn; lia|cbn; lia|].
  change (sep_toks (TPunct ","%char) (map rarg_toks (a :: b :: args)))
    with (rarg_toks a ++ TPunct ","%char :: sep_toks (TPunct ","%char) (map rarg_toks (b :: args))).
  rewrite app_length. cbn [length rarg_toks] in *. lia.
Qed.

Lemma until_brace_ret r rest : forallb not_brace r = true ->
  (match rest with [] => True | TGroup DBrace _ :: _ => True | _ => False end) ->
  until_brace (r ++ rest) = (r, rest).
Proof.
  induction r as [|t r IH]; intros H Hr; cbn [app].
  - destruct rest as [|[s|c|l|[| |] b] rest']; try contradiction; reflexivity.
  - cbn [forallb] in H. apply andb_prop in H as [Ht H]. cbn [until_brace].
    rewrite (IH H Hr). destruct t as [s|c|l|[| |] b]; try reflexivity. discriminate Ht.
Qed.

Theorem rfunction_parse_print i : rinv_ok i = true ->
  rfunction_macro (print_rinv i) =
  Ok {| rf_name := ri_name i; rf_async := ri_async i; rf_pub := ri_pub i; rf_args := ri_args i; rf_ret := ri_ret i;
        rf_body := match ri_body i with Some b => b | None => [] end |}.
Proof.
  unfold rinv_ok. intros H. apply andb_prop in H as [H Hret]. apply andb_prop in H as [Hname Hargs].
  unfold rfunction_macro, print_rinv. rewrite (parse_intro_flags _ _ _ _ _ Hname). cbn [bind].
  rewrite parse_args2_print; [|pose proof (sep_toks_length (ri_args i)); lia|exact Hargs]. cbn [bind].
  destruct (ri_ret i) as [|r1 rr] eqn:Er.
  - cbn [arrow app]. destruct (ri_body i) as [b|]; reflexivity.
  - cbn [arrow].
    change ((TPunct "-"%char :: TPunct ">"%char :: r1 :: rr) ++ body_toks (ri_body i))
      with (TPunct "-"%char :: TPunct ">"%char :: ((r1 :: rr) ++ body_toks (ri_body i))).
    cbn [parse_return2]. change (ceqb "-"%char "-"%char) with true. change (ceqb ">"%char ">"%char) with true. cbn iota.
    rewrite (until_brace_ret (r1 :: rr) (body_toks (ri_body i)) Hret); [|destruct (ri_body i); exact I].
    cbn [bind]. destruct (ri_body i) as [b|]; reflexivity.
Qed.

(* the rendering of an rfunction! invocation is, token for token, the hand-written fn *)
Theorem rfunction_faithful vals i : rinv_ok i = true ->
  (do m <- rfunction_macro (print_rinv i); render_rfn vals m) = direct_fn vals i.
Proof.
  intros H. rewrite (rfunction_parse_print i H). cbn [bind]. unfold render_rfn, direct_fn.
  cbn [rf_name rf_pub rf_async rf_args rf_ret rf_body].
  destruct (text_of vals (ri_name i)) as [name|e]; cbn [bind]; [|reflexivity].
  f_equal. f_equal. f_equal. destruct (ri_ret i); reflexivity.
Qed.

(* ================= body! / function! bodies: nothing dropped, in order, only white space differs ================= *)
Definition flatten (ls : list line) : line := concat (rev ls).
Definition satoms (l : line) : line := filter (fun a => negb (atom_blank a)) l.
Definition NS (ls : list line) : line := satoms (flatten ls).
Definition strip (s : str) : str := filter (fun c => negb (is_ws c)) s.

Lemma satoms_app a b : satoms (a ++ b) = satoms a ++ satoms b.
Proof. apply filter_app. Qed.

Lemma satoms_blank l : line_blank l = true -> satoms l = [].
Proof.
  unfold line_blank, satoms. induction l as [|a l IH]; cbn [forallb filter]; [reflexivity|].
  intros H. apply andb_prop in H as [Ha Hl]. rewrite Ha. cbn [negb]. apply IH. exact Hl.
Qed.

Lemma spaces_blank n : line_blank (spaces n) = true.
Proof. induction n as [|n IH]; [reflexivity|]. cbn [spaces repeat line_blank forallb atom_blank]. exact IH. Qed.

Lemma firstn_blank n l : line_blank l = true -> line_blank (firstn n l) = true.
Proof.
  unfold line_blank. revert l. induction n as [|n IH]; intros l H; [reflexivity|].
  destruct l as [|a l]; [reflexivity|]. cbn [firstn forallb] in *. apply andb_prop in H as [Ha Hl]. rewrite Ha. apply IH. exact Hl.
Qed.

Lemma flatten_cons l ls : flatten (l :: ls) = flatten ls ++ l.
Proof. unfold flatten. cbn [rev]. rewrite concat_app. cbn [concat]. rewrite app_nil_r. reflexivity. Qed.

Lemma NS_cons l ls : NS (l :: ls) = NS ls ++ satoms l.
Proof. unfold NS. rewrite flatten_cons, satoms_app. reflexivity. Qed.

Lemma NS_newline n ls : NS (spaces n :: ls) = NS ls.
Proof. rewrite NS_cons, (satoms_blank _ (spaces_blank n)), app_nil_r. reflexivity. Qed.

Lemma NS_push_last s ls : ls <> [] -> NS (push_last s ls) = NS ls ++ satoms s.
Proof.
  destruct ls as [|cur done]; [congruence|]. intros _. cbn [push_last]. rewrite !NS_cons, satoms_app, app_assoc. reflexivity.
Qed.

Lemma push_last_nonempty s ls : push_last s ls <> [].
Proof. destruct ls; cbn; discriminate. Qed.

Lemma NS_maybe_space b ls : ls <> [] -> NS (maybe_space b ls) = NS ls /\ maybe_space b ls <> [].
Proof.
  intros H. destruct b; cbn [maybe_space]; [|auto].
  split; [|apply push_last_nonempty]. rewrite NS_push_last by exact H. cbn. apply app_nil_r.
Qed.

Lemma NS_close_group m indent d ls : ls <> [] ->
  NS (close_group m indent d ls) = NS ls ++ satoms (achars (closing d)) /\ close_group m indent d ls <> [].
Proof.
  intros H. unfold close_group.
  set (ls4 := if m then match ls with cur :: done => if line_blank cur then firstn indent cur :: done else spaces indent :: ls | [] => ls end else ls).
  assert (H4 : NS ls4 = NS ls /\ ls4 <> []).
  { unfold ls4. destruct m; [|auto]. destruct ls as [|cur done]; [congruence|].
    destruct (line_blank cur) eqn:B.
    - split; [|discriminate]. rewrite !NS_cons, (satoms_blank _ B), (satoms_blank _ (firstn_blank indent _ B)). reflexivity.
    - split; [|discriminate]. apply NS_newline. }
  destruct H4 as [E4 N4].
  destruct m.
  - split; [|discriminate]. rewrite NS_newline, NS_push_last by exact N4. rewrite E4. reflexivity.
  - split; [|apply push_last_nonempty]. rewrite NS_push_last by exact N4. rewrite E4. reflexivity.
Qed.

(* what was written, as atoms without any separators; the captured variables are threaded exactly as body_recurse does *)
Fixpoint watoms (fuel : nat) (toks : list tok) (cap : list str) : result (list str * line) :=
  match fuel with
  | O => Err EDiverge
  | S f =>
    match toks with
    | [] => Ok (cap, [])
    | TPunct c :: rest =>
        if ceqb c "#"%char then
          match rest with
          | TIdent x :: rest' =>
              let '(i, cap') := bind_var x cap in
              do r <- watoms f rest' cap'; let '(c2, w) := r in Ok (c2, AHole i :: w)
          | _ => Err EOther
          end
        else if ceqb c ";"%char then watoms f rest cap
        else do r <- watoms f rest cap; let '(c2, w) := r in Ok (c2, AChar c :: w)
    | TGroup d body :: rest =>
        do r1 <- watoms f body cap; let '(c1, w1) := r1 in
        do r2 <- watoms f rest c1; let '(c2, w2) := r2 in
        Ok (c2, achars (opening d) ++ w1 ++ achars (closing d) ++ w2)
    | TIdent s :: rest => do r <- watoms f rest cap; let '(c2, w) := r in Ok (c2, achars s ++ w)
    | TLit s :: rest => do r <- watoms f rest cap; let '(c2, w) := r in Ok (c2, achars s ++ w)
    end
  end.

Lemma body_rec_written : forall fuel toks cap ls indent cap' ls', ls <> [] ->
  body_rec fuel toks cap ls indent = Ok (cap', ls') ->
  ls' <> [] /\ exists w, watoms fuel toks cap = Ok (cap', w) /\ NS ls' = NS ls ++ satoms w.
Proof.
  induction fuel as [|f IH]; intros toks cap ls indent cap' ls' Hne H; [discriminate H|].
  destruct toks as [|t rest].
  - cbn in H. apply Ok_inj in H. injection H as <- <-. split; [exact Hne|]. exists []. split; [reflexivity|]. cbn. rewrite app_nil_r. reflexivity.
  - destruct t as [s|c|s|d body]; cbn [body_rec watoms] in *.
    + (* identifier *)
      destruct (NS_maybe_space (space_after_ident rest) (push_last (achars s) ls) (push_last_nonempty _ _)) as [E N].
      destruct (IH _ _ _ _ _ _ N H) as [Hn' [w [Hw HN]]]. split; [exact Hn'|].
      rewrite Hw. cbn [bind]. eexists. split; [reflexivity|].
      rewrite HN, E, NS_push_last by exact Hne. rewrite satoms_app, app_assoc. reflexivity.
    + (* punctuation *)
      destruct (ceqb c "#"%char).
      * destruct rest as [|[x|c2|l2|d2 b2] rest']; try discriminate H.
        destruct (bind_var x cap) as [i capx] eqn:Eb.
        destruct (NS_maybe_space (space_after_interp rest') (push_last [AHole i] ls) (push_last_nonempty _ _)) as [E N].
        destruct (IH _ _ _ _ _ _ N H) as [Hn' [w [Hw HN]]]. split; [exact Hn'|].
        rewrite Hw. cbn [bind]. eexists. split; [reflexivity|].
        rewrite HN, E, NS_push_last by exact Hne. cbn [satoms filter atom_blank negb app]. rewrite <- app_assoc. reflexivity.
      * destruct (ceqb c ";"%char).
        -- assert (N : spaces indent :: ls <> []) by discriminate.
           destruct (IH _ _ _ _ _ _ N H) as [Hn' [w [Hw HN]]]. split; [exact Hn'|].
           exists w. split; [exact Hw|]. rewrite HN, NS_newline. reflexivity.
        -- destruct (ceqb c "."%char || ceqb c "!"%char).
           ++ destruct (IH _ _ _ _ _ _ (push_last_nonempty _ _) H) as [Hn' [w [Hw HN]]]. split; [exact Hn'|].
              rewrite Hw. cbn [bind]. eexists. split; [reflexivity|].
              rewrite HN, NS_push_last by exact Hne. change (AChar c :: w) with ([AChar c] ++ w). rewrite satoms_app, app_assoc. reflexivity.
           ++ destruct (NS_maybe_space (space_after_punct c rest) (push_last [AChar c] ls) (push_last_nonempty _ _)) as [E N].
              destruct (IH _ _ _ _ _ _ N H) as [Hn' [w [Hw HN]]]. split; [exact Hn'|].
              rewrite Hw. cbn [bind]. eexists. split; [reflexivity|].
              rewrite HN, E, NS_push_last by exact Hne. change (AChar c :: w) with ([AChar c] ++ w). rewrite satoms_app, app_assoc. reflexivity.
    + (* literal *)
      destruct (NS_maybe_space (space_after_lit rest) (push_last (achars s) ls) (push_last_nonempty _ _)) as [E N].
      destruct (IH _ _ _ _ _ _ N H) as [Hn' [w [Hw HN]]]. split; [exact Hn'|].
      rewrite Hw. cbn [bind]. eexists. split; [reflexivity|].
      rewrite HN, E, NS_push_last by exact Hne. rewrite satoms_app, app_assoc. reflexivity.
    + (* group *)
      set (ls1 := push_last (achars (opening d)) ls) in *.
      set (ls2 := if toks_have_semi body then spaces (indent + 4) :: ls1 else ls1) in *.
      assert (N2 : ls2 <> []). { unfold ls2. destruct (toks_have_semi body); [discriminate|apply push_last_nonempty]. }
      assert (E2 : NS ls2 = NS ls ++ satoms (achars (opening d))).
      { unfold ls2. destruct (toks_have_semi body); [rewrite NS_newline|]; unfold ls1; apply NS_push_last; exact Hne. }
      apply bind_ok in H as [[capb ls3] [Hb H]].
      destruct (IH _ _ _ _ _ _ N2 Hb) as [N3 [w1 [Hw1 HN1]]].
      destruct (NS_close_group (Nat.ltb (length ls) (length ls3)) indent d ls3 N3) as [Ec Nc].
      destruct (IH _ _ _ _ _ _ Nc H) as [Hn' [w2 [Hw2 HN2]]]. split; [exact Hn'|].
      rewrite Hw1. cbn [bind]. rewrite Hw2. cbn [bind]. eexists. split; [reflexivity|].
      rewrite HN2, Ec, HN1, E2. rewrite !satoms_app, <- !app_assoc. reflexivity.
Qed.

(* the text that was written: token texts in order, `;` left out, `#x` replaced by the text of x, no separators *)
Fixpoint written (fuel : nat) (toks : list tok) (vals : list (str * str)) : result str :=
  match fuel with
  | O => Err EDiverge
  | S f =>
    match toks with
    | [] => Ok []
    | TPunct c :: rest =>
        if ceqb c "#"%char then
          match rest with
          | TIdent x :: rest' =>
              match assoc_str vals x with
              | Some v => do s <- written f rest' vals; Ok (v ++ s)
              | None => Err EOther
              end
          | _ => Err EOther
          end
        else if ceqb c ";"%char then written f rest vals
        else do s <- written f rest vals; Ok (c :: s)
    | TGroup d body :: rest =>
        do b <- written f body vals; do s <- written f rest vals; Ok (opening d ++ b ++ closing d ++ s)
    | TIdent t :: rest => do s <- written f rest vals; Ok (t ++ s)
    | TLit t :: rest => do s <- written f rest vals; Ok (t ++ s)
    end
  end.

Lemma fill_app vals cap a b s : fill vals cap (a ++ b) = Ok s ->
  exists x y, fill vals cap a = Ok x /\ fill vals cap b = Ok y /\ s = x ++ y.
Proof.
  revert s. induction a as [|[c|i] a IH]; intros s H; cbn [app fill] in *.
  - exists [], s. auto.
  - apply bind_ok in H as [s' [H1 H]]. apply Ok_inj in H. subst s. destruct (IH _ H1) as [x [y [Hx [Hy ->]]]].
    rewrite Hx. cbn [bind]. exists (c :: x), y. auto.
  - destruct (nth_error cap i) as [v|]; [|discriminate H]. destruct (assoc_str vals v) as [val|]; [|discriminate H].
    apply bind_ok in H as [s' [H1 H]]. apply Ok_inj in H. subst s. destruct (IH _ H1) as [x [y [Hx [Hy ->]]]].
    rewrite Hx. cbn [bind]. exists (val ++ x), y. rewrite app_assoc. auto.
Qed.

Lemma fill_achars vals cap s : fill vals cap (achars s) = Ok s.
Proof. induction s as [|c s IH]; [reflexivity|]. cbn [achars map fill]. fold (achars s). rewrite IH. reflexivity. Qed.

Lemma index_of_nth x l i : index_of x l = Some i -> nth_error l i = Some x.
Proof.
  revert i. induction l as [|y l IH]; intros i H; cbn [index_of] in H; [discriminate|].
  destruct (str_eqb y x) eqn:E.
  - injection H as <-. apply str_eqb_eq in E. subst y. reflexivity.
  - destruct (index_of x l) as [j|]; [|discriminate]. injection H as <-. cbn [nth_error]. apply IH. reflexivity.
Qed.

Lemma bind_var_spec x cap i cap' : bind_var x cap = (i, cap') ->
  nth_error cap' i = Some x /\ exists e, cap' = cap ++ e.
Proof.
  unfold bind_var. destruct (index_of x cap) as [j|] eqn:E; intros H; injection H as <- <-.
  - split; [apply index_of_nth; exact E|exists []; symmetry; apply app_nil_r].
  - split; [|eauto]. rewrite nth_error_app2 by lia. rewrite Nat.sub_diag. reflexivity.
Qed.

Lemma nth_error_ext {A} (l e : list A) i x : nth_error l i = Some x -> nth_error (l ++ e) i = Some x.
Proof. intros H. rewrite nth_error_app1; [exact H|]. apply nth_error_Some. congruence. Qed.

Lemma watoms_written vals : forall fuel toks cap cap' w, watoms fuel toks cap = Ok (cap', w) ->
  (exists e, cap' = cap ++ e) /\
  forall capF s, (exists e2, capF = cap' ++ e2) -> fill vals capF w = Ok s -> written fuel toks vals = Ok s.
Proof.
  induction fuel as [|f IH]; intros toks cap cap' w H; [discriminate H|].
  destruct toks as [|t rest].
  - cbn in H. injection H as <- <-. split; [exists []; symmetry; apply app_nil_r|]. intros capF s _ Hs. cbn in Hs. injection Hs as <-. reflexivity.
  - destruct t as [t|c|t|d body]; cbn [watoms written] in *.
    + apply bind_ok in H as [[c2 w0] [Hr H]]. injection H as <- <-.
      destruct (IH _ _ _ _ Hr) as [Hext Hw]. split; [exact Hext|]. intros capF s HF Hs.
      apply fill_app in Hs as [x [y [Hx [Hy ->]]]]. rewrite fill_achars in Hx. injection Hx as <-.
      rewrite (Hw _ _ HF Hy). reflexivity.
    + destruct (ceqb c "#"%char).
      * destruct rest as [|[x|c2|l2|d2 b2] rest']; try discriminate H.
        destruct (bind_var x cap) as [i capx] eqn:Eb. apply bind_ok in H as [[c2 w0] [Hr H]]. injection H as <- <-.
        destruct (bind_var_spec _ _ _ _ Eb) as [Hnth [e1 ->]].
        destruct (IH _ _ _ _ Hr) as [[e2 ->] Hw]. split; [exists (e1 ++ e2); rewrite app_assoc; reflexivity|].
        intros capF s [e3 ->] Hs. cbn [fill] in Hs.
        rewrite (nth_error_ext _ e3 _ _ (nth_error_ext _ e2 _ _ Hnth)) in Hs.
        destruct (assoc_str vals x) as [v|]; [|discriminate Hs].
        apply bind_ok in Hs as [s0 [Hs0 Hs]]. injection Hs as <-.
        rewrite (Hw _ _ (ex_intro _ e3 eq_refl) Hs0). reflexivity.
      * destruct (ceqb c ";"%char); [apply IH; exact H|].
        apply bind_ok in H as [[c2 w0] [Hr H]]. injection H as <- <-.
        destruct (IH _ _ _ _ Hr) as [Hext Hw]. split; [exact Hext|]. intros capF s HF Hs.
        cbn [fill] in Hs. apply bind_ok in Hs as [s0 [Hs0 Hs]]. injection Hs as <-. rewrite (Hw _ _ HF Hs0). reflexivity.
    + apply bind_ok in H as [[c2 w0] [Hr H]]. injection H as <- <-.
      destruct (IH _ _ _ _ Hr) as [Hext Hw]. split; [exact Hext|]. intros capF s HF Hs.
      apply fill_app in Hs as [x [y [Hx [Hy ->]]]]. rewrite fill_achars in Hx. injection Hx as <-.
      rewrite (Hw _ _ HF Hy). reflexivity.
    + apply bind_ok in H as [[c1 w1] [H1 H]]. apply bind_ok in H as [[c2 w2] [H2 H]]. injection H as <- <-.
      destruct (IH _ _ _ _ H1) as [[e1 ->] Hw1]. destruct (IH _ _ _ _ H2) as [[e2 ->] Hw2].
      split; [exists (e1 ++ e2); rewrite app_assoc; reflexivity|].
      intros capF s [e3 ->] Hs.
      apply fill_app in Hs as [xo [y [Hxo [Hy ->]]]]. rewrite fill_achars in Hxo. injection Hxo as <-.
      apply fill_app in Hy as [xb [y2 [Hxb [Hy2 ->]]]].
      apply fill_app in Hy2 as [xc [xr [Hxc [Hxr ->]]]]. rewrite fill_achars in Hxc. injection Hxc as <-.
      rewrite (Hw1 _ _ (ex_intro _ (e2 ++ e3) (eq_sym (app_assoc _ _ _))) Hxb). cbn [bind].
      rewrite (Hw2 _ _ (ex_intro _ e3 eq_refl) Hxr). reflexivity.
Qed.

(* white-space atoms do not matter for the stripped text *)
Lemma strip_app a b : strip (a ++ b) = strip a ++ strip b.
Proof. apply filter_app. Qed.

Lemma fill_satoms vals cap : forall l,
  (forall s, fill vals cap l = Ok s -> exists s', fill vals cap (satoms l) = Ok s' /\ strip s' = strip s) /\
  (forall s', fill vals cap (satoms l) = Ok s' -> exists s, fill vals cap l = Ok s /\ strip s' = strip s).
Proof.
  induction l as [|[c|i] l [IH1 IH2]].
  - split; intros s H; exists s; auto.
  - cbn [satoms filter atom_blank]. destruct (is_ws c) eqn:W; cbn [negb]; split.
    + intros s H. cbn [fill] in H. apply bind_ok in H as [s0 [H0 H]]. injection H as <-.
      destruct (IH1 _ H0) as [s' [Hs' E]]. exists s'. split; [exact Hs'|]. cbn [strip filter]. rewrite W. exact E.
    + intros s' H. destruct (IH2 _ H) as [s [Hs E]]. exists (c :: s). cbn [fill]. rewrite Hs. split; [reflexivity|].
      cbn [strip filter]. rewrite W. exact E.
    + intros s H. cbn [fill] in H. apply bind_ok in H as [s0 [H0 H]]. injection H as <-.
      destruct (IH1 _ H0) as [s' [Hs' E]]. exists (c :: s'). cbn [fill]. fold (satoms l). rewrite Hs'. split; [reflexivity|].
      cbn [strip filter]. rewrite W. cbn [negb]. f_equal. exact E.
    + intros s' H. cbn [fill] in H. fold (satoms l) in H. apply bind_ok in H as [s0 [H0 H]]. injection H as <-.
      destruct (IH2 _ H0) as [s [Hs E]]. exists (c :: s). cbn [fill]. rewrite Hs. split; [reflexivity|].
      cbn [strip filter]. rewrite W. cbn [negb]. f_equal. exact E.
  - cbn [satoms filter atom_blank negb]. fold (satoms l). split.
    + intros s H. cbn [fill] in H |- *. destruct (nth_error cap i) as [x|]; [|discriminate H].
      destruct (assoc_str vals x) as [v|]; [|discriminate H]. apply bind_ok in H as [s0 [H0 H]]. injection H as <-.
      destruct (IH1 _ H0) as [s' [Hs' E]]. rewrite Hs'. exists (v ++ s'). split; [reflexivity|]. rewrite !strip_app, E. reflexivity.
    + intros s' H. cbn [fill] in H |- *. destruct (nth_error cap i) as [x|]; [|discriminate H].
      destruct (assoc_str vals x) as [v|]; [|discriminate H]. apply bind_ok in H as [s0 [H0 H]]. injection H as <-.
      destruct (IH2 _ H0) as [s [Hs E]]. rewrite Hs. exists (v ++ s). split; [reflexivity|]. rewrite !strip_app, E. reflexivity.
Qed.

(* joining the non-empty lines with newlines only adds white space *)
Lemma satoms_join_lines l : satoms (join_lines l) = satoms (concat l).
Proof.
  induction l as [|x [|y l] IH]; [reflexivity|cbn; rewrite app_nil_r; reflexivity|].
  change (join_lines (x :: y :: l)) with (x ++ NLA :: join_lines (y :: l)).
  change (concat (x :: y :: l)) with (x ++ concat (y :: l)).
  rewrite !satoms_app. f_equal. change (NLA :: join_lines (y :: l)) with ([NLA] ++ join_lines (y :: l)).
  rewrite satoms_app. cbn [satoms filter]. change (atom_blank NLA) with true. cbn [negb app]. exact IH.
Qed.

Lemma concat_filter_nonempty (l : list line) :
  concat (filter (fun x => match x with [] => false | _ => true end) l) = concat l.
Proof. induction l as [|[|a x] l IH]; cbn [filter concat app]; [reflexivity|exact IH|rewrite IH; reflexivity]. Qed.

(* dropping blank lines only removes white space *)
Lemma strip_join_nl (l : list str) : strip (join NL1 l) = concat (map strip l).
Proof.
  induction l as [|x [|y l] IH]; [reflexivity|cbn; rewrite app_nil_r; reflexivity|].
  change (join NL1 (x :: y :: l)) with (x ++ NL1 ++ join NL1 (y :: l)). rewrite !strip_app. cbn [map concat]. f_equal.
  change (strip NL1) with (@nil ascii). exact IH.
Qed.

Lemma strip_blank s : str_blank s = true -> strip s = [].
Proof.
  unfold str_blank, strip. induction s as [|c s IH]; cbn [forallb filter]; [reflexivity|]. intros H.
  apply andb_prop in H as [Hc Hs]. rewrite Hc. cbn [negb]. apply IH. exact Hs.
Qed.

Lemma strip_split c s : is_ws c = true -> concat (map strip (split_char c s)) = strip s.
Proof.
  intros W. unfold split_char.
  assert (G : forall s, let '(w, ws) := split_char_go c s in strip w ++ concat (map strip ws) = strip s).
  { induction s0 as [|x s0 IH]; [reflexivity|]. cbn [split_char_go]. destruct (split_char_go c s0) as [w ws].
    destruct (ceqb x c) eqn:E.
    - apply ceqb_eq in E. subst x. cbn [strip filter map concat app]. rewrite W. cbn [negb]. exact IH.
    - cbn [strip filter]. destruct (is_ws x); cbn [negb app]; [exact IH|]. f_equal. exact IH. }
  specialize (G s). destruct (split_char_go c s) as [w ws]. exact G.
Qed.

Lemma strip_drop_blank_lines s : strip (drop_blank_lines s) = strip s.
Proof.
  unfold drop_blank_lines. rewrite strip_join_nl.
  rewrite <- (strip_split (ascii_of_nat 10) s eq_refl).
  induction (split_char (ascii_of_nat 10) s) as [|l ls IH]; [reflexivity|].
  cbn [filter map concat]. destruct (str_blank l) eqn:B; cbn [negb map concat].
  - rewrite (strip_blank _ B). exact IH.
  - rewrite IH. reflexivity.
Qed.

(* body! (and the body of function!): the rendered text is the written text up to white space — every token, in order,
   interpolations substituted, semicolons turned into line breaks *)
Theorem body_nothing_dropped fuel toks vals out : body_macro fuel toks vals = Ok out ->
  exists w, written fuel toks vals = Ok w /\ strip out = strip w.
Proof.
  unfold body_macro, body_template. intros H.
  apply bind_ok in H as [[cap tpl] [Ht H]]. cbn beta iota in H. apply bind_ok in H as [s [Hs H]]. apply Ok_inj in H. subst out.
  apply bind_ok in Ht as [[cap0 ls] [Hb Ht]]. cbn beta iota in Ht. apply Ok_inj in Ht. injection Ht as <- <-.
  assert (N0 : [@nil atom] <> []) by (intro X; discriminate X).
  destruct (body_rec_written _ _ _ _ _ _ _ N0 Hb) as [_ [w [Hw HN]]].
  destruct (watoms_written vals _ _ _ _ _ Hw) as [_ HW].
  (* the template and w agree up to white-space atoms *)
  assert (E : satoms (join_lines (filter (fun l => match l with [] => false | _ => true end) (rev ls))) = satoms w).
  { rewrite satoms_join_lines, concat_filter_nonempty. change (concat (rev ls)) with (flatten ls). fold (NS ls). rewrite HN. reflexivity. }
  destruct (proj1 (fill_satoms vals cap0 _) _ Hs) as [s1 [Hs1 E1]]. rewrite E in Hs1.
  destruct (proj2 (fill_satoms vals cap0 w) _ Hs1) as [s2 [Hs2 E2]].
  exists s2. split; [apply (HW cap0 s2); [exists []; symmetry; apply app_nil_r|exact Hs2]|].
  rewrite strip_drop_blank_lines, <- E1, E2. reflexivity.
Qed.

(* ================= function! : the header is read back as written ================= *)
Record finv := {
  fi_pub : bool; fi_async : bool; fi_swap : bool;
  fi_name : text_src;
  fi_args : list fn_arg;                 (* types: one identifier token, or `#x` *)
  fi_ret : option text_src;
  fi_body : option (list tok) }.

Definition ty_toks (t : text_src) : list tok :=
  match t with SText s => [TIdent s] | SVar x => [TPunct "#"%char; TIdent x] end.
Definition farg_toks (a : fn_arg) : list tok :=
  TIdent (fa_name a) :: TPunct ":"%char :: ty_toks (fa_ty a) ++
  match fa_default a with Some l => [TPunct "="%char; TLit l] | None => [] end.
Definition fret_toks (r : option text_src) : list tok :=
  match r with Some t => TPunct "-"%char :: TPunct ">"%char :: ty_toks t | None => [] end.

Definition print_finv (i : finv) : list tok :=
  flag_toks (fi_pub i) (fi_async i) (fi_swap i) ++ name_toks (fi_name i) ++
  TGroup DParen (sep_toks (TPunct ","%char) (map farg_toks (fi_args i))) :: fret_toks (fi_ret i) ++ body_toks (fi_body i).

(* without a return type there must be a body: parse_return insists on `->` or `{` *)
Definition finv_ok (i : finv) : bool :=
  name_ok (fi_name i) && match fi_ret i, fi_body i with None, None => false | _, _ => true end.

Lemma parse_ty_print t rest :
  (match rest with TPunct c :: _ => negb (ceqb c "."%char) | TGroup DBracket _ :: _ => false | _ => true end) = true ->
  parse_ty (ty_toks t ++ rest) = Ok (t, rest).
Proof.
  intros H. destruct t as [s|x]; cbn [ty_toks app parse_ty].
  - replace (length rest + 1) with (S (length rest)) by lia. cbn [parse_type_tail].
    destruct rest as [|[s2|c|l|[| |] b] rest']; try reflexivity; cbn in H.
    + destruct (ceqb c "."%char); [discriminate H|reflexivity].
    + discriminate H.
  - reflexivity.
Qed.

Lemma parse_args_print : forall args fuel, length args < fuel ->
  parse_args fuel (sep_toks (TPunct ","%char) (map farg_toks args)) = Ok args.
Proof.
  induction args as [|a args IH]; intros fuel Hf; (destruct fuel as [|f]; [cbn in Hf; lia|]); [reflexivity|].
  assert (Hrec : parse_args f (sep_toks (TPunct ","%char) (map farg_toks args)) = Ok args) by (apply IH; cbn [length] in Hf; lia).
  destruct a as [name ty dflt].
  destruct args as [|a2 args].
  - cbn [map sep_toks]. unfold farg_toks. cbn [fa_name fa_ty fa_default]. cbn [parse_args]. change (ceqb ":"%char ":"%char) with true. cbn iota.
    destruct dflt as [l|].
    + rewrite (parse_ty_print ty [TPunct "="%char; TLit l] eq_refl). cbn [bind]. change (ceqb "="%char "="%char) with true. reflexivity.
    + rewrite (parse_ty_print ty [] eq_refl). reflexivity.
  - cbn [map]. rewrite sep_toks_cons2. change (farg_toks a2 :: map farg_toks args) with (map farg_toks (a2 :: args)).
    set (tl := sep_toks (TPunct ","%char) (map farg_toks (a2 :: args))) in *.
    unfold farg_toks at 1. cbn [fa_name fa_ty fa_default]. cbn [app]. rewrite <- app_assoc.
    cbn [parse_args]. change (ceqb ":"%char ":"%char) with true. cbn iota.
    destruct dflt as [l|].
    + rewrite (parse_ty_print ty ([TPunct "="%char; TLit l] ++ TPunct ","%char :: tl) eq_refl). cbn [bind app].
      change (ceqb "="%char "="%char) with true. cbn iota beta. cbn [bind]. change (ceqb ","%char ","%char) with true. cbn iota.
      rewrite Hrec. reflexivity.
    + cbn [app]. rewrite (parse_ty_print ty (TPunct ","%char :: tl) eq_refl). cbn [bind].
      change (ceqb ","%char "="%char) with false. change (ceqb ","%char ","%char) with true. cbn [orb]. cbn iota beta. cbn [bind]. cbn iota.
      rewrite Hrec. reflexivity.
Qed.

Lemma fsep_length args : length args <= length (sep_toks (TPunct ","%char) (map farg_toks args)).
Proof.
  induction args as [|a [|b args] IH]; [cbn; lia|cbn; lia|].
  change (sep_toks (TPunct ","%char) (map farg_toks (a :: b :: args)))
    with (farg_toks a ++ TPunct ","%char :: sep_toks (TPunct ","%char) (map farg_toks (b :: args))).
  rewrite app_length. cbn [length farg_toks] in *. lia.
Qed.

Theorem function_parse_print i : finv_ok i = true ->
  function_macro (print_finv i) =
  Ok {| fm_name := fi_name i; fm_async := fi_async i; fm_pub := fi_pub i; fm_args := fi_args i;
        fm_ret := match fi_ret i with Some t => t | None => SText [] end; fm_body := fi_body i |}.
Proof.
  unfold finv_ok. intros H. apply andb_prop in H as [Hname Hrb].
  unfold function_macro, print_finv. rewrite (parse_intro_flags _ _ _ _ _ Hname). cbn [bind].
  rewrite parse_args_print; [|pose proof (fsep_length (fi_args i)); lia]. cbn [bind].
  destruct (fi_ret i) as [t|] eqn:Er.
  - cbn [fret_toks app parse_return]. change (ceqb "-"%char "-"%char) with true. change (ceqb ">"%char ">"%char) with true. cbn [andb].
    rewrite parse_ty_print; [|destruct (fi_body i); reflexivity]. cbn [bind]. destruct (fi_body i); reflexivity.
  - destruct (fi_body i) as [b|]; [|discriminate Hrb]. reflexivity.
Qed.

(* ================= no fusing: a word is never written directly against the word that follows ================= *)
(* a token sequence starts with a word when its first token is an identifier, a literal or an interpolation *)
Definition starts_with_word (rest : list tok) : bool :=
  match rest with
  | TIdent _ :: _ | TLit _ :: _ => true
  | TPunct c :: TIdent _ :: _ => ceqb c "#"%char
  | _ => false
  end.

(* whenever an identifier, a literal or an interpolated value is followed by a word, body_recurse writes a blank *)
Theorem words_are_separated rest : starts_with_word rest = true ->
  space_after_ident rest = true /\ space_after_lit rest = true /\ space_after_interp rest = true.
Proof.
  destruct rest as [|[s|c|l|d b] rest']; cbn [starts_with_word]; try discriminate; intros H.
  - repeat split.
  - destruct rest' as [|[s|c2|l|d b] r]; try discriminate H. apply ceqb_eq in H. subst c. repeat split.
  - repeat split.
Qed.

(* and `/` `*` is never written as the comment opener *)
Theorem slash_star_separated rest' : space_after_punct "/"%char (TPunct "*"%char :: rest') = true.
Proof. reflexivity. Qed.
