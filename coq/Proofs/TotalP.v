(* TotalP.v — the emission stage is total on well-formed tables (C01): under the decidable conditions of Spec/Wf.v
   every file of the crate is produced (no Err = no panic of the implementation, no fuel exhaustion = no runaway
   recursion). *)
From Coq Require Import Lia.
From LN Require Import Spec.Wf Proofs.CharsP Proofs.CaseP Proofs.NamesP Proofs.ExtractP Proofs.TypingP Proofs.EmitP.
Local Open Scope nat_scope.

Ltac bools := repeat match goal with
  | H : (_ && _)%bool = true |- _ => apply andb_prop in H; destruct H
  end.

(* one monadic step: the scrutinee is shown to succeed, then the continuation is exposed *)
Ltac step_with tac :=
  match goal with
  | |- exists c, bind ?e _ = Ok c =>
      let x := fresh "x" in let Hx := fresh "Hx" in
      assert (exists x, e = Ok x) as [x Hx]; [tac | rewrite Hx; cbn [bind]]
  end.
Ltac done_ok := eexists; reflexivity.

Lemma ident_ok_new r : ident_ok r = true -> ident_new_ok r = true.
Proof.
  destruct r as [|c t]; [discriminate|]. unfold ident_ok, ident_new_ok. intros H. bools.
  unfold id_start in *. rewrite H. cbn [andb]. eapply forallb_impl; [|eassumption]. intros x Hx. exact Hx.
Qed.

Lemma restricted_sub_reserved : forallb (fun w => mem_str w reserved) restricted_words = true.
Proof. vm_compute. reflexivity. Qed.

Lemma ident_ok_path_segment r : ident_ok r = true -> path_segment_ok r = true.
Proof.
  intros H. unfold path_segment_ok. rewrite (ident_ok_new r H). cbn [andb].
  destruct (is_restricted r) eqn:E; [|reflexivity]. exfalso.
  unfold is_restricted in E. pose proof (mem_str_forallb _ _ _ restricted_sub_reserved E) as Hm. cbn beta in Hm.
  destruct r as [|c t]; [discriminate H|]. unfold ident_ok in H. apply andb_prop in H as [_ H].
  rewrite Hm in H. discriminate H.
Qed.

Lemma sanitize_total s : name_dom s = true -> exists r, sanitize s = Ok r /\ ident_new_ok r = true.
Proof. intros H. destruct (sanitize_ident_ok s H) as [r [Hr Hi]]. exists r. split; [exact Hr|apply ident_ok_new; exact Hi]. Qed.

Lemma sanitize_struct_total s : name_dom s = true -> exists r, sanitize_struct s = Ok r /\ ident_new_ok r = true.
Proof. intros H. destruct (sanitize_struct_ident_ok s H) as [r [Hr Hi]]. exists r. split; [exact Hr|apply ident_ok_new; exact Hi]. Qed.

Lemma ident_total r : ident_new_ok r = true -> exists c, ident r = Ok c.
Proof. unfold ident. intros ->. done_ok. Qed.

Lemma field_ident_total s : name_dom s = true -> exists c, field_ident s = Ok c.
Proof. intros H. unfold field_ident. destruct (sanitize_total s H) as [r [Hr Hi]]. rewrite Hr. cbn [bind]. apply ident_total. exact Hi. Qed.

Lemma struct_ident_total s : name_dom s = true -> exists c, struct_ident s = Ok c.
Proof. intros H. unfold struct_ident. destruct (sanitize_struct_total s H) as [r [Hr Hi]]. rewrite Hr. cbn [bind]. apply ident_total. exact Hi. Qed.

Lemma mapM_total {A B} (f : A -> result B) l : (forall x, In x l -> exists y, f x = Ok y) -> exists ys, mapM f l = Ok ys.
Proof.
  induction l as [|a l IH]; intros H; [done_ok|]. cbn [mapM].
  destruct (H a (or_introl eq_refl)) as [y Hy]. rewrite Hy. cbn [bind].
  destruct IH as [ys Hys]; [intros x Hx; apply H; right; exact Hx|]. rewrite Hys. cbn [bind]. done_ok.
Qed.

Lemma name_dom_app a b : name_dom a = true -> forallb dom_char b = true -> name_dom (a ++ b) = true.
Proof.
  unfold name_dom. intros H Hb. bools. rewrite forallb_app, existsb_app. rewrite H, Hb, H0. reflexivity.
Qed.

(* ---------- types ---------- *)
Lemma to_rust_type_total x : ty_names_ok x = true -> exists r, to_rust_type x = Ok r.
Proof.
  induction x; cbn [ty_names_ok to_rust_type]; intros H; try done_ok.
  - destruct (IHx H) as [r Hr]. rewrite Hr. done_ok.
  - destruct (IHx H) as [r Hr]. rewrite Hr. done_ok.
  - destruct (sanitize_struct_total n H) as [r [Hr _]]. rewrite Hr. done_ok.
Qed.

Lemma to_reference_type_total x : ty_names_ok x = true -> exists r, to_reference_type x = Ok r.
Proof.
  induction x; intros H; try (apply (to_rust_type_total _ H)); try (cbn; done_ok).
  cbn [to_reference_type]. destruct (is_reference_type x).
  - destruct (IHx H) as [r Hr]. rewrite Hr. done_ok.
  - apply (to_rust_type_total (TArray x) H).
Qed.

Lemma ty_code_total x : ty_names_ok x = true -> exists c, ty_code x = Ok c.
Proof. intros H. unfold ty_code. destruct (to_rust_type_total x H) as [r Hr]. rewrite Hr. done_ok. Qed.

Lemma ref_ty_code_total lt x : ty_names_ok x = true -> exists c, ref_ty_code lt x = Ok c.
Proof. intros H. unfold ref_ty_code. destruct (to_reference_type_total x H) as [r Hr]. rewrite Hr. done_ok. Qed.

Lemma qualified_result_type_total x : ty_names_ok x = true -> exists c, qualified_result_type x = Ok c.
Proof.
  induction x; intros H; try (apply (ty_code_total _ H)).
  - cbn [qualified_result_type]. destruct (IHx H) as [c Hc]. rewrite Hc. done_ok.
  - cbn [qualified_result_type]. destruct (IHx H) as [c Hc]. rewrite Hc. done_ok.
  - cbn [qualified_result_type]. destruct (ty_code_total (TModel n) H) as [c Hc]. rewrite Hc. done_ok.
Qed.

(* ---------- no runaway recursion on finite schema graphs ---------- *)
Lemma assoc_in {A} (l : list (str * A)) k v : assoc l k = Some v -> In (k, v) l.
Proof.
  induction l as [|[q w] l IH]; cbn [assoc]; [discriminate|].
  destruct (str_eqb q k) eqn:E; intros H.
  - apply str_eqb_eq in E. subst q. injection H as <-. left. reflexivity.
  - right. apply IH. exact H.
Qed.

Lemma all_default_total f h l : (forall fl, In fl l -> exists b, ty_implements_default f h (f_ty fl) = Ok b) ->
  exists b, all_default f h l = Ok b.
Proof.
  induction l as [|fl l IH]; intros H; [done_ok|]. cbn [all_default].
  destruct (H fl (or_introl eq_refl)) as [b Hb]. rewrite Hb. cbn [bind].
  destruct b; [|done_ok]. apply IH. intros x Hx. apply H. right. exact Hx.
Qed.

Lemma tid_total h : forall d x fuel, fin_d h d x = true -> d <= fuel -> exists b, ty_implements_default fuel h x = Ok b.
Proof.
  induction d as [|d IH]; intros x fuel H Hle; [discriminate H|].
  destruct fuel as [|f]; [lia|].
  destruct x as [|s| | |i|i|n| |s| | |]; try (cbn; done_ok).
  rewrite tid_model_unfold. cbn [fin_d] in H. destruct (assoc (h_schemas h) n) as [r|]; [|discriminate H].
  rewrite forallb_forall in H.
  assert (G : exists b, all_default f h (record_fields r) = Ok b).
  { apply all_default_total. intros fl Hfl. apply (IH _ f (H fl Hfl)). lia. }
  destruct r; try exact G. done_ok.
Qed.

Lemma all_default_fin h d fuel l : forallb (fun fl => fin_d h d (f_ty fl)) l = true -> d <= fuel ->
  exists b, all_default fuel h l = Ok b.
Proof.
  intros H Hle. apply all_default_total. intros fl Hfl. rewrite forallb_forall in H. eapply tid_total; eauto.
Qed.

(* ---------- model files ---------- *)
Lemma class_field_total name f : w_field (name, f) = true -> exists c, class_field name f = Ok c.
Proof.
  unfold w_field. cbn [fst snd]. intros H. bools. unfold class_field, field_desc.
  destruct (sanitize_total name H) as [rid [Hr Hi]]. rewrite Hr. cbn [bind].
  destruct (to_rust_type_total _ H0) as [r Hrt]. rewrite Hrt. cbn [bind fd_ident].
  unfold ident. rewrite Hi. cbn [bind]. done_ok.
Qed.

Lemma find_in {A} (p : A -> bool) l x : find p l = Some x -> In x l.
Proof. intros H. apply find_some in H. tauto. Qed.

Lemma make_class_total fuel h cfg name fields docs :
  name_dom name = true -> forallb w_field fields = true ->
  (exists b, all_default fuel h (map snd fields) = Ok b) ->
  exists c, make_class fuel h cfg name fields docs = Ok c.
Proof.
  intros Hn Hf [b Hb]. unfold make_class. rewrite Hb. cbn [bind].
  destruct (struct_ident_total name Hn) as [nm Hnm]. rewrite Hnm. cbn [bind].
  rewrite forallb_forall in Hf.
  step_with ltac:(apply mapM_total; intros [k f] Hin; destruct (class_field_total k f (Hf _ Hin)) as [c Hc]; cbn [fst snd]; rewrite Hc; done_ok).
  destruct (ref_target fields) as [[tn tf]|] eqn:E; [|cbn [bind]; done_ok].
  apply find_in in E. specialize (Hf _ E). unfold w_field in Hf. cbn [fst snd] in Hf. bools.
  destruct (field_ident_total tn H) as [c1 H1]. rewrite H1. cbn [bind].
  destruct (ty_code_total _ H0) as [c2 H2]. rewrite H2. cbn [bind]. done_ok.
Qed.

Lemma make_newtype_total fuel h cfg name fields :
  name_dom name = true -> forallb (fun fl => ty_names_ok (f_ty fl)) fields = true ->
  (exists b, all_default fuel h fields = Ok b) ->
  exists c, make_newtype fuel h cfg name fields = Ok c.
Proof.
  intros Hn Hf [b Hb]. unfold make_newtype.
  destruct (struct_ident_total name Hn) as [nm Hnm]. rewrite Hnm. cbn [bind].
  rewrite forallb_forall in Hf.
  step_with ltac:(apply mapM_total; intros f Hin; destruct (ty_code_total _ (Hf _ Hin)) as [c Hc]; rewrite Hc; done_ok).
  rewrite Hb. cbn [bind]. done_ok.
Qed.

Lemma make_typealias_total name f : name_dom name = true -> ty_names_ok (f_ty f) = true -> exists c, make_typealias name f = Ok c.
Proof.
  intros Hn Hf. unfold make_typealias. destruct (struct_ident_total name Hn) as [nm Hnm]. rewrite Hnm. cbn [bind].
  destruct (to_rust_type_total _ Hf) as [r Hr]. rewrite Hr. cbn [bind]. done_ok.
Qed.

Definition svn_step (ename : str) (va : str * option str) : result (str * str) :=
  let '(value, alias) := va in
  let n := match alias with Some a => a | None => value end in
  match n with
  | [] => Err EEmptyEnum
  | c :: _ => Ok (if is_digit c then ename ++ n else n, value)
  end.

Lemma svn_step_total ename va : w_variant ename va = true -> exists nv, svn_step ename va = Ok nv /\ name_dom (fst nv) = true.
Proof.
  destruct va as [value alias]. unfold w_variant, svn_step. cbn [fst snd].
  destruct (match alias with Some a => a | None => value end) as [|c r]; [discriminate|].
  intros H. eexists. split; [reflexivity|exact H].
Qed.

Lemma safe_variant_names_total ename vs : forallb (w_variant ename) vs = true ->
  exists names, safe_variant_names ename vs = Ok names /\ forall nv, In nv names -> name_dom (fst nv) = true.
Proof.
  intros H. change (safe_variant_names ename vs) with (mapM (svn_step ename) vs). rewrite forallb_forall in H.
  destruct (mapM_total (svn_step ename) vs) as [names Hn].
  { intros va Hin. destruct (svn_step_total _ _ (H va Hin)) as [nv [Hnv _]]. eauto. }
  exists names. split; [exact Hn|]. intros nv Hin. apply mapM_ok in Hn.
  destruct (Forall2_in_r _ _ _ _ Hn Hin) as [va [Hva Hs]]. destruct (svn_step_total _ _ (H va Hva)) as [nv' [Hnv' Hd]].
  rewrite Hs in Hnv'. apply Ok_inj in Hnv'. subst nv'. exact Hd.
Qed.

Lemma make_enum_total cfg name vs doc : name_dom name = true -> forallb (w_variant name) vs = true ->
  exists c, make_enum cfg name vs doc = Ok c.
Proof.
  intros Hn Hv. unfold make_enum. destruct (safe_variant_names_total _ _ Hv) as [names [Hnames Hd]]. rewrite Hnames. cbn [bind].
  step_with ltac:(apply mapM_total; intros [n value] Hin; specialize (Hd _ Hin); cbn [fst] in Hd;
                  destruct (sanitize_struct_total n Hd) as [r [Hr Hi]]; rewrite Hr; cbn [bind]; unfold ident; rewrite Hi; cbn [bind]; done_ok).
  destruct (struct_ident_total name Hn) as [nm Hnm]. rewrite Hnm. cbn [bind]. done_ok.
Qed.

Lemma enum_display_total name vs : name_dom name = true -> forallb (w_variant name) vs = true ->
  exists c, enum_display name vs = Ok c.
Proof.
  intros Hn Hv. unfold enum_display. destruct (safe_variant_names_total _ _ Hv) as [names [Hnames Hd]]. rewrite Hnames. cbn [bind].
  step_with ltac:(apply mapM_total; intros [n value] Hin; specialize (Hd _ Hin); cbn [fst] in Hd;
                  destruct (struct_ident_total n Hd) as [c Hc]; rewrite Hc; cbn [bind]; done_ok).
  destruct (struct_ident_total name Hn) as [nm Hnm]. rewrite Hnm. cbn [bind]. done_ok.
Qed.

Lemma inner_model_name_ok x n : ty_names_ok x = true -> inner_model x = Some n -> name_dom n = true.
Proof.
  induction x; cbn [ty_names_ok inner_model]; intros H E; try discriminate E; auto.
  injection E as <-. exact H.
Qed.

Lemma record_fields_names_ok r : w_record r = true -> forall fl, In fl (record_fields r) -> ty_names_ok (f_ty fl) = true.
Proof.
  destruct r as [n nl fs d|n fs d|n f|n vs d]; cbn [w_record record_fields]; intros H fl Hin; bools.
  - apply in_map_iff in Hin as [[k f] [<- Hin]]. rewrite forallb_forall in H0. specialize (H0 _ Hin). unfold w_field in H0. bools. assumption.
  - rewrite forallb_forall in H0. apply H0. exact Hin.
  - destruct Hin as [<-|[]]. assumption.
  - destruct Hin.
Qed.

Lemma btset_in x l : In x (btset l) -> In x l.
Proof.
  unfold btset. intros H. apply in_map_iff in H as [[k v] [<- Hin]]. cbn [fst].
  apply bt_of_list_in in Hin. apply in_map_iff in Hin as [y [E Hy]]. injection E as <-. exact Hy.
Qed.

Lemma record_name_ok r : w_record r = true -> name_dom (record_name r) = true.
Proof. destruct r; cbn [w_record record_name]; intros H; bools; assumption. Qed.

Lemma model_file_total fuel h cfg r d : w_record r = true ->
  forallb (fun fl => fin_d h d (f_ty fl)) (record_fields r) = true -> d <= fuel ->
  exists c, model_file fuel h cfg r = Ok c.
Proof.
  intros Hr Hfin Hle. unfold model_file.
  pose proof (record_fields_names_ok r Hr) as Hfn.
  step_with ltac:(apply mapM_total; intros n Hin; apply filter_In in Hin as [Hin _]; apply in_flat_map in Hin as [fl [Hfl Hin]];
                  destruct (inner_model (f_ty fl)) as [m|] eqn:E; [|destruct Hin]; destruct Hin as [<-|[]];
                  destruct (sanitize_struct_total m (inner_model_name_ok _ _ (Hfn _ Hfl) E)) as [s [Hs _]]; rewrite Hs; done_ok).
  assert (Hxi : forall s, In s x -> ident_new_ok s = true).
  { intros s Hs. apply mapM_ok in Hx. destruct (Forall2_in_r _ _ _ _ Hx Hs) as [m [Hm Hms]].
    apply filter_In in Hm as [Hm _]. apply in_flat_map in Hm as [fl [Hfl Hm]].
    destruct (inner_model (f_ty fl)) as [m'|] eqn:E; [|destruct Hm]. destruct Hm as [<-|[]].
    destruct (sanitize_struct_total m' (inner_model_name_ok _ _ (Hfn _ Hfl) E)) as [s' [Hs' Hi]]. rewrite Hs' in Hms. apply Ok_inj in Hms. subst s'. exact Hi. }
  step_with ltac:(destruct (btset x) as [|a l] eqn:E; [done_ok|]; rewrite <- E;
                  assert (exists ids, mapM ident (btset x) = Ok ids) as [ids Hids];
                  [apply mapM_total; intros s Hs; apply ident_total; apply Hxi; apply btset_in; exact Hs|]; rewrite Hids; cbn [bind]; done_ok).
  assert (Hd : exists b, all_default fuel h (record_fields r) = Ok b) by (eapply all_default_fin; eauto).
  step_with ltac:(destruct r as [n nl fs dc|n fs dc|n f|n vs dc]; cbn [make_item w_record record_fields] in *; bools;
                  [apply make_class_total; assumption|apply make_newtype_total; assumption|apply make_typealias_total; assumption|apply make_enum_total; assumption]).
  step_with ltac:(destruct r as [n nl fs dc|n fs dc|n f|n vs dc]; try done_ok; cbn [w_record] in Hr; bools; apply enum_display_total; assumption).
  done_ok.
Qed.

Lemma model_mod_file_total h : (forall kr, In kr (h_schemas h) -> name_dom (fst kr) = true) -> exists c, model_mod_file h = Ok c.
Proof.
  intros H. unfold model_mod_file.
  step_with ltac:(apply mapM_total; intros kr Hin; destruct (sanitize_total _ (H kr Hin)) as [r [Hr _]]; rewrite Hr; done_ok).
  step_with ltac:(apply mapM_total; intros s Hs; apply ident_total; apply mapM_ok in Hx; destruct (Forall2_in_r _ _ _ _ Hx Hs) as [kr [Hkr Hk]];
                  destruct (sanitize_total _ (H kr Hkr)) as [r [Hr Hi]]; rewrite Hr in Hk; apply Ok_inj in Hk; subst r; exact Hi).
  done_ok.
Qed.

(* ---------- request files ---------- *)
Definition imp_step (acc : result (list str)) (p : hparam) : result (list str) :=
  do l <- acc;
  match inner_model (p_ty p) with
  | None => Ok l
  | Some m => do s <- sanitize_struct m; Ok (if mem_str s l then l else l ++ [s])
  end.

Lemma imports_fold_total ps : forall init, (forall p, In p ps -> ty_names_ok (p_ty p) = true) ->
  (forall s, In s init -> ident_new_ok s = true) ->
  exists l, fold_left imp_step ps (Ok init) = Ok l /\ forall s, In s l -> ident_new_ok s = true.
Proof.
  induction ps as [|p ps IH]; intros init Hp Hi; cbn [fold_left]; [exists init; split; [reflexivity|exact Hi]|].
  unfold imp_step at 2. cbn [bind].
  destruct (inner_model (p_ty p)) as [m|] eqn:E.
  - destruct (sanitize_struct_total m (inner_model_name_ok _ _ (Hp p (or_introl eq_refl)) E)) as [s [Hs Hsi]]. rewrite Hs. cbn [bind].
    apply IH; [intros q Hq; apply Hp; right; exact Hq|].
    intros s' Hin. destruct (mem_str s init); [apply Hi; exact Hin|].
    apply in_app_or in Hin as [Hin|[<-|[]]]; [apply Hi; exact Hin|exact Hsi].
  - apply IH; [intros q Hq; apply Hp; right; exact Hq|exact Hi].
Qed.

Lemma struct_field_total b p : w_param p = true -> exists c, struct_field b p = Ok c.
Proof.
  unfold w_param. intros H. bools. unfold struct_field.
  step_with ltac:(destruct b; [apply ref_ty_code_total|apply ty_code_total]; assumption).
  destruct (field_ident_total _ H) as [id Hid]. rewrite Hid. cbn [bind]. done_ok.
Qed.

Lemma req_name_ok n : name_dom n = true -> name_dom (request_struct_name n) = true.
Proof. intros H. apply name_dom_app; [exact H|reflexivity]. Qed.
Lemma reqd_name_ok n : name_dom n = true -> name_dom (required_struct_name n) = true.
Proof. intros H. apply name_dom_app; [exact H|reflexivity]. Qed.

Section OneOp.
Variable o : hop.
Hypothesis Ho : w_op o = true.

Lemma op_facts : name_dom (o_name o) = true /\ ident_new_ok (o_method o) = true /\ ident_new_ok (op_file_name (o_name o)) = true /\
  (forall p, In p (o_params o) -> w_param p = true) /\ ty_names_ok (o_ret o) = true /\ url_template_ok o = true /\
  (negb (crowded_args o) || path_segment_ok (op_file_name (o_name o)))%bool = true.
Proof. unfold w_op in Ho. bools. repeat split; try assumption. apply forallb_forall. assumption. Qed.

Lemma params_sub (f : hparam -> bool) p : In p (filter f (o_params o)) -> w_param p = true.
Proof. intros H. apply filter_In in H as [H _]. destruct op_facts as [_ [_ [_ [Hp _]]]]. apply Hp. exact H. Qed.

Lemma request_struct_total cfg : exists c, request_struct cfg o = Ok c.
Proof.
  destruct op_facts as [Hn [_ [_ [Hp [Hr _]]]]]. unfold request_struct.
  step_with ltac:(apply mapM_total; intros p Hin; destruct (struct_field_total false p (Hp p Hin)) as [c Hc]; rewrite Hc; done_ok).
  destruct (sanitize_total _ Hn) as [fn [Hfn _]]. rewrite Hfn. cbn [bind].
  unfold ret_type_text. destruct (ty_code_total _ Hr) as [c Hc]. rewrite Hc. cbn [bind].
  destruct (struct_ident_total _ (req_name_ok _ Hn)) as [nm Hnm]. rewrite Hnm. cbn [bind]. done_ok.
Qed.

Lemma required_struct_total : exists c, required_struct o = Ok c.
Proof.
  destruct op_facts as [Hn _]. unfold required_struct. destruct (crowded_args o); [|done_ok].
  destruct (struct_ident_total _ (reqd_name_ok _ Hn)) as [nm Hnm]. rewrite Hnm. cbn [bind].
  step_with ltac:(apply mapM_total; intros p Hin; destruct (struct_field_total true p (params_sub _ p Hin)) as [c Hc]; rewrite Hc; done_ok).
  done_ok.
Qed.

Lemma make_url_total : exists c, make_url o = Ok c.
Proof.
  destruct op_facts as [_ [_ [_ [_ [_ [Hu _]]]]]]. unfold make_url.
  destruct (filter is_path (o_params o)) as [|a l] eqn:E; [done_ok|]. rewrite <- E.
  step_with ltac:(apply mapM_total; intros p Hin; pose proof (params_sub _ p Hin) as Hw; unfold w_param in Hw; bools;
                  destruct (field_ident_total _ H) as [id Hid]; rewrite Hid; done_ok).
  unfold url_template_ok in Hu. destruct (fix_placeholders (length (o_path o)) (o_path o)); [|discriminate Hu]. cbn [bind]. done_ok.
Qed.

Lemma builder_method_total p : w_param p = true -> exists c, builder_method p = Ok c.
Proof.
  unfold w_param. intros H. bools. unfold builder_method.
  destruct (sanitize_total _ H) as [nm [Hnm Hi]]. rewrite Hnm. cbn [bind]. unfold ident. rewrite Hi. cbn [bind].
  step_with ltac:(destruct (inner_iterable (p_ty p)) as [[]|]; try done_ok; apply ref_ty_code_total; assumption).
  done_ok.
Qed.

Lemma print_assign_total p : w_param p = true -> is_path p = false -> exists c, print_assign (assign_of p) = Ok c.
Proof.
  unfold w_param. intros H Hnp. bools. unfold print_assign. cbn [assign_of a_name a_loc].
  destruct (field_ident_total _ H) as [id Hid]. rewrite Hid. cbn [bind].
  unfold is_path in Hnp. destruct (p_loc p); try discriminate Hnp; cbn [bind]; done_ok.
Qed.

Lemma assign_inputs_total : exists c, assign_inputs (o_params o) = Ok c.
Proof.
  unfold assign_inputs, request_plan.
  destruct (forallb is_query (filter (fun p => negb (is_path p)) (o_params o))); [done_ok|]. cbn [print_plan].
  step_with ltac:(apply mapM_total; intros a Hin; apply in_map_iff in Hin as [p [<- Hp]]; apply print_assign_total;
                  [apply (params_sub _ p Hp)|apply filter_In in Hp as [_ Hp]; destruct (is_path p); [discriminate Hp|reflexivity]]).
  done_ok.
Qed.

Lemma client_method_total : exists c, client_method o = Ok c.
Proof.
  destruct op_facts as [Hn [_ [_ [Hp _]]]]. unfold client_method.
  step_with ltac:(destruct (crowded_args o);
                  [destruct (struct_ident_total _ (reqd_name_ok _ Hn)) as [s Hs]; rewrite Hs; done_ok|
                   apply mapM_total; intros p Hin; pose proof (params_sub _ p Hin) as Hw; unfold w_param in Hw; bools;
                   destruct (field_ident_total _ H) as [k Hk]; rewrite Hk; cbn [bind];
                   destruct (ref_ty_code_total [] _ H0) as [a Ha]; rewrite Ha; done_ok]).
  step_with ltac:(apply mapM_total; intros p Hin; pose proof (Hp p Hin) as Hw; unfold w_param in Hw; bools;
                  destruct (field_ident_total _ H) as [k Hk]; rewrite Hk; done_ok).
  destruct (struct_ident_total _ (req_name_ok _ Hn)) as [rs Hrs]. rewrite Hrs. cbn [bind].
  destruct (field_ident_total _ Hn) as [nm Hnm]. rewrite Hnm. cbn [bind]. done_ok.
Qed.

Lemma request_file_total h cfg : w_cfg cfg = true -> exists c, request_file h cfg o = Ok c.
Proof.
  intros Hc. destruct op_facts as [Hn [Hm [_ [Hp [Hr _]]]]]. unfold w_cfg in Hc. apply andb_prop in Hc as [Hc Hc3]. apply andb_prop in Hc as [Hc1 Hc2]. unfold request_file.
  assert (Hty : forall p, In p (o_params o) -> ty_names_ok (p_ty p) = true).
  { intros p Hin. specialize (Hp p Hin). unfold w_param in Hp. bools. assumption. }
  change (model_imports (o_params o)) with (fold_left imp_step (o_params o) (Ok [])).
  destruct (imports_fold_total (o_params o) [] Hty) as [imports [Hi Hii]]; [intros s []|]. rewrite Hi. cbn [bind].
  assert (G : exists l, (if crowded_args o then fold_left imp_step (required_params o) (Ok imports) else Ok imports) = Ok l /\
                        forall s, In s l -> ident_new_ok s = true).
  { destruct (crowded_args o); [|exists imports; split; [reflexivity|exact Hii]].
    apply imports_fold_total; [|exact Hii]. intros p Hin. apply Hty. apply filter_In in Hin as [Hin _]. exact Hin. }
  destruct G as [imports2 [Hi2 Hii2]].
  match goal with |- exists c, bind ?e _ = Ok c => change e with (if crowded_args o then fold_left imp_step (required_params o) (Ok imports) else Ok imports) end.
  rewrite Hi2. cbn [bind].
  destruct (request_struct_total cfg) as [rstruct G1]. rewrite G1. cbn [bind].
  destruct required_struct_total as [reqd G2]. rewrite G2. cbn [bind].
  destruct (struct_ident_total _ (req_name_ok _ Hn)) as [sname G3]. rewrite G3. cbn [bind].
  unfold ident at 1. rewrite Hm. cbn [bind].
  destruct make_url_total as [url G4]. rewrite G4. cbn [bind].
  step_with ltac:(apply mapM_total; intros p Hin; apply builder_method_total; apply (params_sub _ p Hin)).
  destruct assign_inputs_total as [assigns G5]. rewrite G5. cbn [bind].
  destruct (qualified_result_type_total _ Hr) as [output G6]. rewrite G6. cbn [bind].
  destruct client_method_total as [cm G7]. rewrite G7. cbn [bind].
  unfold ident at 1. rewrite Hc1. cbn [bind].
  step_with ltac:(destruct imports2 as [|a l]; [done_ok|];
                  assert (exists ids, mapM ident (a :: l) = Ok ids) as [ids Hids];
                  [apply mapM_total; intros s Hs; apply ident_total; apply Hii2; exact Hs|]; rewrite Hids; done_ok).
  done_ok.
Qed.
End OneOp.

Lemma request_mod_file_total h : forallb w_op (h_ops h) = true -> exists c, request_mod_file h = Ok c.
Proof.
  intros H. rewrite forallb_forall in H. unfold request_mod_file.
  step_with ltac:(apply mapM_total; intros o Hin; destruct (op_facts o (H o Hin)) as [Hn [_ [Hf _]]];
                  unfold ident; rewrite Hf; cbn [bind];
                  destruct (struct_ident_total _ (req_name_ok _ Hn)) as [s Hs]; rewrite Hs; done_ok).
  done_ok.
Qed.

(* ---------- lib.rs ---------- *)
Section Lib.
Variables (h : hirspec) (cfg : config).
Hypothesis Hc : w_cfg cfg = true.
Hypothesis Hs : forallb w_auth (h_security h) = true.

Lemma cfg_facts : ident_new_ok (client_name (c_name cfg)) = true /\ name_dom (authenticator_name (c_name cfg)) = true /\
                  path_segment_ok (package_name (c_name cfg)) = true.
Proof. unfold w_cfg in Hc. bools. auto. Qed.

Lemma auth_ident_total : exists c, auth_ident cfg = Ok c.
Proof. destruct cfg_facts as [_ [Ha _]]. apply struct_ident_total. exact Ha. Qed.

Lemma client_struct_total : exists c, client_struct h cfg = Ok c.
Proof.
  destruct cfg_facts as [Hi _]. unfold client_struct. unfold ident. rewrite Hi. cbn [bind].
  destruct auth_ident_total as [aid Ha]. rewrite Ha. cbn [bind]. done_ok.
Qed.

Lemma auth_fields_total (name : str) fields : w_auth (AuthToken name fields) = true ->
  (exists v, struct_ident name = Ok v) /\ forall fl, In fl fields -> exists f, field_ident (fst fl) = Ok f.
Proof.
  cbn [w_auth]. intros H. bools. split; [apply struct_ident_total; assumption|].
  intros fl Hin. rewrite forallb_forall in H0. apply field_ident_total. apply H0. exact Hin.
Qed.

Lemma authenticate_variant_total aid s : w_auth s = true -> exists c, authenticate_variant aid s = Ok c.
Proof.
  intros H. destruct s as [name fields|a e r sc|]; try (cbn; done_ok).
  destruct (auth_fields_total _ _ H) as [[v Hv] Hf]. cbn [authenticate_variant]. rewrite Hv. cbn [bind].
  step_with ltac:(apply mapM_total; intros fl Hin; apply Hf; exact Hin).
  step_with ltac:(apply mapM_total; intros fl Hin; destruct (Hf fl Hin) as [f Hfl]; rewrite Hfl; done_ok).
  done_ok.
Qed.

Lemma impl_client_total : exists c, impl_client h cfg = Ok c.
Proof.
  destruct cfg_facts as [Hi _]. unfold impl_client. unfold ident. rewrite Hi. cbn [bind].
  destruct auth_ident_total as [aid Ha]. rewrite Ha. cbn [bind]. rewrite forallb_forall in Hs.
  step_with ltac:(apply mapM_total; intros s Hin; apply authenticate_variant_total; apply Hs; exact Hin).
  done_ok.
Qed.

Lemma auth_enum_total : exists c, auth_enum h cfg = Ok c.
Proof.
  unfold auth_enum. destruct auth_ident_total as [aid Ha]. rewrite Ha. cbn [bind]. rewrite forallb_forall in Hs.
  step_with ltac:(apply mapM_total; intros s Hin; specialize (Hs s Hin); destruct s as [name fields|a e r sc|]; try done_ok;
                  destruct (auth_fields_total _ _ Hs) as [[v Hv] Hf]; rewrite Hv; cbn [bind];
                  assert (exists fs, mapM (fun fl : str * authloc => do f <- field_ident (fst fl); Ok (f ++ t ": String")) fields = Ok fs) as [fs Hfs];
                  [apply mapM_total; intros fl Hfl; destruct (Hf fl Hfl) as [f Hff]; rewrite Hff; done_ok|]; rewrite Hfs; done_ok).
  done_ok.
Qed.

Lemma auth_from_env_total : exists c, auth_from_env h cfg = Ok c.
Proof.
  unfold auth_from_env. destruct (h_security h) as [|s rest] eqn:E; [done_ok|].
  destruct s as [name fields|a e r sc|]; try done_ok.
  assert (Hw : w_auth (AuthToken name fields) = true). { cbn [forallb] in Hs. bools. assumption. }
  destruct (auth_fields_total _ _ Hw) as [[v Hv] Hf].
  step_with ltac:(apply mapM_total; intros [fname loc] Hin; unfold from_env_field; destruct (Hf _ Hin) as [f Hff]; cbn [fst] in Hff; rewrite Hff; done_ok).
  rewrite Hv. cbn [bind]. done_ok.
Qed.

Lemma impl_auth_total : exists c, impl_auth h cfg = Ok c.
Proof.
  unfold impl_auth. destruct auth_ident_total as [aid Ha]. rewrite Ha. cbn [bind].
  destruct auth_from_env_total as [fe Hfe]. rewrite Hfe. cbn [bind]. done_ok.
Qed.

Lemma lib_file_total b : exists c, lib_file h cfg b = Ok c.
Proof.
  destruct cfg_facts as [Hi _]. unfold lib_file.
  destruct client_struct_total as [cs H1]. rewrite H1. cbn [bind].
  destruct impl_client_total as [ci H2]. rewrite H2. cbn [bind].
  unfold ident. rewrite Hi. cbn [bind].
  step_with ltac:(destruct (has_security h); [|done_ok]; destruct auth_enum_total as [e He]; rewrite He; cbn [bind];
                  destruct impl_auth_total as [i Him]; rewrite Him; done_ok).
  done_ok.
Qed.
End Lib.

(* ---------- examples ---------- *)
Lemma example_value_total h : (forall kr, In kr (h_schemas h) -> w_record (snd kr) = true) ->
  forall d x fuel name b, fin_d h d x = true -> ty_names_ok x = true -> d <= fuel ->
  exists c, example_value fuel h x name b = Ok c.
Proof.
  intros Hsch. induction d as [|d IH]; intros x fuel name b Hfin Hn Hle; [discriminate Hfin|].
  destruct fuel as [|f]; [lia|]. assert (Hdf : d <= f) by lia.
  destruct x as [|s| | |i|i|m| |s| | |]; try (cbn; done_ok).
  - (* array *)
    cbn [example_value fin_d ty_names_ok] in *.
    destruct (IH i f name (if negb (is_reference_type i) then false else b) Hfin Hn Hdf) as [v Hv]. rewrite Hv. cbn [bind]. done_ok.
  - (* model *)
    cbn [example_value]. cbn [fin_d] in Hfin. cbn [ty_names_ok] in Hn.
    destruct (assoc (h_schemas h) m) as [r|] eqn:E; [|discriminate Hfin].
    pose proof (Hsch _ (assoc_in _ _ _ E)) as Hr. cbn [snd] in Hr.
    pose proof (record_fields_names_ok r Hr) as Hfn. rewrite forallb_forall in Hfin.
    destruct (struct_ident_total m Hn) as [mid Hmid].
    destruct r as [rn nl fields dc|nname fields dc|aname fl|ename variants dc]; cbn [w_record record_fields] in *.
    + apply andb_prop in Hr as [H H0].
      step_with ltac:(apply mapM_total; intros [fname fl] Hin;
                      assert (Hfl : In fl (map snd fields)) by (apply in_map_iff; exists (fname, fl); split; [reflexivity|exact Hin]);
                      destruct (IH (f_ty fl) f fname (negb (negb (ends_with (lit "Required") m) || (f_optional fl || forced_option (f_ty fl)))) (Hfin _ Hfl) (Hfn _ Hfl) Hdf) as [v Hv];
                      rewrite Hv; cbn [bind];
                      rewrite forallb_forall in H0; pose proof (H0 _ Hin) as Hw; unfold w_field in Hw; cbn [fst snd] in Hw; bools;
                      destruct (field_ident_total fname H1) as [id Hid]; rewrite Hid; done_ok).
      rewrite Hmid. cbn [bind]. done_ok.
    + apply andb_prop in Hr as [H H0].
      step_with ltac:(apply mapM_total; intros fl Hin; apply (IH _ f nname false (Hfin _ Hin) (Hfn _ Hin) Hdf)).
      destruct (struct_ident_total nname H) as [nid Hnid]. rewrite Hnid. cbn [bind]. done_ok.
    + apply andb_prop in Hr as [H H0].
      destruct (IH (f_ty fl) f aname (negb (ends_with (lit "Required") m) || negb (f_optional fl)) (Hfin _ (or_introl eq_refl)) H0 Hdf) as [v Hv].
      rewrite Hv. cbn [bind]. done_ok.
    + apply andb_prop in Hr as [Hr H0]. apply andb_prop in Hr as [H H2].
      destruct (safe_variant_names_total _ _ H2) as [names [Hnames Hd]]. rewrite Hnames. cbn [bind].
      destruct names as [|[n v] rest].
      * exfalso. destruct variants as [|va vs]; [discriminate H0|]. change (safe_variant_names ename (va :: vs)) with (mapM (svn_step ename) (va :: vs)) in Hnames.
        cbn [mapM] in Hnames. apply bind_ok in Hnames as [y [_ Hy]]. apply bind_ok in Hy as [ys [_ Hy]]. discriminate Hy.
      * destruct (struct_ident_total n (Hd _ (or_introl eq_refl))) as [vid Hvid]. rewrite Hvid. cbn [bind]. rewrite Hmid. cbn [bind]. done_ok.
Qed.

Lemma example_file_total fuel h cfg o d :
  (forall kr, In kr (h_schemas h) -> w_record (snd kr) = true) -> w_op o = true -> w_cfg cfg = true ->
  (forall p, In p (o_params o) -> fin_d h d (p_ty p) = true) -> d <= fuel ->
  exists c, example_file fuel h cfg o = Ok c.
Proof.
  intros Hsch Ho Hc Hfin Hle. destruct (op_facts o Ho) as [Hn [_ [_ [Hp [_ [_ Hps]]]]]].
  destruct (cfg_facts cfg Hc) as [Hci [_ Hpk]]. unfold example_file.
  assert (Hval : forall p, In p (o_params o) -> exists v, example_value fuel h (p_ty p) (p_name p) true = Ok v).
  { intros p Hin. pose proof (Hp p Hin) as Hw. unfold w_param in Hw. apply andb_prop in Hw as [_ Hw].
    eapply example_value_total; eauto. }
  assert (Hid : forall p, In p (o_params o) -> exists id, field_ident (p_name p) = Ok id).
  { intros p Hin. pose proof (Hp p Hin) as Hw. unfold w_param in Hw. apply andb_prop in Hw as [Hw _]. apply field_ident_total. exact Hw. }
  assert (Hsub : forall (f : hparam -> bool) p, In p (filter f (o_params o)) -> In p (o_params o)).
  { intros f p Hin. apply filter_In in Hin as [Hin _]. exact Hin. }
  step_with ltac:(apply mapM_total; intros p Hin; apply Hsub in Hin; destruct (Hid p Hin) as [id Hi]; rewrite Hi; cbn [bind];
                  destruct (Hval p Hin) as [v Hv]; rewrite Hv; done_ok).
  step_with ltac:(destruct (crowded_args o);
                  [destruct (struct_ident_total _ (reqd_name_ok _ Hn)) as [sn Hsn]; rewrite Hsn; cbn [bind]|];
                  (assert (exists ids, mapM (fun p : hparam => field_ident (p_name p)) (required_params o) = Ok ids) as [ids Hids];
                   [apply mapM_total; intros p Hin; apply Hsub in Hin; apply Hid; exact Hin|]; rewrite Hids; done_ok)).
  step_with ltac:(apply mapM_total; intros p Hin; apply Hsub in Hin; destruct (Hid p Hin) as [id Hi]; rewrite Hi; cbn [bind];
                  destruct (Hval p Hin) as [v Hv]; rewrite Hv; done_ok).
  rewrite Hpk. cbn [bind]. unfold ident. rewrite Hci. cbn [bind].
  step_with ltac:(destruct (crowded_args o); [|done_ok]; cbn [negb orb] in Hps; rewrite Hps;
                  destruct (sanitize_struct_ident_ok _ (reqd_name_ok _ Hn)) as [sn [Hsn Hsi]]; rewrite Hsn; cbn [bind andb];
                  rewrite (ident_ok_path_segment _ Hsi); done_ok).
  destruct (field_ident_total _ Hn) as [opid Hop]. rewrite Hop. cbn [bind]. done_ok.
Qed.

(* ---------- the whole tree ---------- *)
Lemma hir_ok_facts d h cfg : hir_ok d h cfg = true ->
  (forall kr, In kr (h_schemas h) -> name_dom (fst kr) = true /\ w_record (snd kr) = true) /\
  forallb w_op (h_ops h) = true /\ forallb w_auth (h_security h) = true /\ w_cfg cfg = true /\
  (forall x, In x (all_types h) -> fin_d h d x = true).
Proof.
  unfold hir_ok. intros H. bools. repeat split; try assumption.
  - rewrite forallb_forall in H. specialize (H _ H4). bools. assumption.
  - rewrite forallb_forall in H. specialize (H _ H4). bools. assumption.
  - apply forallb_forall. assumption.
Qed.

Theorem emit_crate_total d h cfg tp fuel : hir_ok d h cfg = true -> d <= fuel ->
  exists files, emit_crate fuel h cfg tp = Ok files.
Proof.
  intros H Hle. destruct (hir_ok_facts _ _ _ H) as [Hsch [Hops [Hsec [Hcfg Hfin]]]].
  unfold emit_crate.
  destruct (model_mod_file_total h) as [mm Hmm]; [intros kr Hin; apply Hsch; exact Hin|]. rewrite Hmm. cbn [bind].
  assert (Hty_field : forall k r fl, In (k, r) (h_schemas h) -> In fl (record_fields r) -> fin_d h d (f_ty fl) = true).
  { intros k r fl Hin Hfl. apply Hfin. unfold all_types. apply in_or_app. left. apply in_map. unfold all_fields.
    apply in_flat_map. exists (k, r). split; [exact Hin|exact Hfl]. }
  assert (Hty_param : forall o p, In o (h_ops h) -> In p (o_params o) -> fin_d h d (p_ty p) = true).
  { intros o p Ho Hp. apply Hfin. unfold all_types. apply in_or_app. right. apply in_flat_map. exists o. split; [exact Ho|apply in_map; exact Hp]. }
  step_with ltac:(unfold model_entries; apply mapM_total; intros [k r] Hin; destruct (Hsch _ Hin) as [Hk Hr]; cbn [fst snd] in *;
                  destruct (sanitize_total k Hk) as [fname [Hf _]]; rewrite Hf; cbn [bind];
                  destruct (model_file_total fuel h cfg r d Hr) as [c Hc];
                  [apply forallb_forall; intros fl Hfl; apply (Hty_field k r fl Hin Hfl)|exact Hle|]; rewrite Hc; done_ok).
  rewrite forallb_forall in Hops.
  step_with ltac:(unfold request_entries; apply mapM_total; intros o Hin;
                  destruct (request_file_total o (Hops o Hin) h cfg Hcfg) as [c Hc]; rewrite Hc; done_ok).
  destruct (request_mod_file_total h) as [rm Hrm]; [apply forallb_forall; exact Hops|]. rewrite Hrm. cbn [bind].
  destruct (lib_file_total h cfg Hcfg Hsec true) as [lib Hlib]. rewrite Hlib. cbn [bind].
  step_with ltac:(unfold example_entries; destruct (c_examples cfg); [|done_ok]; apply mapM_total; intros o Hin;
                  destruct (example_file_total fuel h cfg o d) as [c Hc];
                  [intros kr Hkr; apply Hsch; exact Hkr|apply Hops; exact Hin|exact Hcfg|intros p Hp; apply (Hty_param o p Hin Hp)|exact Hle|];
                  rewrite Hc; done_ok).
  done_ok.
Qed.

(* ---------- a schema that contains itself: no fuel suffices (the real process overflows its stack) ---------- *)
Definition node_record : record :=
  RStruct (lit "Node") false
    [(lit "child", {| f_ty := TModel (lit "Node"); f_optional := false; f_doc := None; f_flatten := false |})] None.

Lemma model_file_diverges cfg fuel : model_file fuel node_hir cfg node_record = Err EDiverge.
Proof.
  unfold model_file.
  match goal with |- context [mapM sanitize_struct ?l] => replace l with (@nil str) by (vm_compute; reflexivity) end.
  cbn [mapM bind]. change (btset []) with (@nil str). cbn [bind].
  unfold node_record at 1. cbn [make_item]. unfold make_class. cbn [map snd all_default f_ty].
  rewrite implements_default_diverges_on_cycle. reflexivity.
Qed.

Theorem emit_diverges_on_cycle cfg tp : forall fuel, emit_crate fuel node_hir cfg tp = Err EDiverge.
Proof.
  intros fuel. unfold emit_crate.
  destruct (model_mod_file node_hir) as [mm|e] eqn:E; [|vm_compute in E; discriminate E]. cbn [bind].
  unfold model_entries. change (h_schemas node_hir) with [(lit "Node", node_record)]. cbn [mapM fst snd].
  destruct (sanitize (lit "Node")) as [fname|e] eqn:E2; [|vm_compute in E2; discriminate E2]. cbn [bind].
  rewrite model_file_diverges. reflexivity.
Qed.

Lemma node_not_finite d : fin_d node_hir d (TModel (lit "Node")) = false.
Proof.
  induction d as [|d IH]; [reflexivity|]. cbn [fin_d].
  change (assoc (h_schemas node_hir) (lit "Node")) with (Some node_record).
  cbn [record_fields node_record map snd forallb f_ty]. rewrite IH. reflexivity.
Qed.
