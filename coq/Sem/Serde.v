(* Sem/Serde.v — what #[derive(Serialize, Deserialize)] does with the attributes libninja emits, at the level of one
   struct (MODELLED from serde's documented behaviour; field values are carried as JSON, the codec of the field's own
   type is outside this level): `rename`, implicit identifier key, `default`, `skip_serializing_if`, missing-field
   errors, unknown keys ignored; and unit-variant enums with `rename`. *)
From LN Require Export Model.Emit.
Local Open Scope nat_scope.

Inductive json :=
| JNull | JBool (b : bool) | JNum (n : str) | JStr (s : str)
| JArr (l : list json) | JObj (m : list (str * json)).

Definition is_null (j : json) : bool := match j with JNull => true | _ => false end.
Definition is_empty_arr (j : json) : bool := match j with JArr [] => true | _ => false end.

(* the key under which a member travels; None for a flattened member (it has no key of its own) *)
Definition wire_key (d : fdesc) : option str :=
  match fd_wire d with
  | WIdent => Some (fd_ident d)
  | WRename n => Some n
  | WFlatten => None
  end.

(* value taken when the key is absent: `default` gives Default::default() (None / [] / Null), an Option field
   without `with` is implicitly None; anything else is a "missing field" error *)
Definition missing_value (d : fdesc) : option json :=
  match fd_default_skip d with
  | Some SkipNone | Some SkipNullValue => Some JNull
  | Some SkipEmptyVec => Some (JArr [])
  | None => if fd_option d then (match fd_with d with None => Some JNull | Some _ => None end) else None
  end.

Definition skipped (d : fdesc) (v : json) : bool :=
  match fd_default_skip d with
  | Some SkipNone | Some SkipNullValue => is_null v
  | Some SkipEmptyVec => is_empty_arr v
  | None => false
  end.

Definition de_field (d : fdesc) (obj : list (str * json)) : option json :=
  match wire_key d with
  | None => Some JNull        (* flattened members are read from the same object by the member type: not modelled *)
  | Some k => match assoc obj k with Some j => Some j | None => missing_value d end
  end.

Fixpoint de_struct (ds : list fdesc) (obj : list (str * json)) : option (list json) :=
  match ds with
  | [] => Some []
  | d :: rest => match de_field d obj, de_struct rest obj with
                 | Some v, Some vs => Some (v :: vs)
                 | _, _ => None
                 end
  end.

Definition ser_field (d : fdesc) (v : json) : list (str * json) :=
  match wire_key d with
  | None => []
  | Some k => if skipped d v then [] else [(k, v)]
  end.

Fixpoint ser_struct (ds : list fdesc) (vs : list json) : list (str * json) :=
  match ds, vs with
  | d :: ds', v :: vs' => ser_field d v ++ ser_struct ds' vs'
  | _, _ => []
  end.

(* the same object up to omission of null / absent optional members and empty arrays, in declaration order *)
Definition normalize (ds : list fdesc) (obj : list (str * json)) : list (str * json) :=
  flat_map (fun d => match wire_key d with
                     | None => []
                     | Some k => match assoc obj k with
                                 | Some v => if skipped d v then [] else [(k, v)]
                                 | None => []
                                 end
                     end) ds.

(* ---- enums: unit variants, `rename` when the identifier differs from the value ---- *)
Definition variant_wire (idn value : str) : str := if str_eqb idn value then idn else value.

(* one generated struct as a whole: the members serde_derive reads from [obj] and writes back, or None when the
   instance is rejected (a member without default is missing) *)
Definition serde_struct (fields : list (str * hfield)) (obj : list (str * json)) : result (option (list (str * json))) :=
  do ds <- mapM (fun kf => field_desc (fst kf) (snd kf)) fields;
  Ok (match de_struct ds obj with Some vs => Some (ser_struct ds vs) | None => None end).
