(* Sem/Request.v — what the emitted `into_future` body does to a recording HTTP client.
   MODELLED semantics of httpclient's request builder (the crate is not available offline; written from its API):
   query/header/cookie append one (key, value) pair; json(obj) merges the members of obj into the body object;
   set_query(struct) replaces the query by the serialised struct: one pair per present field under its Rust identifier. *)
From LN Require Export Model.Emit.
Local Open Scope nat_scope.

Inductive argval := AScalar (s : str) | AList (l : list str).
(* arguments by OpenAPI name; None = an optional input whose setter was not called *)
Definition args := list (str * option argval).

Definition arg_of (a : args) (name : str) : option argval :=
  match assoc a name with Some v => v | None => None end.

Record http := {
  r_verb : str; r_url : str;
  r_query : list (str * str); r_headers : list (str * str); r_cookies : list (str * str);
  r_body : list (str * argval)          (* members of the JSON body object, in the order they were merged *)
}.

Definition start (verb url : str) : http :=
  {| r_verb := verb; r_url := url; r_query := []; r_headers := []; r_cookies := []; r_body := [] |}.

Definition add_pair (loc : hloc) (k v : str) (r : http) : http :=
  match loc with
  | LQuery => {| r_verb := r_verb r; r_url := r_url r; r_query := r_query r ++ [(k, v)]; r_headers := r_headers r; r_cookies := r_cookies r; r_body := r_body r |}
  | LHeader => {| r_verb := r_verb r; r_url := r_url r; r_query := r_query r; r_headers := r_headers r ++ [(k, v)]; r_cookies := r_cookies r; r_body := r_body r |}
  | LCookie => {| r_verb := r_verb r; r_url := r_url r; r_query := r_query r; r_headers := r_headers r; r_cookies := r_cookies r ++ [(k, v)]; r_body := r_body r |}
  | _ => r
  end.

Definition add_body (k : str) (v : argval) (r : http) : http :=
  {| r_verb := r_verb r; r_url := r_url r; r_query := r_query r; r_headers := r_headers r; r_cookies := r_cookies r;
     r_body := r_body r ++ [(k, v)] |}.

(* the items an assignment sends: a scalar is one value; `for item in ..` sends each element *)
Definition items (each : bool) (v : argval) : list str :=
  match v with
  | AScalar s => [s]
  | AList l => if each then l else [concat l]     (* a list sent whole never occurs outside the body *)
  end.

Definition exec_assign (a : assign) (v : option argval) (r : http) : http :=
  match v with
  | None => r
  | Some x =>
      match a_loc a with
      | LBody => add_body (a_key a) x r
      | LPath => r
      | loc => fold_left (fun r i => add_pair loc (a_key a) i r) (items (a_each a) x) r
      end
  end.

Definition run_assigns (l : list assign) (ar : args) (r : http) : http :=
  fold_left (fun r a => exec_assign a (arg_of ar (a_name a)) r) l r.

(* set_query(self.params): every field of the request struct that is present, under its Rust identifier *)
Definition run_set_query (ps : list hparam) (ar : args) (r : http) : result http :=
  do pairs <- mapM (fun p =>
                 do id <- sanitize (p_name p);
                 Ok (match arg_of ar (p_name p) with
                     | None => []
                     | Some (AScalar s) => [(id, s)]
                     | Some (AList l) => map (fun i => (id ++ lit "[]", i)) l
                     end)) ps;
  Ok {| r_verb := r_verb r; r_url := r_url r; r_query := concat pairs; r_headers := r_headers r; r_cookies := r_cookies r; r_body := r_body r |}.

Definition run_plan (ps : list hparam) (ar : args) (r : http) : result http :=
  match request_plan ps with
  | PSetQuery => run_set_query ps ar r
  | PAssigns l => Ok (run_assigns l ar r)
  end.

(* the URL the request goes to: the path template with each `{name}` replaced by the value given for the path
   parameter of that name (format!("..{id}..", id = self.params.id) with Display of the value) *)
Fixpoint subst_url (fuel : nat) (path : str) (ar : args) : str :=
  match fuel with
  | O => path
  | S f =>
    match path with
    | [] => []
    | c :: r =>
        if ceqb c "{"%char then
          let '(w, rest) := take_word r in
          match w, rest with
          | _ :: _, c2 :: rest' =>
              if ceqb c2 "}"%char
              then match arg_of ar w with
                   | Some (AScalar v) => v ++ subst_url f rest' ar
                   | _ => c :: subst_url f r ar
                   end
              else c :: subst_url f r ar
          | _, _ => c :: subst_url f r ar
          end
        else c :: subst_url f r ar
    end
  end.

(* one call of a generated client method, as the recording client sees it *)
Definition run_operation (o : hop) (ar : args) : result http :=
  run_plan (o_params o) ar (start (o_method o) (subst_url (length (o_path o)) (o_path o) ar)).

(* ---------- credentials: what a client built by from_env adds to every request (C14) ----------
   from_env constructs the variant of the FIRST declared strategy, reading each field from <SERVICE>_<NAME>;
   `authenticate` then places every field where its location says (auth_set_value). *)
Inductive cred := CPlain (env : str) | CBase64 (env : str).      (* basic: base64 (no padding) of the variable's value *)
Inductive place := PlHeader (k : str) | PlQuery (k : str) | PlCookie (k : str) | PlBearer | PlBasic | PlToken.

Definition place_of (l : authloc) : place :=
  match l with
  | AHeader k => PlHeader k | AQuery k => PlQuery k | ACookie k => PlCookie k
  | ABearer => PlBearer | ABasic => PlBasic | AToken => PlToken
  end.

Inductive auth_plan :=
| APNone                                    (* no security declared: nothing is added *)
| APAnonymous                               (* the first requirement is the empty one *)
| APFields (l : list (place * cred))
| APOAuth2 (access_env refresh_env : str).  (* bearer middleware built from <SERVICE>_ACCESS_TOKEN / _REFRESH_TOKEN *)

Definition auth_plan_of (h : hirspec) (cfg : config) : auth_plan :=
  match h_security h with
  | [] => APNone
  | AuthNone :: _ => APAnonymous
  | AuthToken _ fields :: _ =>
      APFields (map (fun fl =>
        let var := qualified_env_var (c_name cfg) (fst fl) in
        (place_of (snd fl), match snd fl with ABasic => CBase64 var | _ => CPlain var end)) fields)
  | AuthOAuth2 _ _ _ _ :: _ =>
      APOAuth2 (qualified_env_var (c_name cfg) (lit "access_token")) (qualified_env_var (c_name cfg) (lit "refresh_token"))
  end.
