(* Sem/Traits.v — the Rust-side rules the emitted crate relies on, written from the language, not from the generator:
   which emitted / library types implement Default and Display, and which type syntax mentions a lifetime.
   (rustc itself is the judge in the compile run; these are the rules the theorems of C02 are stated against.) *)
From LN Require Export Model.Crate.
Local Open Scope nat_scope.

Definition ok_true (r : result bool) : bool := match r with Ok true => true | _ => false end.

(* `T: Default` for the Rust type emitted for x, in a crate generated with top-level fuel F:
   std / serde_json / chrono / rust_decimal types all implement Default; a generated struct or tuple struct does iff its
   own derive list carries Default (that is decided by all_default at the top-level fuel); a generated enum never; an alias
   is its target, `Option<_>` always. *)
Fixpoint rust_default (F fuel : nat) (h : hirspec) (x : ty) : bool :=
  match fuel with
  | O => false
  | S f =>
    match x with
    | TModel n =>
        match assoc (h_schemas h) n with
        | Some (RStruct _ _ fs _) => ok_true (all_default F h (map snd fs))
        | Some (RNewType _ fs _) => ok_true (all_default F h fs)
        | Some (REnum _ _ _) => false
        | Some (RAlias _ fl) => f_optional fl || rust_default F f h (f_ty fl)
        | None => false
        end
    | _ => true
    end
  end.

(* `T: Display` *)
Fixpoint rust_display (fuel : nat) (h : hirspec) (x : ty) : bool :=
  match fuel with
  | O => false
  | S f =>
    match x with
    | TString | TInteger _ | TFloat | TBoolean | TDate _ | TDateTime | TCurrency | TAny => true
    | TArray _ | THashMap _ | TUnit => false
    | TModel n =>
        match assoc (h_schemas h) n with
        | Some (RStruct _ _ _ _) | Some (REnum _ _ _) => true      (* generated impl Display *)
        | Some (RNewType _ _ _) => false
        | Some (RAlias _ fl) => negb (f_optional fl) && rust_display f h (f_ty fl)
        | None => false
        end
    end
  end.

(* the type of the expression `.to_string()` is applied to for one input, if any *)
Definition to_string_receiver (pl : plan) (p : hparam) : option ty :=
  match p_loc p with
  | LBody => None
  | LPath => Some (p_ty p)              (* `{name}` in format! *)
  | _ => match pl with
         | PSetQuery => None
         | PAssigns _ => Some (if a_each (assign_of p) then match p_ty p with TArray i => i | x => x end else p_ty p)
         end
  end.

Definition inputs_displayable (fuel : nat) (h : hirspec) (o : hop) : bool :=
  forallb (fun p => match to_string_receiver (request_plan (o_params o)) p with
                    | None => true
                    | Some x => rust_display fuel h x
                    end) (o_params o).

(* type syntax that needs a lifetime parameter in a struct definition *)
Fixpoint rty_has_ref (r : rty) : bool :=
  match r with
  | RRefStr | RRefSlice _ => true
  | RVec i | RHashMap i | ROption i => rty_has_ref i
  | _ => false
  end.
