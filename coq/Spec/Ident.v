(* Spec/Ident.v — property-side definitions for C13, written from the property text and the
   Rust reference (lexical structure: identifiers, keywords), independent of the sanitiser. *)
From LN Require Export Model.Chars.

(* strict + reserved keywords, editions 2018 and later (51 words; the list syn::Ident refuses) *)
Definition reserved : list str := map lit [
  "as"; "break"; "const"; "continue"; "crate"; "else"; "enum"; "extern"; "false"; "fn"; "for"; "if";
  "impl"; "in"; "let"; "loop"; "match"; "mod"; "move"; "mut"; "pub"; "ref"; "return"; "self"; "Self";
  "static"; "struct"; "super"; "trait"; "true"; "type"; "unsafe"; "use"; "where"; "while";
  "async"; "await"; "dyn";
  "abstract"; "become"; "box"; "do"; "final"; "macro"; "override"; "priv"; "typeof"; "unsized";
  "virtual"; "yield"; "try" ]%string.

Definition id_start (c : ascii) : bool := is_alpha c || ceqb c "_"%char.
Definition id_cont (c : ascii) : bool := is_alnum c || ceqb c "_"%char.

(* lexically valid, non-reserved identifier (ASCII fragment of the reference grammar) *)
Definition ident_ok (s : str) : bool :=
  match s with
  | [] => false
  | c :: t => id_start c && forallb id_cont t
              && negb (str_eqb s (lit "_")) && negb (mem_str s reserved)
  end.

(* the name domain of C13 / of D: ASCII over [A-Za-z0-9_.- /:@'+], at least one letter or digit *)
Definition dom_char (c : ascii) : bool :=
  is_alnum c || existsb (ceqb c)
    ["_"%char; "."%char; "-"%char; " "%char; "/"%char; ":"%char; "@"%char; "'"%char; "+"%char].
Definition name_dom (s : str) : bool := forallb dom_char s && existsb is_alnum s.

(* operationIds in D: ASCII over [A-Za-z0-9_.- ] with at least one letter or digit *)
Definition opid_char (c : ascii) : bool :=
  is_alnum c || existsb (ceqb c) ["_"%char; "."%char; "-"%char; " "%char].
Definition opid_dom (s : str) : bool := forallb opid_char s && existsb is_alnum s.
