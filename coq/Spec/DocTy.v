(* Spec/DocTy.v — the documented Rust type of a schema, written from the text of C08:
   string->String (date->NaiveDate, date-time->DateTime<Utc>, decimal->Decimal, integer->i64), integer->i64
   (x-format: date -> NaiveDate), number->f64, boolean->bool, array->Vec<T> (no items: Vec<Value>),
   object / oneOf / anyOf / not / untyped / multi-member allOf -> serde_json::Value, single-member allOf -> its member,
   $ref to a primitive (strings without enum, numbers, booleans, arrays and single-member allOf of those) -> that
   primitive's type, $ref to anything else -> the model's type. *)
From LN Require Export Model.RustTy Model.Extractor.

Definition doc_string_format (fmt : str) : rty :=
  if str_eqb fmt (lit "decimal") then RDecimal
  else if str_eqb fmt (lit "integer") then RI64
  else if str_eqb fmt (lit "date") then RNaiveDate
  else if str_eqb fmt (lit "date-time") then RDateTimeUtc
  else RString.

Fixpoint doc_schema (fuel : nat) (sp : spec) (s : schema) : result rty :=
  match fuel with
  | O => Err EDiverge
  | S f =>
    let doc_ref (r : sref) : result rty :=
      do s' <- resolve sp r;
      do p <- is_primitive f sp s';
      if p then doc_schema f sp s'
      else match r with
           | Ref n => do _ <- ty_model n; do id <- sanitize_struct n; Ok (RNamed id)
           | Inl s'' => doc_schema f sp s''
           end in
    match s_kind s with
    | KStr fmt _ => Ok (doc_string_format fmt)
    | KNumber => Ok RF64
    | KInteger => Ok (if s_naz s then RI64 else if s_xdate s then RNaiveDate else RI64)
    | KBoolean => Ok RBool
    | KObject _ _ _ => Ok RValue
    | KArray (Some item) => do t <- doc_ref item; Ok (RVec t)
    | KArray None => Ok (RVec RValue)
    | KAny => Ok RValue
    | KAllOf [x] => doc_ref x
    | KAllOf _ => Ok RValue
    | KOneOf _ | KAnyOf _ | KNot => Ok RValue
    end
  end.

Definition doc_ref (fuel : nat) (sp : spec) (r : sref) : result rty :=
  do s <- resolve sp r;
  do p <- is_primitive fuel sp s;
  if p then doc_schema fuel sp s
  else match r with
       | Ref n => do _ <- ty_model n; do id <- sanitize_struct n; Ok (RNamed id)
       | Inl s' => doc_schema fuel sp s'
       end.
