(* Spec/Request.v — the request an operation must produce, written from the text of C03: every supplied query, header,
   cookie and body input at its declared location under its exact OpenAPI name (array-valued query parameters carry
   `[]`), unset optional inputs absent, nothing else. *)
From LN Require Export Sem.Request.

Definition contrib (loc : hloc) (ar : args) (p : hparam) : list (str * str) :=
  if match p_loc p, loc with LQuery, LQuery | LHeader, LHeader | LCookie, LCookie => true | _, _ => false end then
    match arg_of ar (p_name p) with
    | None => []
    | Some (AScalar s) => [(p_name p, s)]
    | Some (AList l) =>
        map (fun i => ((match loc with LQuery => p_name p ++ lit "[]" | _ => p_name p end), i)) l
    end
  else [].

Definition body_contrib (ar : args) (p : hparam) : list (str * argval) :=
  match p_loc p with
  | LBody => match arg_of ar (p_name p) with Some v => [(p_name p, v)] | None => [] end
  | _ => []
  end.

Definition expected_query (ps : list hparam) (ar : args) := flat_map (contrib LQuery ar) ps.
Definition expected_headers (ps : list hparam) (ar : args) := flat_map (contrib LHeader ar) ps.
Definition expected_cookies (ps : list hparam) (ar : args) := flat_map (contrib LCookie ar) ps.
Definition expected_body (ps : list hparam) (ar : args) := flat_map (body_contrib ar) ps.

(* argument values have the shape of their type: a list exactly for array-typed inputs *)
Definition shape_ok (ar : args) (p : hparam) : Prop :=
  match arg_of ar (p_name p) with
  | Some (AList _) => is_iterable (p_ty p) = true
  | Some (AScalar _) => is_iterable (p_ty p) = false
  | None => True
  end.
