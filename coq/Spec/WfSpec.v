(* Spec/WfSpec.v — the part of D that EXTRACTION relies on, as decidable conditions on the OpenAPI document:
   every $ref resolves and reference chains through list items / single-member allOf are finite (depth d), model names
   carry no '(', component names do not start with a lower-case letter, every operation has a success response and a
   well-formed path, security requirements name existing schemes. Array COMPONENTS with inline items (at any nesting
   depth) are covered: every name create_unique_name may invent for the item schema must again be a legal record name.
   Inline array RESPONSES whose items are an inline schema are excluded (their name depends on the table built so far). *)
From LN Require Export Model.Shake.
Local Open Scope nat_scope.

Definition no_paren (n : str) : bool := negb (contains_char "("%char n).

(* is_primitive and schema_to_ty terminate on s within depth d *)
Fixpoint ty_walk (sp : spec) (d : nat) (s : schema) : bool :=
  match d with
  | O => false
  | S d' =>
    let wr (r : sref) : bool :=
      match resolve sp r with
      | Ok s' => ty_walk sp d' s' && match r with Ref n => no_paren n | Inl _ => true end
      | Err _ => false
      end in
    match s_kind s with
    | KArray (Some inner) => wr inner
    | KAllOf [x] => wr x
    | _ => true
    end
  end.

Definition sref_ok (sp : spec) (d : nat) (r : sref) : bool :=
  match resolve sp r with
  | Ok s => ty_walk sp d s && match r with Ref n => no_paren n | Inl _ => true end
  | Err _ => false
  end.

Definition name_ok (n : str) : bool := match n with [] => false | c :: _ => negb (is_lower c) end.

Definition props_ok (sp : spec) (d : nat) (props : list (str * sref)) : bool := forallb (fun pr => sref_ok sp d (snd pr)) props.

Definition all_of_ok (sp : spec) (d : nat) (l : list sref) : bool :=
  forallb (fun r => match r with
                    | Ref n => sref_ok sp d (Ref n)
                    | Inl item => match get_properties item with Some props => props_ok sp d props | None => true end
                    end) l.

Definition inline_array (s : schema) : bool := match s_kind s with KArray (Some (Inl _)) => true | _ => false end.

(* what extract_schema needs of a schema that is not an array with inline items (whatever name it is registered under) *)
Definition flat_ok (sp : spec) (d : nat) (s : schema) : bool :=
  negb (inline_array s) &&
  match s_kind s with
  | KObject props _ addl =>
      match props, addl with
      | [], Some (AddlSchema r) => sref_ok sp d r
      | [], Some (AddlAny _) => true
      | _, _ => props_ok sp d props
      end
  | KStr _ (_ :: _) => true
  | KAllOf l =>
      if Nat.eqb (effective_length l) 1
      then match l with x :: _ => sref_ok sp d x | [] => false end
      else all_of_ok sp d l
  | _ => ty_walk sp d s
  end.

(* the names create_unique_name can return for the item schema of an array registered under `name` *)
Definition candidates (name : str) : list str :=
  let sf := pascal (singular name) in
  let it := pascal name ++ lit "Item" in
  [sf; pascal name ++ sf; it; pascal name ++ it].

(* what extract_schema needs of a component registered under `name`: arrays with inline items recurse into the item
   schema under an invented name (one fuel unit per level); when no name is free the array becomes a newtype *)
Fixpoint schema_ok (sp : spec) (d : nat) (name : str) (s : schema) {struct d} : bool :=
  match d with
  | O => false
  | S d' =>
    name_ok name &&
    match s_kind s with
    | KArray (Some (Inl item)) => ty_walk sp d s && forallb (fun n => schema_ok sp d' n item) (candidates name)
    | _ => flat_ok sp d s
    end
  end.

(* properties_iter / body_requires terminate on s within depth d *)
Fixpoint piter_ok (sp : spec) (d : nat) (s : schema) : bool :=
  match d with
  | O => false
  | S d' =>
    match s_kind s with
    | KAllOf l => forallb (fun r => match resolve sp r with Ok s' => piter_ok sp d' s' | Err _ => false end) l
    | _ => true
    end
  end.

Definition path_ok (path : str) : bool :=
  forallb (fun s => negb (starts_with (lit "{") s) || Nat.leb 2 (length s)) (split_char "/"%char path).

Definition body_ok (sp : spec) (d : nat) (br : sref) : bool :=
  match resolve sp br with
  | Err _ => false
  | Ok body =>
      match s_kind body with
      | KArray (Some i) => sref_ok sp d i
      | KArray None => true
      | _ => piter_ok sp d body &&
             match properties_iter d sp body with
             | Ok props => props_ok sp d props
             | Err _ => false
             end
      end
  end.

Definition has_success (o : operation) : bool :=
  existsb (fun c => existsb (fun r => N.eqb (fst r) c) (op_responses o)) success_codes.

Definition response_ok (sp : spec) (d : nat) (o : operation) : bool :=
  match get_res o with
  | Err _ => false
  | Ok None => true
  | Ok (Some (Ref n)) => sref_ok sp d (Ref n)
  | Ok (Some (Inl r)) => flat_ok sp d r && ty_walk sp d r
  end.

Definition operation_ok (sp : spec) (d : nat) (io : path_item * operation) : bool :=
  let '(item, o) := io in
  path_ok (pi_path item) &&
  forallb (fun p => sref_ok sp d (pa_schema p)) (op_params o) &&
  forallb (fun p => sref_ok sp d (pa_schema p)) (pi_params item) &&
  match op_body o with Some br => body_ok sp d br | None => true end &&
  response_ok sp d o.

Definition security_ok (sp : spec) : bool :=
  forallb (fun req => match req with
                      | [] => true
                      | n :: _ => match assoc (schemes sp) n with Some _ => true | None => false end
                      end) (security sp).

Definition spec_ok (d : nat) (sp : spec) : bool :=
  forallb (fun ns => schema_ok sp d (fst ns) (snd ns)) (components sp) &&
  forallb (operation_ok sp d) (all_operations sp) &&
  security_ok sp.
