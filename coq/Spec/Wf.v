(* Spec/Wf.v — the part of the supported domain D that the emission stage relies on, as decidable conditions on the
   table handed to the code generator (written from D's wording: names over the name alphabet with at least one
   letter or digit, references resolve, no schema contains itself, enums have values, operation modules are
   identifiers). The driver evaluates these on every extracted table, so the tie between D and them is checked
   on every run; the theorem of Proofs/TotalP.v is that they are sufficient for the emission to succeed. *)
From LN Require Export Model.Crate Spec.Ident.
Local Open Scope nat_scope.

Fixpoint ty_names_ok (x : ty) : bool :=
  match x with
  | TModel n => name_dom n
  | TArray i | THashMap i => ty_names_ok i
  | _ => true
  end.

(* the schema graph reachable from x — through members, aliases and list items — unfolds completely within depth d
   and every name on the way is a key of the table: no schema contains itself *)
Fixpoint fin_d (h : hirspec) (d : nat) (x : ty) : bool :=
  match d with
  | O => false
  | S d' =>
    match x with
    | TArray i => fin_d h d' i
    | TModel n =>
        match assoc (h_schemas h) n with
        | None => false
        | Some r => forallb (fun fl => fin_d h d' (f_ty fl)) (record_fields r)
        end
    | _ => true
    end
  end.

Definition w_variant (ename : str) (va : str * option str) : bool :=
  let n := match snd va with Some a => a | None => fst va end in
  match n with
  | [] => false
  | c :: _ => name_dom (if is_digit c then ename ++ n else n)
  end.

Definition w_field (kf : str * hfield) : bool := name_dom (fst kf) && ty_names_ok (f_ty (snd kf)).

Definition w_record (r : record) : bool :=
  match r with
  | RStruct n _ fs _ => name_dom n && forallb w_field fs
  | RNewType n fs _ => name_dom n && forallb (fun fl => ty_names_ok (f_ty fl)) fs
  | RAlias n fl => name_dom n && ty_names_ok (f_ty fl)
  | REnum n vs _ => name_dom n && forallb (w_variant n) vs && negb (match vs with [] => true | _ => false end)
  end.

Definition w_param (p : hparam) : bool := name_dom (p_name p) && ty_names_ok (p_ty p).

Definition url_template_ok (o : hop) : bool :=
  match fix_placeholders (length (o_path o)) (o_path o) with Ok _ => true | Err _ => false end.

Definition w_op (o : hop) : bool :=
  name_dom (o_name o) && ident_new_ok (o_method o) && ident_new_ok (op_file_name (o_name o)) &&
  forallb w_param (o_params o) && ty_names_ok (o_ret o) && url_template_ok o &&
  (negb (crowded_args o) || path_segment_ok (op_file_name (o_name o))).

Definition w_auth (a : authstrat) : bool :=
  match a with
  | AuthToken name fields => name_dom name && forallb (fun fl => name_dom (fst fl)) fields
  | _ => true
  end.

Definition w_cfg (cfg : config) : bool :=
  ident_new_ok (client_name (c_name cfg)) && name_dom (authenticator_name (c_name cfg)) &&
  path_segment_ok (package_name (c_name cfg)).

Definition all_types (h : hirspec) : list ty :=
  map f_ty (all_fields h) ++ flat_map (fun o => map p_ty (o_params o)) (h_ops h).

Definition hir_ok (d : nat) (h : hirspec) (cfg : config) : bool :=
  forallb (fun kr => name_dom (fst kr) && w_record (snd kr)) (h_schemas h) &&
  forallb w_op (h_ops h) && forallb w_auth (h_security h) && w_cfg cfg &&
  forallb (fin_d h d) (all_types h).
