(* Spec/Inputs.v — the declared inputs of an operation, straight from the OpenAPI document (C05):
   operation parameters, then path-item parameters that are not shadowed, then the request body:
   an array body or a body without properties is the single required input `body`; otherwise each property
   (flattened through $ref and allOf), required iff the member that declares it lists it and it is not nullable. *)
From LN Require Export Model.Extractor.

Definition dinput := (str * hloc * bool)%type.     (* name, location, required *)
Definition d_name (d : dinput) : str := fst (fst d).

Definition declared_param (p : param) : dinput := (pa_name p, loc_of (pa_loc p), pa_required p).

Definition add_new (l ds : list dinput) : list dinput :=
  fold_left (fun acc d => if existsb (fun x => str_eqb (d_name x) (d_name d)) acc then acc else acc ++ [d]) ds l.

Definition body_input : dinput := (lit "body", LBody, true).

Definition declared (fuel : nat) (sp : spec) (o : operation) (item : path_item) : result (list dinput) :=
  let base := add_new (map declared_param (op_params o)) (map declared_param (pi_params item)) in
  match op_body o with
  | None => Ok base
  | Some br =>
      do body <- resolve sp br;
      match s_kind body with
      | KArray _ => Ok (base ++ [body_input])
      | _ =>
          do props <- properties_iter fuel sp body;
          match props with
          | [] => Ok (base ++ [body_input])
          | _ =>
              do ds <- mapM (fun pr =>
                        let '(name, r) := pr in
                        do ps <- resolve sp r;
                        do req <- body_requires fuel sp body name;
                        Ok (name, LBody, req && negb (s_nullable ps))) props;
              Ok (add_new base ds)
          end
      end
  end.

Definition erase (p : hparam) : dinput := (p_name p, p_loc p, negb (p_optional p)).
