(* Extraction of the executable model. Only ExtrOcamlBasic and ExtrOcamlString directives are used. *)
From Coq Require Import Extraction ExtrOcamlBasic ExtrOcamlString.
From LN Require Import Sem.Request Sem.Serde Model.Chars Model.Case Model.Names Model.Fs Model.Adapters Model.OpenApi Model.Hir Model.Extractor Model.Shake Model.Emit Model.Crate Model.Macro Spec.Ident Spec.Wf Spec.WfSpec.
Extraction Language OCaml.
Set Extraction AccessOpaque.
Extraction "model.ml"
  Chars.lit Case.snake Case.pascal Case.screaming_snake Case.lower_case Case.flat
  Names.sanitize Names.sanitize_struct Names.sanitize_filename Names.is_restricted Names.ident_new_ok
  Names.op_file_name Names.op_name_of_id Names.qualified_env_var Names.package_name
  Ident.ident_ok Ident.name_dom
  Fs.gen Fs.crash Fs.crash_cleanup Fs.wwc Fs.in_scope
  Adapters.ser_str Adapters.de_str Adapters.ser_nz Adapters.de_nz Adapters.ser_date Adapters.de_date Adapters.valid_date
  Extractor.extract_without_treeshake Shake.extract_spec Shake.treeshake Shake.ListSet Hir.crowded_args Hir.server_strategy_of Hir.env_var_for_strategy Hir.safe_variant_names
  Emit.render Emit.model_mod_file Emit.model_file Emit.request_file Emit.request_mod_file Emit.lib_file Emit.serde_file Emit.example_file Emit.calculate_extras Emit.needs_serde Crate.emit_crate Crate.generate Crate.cli_config Wf.hir_ok WfSpec.spec_ok Macro.body_macro Macro.function_macro Macro.rfunction_macro Macro.render_rfn Macro.text_of Request.run_operation Request.auth_plan_of Serde.serde_struct.
