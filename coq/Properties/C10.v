(* Properties/C10.v — files marked `libninja: static` are never modified or deleted.
   [decode c] is what read_to_string sees: c itself for UTF-8 text (decode_id), "" otherwise.
   For every plan (= every spec and code generator), every prior tree, every path (generated or not, any depth). *)
From LN Require Import Model.Crate Model.Fs Proofs.FsP Proofs.CrateP Proofs.DetP.
Local Open Scope nat_scope.

Theorem C10_static_untouched : forall plan t p c, plan_wf plan -> wf t ->
  lookup t p = Some c -> has_static (decode c) = true -> lookup (gen plan t) p = Some c.
Proof. exact static_untouched. Qed.
Print Assumptions C10_static_untouched.

(* any number of generations with changing specs *)
Theorem C10_static_untouched_many : forall plans t p c, Forall plan_wf plans -> wf t ->
  lookup t p = Some c -> has_static (decode c) = true -> lookup (gens plans t) p = Some c.
Proof. exact static_untouched_many. Qed.
Print Assumptions C10_static_untouched_many.

(* the model's generation agrees pointwise with the abstract specification the corollaries are read from *)
Theorem C10_gen_refines : forall plan t p, plan_wf plan -> wf t -> lookup (gen plan t) p = gen_spec plan t p.
Proof. exact gen_refines. Qed.
Print Assumptions C10_gen_refines.

(* the same for the plan libninja actually has — every file of the generated crate, lib.rs in its two variants, any
   formatter: under D's distinctness of schema and operation names its paths are distinct, so the hypothesis on the
   plan is discharged and the statement is about the generator itself *)
Theorem C10_static_untouched_by_the_crate : forall fmt fuel h cfg tp plan t p c, schemas_distinct h -> ops_distinct h ->
  crate_plan fmt fuel h cfg tp = Ok plan -> wf t ->
  lookup t p = Some c -> has_static (decode c) = true -> lookup (gen plan t) p = Some c.
Proof. exact crate_static_untouched. Qed.
Print Assumptions C10_static_untouched_by_the_crate.

(* non-vacuity: a static file at a generated path, one at a stale path, both markers, nested directory *)
Theorem C10_nonvacuous :
  let plan := [ {| w_path := lit "src/lib.rs"; w_code := lit "NEW"; w_alt := None |} ] in
  let t := [ (lit "src/lib.rs", lit "// libninja: after x libninja: static y");
             (lit "src/old/deep/stale.rs", lit "a libninja: static");
             (lit "src/model/gone.rs", lit "plain") ] in
  plan_wf plan /\ wf t /\
  lookup (gen plan t) (lit "src/lib.rs") = Some (lit "// libninja: after x libninja: static y") /\
  lookup (gen plan t) (lit "src/old/deep/stale.rs") = Some (lit "a libninja: static") /\
  lookup (gen plan t) (lit "src/model/gone.rs") = None.
Proof.
  cbv zeta. split; [|split; [|vm_compute; repeat split; reflexivity]].
  - unfold plan_wf. cbn. constructor; [intros []|constructor].
  - unfold wf. cbn. repeat constructor; cbn; intuition discriminate.
Qed.
Print Assumptions C10_nonvacuous.
