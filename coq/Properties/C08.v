(* Properties/C08.v — each schema gets the documented Rust type, consistently across positions. *)
From LN Require Import Model.RustTy Model.Extractor Spec.DocTy Proofs.TyP.

(* the emitted owned type of a schema is the documented type, at ANY nesting depth
   (both sides fail together — alias cycle, unresolvable $ref — never one without the other) *)
Theorem C08_mapping_schema : forall fuel sp s,
  bind (schema_to_ty fuel sp s) to_rust_type = doc_schema fuel sp s.
Proof. exact schema_to_ty_doc. Qed.
Print Assumptions C08_mapping_schema.

Theorem C08_mapping_ref : forall fuel sp r,
  bind (schema_ref_to_ty fuel sp r) to_rust_type = doc_ref fuel sp r.
Proof. exact schema_ref_to_ty_doc. Qed.
Print Assumptions C08_mapping_ref.

(* the same schema reference gets the same type as a model field and as a parameter *)
Theorem C08_position_field : forall fuel sp props parent fs k f,
  extract_fields fuel sp props parent = Ok fs -> In (k, f) fs ->
  exists r, In (k, r) props /\ schema_ref_to_ty fuel sp r = Ok (f_ty f).
Proof. exact field_position. Qed.
Print Assumptions C08_position_field.

Theorem C08_position_param : forall fuel sp p hp,
  extract_param fuel sp p = Ok hp -> schema_ref_to_ty fuel sp (pa_schema p) = Ok (p_ty hp).
Proof. exact param_position. Qed.
Print Assumptions C08_position_param.

(* borrowed argument forms exactly for String and (nested) lists of strings *)
Theorem C08_borrowed_shape : forall t, is_reference_type t = true <-> strings_shape t.
Proof. exact reference_type_shape. Qed.
Print Assumptions C08_borrowed_shape.

Theorem C08_borrowed_only_there : forall t, is_reference_type t = false -> to_reference_type t = to_rust_type t.
Proof. exact borrowed_only_for_strings. Qed.
Print Assumptions C08_borrowed_only_there.

(* the result is taken from the first declared status among 200, 201, 202, 204, 302 *)
Theorem C08_result_status : forall o r, get_res o = Ok r ->
  exists pre c post, success_codes = pre ++ c :: post /\ In (c, r) (op_responses o) /\
                     (forall c' r', In c' pre -> ~ In (c', r') (op_responses o)).
Proof. exact result_status. Qed.
Print Assumptions C08_result_status.

Theorem C08_nonvacuous :
  let sp := {| components := [(lit "Id", Sch false None false false (KStr (lit "uuid") []));
                              (lit "Pet", Sch false None false false (KObject [] [] None))];
               paths := []; servers := []; security := []; schemes := []; ext_docs := None |} in
  doc_ref 10 sp (Inl (Sch false None false false (KArray (Some (Inl (Sch false None false false (KArray (Some (Ref (lit "Id"))))))))))
    = Ok (RVec (RVec RString)) /\
  doc_ref 10 sp (Inl (Sch false None false false (KArray (Some (Ref (lit "Pet")))))) = Ok (RVec (RNamed (lit "Pet"))) /\
  doc_ref 10 sp (Inl (Sch false None false true KInteger)) = Ok RNaiveDate /\
  doc_ref 10 sp (Inl (Sch true None false false (KAllOf [Ref (lit "Pet")]))) = Ok (RNamed (lit "Pet")).
Proof. vm_compute. repeat split; reflexivity. Qed.
Print Assumptions C08_nonvacuous.
