(* Properties/C02.v — the generated crate type-checks: the parts of that claim that are invariants of the generator.
   (Whether rustc accepts a given crate is decided by rustc in the compile run; these theorems cover, for EVERY
   spec and configuration, the mechanisms the property names.) *)
From LN Require Import Sem.Traits Proofs.NormP Proofs.CrateP Proofs.TypingP.

(* every module declared by model/mod.rs and request/mod.rs has its file, lib.rs and both mod.rs exist, and with
   examples enabled there is one example per operation *)
Theorem C02_modules_have_files : forall fuel h cfg tp files, emit_crate fuel h cfg tp = Ok files ->
  exists fnames, schema_file_names h = Ok fnames /\
    (forall f, In f fnames -> In (model_path f) (map fst files)) /\
    (forall o, In o (h_ops h) -> In (request_path o) (map fst files)) /\
    In (lit "src/model/mod.rs") (map fst files) /\ In (lit "src/request/mod.rs") (map fst files) /\
    In (lit "src/lib.rs") (map fst files) /\
    (c_examples cfg = true -> forall o, In o (h_ops h) -> In (example_path o) (map fst files)).
Proof. exact modules_have_files. Qed.
Print Assumptions C02_modules_have_files.

Theorem C02_model_mod_declares : forall h c, model_mod_file h = Ok c ->
  exists fnames ids, schema_file_names h = Ok fnames /\ mapM ident fnames = Ok ids /\
    c = concat (map (fun i => t "pub use" ++ i ++ t "::{*};") ids) ++ concat (map (fun i => t "mod" ++ i ++ t ";") ids) /\
    ids = map ts fnames.
Proof. exact model_mod_declares. Qed.
Print Assumptions C02_model_mod_declares.

Theorem C02_request_mod_declares : forall h c, request_mod_file h = Ok c ->
  exists l, c = concat l /\
    Forall2 (fun o item => exists s, struct_ident (request_struct_name (o_name o)) = Ok s /\
               item = t "pub mod" ++ ts (op_file_name (o_name o)) ++ t "; pub use" ++ ts (op_file_name (o_name o)) ++ t "::" ++ s ++ t ";")
            (h_ops h) l.
Proof. exact request_mod_declares. Qed.
Print Assumptions C02_request_mod_declares.

(* nothing is defined twice at the level of files/modules: with schema names and operation names distinct in their
   case-folded skeleton (D), no path is written twice *)
Theorem C02_nothing_written_twice : forall fuel h cfg tp files, schemas_distinct h -> ops_distinct h ->
  emit_crate fuel h cfg tp = Ok files -> NoDup (map fst files).
Proof. exact crate_paths_nodup. Qed.
Print Assumptions C02_nothing_written_twice.

(* `Default derive decided by implements_default`: a generated struct / tuple struct carries Default in its derive list
   only if every one of its field types has Default by Rust's rule, given what the other generated items derive *)
Theorem C02_default_bound_struct : forall fuel h cfg name fields docs c, make_class fuel h cfg name fields docs = Ok c ->
  exists dflt post, all_default fuel h (map snd fields) = Ok dflt /\
    c = doc_attr docs ++ derive_attr "Debug, Clone, Serialize, Deserialize" dflt cfg ++ post /\
    (dflt = true -> forall kf, In kf fields -> rust_default fuel fuel h (f_ty (snd kf)) = true).
Proof. exact class_default_bound. Qed.
Print Assumptions C02_default_bound_struct.

Theorem C02_default_bound_newtype : forall fuel h cfg name fields c, make_newtype fuel h cfg name fields = Ok c ->
  exists dflt post, all_default fuel h fields = Ok dflt /\
    c = derive_attr "Debug, Clone, Serialize, Deserialize" dflt cfg ++ post /\
    (dflt = true -> forall fl, In fl fields -> rust_default fuel fuel h (f_ty fl) = true).
Proof. exact newtype_default_bound. Qed.
Print Assumptions C02_default_bound_newtype.

(* `Required-struct lifetime parameter`: declared exactly when a field is printed with a reference type *)
Theorem C02_required_struct_lifetime : forall o c, crowded_args o = true -> required_struct o = Ok c ->
  exists nm fields,
    c = t "pub struct" ++ nm ++
        (if existsb (fun p => is_reference_type (p_ty p)) (required_params o) then t "< 'a >" else []) ++
        t "{" ++ concat fields ++ t "}" /\
    Forall2 (fun p fc => exists tyc id r, to_reference_type (p_ty p) = Ok r /\ tyc = rty_code_lt (t "'a") r /\
                           rty_has_ref r = is_reference_type (p_ty p) /\
                           fc = t "pub" ++ id ++ t ":" ++ tyc ++ t ",") (required_params o) fields.
Proof. exact required_struct_lifetime. Qed.
Print Assumptions C02_required_struct_lifetime.

(* trait bounds of to_string(): met whenever every rendered input has a Display type ... *)
Theorem C02_to_string_receivers : forall fuel h o, inputs_displayable fuel h o = true ->
  forall p x, In p (o_params o) -> to_string_receiver (request_plan (o_params o)) p = Some x -> rust_display fuel h x = true.
Proof. exact to_string_receivers_display. Qed.
Print Assumptions C02_to_string_receivers.

(* ... which D does not guarantee (open finding C02-input-type-without-display): the generator emits, without complaint,
   a request module that applies to_string() to a Vec<i64> *)
Theorem C02_display_refuted :
  (exists c, request_file nested_hir {| c_name := lit "Petstore"; c_derives := []; c_examples := false |} nested_op = Ok c) /\
  to_string_receiver (request_plan (o_params nested_op)) nested_param = Some (TArray (TInteger ISimple)) /\
  forall fuel, rust_display fuel nested_hir (TArray (TInteger ISimple)) = false.
Proof. exact display_refuted. Qed.
Print Assumptions C02_display_refuted.

Theorem C02_nonvacuous :
  let pet := RStruct (lit "Pet") false [(lit "name", {| f_ty := TString; f_optional := false; f_doc := None; f_flatten := false |});
                                        (lit "kind", {| f_ty := TModel (lit "Kind"); f_optional := false; f_doc := None; f_flatten := false |})] None in
  let kind := REnum (lit "Kind") [(lit "cat", None)] None in
  let h := {| h_ops := [nested_op]; h_schemas := [(lit "Kind", kind); (lit "Pet", pet)]; h_servers := []; h_security := []; h_docs_url := None |} in
  all_default 5%nat h (record_fields pet) = Ok false /\ rust_display 5%nat h (TModel (lit "Kind")) = true /\
  schemas_distinct h /\ ops_distinct h /\
  exists files, emit_crate 20%nat h {| c_name := lit "Petstore"; c_derives := []; c_examples := true |}
                  {| tp_null_as_zero := []; tp_date_as_int := []; tp_int_as_str := [] |} = Ok files /\ length files = 7%nat.
Proof.
  cbv zeta. split; [vm_compute; reflexivity|]. split; [vm_compute; reflexivity|].
  split. { split; [repeat constructor|]. vm_compute. repeat constructor; cbn; intuition discriminate. }
  split. { unfold ops_distinct. vm_compute. repeat constructor. intros []. }
  eexists. split; vm_compute; reflexivity.
Qed.
Print Assumptions C02_nonvacuous.
