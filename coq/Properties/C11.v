(* Properties/C11.v — text up to the first `libninja: after` is kept; the rest equals the fresh generation. *)
From LN Require Import Model.Fs Proofs.FsP.
Local Open Scope nat_scope.

(* pre ++ MARK ++ rest with the FIRST directive at |pre|: afterwards the file is pre ++ MARK ++ "\n" ++ fresh code;
   for lib.rs (w_alt = Some alt) the fresh code lacks the generated default_http_client iff pre mentions it *)
Theorem C11_after_kept : forall plan t p w pre rest, plan_wf plan -> wf t ->
  find_wr plan p = Some w ->
  lookup t p = Some (pre ++ MARK_AFTER ++ rest) ->
  utf8_valid (pre ++ MARK_AFTER ++ rest) = true ->
  has_static (pre ++ MARK_AFTER ++ rest) = false ->
  find_sub MARK_AFTER (pre ++ MARK_AFTER ++ rest) = Some (length pre) ->
  lookup (gen plan t) p =
    Some (pre ++ MARK_AFTER ++ NL ++
          match w_alt w with
          | Some alt => if contains DHC pre then alt else w_code w
          | None => w_code w
          end).
Proof. exact after_kept. Qed.
Print Assumptions C11_after_kept.

(* the directive survives at the same place, so the statement applies again on every later generation *)
Theorem C11_again : forall pre rest code,
  utf8_valid (pre ++ MARK_AFTER ++ rest) = true ->
  has_static (pre ++ MARK_AFTER ++ rest) = false ->
  find_sub MARK_AFTER (pre ++ MARK_AFTER ++ rest) = Some (length pre) ->
  has_static code = false -> utf8_valid code = true ->
  find_sub MARK_AFTER (pre ++ MARK_AFTER ++ NL ++ code) = Some (length pre) /\
  has_static (pre ++ MARK_AFTER ++ NL ++ code) = false /\
  utf8_valid (pre ++ MARK_AFTER ++ NL ++ code) = true.
Proof. exact after_again. Qed.
Print Assumptions C11_again.

Theorem C11_nonvacuous :
  let plan := [ {| w_path := lit "src/lib.rs"; w_code := lit "fn default_http_client(){} REST"; w_alt := Some (lit "REST") |};
                {| w_path := lit "src/model/a.rs"; w_code := lit "A2"; w_alt := None |} ] in
  let t := [ (lit "src/lib.rs", lit "fn default_http_client(){mine} // libninja: after OLD libninja: after");
             (lit "src/model/a.rs", lit "use x; /* libninja: after */ OLDER") ] in
  lookup (gen plan t) (lit "src/lib.rs") = Some (lit "fn default_http_client(){mine} // libninja: after" ++ NL ++ lit "REST") /\
  lookup (gen plan t) (lit "src/model/a.rs") = Some (lit "use x; /* libninja: after" ++ NL ++ lit "A2").
Proof. vm_compute. split; reflexivity. Qed.
Print Assumptions C11_nonvacuous.
