(* Properties/C04.v — generated models round-trip the JSON the schema describes (struct / enum level). *)
From LN Require Import Sem.Serde Proofs.SerdeP.

(* every property travels under its exact OpenAPI name, whatever Rust identifier it received;
   the only members without a key of their own are the flattened allOf members *)
Theorem C04_names : forall name f d, field_desc name f = Ok d ->
  wire_key d = Some name \/ (wire_key d = None /\ f_flatten f = true).
Proof. exact wire_key_exact. Qed.
Print Assumptions C04_names.

(* allOf $ref members (named after a component, so with an upper-case initial) are read and written at the same level *)
Theorem C04_flatten : forall name f d c0 rest,
  name = c0 :: rest -> is_upper c0 = true -> f_flatten f = true -> field_desc name f = Ok d -> fd_wire d = WFlatten.
Proof. exact component_member_flattened. Qed.
Print Assumptions C04_flatten.

(* a required, non-nullable string / number / boolean / object member carries neither Option nor default ... *)
Theorem C04_required_desc : forall name f d, plain_required f = true -> field_desc name f = Ok d ->
  fd_default_skip d = None /\ fd_option d = false.
Proof. exact required_member_desc. Qed.
Print Assumptions C04_required_desc.
(* ... so an instance lacking it is rejected rather than silently filled in *)
Theorem C04_missing_required : forall ds d obj k,
  In d ds -> wire_key d = Some k -> fd_default_skip d = None -> fd_option d = false ->
  assoc obj k = None -> de_struct ds obj = None.
Proof. exact missing_required_rejected. Qed.
Print Assumptions C04_missing_required.

(* deserialise then serialise: the same members, up to omission of null / absent optional members and empty arrays *)
Theorem C04_struct_roundtrip : forall ds obj vs,
  (forall d, In d ds -> fd_with d = None) ->
  (forall d k, In d ds -> wire_key d = Some k -> fd_default_skip d = None -> fd_option d = true -> assoc obj k <> None) ->
  de_struct ds obj = Some vs -> ser_struct ds vs = normalize ds obj.
Proof. exact struct_roundtrip. Qed.
Print Assumptions C04_struct_roundtrip.

(* enum values travel as their exact strings; distinct values stay distinct *)
Theorem C04_enum_exact : forall idn value, variant_wire idn value = value.
Proof. exact variant_wire_exact. Qed.
Print Assumptions C04_enum_exact.
Theorem C04_enum_injective : forall i1 v1 i2 v2, v1 <> v2 -> variant_wire i1 v1 <> variant_wire i2 v2.
Proof. exact variant_wire_injective. Qed.
Print Assumptions C04_enum_injective.

Theorem C04_nonvacuous :
  let f (t0 : ty) (o : bool) := {| f_ty := t0; f_optional := o; f_doc := None; f_flatten := false |} in
  exists d1 d2 d3, field_desc (lit "userId") (f TString false) = Ok d1 /\ field_desc (lit "tags") (f (TArray TString) false) = Ok d2 /\
    field_desc (lit "note") (f TString true) = Ok d3 /\
    wire_key d1 = Some (lit "userId") /\ fd_ident d1 = lit "user_id" /\
    de_struct [d1; d2; d3] [(lit "tags", JArr []); (lit "note", JNull)] = None /\
    de_struct [d1; d2; d3] [(lit "userId", JStr (lit "u")); (lit "extra", JNull)] = Some [JStr (lit "u"); JArr []; JNull] /\
    ser_struct [d1; d2; d3] [JStr (lit "u"); JArr []; JNull] = [(lit "userId", JStr (lit "u"))].
Proof. do 3 eexists. vm_compute. repeat split; reflexivity. Qed.
Print Assumptions C04_nonvacuous.
