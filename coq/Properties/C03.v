(* Properties/C03.v — requests go out with the spec's method, path and parameter names. *)
From LN Require Import Spec.Request Proofs.RequestP Proofs.EmitP Proofs.UrlP.

(* the emitted request module builds its request with: the operation's verb, the URL of make_url, and the
   printed plan of the operation's inputs — nothing else touches `r` before it is sent (except authenticate) *)
Theorem C03_module_shape : forall h cfg o c, request_file h cfg o = Ok c ->
  exists pre post sname output url assigns,
    c = pre ++ into_future_impl (has_security h) sname output url (ts (o_method o)) assigns ++ post /\
    make_url o = Ok url /\ print_plan (request_plan (o_params o)) = Ok assigns.
Proof. exact request_calls_authenticate. Qed.
Print Assumptions C03_module_shape.

(* executing that plan against the (modelled) request builder, for every choice of supplied optional inputs:
   every supplied query / header / cookie / body input appears at its declared location under its exact OpenAPI
   name (`name[]` for array-valued query parameters), unset ones are absent, nothing else is sent *)
Theorem C03_request_parts : forall ps ar verb url l,
  request_plan ps = PAssigns l -> (forall p, In p ps -> shape_ok ar p) ->
  exists r', run_plan ps ar (start verb url) = Ok r' /\
    r_verb r' = verb /\ r_url r' = url /\
    r_query r' = expected_query ps ar /\ r_headers r' = expected_headers ps ar /\
    r_cookies r' = expected_cookies ps ar /\ r_body r' = expected_body ps ar.
Proof. exact request_parts. Qed.
Print Assumptions C03_request_parts.

(* the hypothesis `request_plan = PAssigns` is forced: when every non-path input is a query parameter the code
   sends `set_query(self.params)` instead, and the property fails (open finding) *)
Theorem C03_shortcut_refuted :
  exists ps ar r', request_plan ps = PSetQuery /\ (forall p, In p ps -> shape_ok ar p) /\
    run_plan ps ar (start (lit "get") (lit "/x")) = Ok r' /\ r_query r' <> expected_query ps ar.
Proof. exact shortcut_refuted. Qed.
Print Assumptions C03_shortcut_refuted.

(* the URL, for every path template (literal pieces and {name} placeholders, names of any characters but braces):
   the format string make_url emits is the template with each placeholder renamed to the identifier of the named
   argument that carries the value of the path parameter of that name ... *)
Theorem C03_url_format_string : forall o t args,
  o_path o = render_tpl t -> forallb part_ok t = true ->
  (forall n, In (PHole n) t -> exists i, sanitize n = Ok i) ->
  filter is_path (o_params o) <> [] ->
  mapM (fun p => do id <- field_ident (p_name p); Ok (id ++ Emit.t "= self.params ." ++ id)) (filter is_path (o_params o)) = Ok args ->
  make_url o = Ok (Emit.t "& format!(" ++ sl (render_tpl (map rename_part t)) ++ Emit.t "," ++ sep_by (Emit.t ",") args ++ Emit.t ")").
Proof. exact make_url_template. Qed.
Print Assumptions C03_url_format_string.

(* ... and the URL a request must go to (Sem/Request.v, compared with the recorded request of every executed call) is
   the literal pieces with each placeholder replaced by the value given for the parameter of that name *)
Theorem C03_url_value : forall t ar fuel,
  forallb part_ok t = true ->
  (forall n, In (PHole n) t -> exists v, arg_of ar n = Some (AScalar v)) ->
  (length (render_tpl t) <= fuel)%nat ->
  subst_url fuel (render_tpl t) ar = concat (map (value_of ar) t).
Proof. exact subst_url_template. Qed.
Print Assumptions C03_url_value.

Theorem C03_url_nonvacuous :
  let t := [PLit (lit "/v1.0/pets/"); PHole (lit "pet-id"); PLit (lit "/owners/"); PHole (lit "user.id")] in
  let ar := [(lit "pet-id", Some (AScalar (lit "7"))); (lit "user.id", Some (AScalar (lit "ann")))] in
  forallb part_ok t = true /\ render_tpl t = lit "/v1.0/pets/{pet-id}/owners/{user.id}" /\
  fix_placeholders 50 (render_tpl t) = Ok (lit "/v1.0/pets/{pet_id}/owners/{user_id}") /\
  subst_url 50 (render_tpl t) ar = lit "/v1.0/pets/7/owners/ann".
Proof. vm_compute. repeat split; reflexivity. Qed.
Print Assumptions C03_url_nonvacuous.

Theorem C03_nonvacuous :
  let ps := [ {| p_name := lit "X-Trace"; p_ty := TString; p_loc := LHeader; p_optional := true; p_doc := None |};
              {| p_name := lit "tags"; p_ty := TArray TString; p_loc := LQuery; p_optional := false; p_doc := None |};
              {| p_name := lit "id"; p_ty := TString; p_loc := LPath; p_optional := false; p_doc := None |};
              {| p_name := lit "note"; p_ty := TString; p_loc := LBody; p_optional := true; p_doc := None |} ] in
  let ar := [ (lit "tags", Some (AList [lit "a"; lit "b"])); (lit "id", Some (AScalar (lit "7"))); (lit "X-Trace", None);
              (lit "note", Some (AScalar (lit "hi"))) ] in
  exists l, request_plan ps = PAssigns l /\
  expected_query ps ar = [(lit "tags[]", lit "a"); (lit "tags[]", lit "b")] /\ expected_headers ps ar = [] /\
  expected_body ps ar = [(lit "note", AScalar (lit "hi"))].
Proof. eexists. vm_compute. repeat split; reflexivity. Qed.
Print Assumptions C03_nonvacuous.
