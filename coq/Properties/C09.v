(* Properties/C09.v — the output is a pure function of the document and the configuration.
   In the model this is partly by construction: Crate.generate is a Gallina function of (spec, config, templates) and the
   tree machine of Fs.v works on paths relative to the output directory, so process, hash seed, working directory and
   output location are not even arguments. What needs proof is that the places where the IMPLEMENTATION uses unordered
   or stateful things cannot leak: hash sets are used for membership only, and an earlier generation on disk does not
   influence the next one. That the implementation agrees with this model — per process, per location, per input syntax
   — is what the determinism run checks (five processes per case, JSON and YAML, fresh / other location / in place). *)
From LN Require Import Model.Crate Model.Fs Proofs.ShakeP Proofs.FsP Proofs.CrateP Proofs.DetP Proofs.FuelP.

(* pruning does not depend on how the set of used names is implemented (iteration order, hashing): any two lawful
   set implementations give the same table *)
Theorem C09_set_independent : forall I1 I2, SetOK I1 -> SetOK I2 -> forall h, treeshake I1 h = treeshake I2 h.
Proof. exact treeshake_set_independent. Qed.
Print Assumptions C09_set_independent.

(* under D's distinctness of names, one run never writes a path twice (so the order of writes cannot matter) *)
Theorem C09_plan_wf : forall fmt fuel h cfg tp plan, schemas_distinct h -> ops_distinct h ->
  crate_plan fmt fuel h cfg tp = Ok plan -> plan_wf plan.
Proof. exact crate_plan_wf. Qed.
Print Assumptions C09_plan_wf.

(* `whether the output directory was empty or already held a previous generation`: generating over the result of a
   generation — started from ANY earlier tree — yields the same tree again (for generated text free of directives,
   see the C12 finding) *)
Theorem C09_regenerate_in_place : forall fmt fuel h cfg tp plan t p, schemas_distinct h -> ops_distinct h ->
  crate_plan fmt fuel h cfg tp = Ok plan -> markers_free plan -> wf t ->
  lookup (gen plan (gen plan t)) p = lookup (gen plan t) p.
Proof. exact regenerate_in_place. Qed.
Print Assumptions C09_regenerate_in_place.

Theorem C09_fresh_then_again : forall fmt fuel h cfg tp plan p, schemas_distinct h -> ops_distinct h ->
  crate_plan fmt fuel h cfg tp = Ok plan -> markers_free plan ->
  lookup (gen plan (gen plan [])) p = lookup (gen plan []) p.
Proof. exact fresh_then_again. Qed.
Print Assumptions C09_fresh_then_again.

(* the written tree does not depend on anything else that was in scope before: stale generated files are removed,
   so two directories with different leftovers converge to the same in-scope content *)
Theorem C09_in_scope_content_is_the_plan : forall plan t p, plan_wf plan -> wf t -> in_scope p = true ->
  (lookup (gen plan t) p <> None <->
   planned plan p = true \/ exists c, lookup t p = Some c /\ has_static (decode c) = true).
Proof. exact cleanup_exact. Qed.
Print Assumptions C09_in_scope_content_is_the_plan.

(* the model's own recursion budget is not an input either: any two fuels at which the pipeline answers give the same crate *)
Theorem C09_fuel_is_not_an_input : forall sp cfg tp f g x y,
  generate f sp cfg tp = Ok x -> generate g sp cfg tp = Ok y -> x = y.
Proof. exact generate_deterministic_in_fuel. Qed.
Print Assumptions C09_fuel_is_not_an_input.

Theorem C09_nonvacuous :
  SetOK ListSet /\
  let plan := [ {| w_path := lit "src/lib.rs"; w_code := lit "L"; w_alt := None |};
                {| w_path := lit "src/model/a.rs"; w_code := lit "A"; w_alt := None |} ] in
  gen plan (gen plan [(lit "src/model/old.rs", lit "stale")]) = gen plan [] /\ gen plan [] = [(lit "src/lib.rs", lit "L"); (lit "src/model/a.rs", lit "A")].
Proof. split; [exact ListSet_ok|]. cbv zeta. split; vm_compute; reflexivity. Qed.
Print Assumptions C09_nonvacuous.
