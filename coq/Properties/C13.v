(* Properties/C13.v — every name becomes a valid, keyword-free Rust identifier.
   Nothing here but statements pinned to lemmas and their assumptions. *)
From LN Require Import Model.Names Spec.Ident Proofs.NamesP.

(* field / argument / method / schema-module form *)
Theorem C13_field_form : forall s, name_dom s = true ->
  exists r, sanitize s = Ok r /\ ident_ok r = true.
Proof. exact sanitize_ident_ok. Qed.
Print Assumptions C13_field_form.

(* type form *)
Theorem C13_type_form : forall s, name_dom s = true ->
  exists r, sanitize_struct s = Ok r /\ ident_ok r = true.
Proof. exact sanitize_struct_ident_ok. Qed.
Print Assumptions C13_type_form.

(* the file / module name of a schema is the field form *)
Theorem C13_schema_module : forall s, name_dom s = true ->
  exists r, sanitize_filename s = Ok r /\ ident_ok r = true.
Proof. exact sanitize_ident_ok. Qed.
Print Assumptions C13_schema_module.

(* the file / module name of an operation, for every operationId of D *)
Theorem C13_operation_module : forall id, opid_dom id = true ->
  ident_ok (op_file_name (op_name_of_id id)) = true.
Proof. exact op_module_ident_ok. Qed.
Print Assumptions C13_operation_module.

(* the hypotheses are satisfiable by non-trivial names (keyword, leading digit, separators, acronym) *)
Theorem C13_nonvacuous :
  name_dom (lit "in") = true /\ name_dom (lit "2fa.HTTPRequest/x") = true /\ opid_dom (lit "type") = true
  /\ sanitize (lit "in") = Ok (lit "in_") /\ sanitize (lit "SdAddress.contractor1099") = Ok (lit "sd_address_contractor1099")
  /\ sanitize_struct (lit "self") = Ok (lit "Self_") /\ op_file_name (op_name_of_id (lit "type")) = lit "type_".
Proof. vm_compute. repeat split; reflexivity. Qed.
Print Assumptions C13_nonvacuous.

(* the crate name imported by every example (`use <pkg>::...`): snake-shaped for every service name over [A-Za-z0-9_ -];
   an identifier exactly when it does not begin with a digit *)
Theorem C13_package_name : forall svc, forallb ad svc = true -> existsb is_alnum svc = true ->
  good (package_name svc) = true /\
  ident_new_ok (package_name svc) = negb (match package_name svc with c :: _ => is_digit c | [] => false end).
Proof. exact package_name_shape. Qed.
Print Assumptions C13_package_name.

Example C13_package_name_nonvacuous :
  forallb ad (lit "Pet-Store v2") = true /\ existsb is_alnum (lit "Pet-Store v2") = true
  /\ package_name (lit "Pet-Store v2") = lit "pet_store_v_2" /\ ident_new_ok (package_name (lit "2Checkout")) = false.
Proof. vm_compute. repeat split; reflexivity. Qed.
