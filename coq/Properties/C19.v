(* Properties/C19.v — the emitted serde adapters round-trip their value space. *)
From LN Require Import Model.Adapters Proofs.AdaptersP.
From Coq Require Import ZArith.
Open Scope Z_scope.

(* integers carried as strings: all i64, None <-> "" *)
Theorem C19_str_rt : forall z, is_i64 z = true -> de_str (ser_str (Some z)) = DOk (Some z).
Proof. exact str_roundtrip. Qed.
Print Assumptions C19_str_rt.
Theorem C19_str_rt_none : de_str (ser_str None) = DOk None.
Proof. exact str_roundtrip_none. Qed.
Print Assumptions C19_str_rt_none.
(* a wire value that deserialises to a present value IS a string denoting exactly that integer *)
Theorem C19_str_malformed : forall w z, de_str w = DOk (Some z) ->
  exists s, w = WStr s /\ denotes_int s z /\ is_i64 z = true.
Proof. exact str_malformed. Qed.
Print Assumptions C19_str_malformed.

(* integers where zero stands for absent *)
Theorem C19_zero_rt : forall z, is_i64 z = true ->
  de_nz (ser_nz (Some z)) = DOk (if z =? 0 then None else Some z).
Proof. exact nz_roundtrip. Qed.
Print Assumptions C19_zero_rt.
Theorem C19_zero_rt_none : de_nz (ser_nz None) = DOk None.
Proof. exact nz_roundtrip_none. Qed.
Print Assumptions C19_zero_rt_none.
Theorem C19_zero_malformed : forall w v, de_nz w = DOk (Some v) -> w = WInt v /\ v <> 0 /\ v <= I64_MAX.
Proof. exact nz_malformed. Qed.
Print Assumptions C19_zero_malformed.

(* dates carried as YYYYMMDD integers, years 1..9999, proleptic Gregorian validity *)
Theorem C19_date_rt : forall y m d, 1 <= y <= 9999 -> valid_date y m d = true ->
  de_date (ser_date (Some (y, m, d))) = DOk (Some (y, m, d)).
Proof. exact date_roundtrip. Qed.
Print Assumptions C19_date_rt.
Theorem C19_date_rt_none : de_date (ser_date None) = DOk None.
Proof. exact date_roundtrip_none. Qed.
Print Assumptions C19_date_rt_none.
Theorem C19_date_malformed : forall w y m d, de_date w = DOk (Some (y, m, d)) ->
  exists z, w = WInt z /\ z = y * 10000 + m * 100 + d /\ valid_date y m d = true.
Proof. exact date_malformed. Qed.
Print Assumptions C19_date_malformed.

Theorem C19_nonvacuous :
  is_i64 (-9223372036854775808) = true /\ valid_date 2024 2 29 = true /\ valid_date 2023 2 29 = false /\
  ser_str (Some (-9223372036854775808)) = WStr (lit "-9223372036854775808") /\
  de_nz (WInt 18446744073709551615) = DErr /\ de_date (WInt 42949693200101) = DOk None /\
  de_str (WStr (lit "+5")) = DOk (Some 5) /\ de_str (WStr (lit " 5")) = DErr.
Proof. vm_compute. repeat split; reflexivity. Qed.
Print Assumptions C19_nonvacuous.

(* ---------- emitted exactly when needed ---------- *)
From LN Require Import Model.Emit Proofs.EmitP.

(* serde.rs (and `mod serde;`, which lib_file emits under the same condition) exists iff some retained field has
   one of the three adapter types *)
Theorem C19_emitted_iff : forall h tp,
  (exists c, serde_file h tp = Some c) <-> existsb (fun f => adapter_ty (f_ty f)) (all_fields h) = true.
Proof. intros h tp. rewrite serde_file_iff, needs_serde_iff. reflexivity. Qed.
Print Assumptions C19_emitted_iff.

(* every `with = "crate::serde::<adapter>"` on a field is backed by that module in serde.rs *)
Theorem C19_str_backed : forall h tp k r f, In (k, r) (h_schemas h) -> In f (record_fields r) -> f_ty f = TInteger IString ->
  exists c, serde_file h tp = Some c /\ In (Txt (tp_int_as_str tp)) c.
Proof. exact with_str_backed. Qed.
Print Assumptions C19_str_backed.
Theorem C19_zero_backed : forall h tp k r f, In (k, r) (h_schemas h) -> In f (record_fields r) -> f_ty f = TInteger INullAsZero ->
  exists c, serde_file h tp = Some c /\ In (Txt (tp_null_as_zero tp)) c.
Proof. exact with_naz_backed. Qed.
Print Assumptions C19_zero_backed.
Theorem C19_date_backed : forall h tp k r f, In (k, r) (h_schemas h) -> In f (record_fields r) -> f_ty f = TDate DInteger ->
  exists c, serde_file h tp = Some c /\ In (Txt (tp_date_as_int tp)) c.
Proof. exact with_date_backed. Qed.
Print Assumptions C19_date_backed.
