(* Properties/C16.v — every operation has an example that exercises all its inputs (emission part). *)
From LN Require Import Model.Emit Proofs.EmitP.

(* one `let` per required input, passed positionally or as the fields of the required-arguments struct, one chained
   setter per optional input, the operation's own method called once, awaited once *)
Theorem C16_example_complete : forall fuel h cfg o c, example_file fuel h cfg o = Ok c ->
  exists decls fn_args optionals cid opid imp3,
    mapM (fun p => do id <- field_ident (p_name p); do v <- example_value fuel h (p_ty p) (p_name p) true;
                   Ok (t "let" ++ id ++ t "=" ++ v ++ t ";")) (required_params o) = Ok decls /\
    mapM (fun p => do id <- field_ident (p_name p); do v <- example_value fuel h (p_ty p) (p_name p) true;
                   Ok (t "." ++ id ++ t "(" ++ v ++ t ")")) (optional_params o) = Ok optionals /\
    field_ident (o_name o) = Ok opid /\
    c = t "#![allow(unused_imports)] use" ++ ts (package_name (c_name cfg)) ++ t ":: model :: * ; use" ++ ts (package_name (c_name cfg)) ++ t ":: {" ++ cid ++ t "};" ++ imp3 ++
        t "#[tokio::main] async fn main() { let client =" ++ cid ++ t "::from_env();" ++ concat decls ++
        t "let response = client ." ++ opid ++ t "(" ++ fn_args ++ t ")" ++ concat optionals ++
        t ".await.unwrap(); println!(" ++ sl (lit "{:#?}") ++ t ", response); }".
Proof. exact example_shape. Qed.
Print Assumptions C16_example_complete.

(* `terminates for every schema graph, including recursive ones` is FALSE of the code: the synthesis of a value for a
   schema that contains itself never returns, whatever the fuel (the real process overflows its stack) — open finding *)
Theorem C16_terminates_refuted : forall fuel name b, example_value fuel node_hir (TModel (lit "Node")) name b = Err EDiverge.
Proof. exact example_diverges_on_cycle. Qed.
Print Assumptions C16_terminates_refuted.

Theorem C16_nonvacuous :
  let h := {| h_ops := []; h_schemas := [(lit "Color", REnum (lit "Color") [(lit "2tone", None); (lit "red", None)] None)];
              h_servers := []; h_security := []; h_docs_url := None |} in
  exists c1 c2, example_value 10 h (TArray TString) (lit "petTags") true = Ok c1 /\ render c1 = lit "& [ ""your pet tags"" ]" /\
                example_value 10 h (TModel (lit "Color")) (lit "c") true = Ok c2 /\ render c2 = lit "Color :: Color2Tone".
Proof. do 2 eexists. vm_compute. repeat split; reflexivity. Qed.
Print Assumptions C16_nonvacuous.
