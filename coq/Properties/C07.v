(* Properties/C07.v — the schema table is closed; nothing reachable is shaken out. *)
From LN Require Import Model.Shake Proofs.ShakeP Proofs.ExtractP.

(* after extraction + pruning, every mentioned model name denotes a schema of the table —
   for every document none of whose components is an array with inline items (the one shape
   registered only under an invented name: open finding, refuted below) *)
Theorem C07_closed : forall fuel sp h,
  (forall c s, In (c, s) (components sp) -> array_inline s = false) ->
  extract_spec fuel sp = Ok h -> closed h.
Proof. exact extract_spec_closed. Qed.
Print Assumptions C07_closed.

(* a pruning pass keeps every schema that anything mentions, and the table stays closed *)
Theorem C07_pass_keeps_mentioned : forall h n,
  mentions h n -> In n (names h) -> In n (names (remove_unused ListSet h)).
Proof. exact (remove_unused_keeps_mentioned ListSet ListSet_ok). Qed.
Print Assumptions C07_pass_keeps_mentioned.

Theorem C07_treeshake_closed : forall h h', closed h -> treeshake ListSet h = Ok h' -> closed h'.
Proof. exact (treeshake_closed ListSet ListSet_ok). Qed.
Print Assumptions C07_treeshake_closed.

(* whatever is reachable from the operations is still reachable after a pass, so it survives the next one too *)
Theorem C07_reachable_survives : forall h n, uniq_keys h -> closed h ->
  reach h n -> reach (remove_unused ListSet h) n.
Proof. exact (reach_pass ListSet ListSet_ok). Qed.
Print Assumptions C07_reachable_survives.

(* the hypothesis of C07_closed is forced: an array component with inline items, referenced, dangles *)
Theorem C07_closed_refuted_array_component :
  exists sp h, extract_spec 50 sp = Ok h /\ ~ closed h.
Proof.
  set (obj := Sch false None false false (KObject [(lit "name", Inl (Sch false None false false (KStr [] [])))] [lit "name"] None)).
  set (sp := {| components := [(lit "Pets", Sch false None false false (KArray (Some (Inl obj))))];
                paths := [ {| pi_path := lit "/pets"; pi_params := [];
                             pi_ops := [ {| op_method := lit "get"; op_id := Some (lit "listPets"); op_summary := None;
                                            op_description := None; op_ext_docs := None; op_params := []; op_body := None;
                                            op_responses := [(200%N, Some (Ref (lit "Pets")))] |} ] |} ];
                servers := []; security := []; schemes := []; ext_docs := None |}).
  destruct (extract_spec 50 sp) as [h|e] eqn:E; [|vm_compute in E; discriminate].
  exists sp, h. split; [exact E|]. intros Hc.
  assert (Hm : mentions h (lit "Pets")).
  { vm_compute in E. inversion E; subst h. left. eexists. split; [left; reflexivity|]. left. reflexivity. }
  specialize (Hc _ Hm). vm_compute in E. inversion E; subst h. cbn in Hc. intuition discriminate.
Qed.
Print Assumptions C07_closed_refuted_array_component.
