(* Properties/C01.v — generation is total: the emission stage (everything after extraction) produces the complete
   crate for EVERY well-formed table; the one shape of D on which it does not — a schema that contains itself — is
   refuted for every fuel (open finding). Extraction (with pruning) is total on every document satisfying the decidable
   condition spec_ok. That the table extracted from a spec_ok document is hir_ok is NOT proved; the correspondence run
   evaluates both predicates on every generated document and its extracted table and reports the counts. *)
From LN Require Import Spec.Wf Spec.WfSpec Proofs.CrateP Proofs.EmitP Proofs.TotalP Proofs.FuelP Proofs.ExtractTotalP.
Local Open Scope nat_scope.

(* extraction and pruning never fail and never run out of fuel on a document whose references resolve within depth d,
   whose operations have a success response and whose security requirements name declared schemes *)
Theorem C01_extraction_total : forall d sp fuel, spec_ok d sp = true -> 1 <= fuel -> d <= fuel ->
  exists h, extract_spec fuel sp = Ok h.
Proof. exact extract_spec_total. Qed.
Print Assumptions C01_extraction_total.

(* no Err (= no panic), no fuel exhaustion (= no runaway recursion): a crate comes out *)
Theorem C01_emission_total : forall d h cfg tp fuel, hir_ok d h cfg = true -> d <= fuel ->
  exists files, emit_crate fuel h cfg tp = Ok files.
Proof. exact emit_crate_total. Qed.
Print Assumptions C01_emission_total.

(* the two halves joined: the whole pipeline answers with a crate *)
Theorem C01_generate_total : forall d d' sp cfg tp fuel, spec_ok d sp = true -> 1 <= fuel -> d <= fuel -> d' <= fuel ->
  (forall h, extract_spec fuel sp = Ok h -> hir_ok d' h (cli_config cfg) = true) ->
  exists files, generate fuel sp cfg tp = Ok files.
Proof.
  intros d d' sp cfg tp fuel Hs H1 Hd Hd' Hh. destruct (extract_spec_total d sp fuel Hs H1 Hd) as [h Eh].
  unfold generate. rewrite Eh. cbn [bind]. exact (emit_crate_total d' h (cli_config cfg) tp fuel (Hh h Eh) Hd').
Qed.
Print Assumptions C01_generate_total.

(* and it is complete: model/mod.rs, one file per schema, one per operation, request/mod.rs, lib.rs, serde.rs when
   adapters are needed, one example per operation exactly when examples are enabled — in this order *)
Theorem C01_complete_crate : forall fuel h cfg tp files, emit_crate fuel h cfg tp = Ok files ->
  exists fnames, schema_file_names h = Ok fnames /\
    map fst files = lit "src/model/mod.rs" :: map model_path fnames ++ map request_path (h_ops h) ++
                    [lit "src/request/mod.rs"; lit "src/lib.rs"] ++ map fst (serde_entries h tp) ++
                    (if c_examples cfg then map example_path (h_ops h) else []).
Proof. exact crate_paths. Qed.
Print Assumptions C01_complete_crate.

(* `recursive schemas are part of the domain`: FALSE of the code. For a schema that contains itself no fuel suffices —
   the model's fuel exhaustion is the real process overflowing its stack — and the finiteness hypothesis of
   C01_emission_total is exactly what fails *)
Theorem C01_recursive_refuted : forall cfg tp fuel, emit_crate fuel node_hir cfg tp = Err EDiverge.
Proof. exact emit_diverges_on_cycle. Qed.
Print Assumptions C01_recursive_refuted.

Theorem C01_recursive_not_finite : forall d, fin_d node_hir d (TModel (lit "Node")) = false.
Proof. exact node_not_finite. Qed.
Print Assumptions C01_recursive_not_finite.

(* the fuel of the model is not a parameter of the answer: once the whole pipeline (extraction, pruning, every file)
   answers at some fuel, every larger fuel gives the same crate. The driver's fuel is therefore irrelevant to what the
   implementation is compared with, and running out of fuel is the only outcome more fuel can change. *)
Theorem C01_fuel_irrelevant : forall sp cfg tp f g files, f <= g ->
  generate f sp cfg tp = Ok files -> generate g sp cfg tp = Ok files.
Proof. exact generate_fuel_irrelevant. Qed.
Print Assumptions C01_fuel_irrelevant.

(* the hypotheses are met by what extraction yields for an ordinary document, and the whole pipeline then succeeds *)
Theorem C01_nonvacuous :
  let pet := Sch false None false false (KObject [(lit "name", Inl (Sch false None false false (KStr [] [])));
                                                   (lit "tags", Inl (Sch false None false false (KArray (Some (Inl (Sch false None false false (KStr [] []))))))) ]
                                                  [lit "name"] None) in
  let sp := {| components := [(lit "Pet", pet)];
               paths := [ {| pi_path := lit "/pets/{id}"; pi_params := [];
                            pi_ops := [ {| op_method := lit "get"; op_id := Some (lit "getPet"); op_summary := None;
                                           op_description := None; op_ext_docs := None;
                                           op_params := [ {| pa_name := lit "id"; pa_loc := PPath; pa_required := true; pa_schema := Inl (Sch false None false false KInteger) |} ];
                                           op_body := None;
                                           op_responses := [(200%N, Some (Ref (lit "Pet")))] |} ] |} ];
               servers := []; security := []; schemes := []; ext_docs := None |} in
  let cfg := {| c_name := lit "pet store"; c_derives := []; c_examples := true |} in
  let tp := {| tp_null_as_zero := []; tp_date_as_int := []; tp_int_as_str := [] |} in
  exists h files, spec_ok 10 sp = true /\ extract_spec 50 sp = Ok h /\ hir_ok 10 h (cli_config cfg) = true /\
                  generate 50 sp cfg tp = Ok files /\ length files = 6%nat.
Proof.
  cbv zeta. eexists. eexists. split; [vm_compute; reflexivity|]. split; [vm_compute; reflexivity|]. split; [vm_compute; reflexivity|].
  split; vm_compute; reflexivity.
Qed.
Print Assumptions C01_nonvacuous.

(* array components with inline items, nested twice, are inside spec_ok: extraction invents `Row`/`Matrix`-style names
   for the item schemas and succeeds *)
Theorem C01_nonvacuous_inline_arrays :
  let str_s := Sch false None false false (KStr [] []) in
  let obj := Sch false None false false (KObject [(lit "name", Inl str_s)] [lit "name"] None) in
  let sp := {| components := [(lit "Matrices", Sch false None false false (KArray (Some (Inl (Sch false None false false (KArray (Some (Inl str_s))))))));
                              (lit "Pets", Sch false None false false (KArray (Some (Inl obj))))];
               paths := [ {| pi_path := lit "/pets"; pi_params := [];
                            pi_ops := [ {| op_method := lit "get"; op_id := Some (lit "listPets"); op_summary := None;
                                           op_description := None; op_ext_docs := None; op_params := []; op_body := None;
                                           op_responses := [(200%N, Some (Ref (lit "Pets")))] |} ] |} ];
               servers := []; security := []; schemes := []; ext_docs := None |} in
  exists h, spec_ok 10 sp = true /\ extract_without_treeshake 50 sp = Ok h /\ map fst (h_schemas h) = [lit "MatricItem"; lit "Pet"].
Proof. cbv zeta. eexists. split; [vm_compute; reflexivity|]. split; vm_compute; reflexivity. Qed.
Print Assumptions C01_nonvacuous_inline_arrays.
