(* Properties/C06.v — every operation yields one distinct client method, request type and module. *)
From LN Require Import Model.Extractor Proofs.NormP Proofs.ExtractP Proofs.NamesP.

(* every mangling step preserves the case-folded alphanumeric skeleton of a name ... *)
Theorem C06_norm_pascal : forall s, norm (pascal s) = norm s.
Proof. exact norm_pascal. Qed.
Print Assumptions C06_norm_pascal.
Theorem C06_norm_snake : forall s, norm (snake s) = norm s.
Proof. exact norm_snake. Qed.
Print Assumptions C06_norm_snake.

(* ... so operationIds that differ in that skeleton (D's distinctness) give distinct operation names,
   distinct module/file names and distinct request-struct names *)
Theorem C06_distinct : forall id1 id2, norm id1 <> norm id2 ->
  op_name_of_id id1 <> op_name_of_id id2 /\
  op_file_name (op_name_of_id id1) <> op_file_name (op_name_of_id id2) /\
  request_struct_name (op_name_of_id id1) <> request_struct_name (op_name_of_id id2).
Proof. exact op_names_distinct. Qed.
Print Assumptions C06_distinct.

(* one extracted operation per (path, verb) of the document *)
Theorem C06_count : forall sp fuel h,
  extract_without_treeshake fuel sp = Ok h -> length (h_ops h) = length (all_operations sp).
Proof. exact extract_op_count. Qed.
Print Assumptions C06_count.

(* for operations WITHOUT operationId the name is synthesised from verb and path and D does not make it injective:
   two different (path, verb) pairs with the same synthesised name (open finding) *)
Theorem C06_distinct_refuted_synthesised :
  exists m p1 p2, p1 <> p2 /\ make_name None m p1 = make_name None m p2.
Proof.
  exists (lit "get"), (lit "/user/{a}/account/{id}"), (lit "/user/account/{id}").
  split; [discriminate|vm_compute; reflexivity].
Qed.
Print Assumptions C06_distinct_refuted_synthesised.

(* names, given or synthesised from verb and path, never carry a dot (`users.list`, `/v1.0/items`, `/users/{user.id}`):
   the case conversions that derive the method, struct and module names do not treat a dot as a word boundary *)
Theorem C06_names_without_dots : forall opid m p n, make_name opid m p = Ok n -> ~ In "."%char n.
Proof. exact make_name_no_dot. Qed.
Print Assumptions C06_names_without_dots.

Theorem C06_synthesised_nonvacuous :
  make_name None (lit "get") (lit "/v1.0/users/{user.id}") = Ok (lit "get_v1_0_users_by_user_id") /\
  op_file_name (pascal (lit "get_v1_0_users_by_user_id")) = lit "get_v_10_users_by_user_id".
Proof. vm_compute. split; reflexivity. Qed.
Print Assumptions C06_synthesised_nonvacuous.

(* explicit operationIds that are equal up to case and punctuation are NOT kept apart (open finding): the hypothesis of
   C06_distinct is exactly what they lack *)
Theorem C06_distinct_refuted_case_only :
  exists id1 id2, id1 <> id2 /\ norm id1 = norm id2 /\ op_name_of_id id1 = op_name_of_id id2 /\
                  op_file_name (op_name_of_id id1) = op_file_name (op_name_of_id id2).
Proof.
  exists (lit "getUser"), (lit "get_user"). split; [discriminate|]. vm_compute. repeat split; reflexivity.
Qed.
Print Assumptions C06_distinct_refuted_case_only.

Theorem C06_nonvacuous :
  norm (lit "list-Pets") <> norm (lit "listPet") /\ norm (lit "get.pet") = norm (lit "GetPet") /\
  op_name_of_id (lit "users.list") = lit "UsersList" /\ op_file_name (lit "UsersList") = lit "users_list".
Proof. vm_compute. repeat split; try reflexivity. discriminate. Qed.
Print Assumptions C06_nonvacuous.

(* the request struct and the required-arguments struct: distinct operation names give distinct struct names, and no
   `…Request` name of one operation equals the `…Required` name of another (or of itself) *)
Theorem C06_struct_names : forall a b,
  (request_struct_name a = request_struct_name b -> a = b) /\
  (required_struct_name a = required_struct_name b -> a = b) /\
  request_struct_name a <> required_struct_name b.
Proof. intros a b. exact (conj (request_struct_name_inj a b) (conj (required_struct_name_inj a b) (request_required_disjoint a b))). Qed.
Print Assumptions C06_struct_names.
