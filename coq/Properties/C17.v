(* Properties/C17.v — spec documentation reaches the generated doc comments intact. *)
From LN Require Import Model.Emit Proofs.EmitP.

(* summary, description (unless empty or equal to the summary) and the external-docs sentence, in that order,
   separated by blank lines *)
Theorem C17_method_doc_composition : forall o, extract_doc o = method_doc_spec o.
Proof. exact extract_doc_spec. Qed.
Print Assumptions C17_method_doc_composition.

(* the doc attribute carries the text itself (as a literal VALUE), trimmed *)
Theorem C17_doc_literal : forall d, doc_attr (Some d) = t "#[doc =" ++ [Lit (trim d)] ++ t "]".
Proof. exact doc_attr_value. Qed.
Print Assumptions C17_doc_literal.

(* placement: the operation's doc heads its client method; a schema's description heads its struct / enum;
   a property's description heads its field *)
Theorem C17_on_method : forall o c, client_method o = Ok c -> exists rest, c = doc_attr (o_doc o) ++ t "pub fn" ++ rest.
Proof. exact client_method_doc. Qed.
Print Assumptions C17_on_method.
Theorem C17_on_struct : forall fuel h cfg name fields docs c, make_class fuel h cfg name fields docs = Ok c ->
  exists dflt post, c = doc_attr docs ++ derive_attr "Debug, Clone, Serialize, Deserialize" dflt cfg ++ post.
Proof. exact class_derive. Qed.
Print Assumptions C17_on_struct.
Theorem C17_on_enum : forall cfg name variants doc c, make_enum cfg name variants doc = Ok c ->
  exists post, c = doc_attr doc ++ derive_attr "Debug, Serialize, Deserialize, Clone" false cfg ++ post.
Proof. exact enum_derive. Qed.
Print Assumptions C17_on_enum.
Theorem C17_on_field : forall name f c, class_field name f = Ok c -> exists rest, c = doc_attr (f_doc f) ++ rest.
Proof. exact class_field_doc. Qed.
Print Assumptions C17_on_field.

Theorem C17_nonvacuous :
  let o := {| op_method := lit "get"; op_id := None; op_summary := Some (lit "List pets"); op_description := Some (lit "List pets");
              op_ext_docs := Some (lit "https://x"); op_params := []; op_body := None; op_responses := [] |} in
  extract_doc o = Some (lit "List pets" ++ NLNL ++ lit "See endpoint docs at <https://x>.") /\
  render (doc_attr (Some (lit "  say ""hi"" \ */ {} "))) = lit "#[doc = ""say \""hi\"" \\ */ {}"" ]".
Proof. vm_compute. split; reflexivity. Qed.
Print Assumptions C17_nonvacuous.

(* `a schema's description documents its type` is FALSE for schemas that become a type alias or a tuple struct (open
   finding): whatever documentation the record carries, the emitted item is the same *)
Theorem C17_alias_doc_refuted : forall name ty opt d1 d2 fl,
  make_typealias name {| f_ty := ty; f_optional := opt; f_doc := d1; f_flatten := fl |} =
  make_typealias name {| f_ty := ty; f_optional := opt; f_doc := d2; f_flatten := fl |}.
Proof. reflexivity. Qed.
Print Assumptions C17_alias_doc_refuted.

Theorem C17_newtype_doc_refuted : forall fuel h cfg name fields d1 d2,
  make_item fuel h cfg (RNewType name fields d1) = make_item fuel h cfg (RNewType name fields d2).
Proof. reflexivity. Qed.
Print Assumptions C17_newtype_doc_refuted.
