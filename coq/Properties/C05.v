(* Properties/C05.v — required inputs are mandatory arguments, optional ones setters, each once (extraction part). *)
From LN Require Import Model.Extractor Model.Emit Spec.Inputs Proofs.InputsP Proofs.InterfaceP.
From Coq Require Import Permutation.

(* the extracted parameter table is exactly the declared input list: nothing dropped, nothing duplicated,
   requiredness preserved (name, location, required all equal, in declaration order) *)
Theorem C05_extract : forall fuel sp o item ps,
  extract_parameters fuel sp o item = Ok ps -> declared fuel sp o item = Ok (map erase ps).
Proof. exact extract_parameters_declared. Qed.
Print Assumptions C05_extract.

(* the operation then carries them sorted by name: a permutation *)
Theorem C05_sorted_is_permutation : forall l, Permutation (sort_params l) l.
Proof. exact sort_params_perm. Qed.
Print Assumptions C05_sorted_is_permutation.

(* with scope-distinct names (D) the merge of the three sources drops nothing *)
Theorem C05_no_drop : forall l ds, NoDup (map d_name (l ++ ds)) -> add_new l ds = l ++ ds.
Proof. intros l ds. exact (add_new_nodup ds l). Qed.
Print Assumptions C05_no_drop.

(* the emitted interface of an operation, for every operation and configuration: one field of the request struct per
   input of the table, in order (so: each once); ... *)
Theorem C05_request_struct_fields : forall cfg o rs, request_struct cfg o = Ok rs ->
  exists head fields,
    Forall2 (fun p f => exists code, struct_field false p = Ok code /\ f = code ++ t ",") (o_params o) fields /\
    rs = head ++ t "{" ++ concat fields ++ t "}".
Proof. exact request_struct_fields. Qed.
Print Assumptions C05_request_struct_fields.

(* ... one chaining setter per OPTIONAL input and no other method on the request type; the required-arguments struct
   and the client method next to it ... *)
Theorem C05_setters : forall h cfg o c, request_file h cfg o = Ok c ->
  exists pre rs reqd sname setters post cm,
    request_struct cfg o = Ok rs /\ required_struct o = Ok reqd /\
    Forall2 (fun p s => builder_method p = Ok s) (optional_params o) setters /\
    client_method o = Ok cm /\
    c = pre ++ rs ++ reqd ++ t "impl FluentRequest<'_," ++ sname ++ t "> {" ++ concat setters ++ t "}" ++ post ++ t "{" ++ cm ++ t "}".
Proof. exact request_file_interface. Qed.
Print Assumptions C05_setters.

(* ... and, with at most three required inputs, one positional argument per REQUIRED input, in the table's order *)
Theorem C05_positional_arguments : forall o cm, crowded_args o = false -> client_method o = Ok cm ->
  exists args,
    Forall2 (fun p a => exists k ty, field_ident (p_name p) = Ok k /\ ref_ty_code [] (p_ty p) = Ok ty /\ a = k ++ t ":" ++ ty)
            (required_params o) args /\
    exists pre post, cm = pre ++ t "( & self ," ++ sep_by (t ",") args ++ post.
Proof. exact client_method_args. Qed.
Print Assumptions C05_positional_arguments.

Theorem C05_nonvacuous :
  let str := Inl (Sch false None false false (KStr [] [])) in
  let nstr := Inl (Sch true None false false (KStr [] [])) in
  let sp := {| components := [(lit "Base", Sch false None false false (KObject [(lit "a", str); (lit "b", nstr)] [lit "a"; lit "b"] None))];
               paths := []; servers := []; security := []; schemes := []; ext_docs := None |} in
  let body := Inl (Sch false None false false (KAllOf [Ref (lit "Base"); Inl (Sch false None false false (KObject [(lit "c", str)] [] None))])) in
  let o := {| op_method := lit "post"; op_id := None; op_summary := None; op_description := None; op_ext_docs := None;
              op_params := [ {| pa_name := lit "q"; pa_loc := PQuery; pa_required := false; pa_schema := str |} ];
              op_body := Some body; op_responses := [] |} in
  let item := {| pi_path := lit "/x/{id}"; pi_params := [ {| pa_name := lit "id"; pa_loc := PPath; pa_required := true; pa_schema := str |} ]; pi_ops := [o] |} in
  declared 20 sp o item = Ok [ (lit "q", LQuery, false); (lit "id", LPath, true);
                               (lit "a", LBody, true); (lit "b", LBody, false); (lit "c", LBody, false) ].
Proof. vm_compute. reflexivity. Qed.
Print Assumptions C05_nonvacuous.
