(* Properties/C05.v — required inputs are mandatory arguments, optional ones setters, each once (extraction part). *)
From LN Require Import Model.Extractor Spec.Inputs Proofs.InputsP.
From Coq Require Import Permutation.

(* the extracted parameter table is exactly the declared input list: nothing dropped, nothing duplicated,
   requiredness preserved (name, location, required all equal, in declaration order) *)
Theorem C05_extract : forall fuel sp o item ps,
  extract_parameters fuel sp o item = Ok ps -> declared fuel sp o item = Ok (map erase ps).
Proof. exact extract_parameters_declared. Qed.
Print Assumptions C05_extract.

(* the operation then carries them sorted by name: a permutation *)
Theorem C05_sorted_is_permutation : forall l, Permutation (sort_params l) l.
Proof. exact sort_params_perm. Qed.
Print Assumptions C05_sorted_is_permutation.

(* with scope-distinct names (D) the merge of the three sources drops nothing *)
Theorem C05_no_drop : forall l ds, NoDup (map d_name (l ++ ds)) -> add_new l ds = l ++ ds.
Proof. intros l ds. exact (add_new_nodup ds l). Qed.
Print Assumptions C05_no_drop.

Theorem C05_nonvacuous :
  let str := Inl (Sch false None false false (KStr [] [])) in
  let nstr := Inl (Sch true None false false (KStr [] [])) in
  let sp := {| components := [(lit "Base", Sch false None false false (KObject [(lit "a", str); (lit "b", nstr)] [lit "a"; lit "b"] None))];
               paths := []; servers := []; security := []; schemes := []; ext_docs := None |} in
  let body := Inl (Sch false None false false (KAllOf [Ref (lit "Base"); Inl (Sch false None false false (KObject [(lit "c", str)] [] None))])) in
  let o := {| op_method := lit "post"; op_id := None; op_summary := None; op_description := None; op_ext_docs := None;
              op_params := [ {| pa_name := lit "q"; pa_loc := PQuery; pa_required := false; pa_schema := str |} ];
              op_body := Some body; op_responses := [] |} in
  let item := {| pi_path := lit "/x/{id}"; pi_params := [ {| pa_name := lit "id"; pa_loc := PPath; pa_required := true; pa_schema := str |} ]; pi_ops := [o] |} in
  declared 20 sp o item = Ok [ (lit "q", LQuery, false); (lit "id", LPath, true);
                               (lit "a", LBody, true); (lit "b", LBody, false); (lit "c", LBody, false) ].
Proof. vm_compute. reflexivity. Qed.
Print Assumptions C05_nonvacuous.
