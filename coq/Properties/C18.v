(* Properties/C18.v — extra derives reach every generated data type and never break output. *)
From LN Require Import Model.Emit Proofs.EmitP.

(* the derive attribute: built-ins first (never lost), optional Default, then every user derive that tokenises,
   trimmed, in the given order, duplicates kept *)
Theorem C18_derive_attr : forall builtins dflt cfg,
  derive_attr builtins dflt cfg =
  t "#[derive(" ++ t builtins ++ (if dflt then t ", Default" else []) ++
  concat (map (fun d => t "," ++ ts d) (filter tokenizable (map trim (c_derives cfg)))) ++ t ")]".
Proof. exact derive_attr_shape. Qed.
Print Assumptions C18_derive_attr.

(* all four generators put that attribute on the type they emit *)
Theorem C18_struct : forall fuel h cfg name fields docs c, make_class fuel h cfg name fields docs = Ok c ->
  exists dflt post, c = doc_attr docs ++ derive_attr "Debug, Clone, Serialize, Deserialize" dflt cfg ++ post.
Proof. exact class_derive. Qed.
Print Assumptions C18_struct.
Theorem C18_newtype : forall fuel h cfg name fields c, make_newtype fuel h cfg name fields = Ok c ->
  exists dflt post, c = derive_attr "Debug, Clone, Serialize, Deserialize" dflt cfg ++ post.
Proof. exact newtype_derive. Qed.
Print Assumptions C18_newtype.
Theorem C18_enum : forall cfg name variants doc c, make_enum cfg name variants doc = Ok c ->
  exists post, c = doc_attr doc ++ derive_attr "Debug, Serialize, Deserialize, Clone" false cfg ++ post.
Proof. exact enum_derive. Qed.
Print Assumptions C18_enum.
Theorem C18_request_struct : forall cfg o c, request_struct cfg o = Ok c ->
  exists doc post, c = doc_attr (Some doc) ++ derive_attr "Debug, Clone, Serialize, Deserialize" false cfg ++ post.
Proof. exact request_struct_derive. Qed.
Print Assumptions C18_request_struct.

(* inserting a derive anywhere in the list adds exactly its trimmed text at that position when it tokenises,
   and nothing at all when it does not *)
Theorem C18_insert : forall cfg a d b,
  user_derives (with_derives cfg (a ++ d :: b)) =
  user_derives (with_derives cfg a) ++ (if tokenizable (trim d) then [trim d] else []) ++ user_derives (with_derives cfg b).
Proof. exact user_derives_insert. Qed.
Print Assumptions C18_insert.
Theorem C18_untokenizable_ignored : forall cfg a d b, tokenizable (trim d) = false ->
  derives_code (with_derives cfg (a ++ d :: b)) = derives_code (with_derives cfg (a ++ b)).
Proof. exact untokenizable_ignored. Qed.
Print Assumptions C18_untokenizable_ignored.

Theorem C18_nonvacuous :
  let cfg := {| c_name := lit "X"; c_derives := [lit " PartialEq "; lit "a::B)"; lit "PartialEq"; lit "fake::Dummy"]; c_examples := true |} in
  user_derives cfg = [lit "PartialEq"; lit "PartialEq"; lit "fake::Dummy"].
Proof. vm_compute. reflexivity. Qed.
Print Assumptions C18_nonvacuous.
