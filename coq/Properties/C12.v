(* Properties/C12.v — cleanup exact and confined; regeneration idempotent; convergence after a crash. *)
From LN Require Import Model.Crate Model.Fs Proofs.FsP Proofs.CrateP Proofs.DetP.
Local Open Scope nat_scope.

(* exactly the files of this generation plus static-marked files remain among the .rs files of src/ and examples/ *)
Theorem C12_exact : forall plan t p, plan_wf plan -> wf t -> in_scope p = true ->
  (lookup (gen plan t) p <> None <->
   planned plan p = true \/ exists c, lookup t p = Some c /\ has_static (decode c) = true).
Proof. exact cleanup_exact. Qed.
Print Assumptions C12_exact.

(* the same for the plan of the generated crate itself (hypothesis on the plan discharged by C02_nothing_written_twice) *)
Theorem C12_exact_for_the_crate : forall fmt fuel h cfg tp plan t p, schemas_distinct h -> ops_distinct h ->
  crate_plan fmt fuel h cfg tp = Ok plan -> wf t -> in_scope p = true ->
  (lookup (gen plan t) p <> None <->
   planned plan p = true \/ exists c, lookup t p = Some c /\ has_static (decode c) = true).
Proof. exact crate_cleanup_exact. Qed.
Print Assumptions C12_exact_for_the_crate.

(* non-.rs files and everything outside src/ and examples/ are untouched (unless the plan itself writes there) *)
Theorem C12_confined : forall plan t p, plan_wf plan -> wf t ->
  in_scope p = false -> planned plan p = false -> lookup (gen plan t) p = lookup t p.
Proof. exact cleanup_confined. Qed.
Print Assumptions C12_confined.

(* running the same generation again changes nothing — when the generated text contains no directive *)
Theorem C12_idempotent : forall plan t p, plan_wf plan -> wf t -> markers_free plan ->
  lookup (gen plan (gen plan t)) p = lookup (gen plan t) p.
Proof. exact gen_idempotent. Qed.
Print Assumptions C12_idempotent.

(* crash after k complete writes with the (k+1)-th file cut at any byte b, then generate again:
   same tree as an uninterrupted run — when the file being rewritten carried no `after` prefix *)
Theorem C12_crash : forall plan k b t p, plan_wf plan -> wf t -> markers_free plan ->
  (forall w, nth_error plan k = Some w -> has_after (read t (w_path w)) = false) ->
  lookup (gen plan (crash plan k b t)) p = lookup (gen plan t) p.
Proof. exact crash_converges. Qed.
Print Assumptions C12_crash.

Theorem C12_crash_in_cleanup : forall plan sel t p, plan_wf plan -> wf t -> markers_free plan ->
  lookup (gen plan (crash_cleanup plan sel t)) p = lookup (gen plan t) p.
Proof. exact crash_cleanup_converges. Qed.
Print Assumptions C12_crash_in_cleanup.

(* The two hypotheses are forced: without them the full statements are FALSE of the faithful model. *)
Theorem C12_idempotent_refuted_marker_in_code :
  exists plan t p, plan_wf plan /\ wf t /\
    lookup (gen plan (gen plan t)) p <> lookup (gen plan t) p.
Proof.
  exists [ {| w_path := lit "src/model/a.rs"; w_code := lit "/// see libninja: after" ++ NL ++ lit "struct A;"; w_alt := None |} ],
         [], (lit "src/model/a.rs").
  split; [|split].
  - unfold plan_wf. cbn. constructor; [intros []|constructor].
  - constructor.
  - vm_compute. discriminate.
Qed.
Print Assumptions C12_idempotent_refuted_marker_in_code.

Theorem C12_crash_refuted_after_prefix :
  exists plan k b t p, plan_wf plan /\ wf t /\ markers_free plan /\
    lookup (gen plan (crash plan k b t)) p <> lookup (gen plan t) p.
Proof.
  exists [ {| w_path := lit "src/lib.rs"; w_code := lit "GEN"; w_alt := None |} ], 0, 3,
         [ (lit "src/lib.rs", lit "mine // libninja: after" ++ NL ++ lit "OLD") ], (lit "src/lib.rs").
  split; [|split; [|split]].
  - unfold plan_wf. cbn. constructor; [intros []|constructor].
  - unfold wf. cbn. constructor; [intros []|constructor].
  - intros w [<-|[]]. split; [repeat split; reflexivity|intros a H; discriminate].
  - vm_compute. discriminate.
Qed.
Print Assumptions C12_crash_refuted_after_prefix.

Theorem C12_nonvacuous :
  let plan := [ {| w_path := lit "src/lib.rs"; w_code := lit "L"; w_alt := None |};
                {| w_path := lit "src/model/a.rs"; w_code := lit "A"; w_alt := None |} ] in
  let t := [ (lit "src/model/old.rs", lit "stale"); (lit "src/notes.txt", lit "keep");
             (lit "tests/t.rs", lit "keep"); (lit "src/keep.rs", lit "x libninja: static") ] in
  plan_wf plan /\ wf t /\ markers_free plan /\
  keys (gen plan t) = [lit "src/notes.txt"; lit "tests/t.rs"; lit "src/keep.rs"; lit "src/lib.rs"; lit "src/model/a.rs"] /\
  gen plan (crash plan 1 0 t) = gen plan t.
Proof.
  cbv zeta. split; [|split; [|split; [|vm_compute; split; reflexivity]]].
  - unfold plan_wf. cbn. repeat constructor; cbn; intuition discriminate.
  - unfold wf. cbn. repeat constructor; cbn; intuition discriminate.
  - intros w [<-|[<-|[]]]; (split; [repeat split; reflexivity|intros a H; discriminate]).
Qed.
Print Assumptions C12_nonvacuous.
