(* Properties/C14.v — credentials go where the security scheme says, read from documented env vars. *)
From LN Require Import Model.Emit Sem.Request Proofs.EmitP Proofs.NamesP.

(* every request module passes the request through `authenticate` iff the document declares security *)
Theorem C14_every_request : forall h cfg o c, request_file h cfg o = Ok c ->
  exists pre post sname output url assigns,
    c = pre ++ into_future_impl (has_security h) sname output url (ts (o_method o)) assigns ++ post /\
    make_url o = Ok url /\ print_plan (request_plan (o_params o)) = Ok assigns.
Proof. exact request_calls_authenticate. Qed.
Print Assumptions C14_every_request.
Theorem C14_with_auth : forall sname output url method assigns,
  exists pre, into_future_impl true sname output url method assigns =
    pre ++ assigns ++ t "r = self.client.authenticate(r);" ++ t "let res = r.await?; res.json().map_err(Into::into) }) } }".
Proof. exact into_future_with_auth. Qed.
Print Assumptions C14_with_auth.

(* placement per location kind *)
Theorem C14_header : forall k f, auth_set_value f (AHeader k) = t "r = r.header(" ++ [Lit k] ++ t "," ++ f ++ t ");".
Proof. exact placement_header. Qed.
Print Assumptions C14_header.
Theorem C14_query : forall k f, auth_set_value f (AQuery k) = t "r = r.query(" ++ [Lit k] ++ t "," ++ f ++ t ");".
Proof. exact placement_query. Qed.
Print Assumptions C14_query.
Theorem C14_cookie : forall k f, auth_set_value f (ACookie k) = t "r = r.cookie(" ++ [Lit k] ++ t "," ++ f ++ t ");".
Proof. exact placement_cookie. Qed.
Print Assumptions C14_cookie.
Theorem C14_bearer : forall f, auth_set_value f ABearer = t "r = r.bearer_auth(" ++ f ++ t ");".
Proof. exact placement_bearer. Qed.
Print Assumptions C14_bearer.
Theorem C14_basic : forall f, auth_set_value f ABasic = t "r = r.basic_auth(" ++ f ++ t ");".
Proof. exact placement_basic. Qed.
Print Assumptions C14_basic.
Theorem C14_scheme_locations : forall key, extract_key_location PQuery key = AQuery key /\ extract_key_location PCookie key = ACookie key
  /\ (mem_str (snake key) [lit "bearer_auth"; lit "bearer"] = false -> extract_key_location PHeader key = AHeader key).
Proof. exact scheme_locations. Qed.
Print Assumptions C14_scheme_locations.

(* from_env: the variant of the FIRST strategy, each credential from <SERVICE>_<NAME> *)
Theorem C14_from_env_first : forall h cfg name fields rest c, h_security h = AuthToken name fields :: rest ->
  auth_from_env h cfg = Ok c ->
  exists v fs, struct_ident name = Ok v /\ mapM (from_env_field cfg) fields = Ok fs /\
    c = t "pub fn from_env() -> Self { Self ::" ++ v ++ t "{" ++ sep_by (t ",") fs ++ t "} }".
Proof. exact from_env_first. Qed.
Print Assumptions C14_from_env_first.
Theorem C14_from_env_var : forall cfg fname loc s, from_env_field cfg (fname, loc) = Ok s ->
  exists fid tail, field_ident fname = Ok fid /\
    (s = fid ++ t ": std::env::var(" ++ [Lit (qualified_env_var (c_name cfg) fname)] ++ tail \/
     s = fid ++ t ": { let value = std::env::var(" ++ [Lit (qualified_env_var (c_name cfg) fname)] ++ tail).
Proof. exact from_env_field_var. Qed.
Print Assumptions C14_from_env_var.
Theorem C14_env_var_name : forall svc v, split_words svc <> [] -> split_words v <> [] ->
  qualified_env_var svc v = screaming_snake svc ++ lit "_" ++ screaming_snake v.
Proof. exact qualified_env_var_split. Qed.
Print Assumptions C14_env_var_name.

(* the documented variable name can be set and read: non-empty, [A-Z0-9_] only, hence neither '=' nor NUL
   (std::env::var answers Err for those without consulting the environment), for every service name and scheme
   field over [A-Za-z0-9_ -] *)
Theorem C14_env_var_name_shape : forall svc v,
  forallb ad svc = true -> forallb ad v = true -> existsb is_alnum svc = true ->
  nonempty (qualified_env_var svc v) = true /\ forallb ucu (qualified_env_var svc v) = true /\
  contains_char "="%char (qualified_env_var svc v) = false /\ contains_char "000"%char (qualified_env_var svc v) = false.
Proof. exact qualified_env_var_shape. Qed.
Print Assumptions C14_env_var_name_shape.
Example C14_env_var_name_shape_nonvacuous :
  forallb ad (lit "Pet-Store") = true /\ forallb ad (lit "X-Api-Key-2") = true /\ existsb is_alnum (lit "Pet-Store") = true.
Proof. vm_compute. repeat split; reflexivity. Qed.

Theorem C14_nonvacuous :
  qualified_env_var (lit "PetStore") (lit "X-Api-Key-2") = lit "PET_STORE_X_API_KEY_2" /\
  extract_key_location PHeader (lit "X-API-Key") = AHeader (lit "X-API-Key").
Proof. vm_compute. split; reflexivity. Qed.
Print Assumptions C14_nonvacuous.

(* the semantic summary the executed requests are compared with (Sem/Request.v auth_plan_of): a from_env client adds
   exactly the fields of the FIRST strategy, each from <SERVICE>_<NAME>, basic credentials base64-encoded, at the place
   its location names; nothing when no security is declared *)
Theorem C14_auth_plan_first : forall h cfg name fields rest, h_security h = AuthToken name fields :: rest ->
  auth_plan_of h cfg =
  APFields (map (fun fl => (place_of (snd fl),
                            match snd fl with
                            | ABasic => CBase64 (qualified_env_var (c_name cfg) (fst fl))
                            | _ => CPlain (qualified_env_var (c_name cfg) (fst fl))
                            end)) fields).
Proof. intros h cfg name fields rest H. unfold auth_plan_of. rewrite H. reflexivity. Qed.
Print Assumptions C14_auth_plan_first.

Theorem C14_auth_plan_none : forall h cfg, h_security h = [] -> auth_plan_of h cfg = APNone.
Proof. intros h cfg H. unfold auth_plan_of. rewrite H. reflexivity. Qed.
Print Assumptions C14_auth_plan_none.
