(* Properties/C15.v — the client targets the spec's server, or the documented environment override. *)
From LN Require Import Model.Emit Proofs.EmitP.

(* exactly one server: its URL, verbatim *)
Theorem C15_one_server : forall sp url d, servers sp = [(url, d)] -> extract_servers sp = [(lit "default", url)].
Proof. exact one_server. Qed.
Print Assumptions C15_one_server.
Theorem C15_no_server : forall sp, servers sp = [] -> extract_servers sp = [].
Proof. exact no_server. Qed.
Print Assumptions C15_no_server.
Theorem C15_strategy : forall h,
  server_strategy_of h = match h_servers h with [] => SSBaseUrl | [(_, u)] => SSSingle u | _ => SSEnv end.
Proof. exact strategy_of_table. Qed.
Print Assumptions C15_strategy.

(* the variable the generated client reads IS <SERVICE>_BASE_URL / <SERVICE>_ENV, the one hir documents *)
Theorem C15_base_url_var : forall svc, split_words svc <> [] ->
  Some (qualified_env_var svc (lit "base_url")) = env_var_for_strategy SSBaseUrl svc.
Proof. exact base_url_var_agrees. Qed.
Print Assumptions C15_base_url_var.
Theorem C15_env_var : forall svc, split_words svc <> [] ->
  Some (qualified_env_var svc (lit "env")) = env_var_for_strategy SSEnv svc.
Proof. exact env_var_agrees. Qed.
Print Assumptions C15_env_var.

(* several servers are only selected through <SERVICE>_ENV when each description carries a distinct recognised
   keyword; otherwise the table is empty or collapses (open finding): refutation of the unconditional statement *)
Theorem C15_several_refuted : exists sp, length (servers sp) = 2%nat /\
  server_strategy_of {| h_ops := []; h_schemas := []; h_servers := extract_servers sp; h_security := []; h_docs_url := None |} <> SSEnv.
Proof.
  exists {| components := []; paths := []; servers := [(lit "https://a", Some (lit "Main")); (lit "https://b", None)];
            security := []; schemes := []; ext_docs := None |}.
  split; [reflexivity|vm_compute; discriminate].
Qed.
Print Assumptions C15_several_refuted.

Theorem C15_nonvacuous :
  qualified_env_var (lit "PetStore") (lit "base_url") = lit "PET_STORE_BASE_URL" /\
  render (server_url {| h_ops := []; h_schemas := []; h_servers := []; h_security := []; h_docs_url := None |}
                     {| c_name := lit "PetStore"; c_derives := []; c_examples := true |})
  = lit "std::env::var( ""PET_STORE_BASE_URL"" ).expect( ""Missing environment variable PET_STORE_BASE_URL"" ).as_str()".
Proof. vm_compute. split; reflexivity. Qed.
Print Assumptions C15_nonvacuous.
