(* Properties/C15.v — the client targets the spec's server, or the documented environment override. *)
From LN Require Import Model.Emit Proofs.EmitP Proofs.ServersP.

(* exactly one server: its URL, verbatim *)
Theorem C15_one_server : forall sp url d, servers sp = [(url, d)] -> extract_servers sp = [(lit "default", url)].
Proof. exact one_server. Qed.
Print Assumptions C15_one_server.
Theorem C15_no_server : forall sp, servers sp = [] -> extract_servers sp = [].
Proof. exact no_server. Qed.
Print Assumptions C15_no_server.
Theorem C15_strategy : forall h,
  server_strategy_of h = match h_servers h with [] => SSBaseUrl | [(_, u)] => SSSingle u | _ => SSEnv end.
Proof. exact strategy_of_table. Qed.
Print Assumptions C15_strategy.

(* the variable the generated client reads IS <SERVICE>_BASE_URL / <SERVICE>_ENV, the one hir documents *)
Theorem C15_base_url_var : forall svc, split_words svc <> [] ->
  Some (qualified_env_var svc (lit "base_url")) = env_var_for_strategy SSBaseUrl svc.
Proof. exact base_url_var_agrees. Qed.
Print Assumptions C15_base_url_var.
Theorem C15_env_var : forall svc, split_words svc <> [] ->
  Some (qualified_env_var svc (lit "env")) = env_var_for_strategy SSEnv svc.
Proof. exact env_var_agrees. Qed.
Print Assumptions C15_env_var.

(* several servers whose descriptions each carry their own recognised keyword (beta / production / development /
   sandbox, kw_of): every declared server is in the client's table under its keyword and the client selects through
   <SERVICE>_ENV — for any number of servers *)
Theorem C15_several_env : forall sp, (2 <= length (servers sp))%nat ->
  (forall ud, In ud (servers sp) -> kw_of (snd ud) <> None) ->
  NoDup (map (fun ud => kw_of (snd ud)) (servers sp)) ->
  length (extract_servers sp) = length (servers sp) /\
  (forall u d k, In (u, d) (servers sp) -> kw_of d = Some k -> In (k, u) (extract_servers sp)) /\
  (forall ops schemas sec docs,
     server_strategy_of {| h_ops := ops; h_schemas := schemas; h_servers := extract_servers sp; h_security := sec; h_docs_url := docs |} = SSEnv).
Proof. exact several_servers_env. Qed.
Print Assumptions C15_several_env.

Theorem C15_several_env_nonvacuous :
  let l := [(lit "https://{region}.example.com/v1", Some (lit "Production server")); (lit "https://{region}.example.com/v1", Some (lit "the Sandbox"))] in
  (forall ud, In ud l -> kw_of (snd ud) <> None) /\ NoDup (map (fun ud => kw_of (snd ud)) l) /\
  extract_servers {| components := []; paths := []; servers := l; security := []; schemes := []; ext_docs := None |}
  = [(lit "production", lit "https://{region}.example.com/v1"); (lit "sandbox", lit "https://{region}.example.com/v1")].
Proof.
  cbv zeta. split; [|split].
  - intros ud [<-|[<-|[]]]; vm_compute; discriminate.
  - vm_compute. repeat constructor; cbn; intros H; repeat (destruct H as [H|H]; [discriminate H|]); exact H.
  - vm_compute. reflexivity.
Qed.
Print Assumptions C15_several_env_nonvacuous.

(* several servers are only selected through <SERVICE>_ENV when each description carries a distinct recognised
   keyword; otherwise the table is empty or collapses (open finding): refutation of the unconditional statement *)
Theorem C15_several_refuted : exists sp, length (servers sp) = 2%nat /\
  server_strategy_of {| h_ops := []; h_schemas := []; h_servers := extract_servers sp; h_security := []; h_docs_url := None |} <> SSEnv.
Proof.
  exists {| components := []; paths := []; servers := [(lit "https://a", Some (lit "Main")); (lit "https://b", None)];
            security := []; schemes := []; ext_docs := None |}.
  split; [reflexivity|vm_compute; discriminate].
Qed.
Print Assumptions C15_several_refuted.

Theorem C15_nonvacuous :
  qualified_env_var (lit "PetStore") (lit "base_url") = lit "PET_STORE_BASE_URL" /\
  render (server_url {| h_ops := []; h_schemas := []; h_servers := []; h_security := []; h_docs_url := None |}
                     {| c_name := lit "PetStore"; c_derives := []; c_examples := true |})
  = lit "std::env::var( ""PET_STORE_BASE_URL"" ).expect( ""Missing environment variable PET_STORE_BASE_URL"" ).as_str()".
Proof. vm_compute. split; reflexivity. Qed.
Print Assumptions C15_nonvacuous.
