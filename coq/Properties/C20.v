(* Properties/C20.v — the code-building macros reproduce what was written inside them. *)
From LN Require Import Model.Macro Proofs.MacroP.
Local Open Scope nat_scope.

(* rfunction!: whatever header and body tokens are written — flags in either order, any number of arguments whose type
   is an identifier or an interpolation, any return type without a `{..}` group, any body — the macro reads back
   exactly the parts that were written ... *)
Theorem C20_rfunction_parse_print : forall i, rinv_ok i = true ->
  rfunction_macro (print_rinv i) =
  Ok {| rf_name := ri_name i; rf_async := ri_async i; rf_pub := ri_pub i; rf_args := ri_args i; rf_ret := ri_ret i;
        rf_body := match ri_body i with Some b => b | None => [] end |}.
Proof. exact rfunction_parse_print. Qed.
Print Assumptions C20_rfunction_parse_print.

(* ... and its rendering is, token for token, the hand-written `[pub] [async] fn name(args) [-> ret] { body }` *)
Theorem C20_rfunction_faithful : forall vals i, rinv_ok i = true ->
  (do m <- rfunction_macro (print_rinv i); render_rfn vals m) = direct_fn vals i.
Proof. exact rfunction_faithful. Qed.
Print Assumptions C20_rfunction_faithful.

(* function!: name, visibility, asyncness, argument names, types and defaults and the return type are read back as
   written *)
Theorem C20_function_header : forall i, finv_ok i = true ->
  function_macro (print_finv i) =
  Ok {| fm_name := fi_name i; fm_async := fi_async i; fm_pub := fi_pub i; fm_args := fi_args i;
        fm_ret := match fi_ret i with Some t => t | None => SText [] end; fm_body := fi_body i |}.
Proof. exact function_parse_print. Qed.
Print Assumptions C20_function_header.

(* body! and the body of function!: for EVERY token tree, whatever the expansion yields is the written text — every
   token, in order, interpolations substituted, groups with their delimiters — up to white space, with the semicolons
   gone (they became line breaks). `written` never looks at spacing decisions; `body_macro` is the macro. *)
Theorem C20_body_nothing_dropped : forall fuel toks vals out, body_macro fuel toks vals = Ok out ->
  exists w, written fuel toks vals = Ok w /\ strip out = strip w.
Proof. exact body_nothing_dropped. Qed.
Print Assumptions C20_body_nothing_dropped.

(* no fusing: whenever an identifier, a literal or an interpolated value is followed by a word (identifier, literal,
   interpolation), body_recurse writes a blank after it; and `/` `*` is never written as a comment opener *)
Theorem C20_words_are_separated : forall rest, starts_with_word rest = true ->
  space_after_ident rest = true /\ space_after_lit rest = true /\ space_after_interp rest = true.
Proof. exact words_are_separated. Qed.
Print Assumptions C20_words_are_separated.

Theorem C20_nonvacuous :
  let toks := [TIdent (lit "if"); TIdent (lit "a");
               TGroup DBrace [TIdent (lit "b"); TPunct ";"%char; TIdent (lit "print"); TGroup DParen [TLit (lit """x{}y"""); TPunct ","%char; TPunct "#"%char; TIdent (lit "v")]]] in
  exists out, body_macro 50 toks [(lit "v", lit "7")] = Ok out /\
              strip out = lit "ifa{bprint(""x{}y"",7)}" /\
              rinv_ok {| ri_pub := true; ri_async := true; ri_swap := true; ri_name := SText (lit "get");
                         ri_args := [(lit "a", [TIdent (lit "i32")]); (lit "b", [TPunct "#"%char; TIdent (lit "ty")])];
                         ri_ret := [TIdent (lit "Self")]; ri_body := None |} = true.
Proof. cbv zeta. eexists. split; [vm_compute; reflexivity|]. split; vm_compute; reflexivity. Qed.
Print Assumptions C20_nonvacuous.
