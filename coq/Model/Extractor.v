(* Extractor.v — OpenAPI -> HIR. Sources: libninja/src/extractor/{mod,ty,record,operation,plural}.rs.
   Recursion through $ref has no visited set in the code; the model recurses on fuel and returns [Err EDiverge]
   when it runs out (the real process overflows its stack there). *)
From LN Require Export Model.OpenApi Model.Hir.
From LN Require Import Model.Adapters.
Local Open Scope nat_scope.

(* ---------- ty.rs ---------- *)
Fixpoint is_primitive (fuel : nat) (sp : spec) (s : schema) : result bool :=
  match fuel with
  | O => Err EDiverge
  | S f =>
    match s_kind s with
    | KStr _ enum => Ok (match enum with [] => true | _ => false end)
    | KNumber | KInteger | KBoolean => Ok true
    | KArray (Some inner) => do s' <- resolve sp inner; is_primitive f sp s'
    | KAllOf [x] => do s' <- resolve sp x; is_primitive f sp s'
    | _ => Ok false
    end
  end.

Definition string_format_ty (fmt : str) : ty :=
  if str_eqb fmt (lit "decimal") then TCurrency
  else if str_eqb fmt (lit "integer") then TInteger IString
  else if str_eqb fmt (lit "date") then TDate DIso
  else if str_eqb fmt (lit "date-time") then TDateTime
  else TString.

Fixpoint schema_to_ty (fuel : nat) (sp : spec) (s : schema) : result ty :=
  match fuel with
  | O => Err EDiverge
  | S f =>
    let ref_to_ty (r : sref) : result ty :=
      do s' <- resolve sp r;
      do p <- is_primitive f sp s';
      if p then schema_to_ty f sp s'
      else match r with
           | Ref n => ty_model n
           | Inl s'' => schema_to_ty f sp s''
           end in
    match s_kind s with
    | KStr fmt _ => Ok (string_format_ty fmt)
    | KNumber => Ok TFloat
    | KInteger => Ok (if s_naz s then TInteger INullAsZero
                      else if s_xdate s then TDate DInteger else TInteger ISimple)
    | KBoolean => Ok TBoolean
    | KObject _ _ _ => Ok TAny
    | KArray (Some item) => do t <- ref_to_ty item; Ok (TArray t)
    | KArray None => Ok (TArray TAny)
    | KAny => Ok TAny
    | KAllOf [x] => ref_to_ty x
    | KAllOf _ => Ok TAny
    | KOneOf _ | KAnyOf _ | KNot => Ok TAny
    end
  end.

Definition schema_ref_to_ty2 (fuel : nat) (sp : spec) (r : sref) (s : schema) : result ty :=
  do p <- is_primitive fuel sp s;
  if p then schema_to_ty fuel sp s
  else match r with
       | Ref n => ty_model n
       | Inl s' => schema_to_ty fuel sp s'
       end.

Definition schema_ref_to_ty (fuel : nat) (sp : spec) (r : sref) : result ty :=
  do s <- resolve sp r; schema_ref_to_ty2 fuel sp r s.

(* ---------- mod.rs: is_optional ---------- *)
Definition is_optional (name : str) (p parent : schema) : bool :=
  if s_nullable p then true
  else match get_required parent with
       | None => false
       | Some req => negb (mem_str name req)
       end.

Definition extract_docs (s : schema) : option str :=
  match s_descr s with Some d => Some (trim d) | None => None end.

(* ---------- plural.rs ---------- *)
Definition is_plural (s : str) : bool :=
  if ends_with (lit "ies") s then true
  else if ends_with (lit "es") s then true
  else negb (ends_with (lit "ss") s) && ends_with (lit "s") s.

Definition drop_last (n : nat) (s : str) : str := firstn (length s - n) s.

Definition singular (s : str) : str :=
  if ends_with (lit "ies") s then drop_last 3 s ++ lit "y"
  else if ends_with (lit "es") s then drop_last 2 s
  else if negb (ends_with (lit "ss") s) && ends_with (lit "s") s then drop_last 1 s
  else s.

(* record.rs: create_unique_name *)
Definition create_unique_name (current : list str) (name field : str) : option str :=
  let try1 :=
    if is_plural field then
      let sf := pascal (singular field) in
      if negb (mem_str sf current) then Some sf
      else let sf2 := pascal name ++ sf in
           if negb (mem_str sf2 current) then Some sf2 else None
    else None in
  match try1 with
  | Some x => Some x
  | None =>
      let sf := pascal field ++ lit "Item" in
      if negb (mem_str sf current) then Some sf
      else let sf2 := pascal name ++ sf in
           if negb (mem_str sf2 current) then Some sf2 else None
  end.

(* ---------- record.rs ---------- *)
Definition mk_field (t : ty) (opt : bool) (doc : option str) (flat : bool) : hfield :=
  {| f_ty := t; f_optional := opt; f_doc := doc; f_flatten := flat |}.

Definition extract_fields (fuel : nat) (sp : spec) (props : list (str * sref)) (parent : schema)
  : result (list (str * hfield)) :=
  do l <- mapM (fun pr =>
            let '(name, r) := pr in
            do s <- resolve sp r;
            do t <- schema_ref_to_ty2 fuel sp r s;
            Ok (name, mk_field t (is_optional name s parent) (extract_docs s) false)) props;
  Ok (bt_of_list l).

Definition create_field (fuel : nat) (sp : spec) (r : sref) : result hfield :=
  do s <- resolve sp r;
  do t <- schema_ref_to_ty2 fuel sp r s;
  Ok (mk_field t (s_nullable s) (extract_docs s) false).

Definition effective_length (all_of : list sref) : nat :=
  fold_left (fun n r =>
    match r with
    | Ref _ => n + 1
    | Inl s => n + match get_properties s with Some ps => length ps | None => 0 end
    end) all_of 0.

Fixpoint all_of_props (fuel : nat) (sp : spec) (req : list str) (ps : list (str * sref))
  (acc : list (str * hfield)) : result (list (str * hfield)) :=
  match ps with
  | [] => Ok acc
  | (pn, pr) :: ps' =>
      do f <- create_field fuel sp pr;
      let opt := if negb (is_iterable (f_ty f)) && negb (mem_str pn req) then true else f_optional f in
      all_of_props fuel sp req ps' (bt_insert acc pn (mk_field (f_ty f) opt (f_doc f) false))
  end.

Fixpoint all_of_fields (fuel : nat) (sp : spec) (l : list sref) (acc : list (str * hfield))
  : result (list (str * hfield)) :=
  match l with
  | [] => Ok acc
  | Ref n :: rest =>
      do f <- create_field fuel sp (Ref n);
      all_of_fields fuel sp rest (bt_insert acc n (mk_field (f_ty f) (f_optional f) (f_doc f) true))
  | Inl item :: rest =>
      match get_properties item with
      | None => all_of_fields fuel sp rest acc
      | Some props =>
          let req := match get_required item with Some r => r | None => [] end in
          do acc' <- all_of_props fuel sp req props acc;
          all_of_fields fuel sp rest acc'
      end
  end.

Definition extract_all_of (fuel : nat) (sp : spec) (name : str) (all_of : list sref) (data : schema)
  (schemas : list (str * record)) : result (list (str * record)) :=
  if Nat.eqb (effective_length all_of) 1 then
    match all_of with
    | [] => Err ESlice
    | x :: _ =>
        do t <- schema_ref_to_ty fuel sp x;
        insert_schema schemas (RAlias name (mk_field t (s_nullable data) None false))
    end
  else
    do fields <- all_of_fields fuel sp all_of [];
    insert_schema schemas (RStruct name (s_nullable data) fields (s_descr data)).

Definition extract_newtype (fuel : nat) (sp : spec) (name : str) (s : schema)
  (schemas : list (str * record)) : result (list (str * record)) :=
  do t <- schema_to_ty fuel sp s;
  insert_schema schemas (RNewType name [mk_field t (s_nullable s) None false] (s_descr s)).

Fixpoint extract_schema (fuel : nat) (sp : spec) (name : str) (s : schema)
  (schemas : list (str * record)) : result (list (str * record)) :=
  match fuel with
  | O => Err EDiverge
  | S f =>
    match s_kind s with
    | KObject props _ addl =>
        match props, addl with
        | [], Some a =>
            do t <- match a with
                    | AddlAny _ => Ok TAny
                    | AddlSchema r => do s' <- resolve sp r; schema_ref_to_ty2 fuel sp r s'
                    end;
            insert_schema schemas (RAlias name (mk_field (THashMap t) false None false))
        | _, _ =>
            do fields <- extract_fields fuel sp props s;
            insert_schema schemas
              (RStruct name (s_nullable s) fields (match s_descr s with Some d => Some (trim d) | None => None end))
        end
    | KStr _ (v :: vs) =>
        insert_schema schemas (REnum name (map (fun x => (x, None)) (v :: vs)) (s_descr s))
    | KAllOf all_of => extract_all_of fuel sp name all_of s schemas
    | KArray (Some (Inl item)) =>
        match create_unique_name (map fst schemas) name name with
        | Some n => extract_schema f sp n item schemas
        | None => extract_newtype fuel sp name s schemas
        end
    | _ => extract_newtype fuel sp name s schemas
    end
  end.

(* ---------- operation.rs ---------- *)
Definition make_name (opid : option str) (method path : str) : result str :=
  match opid with
  | Some id => Ok (replace_char "."%char (lit "_") id)
  | None =>
      let segs := split_char "/"%char path in
      let names := filter (fun s => negb (starts_with (lit "{") s)) segs in
      let groups := filter (fun s => starts_with (lit "{") s) segs in
      do last_group <-
        match last_opt groups with
        | None => Ok []
        | Some s =>
            if Nat.ltb (length s) 2 then Err ESlice else
            let p := firstn (length s - 2) (skipn 1 s) in
            do p' <- match last_opt names with
                     | Some nm =>
                         if starts_with nm p && Nat.ltb (length nm) (length p)
                         then Ok (skipn (length nm + 1) p)
                         else Ok p
                     | None => Ok p
                     end;
            Ok (lit "_by_" ++ p')
        end;
      Ok (replace_char "."%char (lit "_") (method ++ join (lit "_") names ++ last_group))
  end.

Definition NLNL : str := [ascii_of_N 10%N; ascii_of_N 10%N].

Definition extract_doc (o : operation) : option str :=
  let p1 := match op_summary o with Some s => (match s with [] => [] | _ => [s] end) | None => [] end in
  let p2 := match op_description o with
            | Some d => match d with
                        | [] => p1
                        | _ => match p1 with
                               | first :: _ => if str_eqb d first then p1 else p1 ++ [d]
                               | [] => [d]
                               end
                        end
            | None => p1
            end in
  let p3 := match op_ext_docs o with
            | Some u => p2 ++ [lit "See endpoint docs at <" ++ u ++ lit ">."]
            | None => p2
            end in
  match p3 with [] => None | _ => Some (join NLNL p3) end.

Definition loc_of (l : ploc) : hloc :=
  match l with PPath => LPath | PQuery => LQuery | PHeader => LHeader | PCookie => LCookie end.

Definition extract_param (fuel : nat) (sp : spec) (p : param) : result hparam :=
  do s <- resolve sp (pa_schema p);
  do t <- schema_ref_to_ty2 fuel sp (pa_schema p) s;
  Ok {| p_name := pa_name p; p_ty := t; p_loc := loc_of (pa_loc p); p_optional := negb (pa_required p); p_doc := None |}.

(* Schema::properties_iter — flattens allOf through resolve *)
Fixpoint properties_iter (fuel : nat) (sp : spec) (s : schema) : result (list (str * sref)) :=
  match fuel with
  | O => Err EDiverge
  | S f =>
    match s_kind s with
    | KObject props _ _ => Ok props
    | KAny => Ok []
    | KAllOf l =>
        do ls <- mapM (fun r => do s' <- resolve sp r; properties_iter f sp s') l;
        Ok (concat ls)
    | _ => Ok []
    end
  end.

(* operation.rs: body_requires — the `required` lists of an allOf body live in its members *)
Fixpoint body_requires (fuel : nat) (sp : spec) (body : schema) (name : str) : result bool :=
  match fuel with
  | O => Err EDiverge
  | S f =>
    match s_kind body with
    | KAllOf l =>
        (fix any (l : list sref) : result bool :=
           match l with
           | [] => Ok false
           | r :: rest =>
               do m <- resolve sp r;
               do props <- properties_iter f sp m;
               do here <- (if existsb (fun pr => str_eqb (fst pr) name) props then body_requires f sp m name else Ok false);
               if here then Ok true else any rest
           end) l
    | _ => match get_required body with
           | Some req => Ok (mem_str name req)
           | None => Ok true
           end
    end
  end.

Definition has_param (l : list hparam) (n : str) : bool := existsb (fun p => str_eqb (p_name p) n) l.

Definition push_new (l : list hparam) (ps : list hparam) : list hparam :=
  fold_left (fun acc p => if has_param acc (p_name p) then acc else acc ++ [p]) ps l.

Definition body_param (t : ty) : hparam :=
  {| p_name := lit "body"; p_ty := t; p_loc := LBody; p_optional := false; p_doc := None |}.

Definition extract_parameters (fuel : nat) (sp : spec) (o : operation) (item : path_item) : result (list hparam) :=
  do inputs <- mapM (extract_param fuel sp) (op_params o);
  do args <- mapM (extract_param fuel sp) (pi_params item);
  let inputs := push_new inputs args in
  match op_body o with
  | None => Ok inputs
  | Some br =>
      do body <- resolve sp br;
      match s_kind body with
      | KArray items =>
          do t <- match items with Some i => schema_ref_to_ty fuel sp i | None => Ok TAny end;
          Ok (inputs ++ [body_param (TArray t)])
      | _ =>
          do props <- properties_iter fuel sp body;
          match props with
          | [] => Ok (inputs ++ [body_param TAny])
          | _ =>
              do bargs <- mapM (fun pr =>
                            let '(name, r) := pr in
                            do t <- schema_ref_to_ty fuel sp r;
                            do ps <- resolve sp r;
                            do req <- body_requires fuel sp body name;
                            Ok {| p_name := name; p_ty := t; p_loc := LBody;
                                  p_optional := s_nullable ps || negb req; p_doc := None |}) props;
              Ok (push_new inputs bargs)
          end
      end
  end.

Definition success_codes : list N := [200; 201; 202; 204; 302]%N.

Definition get_res (o : operation) : result (option sref) :=
  match flat_map (fun c => match find (fun r => N.eqb (fst r) c) (op_responses o) with Some r => [r] | None => [] end) success_codes with
  | [] => Err ENoSuccess
  | r :: _ => Ok (snd r)
  end.

(* stable sort by name (Vec::sort_by is stable): insertion into a sorted list, after equal names *)
Fixpoint insert_by_name (p : hparam) (l : list hparam) : list hparam :=
  match l with
  | [] => [p]
  | q :: l' => if str_ltb (p_name p) (p_name q) then p :: q :: l' else q :: insert_by_name p l'
  end.
Definition sort_params (l : list hparam) : list hparam := fold_left (fun acc p => insert_by_name p acc) l [].

Definition is_array_schema (s : schema) : bool := match s_kind s with KArray _ => true | _ => false end.

(* the `while hir.schemas.contains_key(&name)` loop: base, base2, base3, ...; it ends within |taken|+1 tries *)
Definition fresh_name (taken : list str) (base : str) : str :=
  if negb (mem_str base taken) then base else
  (fix go (k : nat) (n : nat) : str :=
     match k with
     | O => base ++ print_nat (Z.of_nat n)
     | S k' => let cand := base ++ print_nat (Z.of_nat n) in
               if mem_str cand taken then go k' (S n) else cand
     end) (length taken) 2.

Definition extract_operation (fuel : nat) (sp : spec) (item : path_item) (o : operation) (h : hirspec) : result hirspec :=
  do name <- make_name (op_id o) (op_method o) (pi_path item);
  let doc := extract_doc o in
  do params <- extract_parameters fuel sp o item;
  let params := sort_params params in
  do res <- get_res o;
  do rs <- match res with
           | None => Ok (TUnit, h_schemas h)
           | Some (Ref n) => do t <- schema_ref_to_ty fuel sp (Ref n); Ok (t, h_schemas h)
           | Some (Inl r) =>
               let rname := fresh_name (map fst (h_schemas h)) (pascal name ++ lit "Response") in
               do schemas' <- extract_schema fuel sp rname r (h_schemas h);
               do prim <- is_primitive fuel sp r;
               if prim || is_array_schema r
               then do t <- schema_to_ty fuel sp r; Ok (t, schemas')
               else Ok (TModel rname, schemas')
           end;
  let '(ret, schemas') := rs in
  Ok {| h_ops := h_ops h ++ [{| o_name := pascal name; o_doc := doc; o_params := params; o_ret := ret;
                                o_path := pi_path item; o_method := op_method o |}];
        h_schemas := schemas'; h_servers := h_servers h; h_security := h_security h; h_docs_url := h_docs_url h |}.

(* ---------- mod.rs ---------- *)
Definition server_keywords : list str := map lit ["beta"; "production"; "development"; "sandbox"]%string.

Definition extract_servers (sp : spec) : list (str * str) :=
  match servers sp with
  | [(url, _)] => [(lit "default", url)]
  | l =>
      (fix go (l : list (str * option str)) (acc : list (str * str)) : list (str * str) :=
         match l with
         | [] => acc
         | (url, descr) :: rest =>
             match descr with
             | Some d =>
                 match find (fun k => contains k (lower_s d)) server_keywords with
                 | Some k => go rest (bt_insert acc k url)
                 | None => []
                 end
             | None => []
             end
         end) l []
  end.

Definition extract_key_location (loc : ploc) (name : str) : authloc :=
  match loc with
  | PHeader | PPath =>
      if mem_str (snake name) [lit "bearer_auth"; lit "bearer"] then ABearer else AHeader name
  | PQuery => AQuery name
  | PCookie => ACookie name
  end.

Definition extract_security (sp : spec) : result (list authstrat) :=
  do l <- mapM (fun req =>
    match req with
    | [] => Ok [AuthNone]
    | scheme_name :: _ =>
        match assoc (schemes sp) scheme_name with
        | None => Err ESchemeNotFound
        | Some (SApiKey loc name) => Ok [AuthToken scheme_name [(name, extract_key_location loc name)]]
        | Some (SOAuth2 a t r sc) => Ok [AuthOAuth2 a t (match r with Some x => x | None => t end) sc]
        | Some SHttpBearer => Ok [AuthToken scheme_name [(scheme_name, ABearer)]]
        | Some SHttpBasic => Ok [AuthToken scheme_name [(scheme_name, ABasic)]]
        end
    end) (security sp);
  Ok (concat l).

Definition empty_hir : hirspec :=
  {| h_ops := []; h_schemas := []; h_servers := []; h_security := []; h_docs_url := None |}.

Definition extract_without_treeshake (fuel : nat) (sp : spec) : result hirspec :=
  do schemas <- fold_left (fun acc ns => do m <- acc; extract_schema fuel sp (fst ns) (snd ns) m)
                          (components sp) (Ok []);
  let h0 := {| h_ops := []; h_schemas := schemas; h_servers := []; h_security := []; h_docs_url := None |} in
  do h1 <- fold_left (fun acc io => do h <- acc; extract_operation fuel sp (fst io) (snd io) h)
                     (all_operations sp) (Ok h0);
  do sec <- extract_security sp;
  Ok {| h_ops := h_ops h1; h_schemas := h_schemas h1; h_servers := extract_servers sp;
        h_security := sec; h_docs_url := ext_docs sp |}.
