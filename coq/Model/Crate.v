(* Crate.v — the whole generated tree: which files `libninja gen` writes and what is in each.
   Source: codegen_rust/src/lib.rs generate_rust_library (ordered: model/mod.rs, one file per schema, one file per
   operation, request/mod.rs, lib.rs, serde.rs when needed, examples when enabled) and libninja/src/command/generate.rs
   (service name Pascal-cased). The result is the `plan` the directory-tree machine of Fs.v is parametric in. *)
From LN Require Export Model.Emit.
Local Open Scope nat_scope.

Definition model_path (fname : str) : str := lit "src/model/" ++ fname ++ lit ".rs".
Definition request_path (o : hop) : str := lit "src/request/" ++ op_file_name (o_name o) ++ lit ".rs".
Definition example_path (o : hop) : str := lit "examples/" ++ op_file_name (o_name o) ++ lit ".rs".

Definition model_entries (fuel : nat) (h : hirspec) (cfg : config) : result (list (str * src)) :=
  mapM (fun kr => do fname <- sanitize (fst kr);
                  do c <- model_file fuel h cfg (snd kr);
                  Ok (model_path fname, c)) (h_schemas h).

Definition request_entries (h : hirspec) (cfg : config) : result (list (str * src)) :=
  mapM (fun o => do c <- request_file h cfg o; Ok (request_path o, c)) (h_ops h).

Definition example_entries (fuel : nat) (h : hirspec) (cfg : config) : result (list (str * src)) :=
  if c_examples cfg then mapM (fun o => do c <- example_file fuel h cfg o; Ok (example_path o, c)) (h_ops h)
  else Ok [].

Definition serde_entries (h : hirspec) (tp : templates) : list (str * src) :=
  match serde_file h tp with Some c => [(lit "src/serde.rs", c)] | None => [] end.

Definition emit_crate (fuel : nat) (h : hirspec) (cfg : config) (tp : templates) : result (list (str * src)) :=
  do mm <- model_mod_file h;
  do ms <- model_entries fuel h cfg;
  do rs <- request_entries h cfg;
  do rm <- request_mod_file h;
  do lib <- lib_file h cfg true;
  do exs <- example_entries fuel h cfg;
  Ok ((lit "src/model/mod.rs", mm) :: ms ++ rs ++
      [(lit "src/request/mod.rs", rm); (lit "src/lib.rs", lib)] ++ serde_entries h tp ++ exs).

(* command/generate.rs: the name given on the command line is Pascal-cased before anything else sees it *)
Definition cli_config (cfg : config) : config :=
  {| c_name := pascal (c_name cfg); c_derives := c_derives cfg; c_examples := c_examples cfg |}.

Definition generate (fuel : nat) (sp : spec) (cfg : config) (tp : templates) : result (list (str * src)) :=
  do h <- extract_spec fuel sp;
  emit_crate fuel h (cli_config cfg) tp.
