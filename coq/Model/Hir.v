(* Hir.v — mir::Ty and the HIR records. Sources: mir/src/ty.rs, hir/src/lib.rs, hir/src/operation.rs. *)
From LN Require Export Model.Names.
Local Open Scope nat_scope.

Inductive iser := ISimple | IString | INullAsZero.
Inductive dser := DIso | DInteger.

Inductive ty :=
| TString | TInteger (s : iser) | TFloat | TBoolean
| TArray (t : ty) | THashMap (t : ty) | TModel (n : str) | TUnit
| TDate (s : dser) | TDateTime | TCurrency | TAny.

Fixpoint inner_model (t : ty) : option str :=
  match t with
  | TModel n => Some n
  | TArray t' | THashMap t' => inner_model t'
  | _ => None
  end.

Definition is_iterable (t : ty) : bool := match t with TArray _ => true | _ => false end.
Definition inner_iterable (t : ty) : option ty := match t with TArray t' => Some t' | _ => None end.

(* Ty::is_primitive (mir) — NOT the extractor's is_primitive *)
Definition ty_is_primitive (t : ty) : bool :=
  match t with
  | TArray _ | THashMap _ | TModel _ | TAny => false
  | _ => true
  end.

(* Ty::model panics on '(' *)
Definition ty_model (n : str) : result ty :=
  if contains_char "("%char n then Err EParen else Ok (TModel n).

Record hfield := { f_ty : ty; f_optional : bool; f_doc : option str; f_flatten : bool }.

Inductive record :=
| RStruct (name : str) (nullable : bool) (fields : list (str * hfield)) (docs : option str)
| RNewType (name : str) (fields : list hfield) (doc : option str)
| RAlias (name : str) (f : hfield)
| REnum (name : str) (variants : list (str * option str)) (doc : option str).

Definition record_name (r : record) : str :=
  match r with RStruct n _ _ _ | RNewType n _ _ | RAlias n _ | REnum n _ _ => n end.

Definition record_fields (r : record) : list hfield :=
  match r with
  | RStruct _ _ fs _ => map snd fs
  | RNewType _ fs _ => fs
  | RAlias _ f => [f]
  | REnum _ _ _ => []
  end.

Definition record_optional (r : record) : bool :=
  match r with RAlias _ f => f_optional f | _ => false end.

Inductive hloc := LPath | LBody | LQuery | LHeader | LCookie.

Record hparam := { p_name : str; p_ty : ty; p_loc : hloc; p_optional : bool; p_doc : option str }.

Record hop := { o_name : str; o_doc : option str; o_params : list hparam; o_ret : ty; o_path : str; o_method : str }.

Inductive authloc := AHeader (key : str) | ABasic | ABearer | AToken | AQuery (key : str) | ACookie (key : str).

Inductive authstrat :=
| AuthToken (name : str) (fields : list (str * authloc))
| AuthOAuth2 (auth exchange refresh : str) (scopes : list (str * str))
| AuthNone.

Record hirspec := {
  h_ops : list hop;
  h_schemas : list (str * record);     (* BTreeMap<String, Record>: sorted by key, unique keys *)
  h_servers : list (str * str);        (* BTreeMap<String, String> *)
  h_security : list authstrat;
  h_docs_url : option str
}.

(* ---- BTreeMap<String, V>: byte-lexicographic order on keys ---- *)
Fixpoint str_ltb (a b : str) : bool :=
  match a, b with
  | [], [] => false
  | [], _ :: _ => true
  | _ :: _, [] => false
  | x :: a', y :: b' => if N.ltb (code x) (code y) then true
                        else if N.ltb (code y) (code x) then false else str_ltb a' b'
  end.

Fixpoint bt_insert {V} (m : list (str * V)) (k : str) (v : V) : list (str * V) :=
  match m with
  | [] => [(k, v)]
  | (q, w) :: m' =>
      if str_eqb q k then (k, v) :: m'
      else if str_ltb k q then (k, v) :: (q, w) :: m'
      else (q, w) :: bt_insert m' k v
  end.

Definition bt_of_list {V} (l : list (str * V)) : list (str * V) :=
  fold_left (fun m kv => bt_insert m (fst kv) (snd kv)) l [].

(* HirSpec::insert_schema: panics when the first character is lower-case (char::is_lowercase; "" -> unwrap panic) *)
Definition insert_schema (m : list (str * record)) (r : record) : result (list (str * record)) :=
  match record_name r with
  | [] => Err EEmptyUnwrap
  | c :: _ => if is_lower c then Err ESchemaNotUpper else Ok (bt_insert m (record_name r) r)
  end.

(* hir/src/operation.rs *)
Definition crowded_args (o : hop) : bool :=
  Nat.ltb 3 (length (filter (fun p => negb (p_optional p)) (o_params o))).

(* hir/src/lib.rs: server_strategy *)
Inductive server_strategy := SSBaseUrl | SSSingle (url : str) | SSEnv.
Definition server_strategy_of (h : hirspec) : server_strategy :=
  match h_servers h with
  | [] => SSBaseUrl
  | [(_, u)] => SSSingle u
  | _ => SSEnv
  end.
Definition env_var_for_strategy (s : server_strategy) (svc : str) : option str :=
  match s with
  | SSBaseUrl => Some (screaming_snake svc ++ lit "_BASE_URL")
  | SSSingle _ => None
  | SSEnv => Some (screaming_snake svc ++ lit "_ENV")
  end.

(* Enum::iter_safe_variant_names: (identifier source, wire value); value "" panics on .next().unwrap() *)
Definition safe_variant_names (ename : str) (variants : list (str * option str)) : result (list (str * str)) :=
  mapM (fun va =>
    let '(value, alias) := va in
    let n := match alias with Some a => a | None => value end in
    match n with
    | [] => Err EEmptyEnum
    | c :: _ => Ok (if is_digit c then ename ++ n else n, value)
    end) variants.
