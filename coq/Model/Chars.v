(* Chars.v — byte strings and the std `str` / `char` methods libninja uses, restricted to ASCII.
   Executable Gallina only; lemmas live in Proofs/. *)
From Coq Require Export Ascii String NArith ZArith Bool.
From Coq Require Export List.
Export ListNotations.
Open Scope N_scope.

Definition str := list ascii.

(* string literal helper: [lit "abc"] *)
Definition lit (s : string) : str := list_ascii_of_string s.

Definition code (c : ascii) : N := N_of_ascii c.

Definition is_lower (c : ascii) : bool := (97 <=? code c) && (code c <=? 122).
Definition is_upper (c : ascii) : bool := (65 <=? code c) && (code c <=? 90).
Definition is_digit (c : ascii) : bool := (48 <=? code c) && (code c <=? 57).
Definition is_alpha (c : ascii) : bool := is_lower c || is_upper c.
Definition is_alnum (c : ascii) : bool := is_alpha c || is_digit c.

Definition to_lower (c : ascii) : ascii := if is_upper c then ascii_of_N (code c + 32) else c.
Definition to_upper (c : ascii) : ascii := if is_lower c then ascii_of_N (code c - 32) else c.

Definition lower_s (s : str) : str := map to_lower s.
Definition upper_s (s : str) : str := map to_upper s.

Definition ceqb (a b : ascii) : bool := Ascii.eqb a b.

Fixpoint str_eqb (a b : str) : bool :=
  match a, b with
  | [], [] => true
  | x :: a', y :: b' => ceqb x y && str_eqb a' b'
  | _, _ => false
  end.

Fixpoint mem_str (x : str) (l : list str) : bool :=
  match l with [] => false | y :: l' => str_eqb x y || mem_str x l' end.

Fixpoint starts_with (p s : str) : bool :=
  match p, s with
  | [], _ => true
  | x :: p', y :: s' => ceqb x y && starts_with p' s'
  | _ :: _, [] => false
  end.

Definition ends_with (p s : str) : bool := starts_with (rev p) (rev s).

(* first occurrence: [find_sub p s = Some i] iff p occurs at byte offset i and nowhere earlier *)
Fixpoint find_sub (p s : str) : option nat :=
  if starts_with p s then Some O else
  match s with
  | [] => None
  | _ :: s' => match find_sub p s' with Some i => Some (S i) | None => None end
  end.

Definition contains (p s : str) : bool := match find_sub p s with Some _ => true | None => false end.

Definition contains_char (c : ascii) (s : str) : bool := existsb (ceqb c) s.

(* str::split_once(pat) *)
Definition split_once (p s : str) : option (str * str) :=
  match find_sub p s with
  | Some i => Some (firstn i s, skipn (i + length p) s)
  | None => None
  end.

(* str::replace(char, &str) *)
Fixpoint replace_char (c : ascii) (r : str) (s : str) : str :=
  match s with [] => [] | x :: s' => (if ceqb x c then r else [x]) ++ replace_char c r s' end.

Fixpoint remove_chars (cs : list ascii) (s : str) : str :=
  match s with [] => [] | x :: s' => if existsb (ceqb x) cs then remove_chars cs s' else x :: remove_chars cs s' end.

Fixpoint join (sep : str) (l : list str) : str :=
  match l with
  | [] => []
  | [x] => x
  | x :: l' => x ++ sep ++ join sep l'
  end.

(* str::split(char) — always at least one piece *)
Fixpoint split_char_go (c : ascii) (s : str) : str * list str :=
  match s with
  | [] => ([], [])
  | x :: s' => let '(w, ws) := split_char_go c s' in
               if ceqb x c then ([], w :: ws) else (x :: w, ws)
  end.
Definition split_char (c : ascii) (s : str) : list str :=
  let '(w, ws) := split_char_go c s in w :: ws.

(* ASCII white space as seen by str::trim on ASCII input: space, \t, \n, \x0b, \x0c, \r *)
Definition is_ws (c : ascii) : bool :=
  let n := code c in (n =? 32) || ((9 <=? n) && (n <=? 13)).

Fixpoint trim_start (s : str) : str :=
  match s with [] => [] | c :: s' => if is_ws c then trim_start s' else s end.
Definition trim_end (s : str) : str := rev (trim_start (rev s)).
Definition trim (s : str) : str := trim_end (trim_start s).

Definition hd_opt {A} (l : list A) : option A := match l with [] => None | x :: _ => Some x end.

Fixpoint last_opt {A} (l : list A) : option A :=
  match l with [] => None | [x] => Some x | _ :: l' => last_opt l' end.

(* result type shared by the whole model: every panic site of the code is an [Err] *)
Inductive err :=
| EEmptyUnwrap      (* .chars().next().unwrap() on "" *)
| EParen | ENumeric | EDot | EEmptyIdent   (* assert_valid_ident *)
| EIdentNew         (* proc_macro2::Ident::new on a non-identifier *)
| EParse            (* format_code: emitted tokens do not parse *)
| ESchemaNotUpper   (* insert_schema *)
| ESlice            (* make_name slice out of range *)
| EModelNotFound    (* "Model not found" / "record not found" *)
| ENoSuccess        (* "No success response" *)
| ERefComponent | ERefScheme | ERefProperty | ESchemeNotFound
| ENoSchemaParam | EUnresolved
| EEmptyEnum
| EDiverge          (* fuel exhausted: the real code recurses without bound *)
| EOther.

Inductive result (A : Type) := Ok (a : A) | Err (e : err).
Arguments Ok {A} a.
Arguments Err {A} e.

Definition bind {A B} (r : result A) (f : A -> result B) : result B :=
  match r with Ok a => f a | Err e => Err e end.
Notation "'do' x <- r ; k" := (bind r (fun x => k)) (at level 200, x pattern, r at level 100, k at level 200).

Fixpoint mapM {A B} (f : A -> result B) (l : list A) : result (list B) :=
  match l with
  | [] => Ok []
  | x :: l' => do y <- f x; do ys <- mapM f l'; Ok (y :: ys)
  end.
