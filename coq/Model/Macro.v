(* Macro.v — the code-building macros of the `macro` crate as functions over token trees.
   Sources: macro/src/lib.rs (function!, rfunction!, body!), macro/src/body.rs (body_recurse, body_callable,
   pull_interpolation), macro/src/function.rs (parse_intro, parse_args, parse_type, parse_return),
   macro/src/rfunction.rs (parse_args2, parse_return2), mir_rust/src/function.rs (Function::to_rust_code).
   A macro input is a list of token trees as the compiler hands them over (punctuation one character at a time).
   The text built by body_recurse becomes a format string; it is modelled AFTER format!'s own unescaping, as a list
   of atoms: a character, or a hole `{i}` for the i-th captured variable. *)
From LN Require Export Model.Chars.
Local Open Scope nat_scope.

Inductive delim := DParen | DBrace | DBracket.
Inductive tok :=
| TIdent (s : str)
| TPunct (c : ascii)
| TLit (s : str)                      (* the literal's source text, quotes included *)
| TGroup (d : delim) (body : list tok).

Inductive atom := AChar (c : ascii) | AHole (i : nat).
Definition line := list atom.
Definition achars (s : str) : line := map AChar s.
Definition spaces (n : nat) : line := repeat (AChar " "%char) n.
Definition sp : line := [AChar " "%char].

Definition opening (d : delim) : str := match d with DParen => lit "(" | DBrace => lit "{" | DBracket => lit "[" end.
Definition closing (d : delim) : str := match d with DParen => lit ")" | DBrace => lit "}" | DBracket => lit "]" end.

(* `stream.to_string().contains(';')`: a semicolon token at any depth, or inside a literal's text *)
Fixpoint tok_has_semi (t : tok) : bool :=
  match t with
  | TIdent _ => false
  | TPunct c => ceqb c ";"%char
  | TLit s => contains_char ";"%char s
  | TGroup _ b => (fix hs (l : list tok) : bool := match l with [] => false | x :: r => tok_has_semi x || hs r end) b
  end.
Definition toks_have_semi (l : list tok) : bool := existsb tok_has_semi l.

Fixpoint tok_size (t : tok) : nat :=
  match t with
  | TGroup _ b => S ((fix sz (l : list tok) : nat := match l with [] => 0 | x :: r => tok_size x + sz r end) b)
  | _ => 1
  end.
Definition toks_size (l : list tok) : nat := fold_right (fun x acc => tok_size x + acc) 0 l.

(* lines are kept newest first: the head is `lines.last_mut().unwrap()` *)
Definition push_last (s : line) (ls : list line) : list line :=
  match ls with
  | cur :: done => (cur ++ s) :: done
  | [] => [s]
  end.
Definition atom_blank (a : atom) : bool := match a with AChar c => is_ws c | AHole _ => false end.
Definition line_blank (l : line) : bool := forallb atom_blank l.

(* interpolation_binding: index of the variable among the captured ones, appended if new *)
Fixpoint index_of (x : str) (l : list str) : option nat :=
  match l with
  | [] => None
  | y :: r => if str_eqb y x then Some 0 else match index_of x r with Some i => Some (S i) | None => None end
  end.
Definition bind_var (x : str) (cap : list str) : nat * list str :=
  match index_of x cap with
  | Some i => (i, cap)
  | None => (length cap, cap ++ [x])
  end.

Definition is_one_of (c : ascii) (l : list ascii) : bool := existsb (ceqb c) l.

(* the spacing decisions of body_recurse: is a blank written after this token, given the token that follows? *)
Definition maybe_space (b : bool) (ls : list line) : list line := if b then push_last sp ls else ls.

Definition space_after_interp (rest : list tok) : bool :=
  match rest with
  | TPunct c2 :: _ => is_one_of c2 ["#"; "="; ":"]%char
  | TIdent _ :: _ | TLit _ :: _ => true
  | _ => false
  end.
Definition space_after_punct (c : ascii) (rest : list tok) : bool :=
  match rest with
  | TPunct c2 :: _ => negb (is_one_of c2 [">"; "<"; "="; "*"]%char && negb (ceqb c "/"%char && ceqb c2 "*"%char))
  | TGroup _ _ :: _ => false
  | [] => false
  | _ => true
  end.
Definition space_after_ident (rest : list tok) : bool :=
  match rest with
  | TPunct c2 :: _ => negb (is_one_of c2 ["."; ";"; ","]%char)
  | TGroup DBrace b :: _ => toks_have_semi b
  | TGroup _ _ :: _ => false
  | [] => false
  | _ => true
  end.
Definition space_after_lit (rest : list tok) : bool :=
  match rest with
  | TIdent _ :: _ | TLit _ :: _ => true
  | TPunct c2 :: _ => ceqb c2 "#"%char
  | _ => false
  end.

(* closing a group that spans several lines: an all-blank last line is cut back to the outer indentation, a line that
   still holds a statement is kept and the delimiter goes on a line of its own *)
Definition close_group (multiline : bool) (indent : nat) (d : delim) (ls3 : list line) : list line :=
  let ls4 := if multiline
             then match ls3 with
                  | cur :: done => if line_blank cur then firstn indent cur :: done else spaces indent :: ls3
                  | [] => ls3
                  end
             else ls3 in
  let ls5 := push_last (achars (closing d)) ls4 in
  if multiline then spaces indent :: ls5 else ls5.

(* body_recurse; every token costs one unit of fuel (toks_size toks < fuel suffices) *)
Fixpoint body_rec (fuel : nat) (toks : list tok) (cap : list str) (ls : list line) (indent : nat)
  : result (list str * list line) :=
  match fuel with
  | O => Err EDiverge
  | S f =>
    match toks with
    | [] => Ok (cap, ls)
    | TPunct c :: rest =>
        if ceqb c "#"%char then
          match rest with
          | TIdent x :: rest' =>
              let '(i, cap') := bind_var x cap in
              body_rec f rest' cap' (maybe_space (space_after_interp rest') (push_last [AHole i] ls)) indent
          | _ => Err EOther                      (* "Expected ident after #" *)
          end
        else if ceqb c ";"%char then body_rec f rest cap (spaces indent :: ls) indent
        else if ceqb c "."%char || ceqb c "!"%char then body_rec f rest cap (push_last [AChar c] ls) indent
        else body_rec f rest cap (maybe_space (space_after_punct c rest) (push_last [AChar c] ls)) indent
    | TGroup d body :: rest =>
        let n := length ls in
        let ls1 := push_last (achars (opening d)) ls in
        let gi := indent + 4 in
        let ls2 := if toks_have_semi body then spaces gi :: ls1 else ls1 in
        do r <- body_rec f body cap ls2 gi;
        let '(cap', ls3) := r in
        body_rec f rest cap' (close_group (Nat.ltb n (length ls3)) indent d ls3) indent
    | TIdent s :: rest =>
        body_rec f rest cap (maybe_space (space_after_ident rest) (push_last (achars s) ls)) indent
    | TLit s :: rest =>
        body_rec f rest cap (maybe_space (space_after_lit rest) (push_last (achars s) ls)) indent
    end
  end.

Definition NLA : atom := AChar (ascii_of_nat 10).
Fixpoint join_lines (l : list line) : line :=
  match l with
  | [] => []
  | [x] => x
  | x :: r => x ++ NLA :: join_lines r
  end.

(* body_callable: (captured variables, the format template) *)
Definition body_template (fuel : nat) (toks : list tok) : result (list str * line) :=
  do r <- body_rec fuel toks [] [[]] 0;
  let '(cap, ls) := r in
  Ok (cap, join_lines (filter (fun l => match l with [] => false | _ => true end) (rev ls))).

(* what format!(template, captured..) produces, given the Display text of every variable in scope *)
Fixpoint assoc_str (l : list (str * str)) (k : str) : option str :=
  match l with [] => None | (q, v) :: r => if str_eqb q k then Some v else assoc_str r k end.

Fixpoint fill (vals : list (str * str)) (cap : list str) (tpl : line) : result str :=
  match tpl with
  | [] => Ok []
  | AChar c :: r => do s <- fill vals cap r; Ok (c :: s)
  | AHole i :: r =>
      match nth_error cap i with
      | Some x => match assoc_str vals x with
                  | Some v => do s <- fill vals cap r; Ok (v ++ s)
                  | None => Err EOther              (* unbound variable: does not compile *)
                  end
      | None => Err EOther
      end
  end.

(* `.lines().filter(|line| !line.trim().is_empty()).collect::<Vec<_>>().join("\n")` *)
Definition NL1 : str := [ascii_of_nat 10].
Definition str_blank (s : str) : bool := forallb is_ws s.
Definition drop_blank_lines (s : str) : str :=
  join NL1 (filter (fun l => negb (str_blank l)) (split_char (ascii_of_nat 10) s)).

Definition body_macro (fuel : nat) (toks : list tok) (vals : list (str * str)) : result str :=
  do r <- body_template fuel toks;
  let '(cap, tpl) := r in
  do s <- fill vals cap tpl;
  Ok (drop_blank_lines s).

(* ---------- function! : a header in a Python-like notation, a body rendered like body! ---------- *)
Inductive text_src := SText (s : str) | SVar (x : str).       (* written out, or `#x` (its Display text) *)

Record fn_arg := { fa_name : str; fa_ty : text_src; fa_default : option str }.
Record fn_model := { fm_name : text_src; fm_async : bool; fm_pub : bool; fm_args : list fn_arg; fm_ret : text_src;
                     fm_body : option (list tok) }.

(* parse_intro: any run of `async` / `pub`, then the name *)
Fixpoint parse_intro (toks : list tok) (is_async is_pub : bool) : result (text_src * bool * bool * list tok) :=
  match toks with
  | TIdent s :: rest =>
      if str_eqb s (lit "async") then parse_intro rest true is_pub
      else if str_eqb s (lit "pub") then parse_intro rest is_async true
      else Ok (SText s, is_async, is_pub, rest)
  | TPunct c :: TIdent x :: rest => if ceqb c "#"%char then Ok (SVar x, is_async, is_pub, rest) else Err EOther
  | _ => Err EOther
  end.

(* parse_type: ident (. ident)*; a following [..] group is rendered by the compiler's own printer — not modelled *)
Fixpoint parse_type_tail (fuel : nat) (acc : str) (toks : list tok) : result (str * list tok) :=
  match fuel with
  | O => Err EDiverge
  | S f =>
    match toks with
    | TPunct c :: rest =>
        if ceqb c "."%char then
          match rest with
          | TIdent s :: rest' => parse_type_tail f (acc ++ lit "." ++ s) rest'
          | _ => Err EOther
          end
        else Ok (acc, toks)
    | TGroup DBracket _ :: _ => Err EParse
    | _ => Ok (acc, toks)
    end
  end.

Definition parse_ty (toks : list tok) : result (text_src * list tok) :=
  match toks with
  | TIdent s :: rest => do r <- parse_type_tail (length rest + 1) s rest; let '(t, rest') := r in Ok (SText t, rest')
  | TPunct c :: TIdent x :: rest => if ceqb c "#"%char then Ok (SVar x, rest) else Err EOther
  | _ => Err EOther
  end.

Fixpoint parse_args (fuel : nat) (toks : list tok) : result (list fn_arg) :=
  match fuel with
  | O => Err EDiverge
  | S f =>
    match toks with
    | [] => Ok []
    | TIdent name :: TPunct c :: rest =>
        if ceqb c ":"%char then
          do r <- parse_ty rest;
          let '(ty, rest1) := r in
          do r2 <- match rest1 with
                   | TPunct c2 :: rest2 =>
                       if ceqb c2 "="%char then
                         match rest2 with
                         | TLit l :: rest3 => Ok (Some l, rest3)
                         | _ => Err EOther
                         end
                       else if ceqb c2 ","%char || ceqb c2 ")"%char then Ok (None, rest1)
                       else Err EOther
                   | [] => Ok (None, rest1)
                   | _ => Err EOther
                   end;
          let '(dflt, rest4) := r2 in
          let a := {| fa_name := name; fa_ty := ty; fa_default := dflt |} in
          match rest4 with
          | [] => Ok [a]
          | TPunct c3 :: rest5 => if ceqb c3 ","%char then do l <- parse_args f rest5; Ok (a :: l) else Err EOther
          | _ => Err EOther
          end
        else Err EOther
    | _ => Err EOther
    end
  end.

(* parse_return *)
Definition parse_return (toks : list tok) : result (text_src * list tok) :=
  match toks with
  | TPunct c1 :: TPunct c2 :: rest =>
      if ceqb c1 "-"%char && ceqb c2 ">"%char then parse_ty rest else Err EOther
  | TGroup DBrace _ :: _ => Ok (SText [], toks)
  | _ => Err EOther            (* including the end of input: `peek()` is None -> panic *)
  end.

Definition function_macro (toks : list tok) : result fn_model :=
  do r <- parse_intro toks false false;
  let '(name, is_async, is_pub, rest) := r in
  do r2 <- match rest with
           | TGroup DParen a :: rest' => do l <- parse_args (length a + 1) a; Ok (l, rest')
           | [] => Ok ([], [])
           | _ => Err EOther
           end;
  let '(args, rest2) := r2 in
  do r3 <- parse_return rest2;
  let '(ret, rest3) := r3 in
  do body <- match rest3 with
             | TGroup DBrace b :: _ => Ok (Some b)
             | [] => Ok None
             | _ => Err EOther
             end;
  Ok {| fm_name := name; fm_async := is_async; fm_pub := is_pub; fm_args := args; fm_ret := ret; fm_body := body |}.

Definition text_of (vals : list (str * str)) (s : text_src) : result str :=
  match s with
  | SText t => Ok t
  | SVar x => match assoc_str vals x with Some v => Ok v | None => Err EOther end
  end.

(* ---------- rfunction! : the same header with Rust types as token streams; rendered by to_rust_code ---------- *)
Record rfn_model := { rf_name : text_src; rf_async : bool; rf_pub : bool; rf_args : list (str * list tok);
                      rf_ret : list tok; rf_body : list tok }.

(* parse_args2: the type is ONE identifier, or `#` and an identifier *)
Fixpoint parse_args2 (fuel : nat) (toks : list tok) : result (list (str * list tok)) :=
  match fuel with
  | O => Err EDiverge
  | S f =>
    match toks with
    | [] => Ok []
    | TIdent name :: TPunct c :: rest =>
        if ceqb c ":"%char then
          do r <- match rest with
                  | TIdent t :: rest1 => Ok ([TIdent t], rest1)
                  | TPunct h :: t :: rest1 => if ceqb h "#"%char then Ok ([TPunct h; t], rest1) else Err EOther
                  | _ => Err EOther
                  end;
          let '(ty, rest1) := r in
          match rest1 with
          | [] => Ok [(name, ty)]
          | TPunct c3 :: rest2 => if ceqb c3 ","%char then do l <- parse_args2 f rest2; Ok ((name, ty) :: l) else Err EOther
          | _ => Err EOther
          end
        else Err EOther
    | _ => Err EOther
    end
  end.

(* parse_return2: after `->`, everything up to the body group *)
Fixpoint until_brace (toks : list tok) : list tok * list tok :=
  match toks with
  | [] => ([], [])
  | TGroup DBrace b :: rest => ([], toks)
  | t :: rest => let '(a, b) := until_brace rest in (t :: a, b)
  end.

Definition parse_return2 (toks : list tok) : result (list tok * list tok) :=
  match toks with
  | TPunct c1 :: rest =>
      if ceqb c1 "-"%char then
        match rest with
        | TPunct c2 :: rest' => if ceqb c2 ">"%char then Ok (until_brace rest') else Err EOther
        | _ => Err EOther
        end
      else Err EOther
  | TGroup DBrace _ :: _ => Ok ([], toks)
  | [] => Ok ([], [])
  | _ => Err EOther
  end.

Definition rfunction_macro (toks : list tok) : result rfn_model :=
  do r <- parse_intro toks false false;
  let '(name, is_async, is_pub, rest) := r in
  do r2 <- match rest with
           | TGroup DParen a :: rest' => do l <- parse_args2 (length a + 1) a; Ok (l, rest')
           | [] => Ok ([], [])
           | _ => Err EOther
           end;
  let '(args, rest2) := r2 in
  do r3 <- parse_return2 rest2;
  let '(ret, rest3) := r3 in
  do body <- match rest3 with
             | TGroup DBrace b :: _ => Ok b
             | [] => Ok []
             | _ => Err EOther
             end;
  Ok {| rf_name := name; rf_async := is_async; rf_pub := is_pub; rf_args := args; rf_ret := ret; rf_body := body |}.

(* quote!'s comma-separated repetition of the arguments *)
Fixpoint sep_toks (sep : tok) (l : list (list tok)) : list tok :=
  match l with
  | [] => []
  | [x] => x
  | x :: r => x ++ sep :: sep_toks sep r
  end.

(* Function<TokenStream>::to_rust_code: vis, async, fn, name, (comma-separated args), -> ret when non-empty, { body } *)
Definition render_rfn (vals : list (str * str)) (m : rfn_model) : result (list tok) :=
  do name <- text_of vals (rf_name m);
  Ok ((if rf_pub m then [TIdent (lit "pub")] else []) ++
      (if rf_async m then [TIdent (lit "async")] else []) ++
      [TIdent (lit "fn"); TIdent name;
       TGroup DParen (sep_toks (TPunct ","%char) (map (fun a => TIdent (fst a) :: TPunct ":"%char :: snd a) (rf_args m)))] ++
      (match rf_ret m with [] => [] | r => TPunct "-"%char :: TPunct ">"%char :: r end) ++
      [TGroup DBrace (rf_body m)]).
