(* Fs.v — the directory-tree state machine of `generate_rust_library`.
   Sources: codegen_rust/src/lib.rs (generate_rust_library, write_lib_rs, write_rust, write_with_content,
   remove_old_files), hir/src/lib.rs (write_file: create/truncate then write_all).
   A tree maps relative '/'-joined paths to file contents (UTF-8 text files; directories are implicit).
   The generated code per path is a PARAMETER (a plan), so every theorem holds for every code generator. *)
From LN Require Export Model.Chars Model.Utf8.

Definition path := str.
Definition bytes := str.
Definition tree := list (path * bytes).

Fixpoint lookup (t : tree) (p : path) : option bytes :=
  match t with
  | [] => None
  | (q, c) :: t' => if str_eqb q p then Some c else lookup t' p
  end.

(* create/truncate + write_all: replace in place, or append a new entry *)
Fixpoint update (t : tree) (p : path) (c : bytes) : tree :=
  match t with
  | [] => [(p, c)]
  | (q, d) :: t' => if str_eqb q p then (q, c) :: t' else (q, d) :: update t' p c
  end.

Definition MARK_STATIC : str := lit "libninja: static".
Definition MARK_AFTER : str := lit "libninja: after".
Definition DHC : str := lit "default_http_client".

Definition has_static (c : bytes) : bool := contains MARK_STATIC c.
Definition has_after (c : bytes) : bool := contains MARK_AFTER c.

(* the bytes up to and including the first `libninja: after` *)
Definition prefix_incl (c : bytes) : bytes :=
  match find_sub MARK_AFTER c with
  | Some i => firstn (i + length MARK_AFTER) c
  | None => c
  end.
Definition prefix_excl (c : bytes) : bytes :=
  match find_sub MARK_AFTER c with
  | Some i => firstn i c
  | None => c
  end.

(* write_with_content: the new content of a file, as a function of its old content and the fresh code;
   None = the file is not written at all *)
Definition wwc (content code : bytes) : option bytes :=
  if has_static content then None
  else if has_after content then Some (prefix_incl content ++ lit (String "010" EmptyString) ++ code)
  else Some code.

(* One planned write: path, fresh code, and (for lib.rs only) the variant of the code without the generated
   `default_http_client`, used when the hand-written prefix mentions it (write_lib_rs). *)
Record wr := { w_path : path; w_code : bytes; w_alt : option bytes }.

(* read_to_string(..).unwrap_or_default(): a missing file and a file that is not valid UTF-8 both read as "" *)
Definition read (t : tree) (p : path) : bytes :=
  match lookup t p with Some c => decode c | None => [] end.

Definition pick_code (w : wr) (content : bytes) : bytes :=
  match w_alt w with
  | Some alt =>
      if has_after content && contains DHC (prefix_excl content) then alt else w_code w
  | None => w_code w
  end.

Definition write1 (t : tree) (w : wr) : tree :=
  let content := read t (w_path w) in
  match wwc content (pick_code w content) with
  | Some c => update t (w_path w) c
  | None => t
  end.

Definition write_all (plan : list wr) (t : tree) : tree := fold_left write1 plan t.

(* remove_old_files *)
Definition file_name_of (p : path) : str :=
  match last_opt (split_char "/"%char p) with Some f => f | None => [] end.
Definition is_rs (p : path) : bool :=
  let f := file_name_of p in
  ends_with (lit ".rs") f && negb (str_eqb f (lit ".rs")).
Definition in_scope (p : path) : bool :=
  (starts_with (lit "src/") p || starts_with (lit "examples/") p) && is_rs p.

Definition planned (plan : list wr) (p : path) : bool := existsb (fun w => str_eqb (w_path w) p) plan.

Definition doomed (plan : list wr) (pc : path * bytes) : bool :=
  in_scope (fst pc) && negb (planned plan (fst pc)) && negb (has_static (decode (snd pc))).

Definition cleanup (plan : list wr) (t : tree) : tree :=
  filter (fun pc => negb (doomed plan pc)) t.

Definition gen (plan : list wr) (t : tree) : tree := cleanup plan (write_all plan t).

(* ---- interrupted runs ---- *)
(* the first k writes completed; the (k+1)-th file, if it is written at all, holds only the first b bytes
   of its new content (create/truncate happened, write_all was cut) *)
Definition write1_cut (b : nat) (t : tree) (w : wr) : tree :=
  let content := read t (w_path w) in
  match wwc content (pick_code w content) with
  | Some c => update t (w_path w) (firstn b c)
  | None => t
  end.

Definition crash (plan : list wr) (k b : nat) (t : tree) : tree :=
  let done := write_all (firstn k plan) t in
  match nth_error plan k with
  | Some w => write1_cut b done w
  | None => done
  end.

(* interrupted during cleanup: only the doomed files selected by [sel] were removed *)
Definition crash_cleanup (plan : list wr) (sel : path -> bool) (t : tree) : tree :=
  filter (fun pc => negb (doomed plan pc && sel (fst pc))) (write_all plan t).

(* relocation of a whole tree under another root directory (C09) *)
Definition relocate (d : str) (t : tree) : tree := map (fun pc => (d ++ fst pc, snd pc)) t.
